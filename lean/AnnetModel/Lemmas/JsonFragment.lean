/-
C13 helper lemmas, part C: `_resolve_json_pointers` against its recursive reading,
and the invariants of one iteration of `apply_json_fragment`'s loop.
-/
import AnnetModel.Lemmas.JsonPointer
import AnnetModel.Lemmas.JsonTree

namespace Annet.Json.Lemmas
open Annet.Json

/-! ### `_resolve_json_pointers` -/

/-- depth-first reading of the level-by-level loop of `_resolve_json_pointers` -/
def resolveRec : List String → J → List Ptr
  | [], _ => [[]]
  | g :: gs, d =>
    ((childrenOf d).filter (fun kv => fnmatch kv.1 g)).flatMap fun kv => (resolveRec gs kv.2).map (kv.1 :: ·)

theorem resolveFrom_eq (parts : List String) (m : List (Ptr × J)) :
    (resolveFrom parts m).map (·.1) = m.flatMap (fun x => (resolveRec parts x.2).map (x.1 ++ ·)) := by
  induction parts generalizing m with
  | nil =>
    simp only [resolveFrom, List.foldl_nil, resolveRec, List.map_cons, List.append_nil, List.map_nil]
    induction m with
    | nil => rfl
    | cons x xs ih => simp [List.flatMap_cons, ih]
  | cons g gs ih =>
    simp only [resolveFrom, List.foldl_cons]
    have := ih (levelStep g m)
    simp only [resolveFrom] at this
    rw [this]
    simp only [levelStep, resolveRec, List.flatMap_assoc, List.flatMap_map, List.map_flatMap, List.map_map]
    congr 1
    funext x
    congr 1
    funext kv
    apply List.map_congr_left
    intro q _
    simp

theorem resolveParts_eq (parts : List String) (d : J) : resolveParts parts d = resolveRec parts d := by
  simp [resolveParts, resolveFrom_eq]

theorem length_of_mem_resolveRec (p : List String) (d : J) (q : Ptr) (h : q ∈ resolveRec p d) :
    q.length = p.length := by
  induction p generalizing d q with
  | nil => simp [resolveRec] at h; simp [h]
  | cons g gs ih =>
    simp only [resolveRec, List.mem_flatMap, List.mem_map] at h
    obtain ⟨kv, _, q', hq', rfl⟩ := h
    simp [ih kv.2 q' hq']

theorem mapM_ok_of_forall {α : Type} (f : α → Except Err α) (l : List α) (h : ∀ x ∈ l, f x = .ok x) :
    l.mapM f = .ok l := by
  induction l with
  | nil => rfl
  | cons x xs ih =>
    rw [List.mapM_cons, h x (by simp), ih (fun y hy => h y (by simp [hy]))]
    rfl

/-- after commit 18103e9 the pointers returned are exactly the matched part lists -/
theorem resolve_eq (pat : String) (p : List String) (d : J) (hp : parsePointer pat = .ok p) (hne : p ≠ []) :
    resolve pat d = .ok (resolveRec p d) := by
  simp only [resolve, hp, resolveParts_eq]
  show (resolveRec p d).mapM rebuild = _
  apply mapM_ok_of_forall
  intro q hq
  apply rebuild_eq
  intro e
  have := length_of_mem_resolveRec p d q hq
  rw [e] at this
  cases p with
  | nil => exact hne rfl
  | cons _ _ => simp at this

/-! ### matching relations -/

theorem matchPtr_length : ∀ (p : List String) (q : Ptr), matchPtr p q = true → q.length = p.length
  | [], [], _ => rfl
  | [], _ :: _, h => by simp [matchPtr] at h
  | _ :: _, [], h => by simp [matchPtr] at h
  | g :: gs, k :: ks, h => by
    simp only [matchPtr, Bool.and_eq_true] at h
    simp [matchPtr_length gs ks h.2]

theorem prefMatch_of_matchPtr : ∀ (p : List String) (a c : Ptr), matchPtr p (a ++ c) = true → prefMatch p a = true
  | _, [], _, _ => by simp [prefMatch]
  | [], _ :: _, _, h => by simp [matchPtr] at h
  | g :: gs, k :: ks, c, h => by
    simp only [List.cons_append, matchPtr, Bool.and_eq_true] at h
    simp [prefMatch, h.1, prefMatch_of_matchPtr gs ks c h.2]

theorem Div_of_outside : ∀ (p : List String) (q q' : Ptr), matchPtr p q = true → outsideOf p q' = true → Div q q'
  | [], _, _, _, h => by simp [outsideOf, covers] at h
  | _ :: _, [], _, h, _ => by simp [matchPtr] at h
  | _ :: _, _ :: _, [], _, h => by simp [outsideOf, prefMatch] at h
  | g :: gs, k :: ks, b :: bs, hm, ho => by
    simp only [matchPtr, Bool.and_eq_true] at hm
    by_cases hkb : k = b
    · subst hkb
      refine Or.inr (Div_of_outside gs ks bs hm.2 ?_)
      simp only [outsideOf, prefMatch, covers, hm.1, Bool.true_and] at ho ⊢
      exact ho
    · exact Or.inl hkb

theorem covers_split : ∀ (p : List String) (q : Ptr), covers p q = true →
    ∃ a c, q = a ++ c ∧ matchPtr p a = true
  | [], q, _ => ⟨[], q, rfl, rfl⟩
  | _ :: _, [], h => by simp [covers] at h
  | g :: gs, k :: ks, h => by
    simp only [covers, Bool.and_eq_true] at h
    obtain ⟨a, c, rfl, hm⟩ := covers_split gs ks h.2
    exact ⟨k :: a, c, rfl, by simp [matchPtr, h.1, hm]⟩

theorem covers_of_matchPtr_append : ∀ (p : List String) (q c : Ptr), matchPtr p q = true → covers p (q ++ c) = true
  | [], [], _, _ => by simp [covers]
  | [], _ :: _, _, h => by simp [matchPtr] at h
  | _ :: _, [], _, h => by simp [matchPtr] at h
  | g :: gs, k :: ks, c, h => by
    simp only [matchPtr, Bool.and_eq_true] at h
    simp [covers, h.1, covers_of_matchPtr_append gs ks c h.2]

theorem not_covers_of_length_lt : ∀ (p : List String) (a : Ptr), a.length < p.length → covers p a = false
  | [], _, h => by simp at h
  | _ :: _, [], _ => by simp [covers]
  | g :: gs, k :: ks, h => by
    simp only [covers]
    rw [not_covers_of_length_lt gs ks (by simpa using h)]
    simp

theorem mem_childrenOf_arr (xs : List J) (k : String) (c : J) :
    (k, c) ∈ childrenOf (.arr xs) ↔ ∃ i, parseIndex k = some i ∧ xs[i]? = some c := by
  simp only [childrenOf, List.mem_map]
  constructor
  · rintro ⟨⟨v, i⟩, hmem, heq⟩
    simp only [Prod.mk.injEq] at heq
    obtain ⟨rfl, rfl⟩ := heq
    exact ⟨i, parseIndex_idxKey i, List.mem_zipIdx_iff_getElem?.1 hmem⟩
  · rintro ⟨i, hp, hx⟩
    refine ⟨(c, i), List.mem_zipIdx_iff_getElem?.2 hx, ?_⟩
    simp only [Prod.mk.injEq, and_true]
    exact (idxKey_of_parseIndex k i hp).symm

/-- Since commit 33969c0 the resolver returns exactly the selected pointers the document has —
for EVERY document with unique keys: objects by key, arrays by canonical index, and nothing
below a string or any other scalar. -/
theorem mem_resolveRec (p : List String) (d : J) (q : Ptr) (hw : d.wf = true) :
    q ∈ resolveRec p d ↔ (matchPtr p q = true ∧ getP q d ≠ none) := by
  induction p generalizing d q with
  | nil =>
    cases q with
    | nil => simp [resolveRec, matchPtr, getP]
    | cons k ks => simp [resolveRec, matchPtr]
  | cons g gs ih =>
    have hscalar : ∀ d' : J, childrenOf d' = [] → (∀ k ks, getP (k :: ks) d' = none) →
        (q ∈ resolveRec (g :: gs) d' ↔ (matchPtr (g :: gs) q = true ∧ getP q d' ≠ none)) := by
      intro d' hc hg
      simp only [resolveRec, hc, List.filter_nil, List.flatMap_nil, List.not_mem_nil, false_iff, not_and]
      intro hm
      cases q with
      | nil => simp [matchPtr] at hm
      | cons k ks => simp [hg k ks]
    cases d with
    | null => exact hscalar _ rfl (fun _ _ => by simp [getP])
    | bool b => exact hscalar _ rfl (fun _ _ => by simp [getP])
    | num n => exact hscalar _ rfl (fun _ _ => by simp [getP])
    | str s => exact hscalar _ rfl (fun _ _ => by simp [getP])
    | obj kvs =>
      have hk : J.wfKvs kvs = true := by simpa [J.wf] using hw
      simp only [resolveRec, childrenOf, List.mem_flatMap, List.mem_filter, List.mem_map]
      constructor
      · rintro ⟨kv, ⟨hmem, hm⟩, q', hq', rfl⟩
        obtain ⟨k, c⟩ := kv
        have hl := lookup_of_mem k c kvs hk hmem
        have := (ih c q' (wf_of_lookup k kvs c hk hl)).1 hq'
        simp only [matchPtr, hm, this.1, Bool.and_self, getP, hl, true_and]
        exact this.2
      · rintro ⟨hm, hg⟩
        cases q with
        | nil => simp [matchPtr] at hm
        | cons k q' =>
          simp only [matchPtr, Bool.and_eq_true] at hm
          simp only [getP] at hg
          cases hl : lookup k kvs with
          | none => simp [hl] at hg
          | some c =>
            simp only [hl] at hg
            refine ⟨(k, c), ⟨mem_of_lookup k c kvs hl, hm.1⟩, q', ?_, rfl⟩
            exact (ih c q' (wf_of_lookup k kvs c hk hl)).2 ⟨hm.2, hg⟩
    | arr xs =>
      have hx : J.wfList xs = true := by simpa [J.wf] using hw
      simp only [resolveRec, List.mem_flatMap, List.mem_filter, List.mem_map]
      constructor
      · rintro ⟨kv, ⟨hmem, hm⟩, q', hq', rfl⟩
        obtain ⟨k, c⟩ := kv
        obtain ⟨i, hp, hxi⟩ := (mem_childrenOf_arr xs k c).1 hmem
        have := (ih c q' (wfList_getElem xs i c hx hxi)).1 hq'
        simp only [matchPtr, hm, this.1, Bool.and_self, getP, hp, hxi, true_and]
        exact this.2
      · rintro ⟨hm, hg⟩
        cases q with
        | nil => simp [matchPtr] at hm
        | cons k q' =>
          simp only [matchPtr, Bool.and_eq_true] at hm
          simp only [getP] at hg
          cases hp : parseIndex k with
          | none => simp [hp] at hg
          | some i =>
            simp only [hp] at hg
            cases hxi : xs[i]? with
            | none => simp [hxi] at hg
            | some c =>
              simp only [hxi] at hg
              refine ⟨(k, c), ⟨(mem_childrenOf_arr xs k c).2 ⟨i, hp, hxi⟩, hm.1⟩, q', ?_, rfl⟩
              exact (ih c q' (wfList_getElem xs i c hx hxi)).2 ⟨hm.2, hg⟩

/-- the executable test `spineOk` is sound for the one-schema hypothesis -/
theorem spineOk_sound (p : List String) (d : J) (h : spineOk p d = true) :
    ∀ a : Ptr, a.length < p.length → prefMatch p a = true → ∀ v, getP a d = some v → v.isObj = true := by
  induction p generalizing d with
  | nil => intro a hla; simp at hla
  | cons g gs ih =>
    cases d with
    | null => simp [spineOk] at h
    | bool b => simp [spineOk] at h
    | num n => simp [spineOk] at h
    | str s => simp [spineOk] at h
    | arr xs => simp [spineOk] at h
    | obj kvs =>
      simp only [spineOk] at h
      intro a hla hpa v hv
      cases a with
      | nil => simp only [getP, Option.some.injEq] at hv; subst hv; rfl
      | cons k a' =>
        simp only [prefMatch, Bool.and_eq_true] at hpa
        simp only [getP] at hv
        cases hl : lookup k kvs with
        | none => simp [hl] at hv
        | some c =>
          simp only [hl] at hv
          have hmem := mem_of_lookup k c kvs hl
          have := List.all_eq_true.1 h (k, c) hmem
          simp only [hpa.1, Bool.not_true, Bool.false_or] at this
          exact ih c this a' (by simpa using hla) hpa.2 v hv

theorem spineObj_of_check (ps : List (List String)) (d : J) (h : ps.all (fun p => spineOk p d) = true) :
    SpineObj ps d := by
  intro p hp a hla hpa v hv
  exact spineOk_sound p d (List.all_eq_true.1 h p hp) a hla hpa v hv

/-- the executable test `noArrOk` is sound for `SpineNoArr` -/
theorem noArrOk_sound (p : List String) (d : J) (h : noArrOk p d = true) :
    ∀ a : Ptr, a.length < p.length → prefMatch p a = true → ∀ v, getP a d = some v → v.isArr = false := by
  induction p generalizing d with
  | nil => intro a hla; simp at hla
  | cons g gs ih =>
    intro a hla hpa v hv
    cases a with
    | nil =>
      simp only [getP, Option.some.injEq] at hv
      subst hv
      cases d <;> simp [noArrOk] at h <;> rfl
    | cons k a' =>
      cases d with
      | null => simp [getP] at hv
      | bool b => simp [getP] at hv
      | num n => simp [getP] at hv
      | str s => simp [getP] at hv
      | arr xs => simp [noArrOk] at h
      | obj kvs =>
        simp only [noArrOk] at h
        simp only [prefMatch, Bool.and_eq_true] at hpa
        simp only [getP] at hv
        cases hl : lookup k kvs with
        | none => simp [hl] at hv
        | some c =>
          simp only [hl] at hv
          have := List.all_eq_true.1 h (k, c) (mem_of_lookup k c kvs hl)
          simp only [hpa.1, Bool.not_true, Bool.false_or] at this
          exact ih c this a' (by simpa using hla) hpa.2 v hv

theorem spineNoArr_of_check (ps : List (List String)) (d : J) (h : ps.all (fun p => noArrOk p d) = true) :
    SpineNoArr ps d := by
  intro p hp a hla hpa v hv
  exact noArrOk_sound p d (List.all_eq_true.1 h p hp) a hla hpa v hv

theorem spineNoArr_of_spineObj (ps : List (List String)) (d : J) (h : SpineObj ps d) : SpineNoArr ps d := by
  intro p hp a hla hpa v hv
  have := h p hp a hla hpa v hv
  cases v <;> simp [J.isObj] at this
  rfl

/-- a value with something below it is an object unless it is an array -/
theorem isObj_of_getP_below (c : Ptr) (w : J) (hc : c ≠ []) (h : getP c w ≠ none) (hna : w.isArr = false) :
    w.isObj = true := by
  cases c with
  | nil => exact absurd rfl hc
  | cons k rest => cases w <;> simp [getP, J.isArr] at h hna <;> rfl

/-- The invariant of the merge loop: what the document under construction has above a
selectable pointer is an object, or it is what the fragment has at that place (copied
from the fragment by an earlier, shorter pattern). -/
def SpineRel (ps : List (List String)) (f r : J) : Prop :=
  ∀ p ∈ ps, ∀ a : Ptr, a.length < p.length → prefMatch p a = true → ∀ v, getP a r = some v →
    v.isObj = true ∨ getP a f = some v

theorem spineRel_of_spineObj (ps : List (List String)) (f r : J) (h : SpineObj ps r) : SpineRel ps f r :=
  fun p hp a hla hpa v hv => Or.inl (h p hp a hla hpa v hv)

theorem spineObj_of_spineRel (ps : List (List String)) (f r : J) (h : SpineRel ps f r) (hf : SpineObj ps f) :
    SpineObj ps r := by
  intro p hp a hla hpa v hv
  rcases h p hp a hla hpa v hv with h1 | h1
  · exact h1
  · exact hf p hp a hla hpa v h1

/-- under the invariant, a proper ancestor `a` of a pointer `a ++ c` selected by `p` that has
something below it along `c` — in the fragment, if it is the fragment's — is an object -/
theorem spineRel_obj (ps : List (List String)) (f r : J) (hsf : SpineNoArr ps f) (hsr : SpineRel ps f r)
    (p : List String) (hp : p ∈ ps) (a c : Ptr) (hc : c ≠ []) (hm : matchPtr p (a ++ c) = true)
    (w : J) (hw : getP a r = some w) (hbelow : w.isObj = true ∨ getP c w ≠ none) : w.isObj = true := by
  have hla : a.length < p.length := by
    rw [← matchPtr_length p (a ++ c) hm]
    cases c with
    | nil => exact absurd rfl hc
    | cons _ _ => simp
  have hpa := prefMatch_of_matchPtr p a c hm
  rcases hsr p hp a hla hpa w hw with h1 | h1
  · exact h1
  · rcases hbelow with h2 | h2
    · exact h2
    · exact isObj_of_getP_below c w hc h2 (hsf p hp a hla hpa w h1)

/-! ### one `pointer.set` and one `pop` inside `apply_json_fragment` -/

theorem admits_of (q : Ptr) (d : J)
    (h : ∀ a c, q = a ++ c → c ≠ [] → ∀ w, getP a d = some w → w.isObj = true) : Admits q d := by
  induction q generalizing d with
  | nil => trivial
  | cons k rest ih =>
    have hobj := h [] (k :: rest) rfl (by simp) d (by simp [getP])
    cases d <;> simp [J.isObj] at hobj
    rename_i kvs
    cases rest with
    | nil => simp [Admits, J.isObj]
    | cons k2 r =>
      simp only [Admits]
      cases hl : lookup k kvs with
      | none => trivial
      | some c =>
        apply ih
        intro a c' hq hc' w hw
        apply h (k :: a) c' (by simp [hq]) hc' w
        simp [getP, hl, hw]

theorem popOk_of (q : Ptr) (d : J) (h : ∀ a c, q = a ++ c → c ≠ [] → ObjAt a d) : PopOk q d := by
  induction q generalizing d with
  | nil => trivial
  | cons k rest ih =>
    obtain ⟨kvs, hroot⟩ := h [] (k :: rest) rfl (by simp)
    simp only [getP, Option.some.injEq] at hroot
    subst hroot
    cases rest with
    | nil => simp [PopOk, J.isObj]
    | cons k2 r =>
      obtain ⟨kvs', h1⟩ := h [k] (k2 :: r) rfl (by simp)
      simp only [getP] at h1
      cases hl : lookup k kvs with
      | none => simp [hl] at h1
      | some c =>
        simp only [PopOk, hl]
        apply ih
        intro a c' hq hc'
        obtain ⟨kvs2, h2⟩ := h (k :: a) c' (by simp [hq]) hc'
        exact ⟨kvs2, by simpa [getP, hl] using h2⟩

section step
variable (ps : List (List String)) (f : J) (hwf : f.wf = true) (hsf : SpineNoArr ps f)
variable (p : List String) (hp : p ∈ ps) (hpne : p ≠ [])
include hwf hsf hp hpne

omit hwf hpne in
theorem admits_of_rel (q : Ptr) (r : J) (hm : matchPtr p q = true) (hgf : getP q f ≠ none)
    (hsr : SpineRel ps f r) : Admits q r := by
  apply admits_of
  intro a c hqe hc w hw
  subst hqe
  rcases hsr p hp a (by
      rw [← matchPtr_length p (a ++ c) hm]
      cases c with
      | nil => exact absurd rfl hc
      | cons _ _ => simp) (prefMatch_of_matchPtr p a c hm) w hw with h1 | h1
  · exact h1
  · refine spineRel_obj ps f r hsf hsr p hp a c hc hm w hw (Or.inr ?_)
    intro hn
    rw [getP_append, h1] at hgf
    exact hgf hn

theorem set_step (q : Ptr) (v r : J) (hm : matchPtr p q = true) (hv : getP q f = some v)
    (hwr : r.wf = true) (hsr : SpineRel ps f r) :
    ∃ r', setStep f r q = .ok r' ∧ r'.wf = true ∧ SpineRel ps f r' ∧ getP q r' = some v ∧
      (∀ q', Div q q' → getP q' r' = getP q' r) ∧
      (∀ q', getP q' r = getP q' f → getP q' r' = getP q' f) ∧
      (∀ a : Ptr, covers p a = false → ObjAt a r → ObjAt a r') := by
  have hlen := matchPtr_length p q hm
  have hq : q ≠ [] := by
    intro e; subst e
    cases p with
    | nil => exact hpne rfl
    | cons _ _ => simp at hlen
  have hadm : Admits q r := admits_of_rel ps f hsf p hp q r hm (by simp [hv]) hsr
  refine ⟨setO q v r, ?_, wf_setO q v r hadm hwr (wf_of_getP q f v hwf hv), ?_,
    getP_setO_self q v r hadm, fun q' hd => getP_setO_div q q' v r hadm hd, ?_, ?_⟩
  · simp only [setStep, getPtr_of_getP q f v hv]
    exact setPtr_ensure q v r hadm hq
  · intro p' hp' a hla hpa w hw
    rcases trichotomy q a with hd | ⟨c, rfl⟩ | ⟨c, hc, hqe⟩
    · rw [getP_setO_div q a v r hadm hd] at hw
      exact hsr p' hp' a hla hpa w hw
    · rw [getP_append, getP_setO_self q v r hadm] at hw
      right
      rw [getP_append, hv]
      exact hw
    · obtain ⟨kvs, hk⟩ := getP_setO_prefix q v r hadm a c hqe hc
      rw [hk] at hw
      cases hw
      exact Or.inl rfl
  · intro q' hq'
    rcases trichotomy q q' with hd | ⟨c, rfl⟩ | ⟨c, hc, hqe⟩
    · rw [getP_setO_div q q' v r hadm hd]; exact hq'
    · rw [getP_append, getP_setO_self q v r hadm, getP_append, hv]
    · have h1 : getP q r = some v := by
        rw [hqe, getP_append, hq', ← getP_append, ← hqe]; exact hv
      rw [setO_noop q v r hadm hq h1]; exact hq'
  · intro a hla hoa
    rcases trichotomy q a with hd | ⟨c, rfl⟩ | ⟨c, hc, hqe⟩
    · obtain ⟨kvs, hk⟩ := hoa
      exact ⟨kvs, by rw [getP_setO_div q a v r hadm hd]; exact hk⟩
    · rw [covers_of_matchPtr_append p q c hm] at hla
      cases hla
    · exact getP_setO_prefix q v r hadm a c hqe hc

omit hwf hsf in
theorem pop_step (q : Ptr) (r : J) (hm : matchPtr p q = true) (hv : getP q f = none)
    (hwr : r.wf = true) (hsr : SpineRel ps f r) (hok : ∀ a c, q = a ++ c → c ≠ [] → ObjAt a r) :
    ∃ r', popPtr q r = .ok r' ∧ r'.wf = true ∧ SpineRel ps f r' ∧ getP q r' = none ∧
      (∀ q', Div q q' → getP q' r' = getP q' r) ∧
      (∀ q', getP q' r = getP q' f → getP q' r' = getP q' f) ∧
      (∀ a : Ptr, covers p a = false → ObjAt a r → ObjAt a r') := by
  have hlen := matchPtr_length p q hm
  have hq : q ≠ [] := by
    intro e; subst e
    cases p with
    | nil => exact hpne rfl
    | cons _ _ => simp at hlen
  have hpok : PopOk q r := popOk_of q r hok
  refine ⟨popO q r, popPtr_eq q r hpok, wf_popO q r hpok hwr, ?_, getP_popO_self q r hpok hq hwr,
    fun q' hd => getP_popO_div q q' r hpok hd, ?_, ?_⟩
  · intro p' hp' a hla hpa w hw
    rcases trichotomy q a with hd | ⟨c, rfl⟩ | ⟨c, hc, hqe⟩
    · rw [getP_popO_div q a r hpok hd] at hw
      exact hsr p' hp' a hla hpa w hw
    · rw [getP_append, getP_popO_self q r hpok hq hwr] at hw
      cases hw
    · obtain ⟨kvs, hk⟩ := getP_popO_prefix q r hpok a c hqe hc
      rw [hk] at hw
      cases hw
      exact Or.inl rfl
  · intro q' hq'
    rcases trichotomy q q' with hd | ⟨c, rfl⟩ | ⟨c, hc, hqe⟩
    · rw [getP_popO_div q q' r hpok hd]; exact hq'
    · rw [getP_append, getP_popO_self q r hpok hq hwr, getP_append, hv]
    · have h1 : getP q r = none := by
        rw [hqe, getP_append, hq', ← getP_append, ← hqe]; exact hv
      rw [popO_noop q r hpok h1]; exact hq'
  · intro a hla hoa
    rcases trichotomy q a with hd | ⟨c, rfl⟩ | ⟨c, hc, hqe⟩
    · obtain ⟨kvs, hk⟩ := hoa
      exact ⟨kvs, by rw [getP_popO_div q a r hpok hd]; exact hk⟩
    · rw [covers_of_matchPtr_append p q c hm] at hla
      cases hla
    · exact getP_popO_prefix q r hpok a c hqe hc

/-- lines 31-34 of jsontools.py: the loop over `new_pointers` -/
theorem set_phase (L : List Ptr) (r : J) (hL : ∀ q ∈ L, matchPtr p q = true ∧ getP q f ≠ none)
    (hwr : r.wf = true) (hsr : SpineRel ps f r) :
    ∃ r1, L.foldlM (setStep f) r = .ok r1 ∧ r1.wf = true ∧ SpineRel ps f r1 ∧
      (∀ q', (∀ q ∈ L, Div q q') → getP q' r1 = getP q' r) ∧
      (∀ q ∈ L, getP q r1 = getP q f) ∧
      (∀ q', getP q' r = getP q' f → getP q' r1 = getP q' f) ∧
      (∀ a : Ptr, covers p a = false → ObjAt a r → ObjAt a r1) := by
  induction L generalizing r with
  | nil => exact ⟨r, rfl, hwr, hsr, fun _ _ => rfl, by simp, fun _ h => h, fun _ _ h => h⟩
  | cons q L ih =>
    obtain ⟨hm, hne⟩ := hL q (by simp)
    cases hv : getP q f with
    | none => exact absurd hv hne
    | some v =>
      obtain ⟨r', h1, h2, h3, h4, h5, h6, h7⟩ := set_step ps f hwf hsf p hp hpne q v r hm hv hwr hsr
      obtain ⟨r1, g1, g2, g3, g4, g5, g6, g7⟩ := ih r' (fun x hx => hL x (by simp [hx])) h2 h3
      refine ⟨r1, ?_, g2, g3, ?_, ?_, fun q' hq' => g6 q' (h6 q' hq'), fun a hla ho => g7 a hla (h7 a hla ho)⟩
      · rw [List.foldlM_cons, h1]; exact g1
      · intro q' hq'
        rw [g4 q' (fun x hx => hq' x (by simp [hx])), h5 q' (hq' q (by simp))]
      · intro x hx
        simp only [List.mem_cons] at hx
        rcases hx with rfl | hx
        · exact g6 x (by rw [h4, hv])
        · exact g5 x hx

omit hwf hsf in
/-- lines 37-42 of jsontools.py: the loop over `to_delete` -/
theorem pop_phase (L : List Ptr) (r : J) (hL : ∀ q ∈ L, matchPtr p q = true ∧ getP q f = none)
    (hwr : r.wf = true) (hsr : SpineRel ps f r)
    (hok : ∀ q ∈ L, ∀ a c, q = a ++ c → c ≠ [] → ObjAt a r) :
    ∃ r2, L.foldlM (fun r q => popPtr q r) r = .ok r2 ∧ r2.wf = true ∧ SpineRel ps f r2 ∧
      (∀ q', (∀ q ∈ L, Div q q') → getP q' r2 = getP q' r) ∧
      (∀ q ∈ L, getP q r2 = none) ∧
      (∀ q', getP q' r = getP q' f → getP q' r2 = getP q' f) ∧
      (∀ a : Ptr, covers p a = false → ObjAt a r → ObjAt a r2) := by
  induction L generalizing r with
  | nil => exact ⟨r, rfl, hwr, hsr, fun _ _ => rfl, by simp, fun _ h => h, fun _ _ h => h⟩
  | cons q L ih =>
    obtain ⟨hm, hv⟩ := hL q (by simp)
    obtain ⟨r', h1, h2, h3, h4, h5, h6, h7⟩ :=
      pop_step ps f p hp hpne q r hm hv hwr hsr (hok q (by simp))
    have hok' : ∀ x ∈ L, ∀ a c, x = a ++ c → c ≠ [] → ObjAt a r' := by
      intro x hx a c hxe hc
      apply h7 a ?_ (hok x (by simp [hx]) a c hxe hc)
      apply not_covers_of_length_lt
      have := matchPtr_length p x (hL x (by simp [hx])).1
      rw [← this, hxe]
      cases c with
      | nil => exact absurd rfl hc
      | cons _ _ => simp
    obtain ⟨r2, g1, g2, g3, g4, g5, g6, g7⟩ := ih r' (fun x hx => hL x (by simp [hx])) h2 h3 hok'
    refine ⟨r2, ?_, g2, g3, ?_, ?_, fun q' hq' => g6 q' (h6 q' hq'), fun a hc ho => g7 a hc (h7 a hc ho)⟩
    · rw [List.foldlM_cons, h1]; exact g1
    · intro q' hq'
      rw [g4 q' (fun x hx => hq' x (by simp [hx])), h5 q' (hq' q (by simp))]
    · intro x hx
      simp only [List.mem_cons] at hx
      rcases hx with rfl | hx
      · have := g6 x (by rw [h4, hv])
        rw [this, hv]
      · exact g5 x hx

end step

/-- the body of `for acl_item in acl` with the pattern already parsed -/
def fragStepP (f r : J) (p : List String) : Except Err J := do
  let r1 ← (resolveRec p f).foldlM (setStep f) r
  ((resolveRec p r).filter (fun q => !((resolveRec p f).contains q))).foldlM (fun r q => popPtr q r) r1

theorem fragStep_eq (f r : J) (pat : String) (p : List String) (hp : parsePointer pat = .ok p) (hne : p ≠ []) :
    fragStep f r pat = fragStepP f r p := by
  simp only [fragStep, fragStepP, resolve_eq pat p f hp hne, resolve_eq pat p r hp hne]
  rfl

/-- one iteration of the loop of `apply_json_fragment`: the fragment has no array above a
selectable pointer, the document under construction satisfies the loop invariant -/
theorem frag_step (ps : List (List String)) (f : J) (hwf : f.wf = true) (hsf : SpineNoArr ps f)
    (p : List String) (hp : p ∈ ps) (hpne : p ≠ []) (r : J) (hwr : r.wf = true) (hsr : SpineRel ps f r) :
    ∃ r', fragStepP f r p = .ok r' ∧ r'.wf = true ∧ SpineRel ps f r' ∧
      (∀ q, matchPtr p q = true → getP q r' = getP q f) ∧
      (∀ q', outsideOf p q' = true → getP q' r' = getP q' r) ∧
      (∀ q', getP q' r = getP q' f → getP q' r' = getP q' f) ∧
      (∀ a : Ptr, covers p a = false → ObjAt a r → ObjAt a r') := by
  have memN := fun q => mem_resolveRec p f q hwf
  have memO := fun q => mem_resolveRec p r q hwr
  obtain ⟨r1, s1, s2, s3, s4, s5, s6, s7⟩ :=
    set_phase ps f hwf hsf p hp hpne (resolveRec p f) r (fun q hq => (memN q).1 hq) hwr hsr
  let D := (resolveRec p r).filter (fun q => !((resolveRec p f).contains q))
  have hD : ∀ q ∈ D, matchPtr p q = true ∧ getP q r ≠ none ∧ getP q f = none := by
    intro q hq
    simp only [D, List.mem_filter, Bool.not_eq_true', List.contains_eq_mem, decide_eq_false_iff_not] at hq
    obtain ⟨hqO, hqN⟩ := hq
    have h1 := (memO q).1 hqO
    refine ⟨h1.1, h1.2, ?_⟩
    cases hg : getP q f with
    | none => rfl
    | some v => exact absurd ((memN q).2 ⟨h1.1, by simp [hg]⟩) hqN
  have hok : ∀ q ∈ D, ∀ a c, q = a ++ c → c ≠ [] → ObjAt a r1 := by
    intro q hq a c hqe hc
    obtain ⟨hm, hgr, _⟩ := hD q hq
    have hla : a.length < p.length := by
      rw [← matchPtr_length p q hm, hqe]
      cases c with
      | nil => exact absurd rfl hc
      | cons _ _ => simp
    apply s7 a (not_covers_of_length_lt p a hla)
    subst hqe
    rw [getP_append] at hgr
    cases hga : getP a r with
    | none => simp [hga] at hgr
    | some w =>
      have := spineRel_obj ps f r hsf hsr p hp a c hc hm w hga (Or.inr (by simpa [hga] using hgr))
      cases w <;> simp [J.isObj] at this
      exact ⟨_, hga⟩
  obtain ⟨r2, t1, t2, t3, t4, t5, t6, t7⟩ :=
    pop_phase ps f p hp hpne D r1 (fun q hq => ⟨(hD q hq).1, (hD q hq).2.2⟩) s2 s3 hok
  refine ⟨r2, ?_, t2, t3, ?_, ?_, fun q' hq' => t6 q' (s6 q' hq'), fun a hc ho => t7 a hc (s7 a hc ho)⟩
  · simp only [fragStepP, s1]
    exact t1
  · intro q hm
    cases hg : getP q f with
    | some v =>
      have hqN : q ∈ resolveRec p f := (memN q).2 ⟨hm, by simp [hg]⟩
      rw [← hg]
      exact t6 q (s5 q hqN)
    | none =>
      cases hr : getP q r with
      | none =>
        rw [← hg]
        exact t6 q (s6 q (by rw [hr, hg]))
      | some w =>
        have hqO : q ∈ resolveRec p r := (memO q).2 ⟨hm, by simp [hr]⟩
        have hqN : q ∉ resolveRec p f := fun h => ((memN q).1 h).2 hg
        have hqD : q ∈ D := by
          simp only [D, List.mem_filter, Bool.not_eq_true', List.contains_eq_mem, decide_eq_false_iff_not]
          exact ⟨hqO, hqN⟩
        exact t5 q hqD
  · intro q' ho
    rw [t4 q' (fun q hq => Div_of_outside p q q' (hD q hq).1 ho),
        s4 q' (fun q hq => Div_of_outside p q q' ((memN q).1 hq).1 ho)]

theorem foldlM_const {α : Type} (g : J → α → Except Err J) (l : List α) (s : J) (h : ∀ x ∈ l, g s x = .ok s) :
    l.foldlM g s = .ok s := by
  induction l with
  | nil => rfl
  | cons x xs ih =>
    rw [List.foldlM_cons, h x (by simp)]
    exact ih (fun y hy => h y (by simp [hy]))

/-- a document that already agrees with the fragment on a pattern is a fixed point of its iteration -/
theorem frag_step_fix (ps : List (List String)) (f : J) (hwf : f.wf = true) (hsf : SpineNoArr ps f)
    (p : List String) (hp : p ∈ ps) (hpne : p ≠ []) (r : J) (hwr : r.wf = true) (hsr : SpineRel ps f r)
    (hag : ∀ q, matchPtr p q = true → getP q r = getP q f) : fragStepP f r p = .ok r := by
  have memN := fun q => mem_resolveRec p f q hwf
  have memO := fun q => mem_resolveRec p r q hwr
  have h1 : (resolveRec p f).foldlM (setStep f) r = .ok r := by
    apply foldlM_const
    intro q hq
    obtain ⟨hm, hne⟩ := (memN q).1 hq
    cases hv : getP q f with
    | none => exact absurd hv hne
    | some v =>
      have hadm := admits_of_rel ps f hsf p hp q r hm hne hsr
      have hq0 : q ≠ [] := by
        intro e; subst e
        have := matchPtr_length p [] hm
        cases p with
        | nil => exact hpne rfl
        | cons _ _ => simp at this
      simp only [setStep, getPtr_of_getP q f v hv]
      rw [show (do let v ← (Except.ok v : Except Err J); setPtr q v (ensure q r)) = setPtr q v (ensure q r) from rfl]
      rw [setPtr_ensure q v r hadm hq0, setO_noop q v r hadm hq0 (by rw [hag q hm, hv])]
  have h2 : (resolveRec p r).filter (fun q => !((resolveRec p f).contains q)) = [] := by
    rw [List.filter_eq_nil_iff]
    intro q hq
    obtain ⟨hm, hne⟩ := (memO q).1 hq
    have : q ∈ resolveRec p f := (memN q).2 ⟨hm, by rw [← hag q hm]; exact hne⟩
    simp [this]
  simp only [fragStepP, h1, h2]
  rfl

theorem frag_fold (ps : List (List String)) (f : J) (hwf : f.wf = true) (hsf : SpineNoArr ps f)
    (L : List (List String)) (hL : ∀ p ∈ L, p ∈ ps ∧ p ≠ []) (r : J) (hwr : r.wf = true) (hsr : SpineRel ps f r) :
    ∃ r', L.foldlM (fragStepP f) r = .ok r' ∧ r'.wf = true ∧ SpineRel ps f r' ∧
      (∀ p ∈ L, ∀ q, matchPtr p q = true → getP q r' = getP q f) ∧
      (∀ q', (∀ p ∈ L, outsideOf p q' = true) → getP q' r' = getP q' r) ∧
      (∀ q', getP q' r = getP q' f → getP q' r' = getP q' f) ∧
      (∀ a : Ptr, (∀ p ∈ L, covers p a = false) → ObjAt a r → ObjAt a r') := by
  induction L generalizing r with
  | nil => exact ⟨r, rfl, hwr, hsr, by simp, fun _ _ => rfl, fun _ h => h, fun _ _ h => h⟩
  | cons p L ih =>
    obtain ⟨hp, hpne⟩ := hL p (by simp)
    obtain ⟨r1, a1, a2, a3, a4, a5, a6, a7⟩ := frag_step ps f hwf hsf p hp hpne r hwr hsr
    obtain ⟨r2, b1, b2, b3, b4, b5, b6, b7⟩ := ih (fun x hx => hL x (by simp [hx])) r1 a2 a3
    refine ⟨r2, ?_, b2, b3, ?_, ?_, fun q' h => b6 q' (a6 q' h),
      fun a hc ho => b7 a (fun x hx => hc x (by simp [hx])) (a7 a (hc p (by simp)) ho)⟩
    · rw [List.foldlM_cons, a1]; exact b1
    · intro x hx q hm
      simp only [List.mem_cons] at hx
      rcases hx with rfl | hx
      · exact b6 q (a4 q hm)
      · exact b4 x hx q hm
    · intro q' ho
      rw [b5 q' (fun x hx => ho x (by simp [hx])), a5 q' (ho p (by simp))]

theorem frag_fold_fix (ps : List (List String)) (f : J) (hwf : f.wf = true) (hsf : SpineNoArr ps f)
    (L : List (List String)) (hL : ∀ p ∈ L, p ∈ ps ∧ p ≠ []) (r : J) (hwr : r.wf = true) (hsr : SpineRel ps f r)
    (hag : ∀ p ∈ L, ∀ q, matchPtr p q = true → getP q r = getP q f) :
    L.foldlM (fragStepP f) r = .ok r := by
  induction L with
  | nil => rfl
  | cons p L ih =>
    obtain ⟨hp, hpne⟩ := hL p (by simp)
    rw [List.foldlM_cons, frag_step_fix ps f hwf hsf p hp hpne r hwr hsr (hag p (by simp))]
    exact ih (fun x hx => hL x (by simp [hx])) (fun x hx => hag x (by simp [hx]))

theorem applyFragment_eq (f : J) (acl : List String) (ps : List (List String)) (r : J)
    (hparse : ParsedAcl acl ps) (hne : ∀ p ∈ ps, p ≠ []) :
    applyFragment r f acl = ps.foldlM (fragStepP f) r := by
  induction acl generalizing ps r with
  | nil =>
    cases ps with
    | nil => rfl
    | cons _ _ => exact absurd hparse (by simp [ParsedAcl])
  | cons pat acl ih =>
    cases ps with
    | nil => exact absurd hparse (by simp [ParsedAcl])
    | cons p ps =>
      obtain ⟨h, hrest⟩ := hparse
      simp only [applyFragment, List.foldlM_cons]
      rw [fragStep_eq f r pat p h (hne p (by simp))]
      cases fragStepP f r p with
      | error e => rfl
      | ok r1 => exact ih ps r1 hrest (fun x hx => hne x (by simp [hx]))

/-- The three fragment laws of C13.  The device document is of the patterns' schema (objects
above every selectable pointer); the fragment may have a scalar — a string, say — where a
pattern expects to continue: since commit 33969c0 the pattern selects nothing there. -/
theorem fragment_laws (old f : J) (acl : List String) (ps : List (List String))
    (hparse : ParsedAcl acl ps) (hne : ∀ p ∈ ps, p ≠ [])
    (hwo : old.wf = true) (hwf : f.wf = true) (hso : SpineObj ps old) (hsf : SpineNoArr ps f) :
    ∃ r, applyFragment old f acl = .ok r ∧ InsideEq ps r f ∧ OutsideEq ps r old ∧
      applyFragment r f acl = .ok r ∧
      (∀ a : Ptr, (∀ p ∈ ps, covers p a = false) → ObjAt a old → ObjAt a r) := by
  obtain ⟨r, h1, h2, h3, h4, h5, _, h7⟩ :=
    frag_fold ps f hwf hsf ps (fun p hp => ⟨hp, hne p hp⟩) old hwo (spineRel_of_spineObj ps f old hso)
  refine ⟨r, ?_, ?_, ?_, ?_, h7⟩
  · rw [applyFragment_eq f acl ps old hparse hne]; exact h1
  · intro p hp q hc
    obtain ⟨a, c, rfl, hm⟩ := covers_split p q hc
    rw [getP_append, getP_append, h4 p hp a hm]
  · intro q ho
    exact h5 q ho
  · rw [applyFragment_eq f acl ps r hparse hne]
    exact frag_fold_fix ps f hwf hsf ps (fun p hp => ⟨hp, hne p hp⟩) r h2 h3 h4

end Annet.Json.Lemmas
