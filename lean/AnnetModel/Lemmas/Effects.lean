/-
Lemmas for C20 (the effect model of `Model/Effects.lean`).
-/
import AnnetModel.Model.Effects

namespace Annet.Effects
open Annet Annet.Rules Annet.Diff

/-! ### generic -/

theorem foldl_inv {α β : Type} (P : α → Prop) (f : α → β → α) (h : ∀ s x, P s → P (f s x)) :
    ∀ (l : List β) (s : α), P s → P (l.foldl f s)
  | [], _, hs => hs
  | x :: xs, s, hs => foldl_inv P f h xs (f s x) (h s x hs)

theorem confinedL_glob {L : LogicSem} (h : ConfinedL L) (key : List String) (c : Cells) :
    (L key c).cells.glob = c.glob := by
  have := h key c c.glob
  have hc : ({ c with glob := c.glob } : Cells) = c := rfl
  rw [hc] at this
  rw [this]

theorem confinedL_indep {L : LogicSem} (h : ConfinedL L) (key : List String) (a : Attrs) (b : Buckets) (g g' : Attrs) :
    (L key ⟨a, b, g'⟩).emits = (L key ⟨a, b, g⟩).emits ∧ (L key ⟨a, b, g'⟩).err = (L key ⟨a, b, g⟩).err ∧
    (L key ⟨a, b, g'⟩).cells.rule = (L key ⟨a, b, g⟩).cells.rule := by
  have := h key ⟨a, b, g⟩ g'
  simp only at this
  rw [this]
  exact ⟨rfl, rfl, rfl⟩

theorem confinedD_glob {D : DSem} (h : ConfinedD D) (a g : Attrs) : (D a g).glob = g := by
  have := h a g g
  rw [this]

theorem confinedD_indep {D : DSem} (h : ConfinedD D) (a g g' : Attrs) :
    (D a g').attrs = (D a g).attrs ∧ (D a g').obs = (D a g).obs ∧ (D a g').err = (D a g).err := by
  have := h a g g'
  rw [this]
  exact ⟨rfl, rfl, rfl⟩

/-! ### the rulebook store is not written -/

theorem rowStep_rb_of_copyMatch (fl : Flags) (T : Tables) (h : fl.copyMatch = true) (st : JSt) (r : Nat) :
    (rowStep fl T st r).rb = st.rb := by
  unfold rowStep
  split
  · rfl
  · split
    · rfl
    · simp only
      split <;> rfl

theorem itemStep_rb_of_copy (fl : Flags) (T : Tables) (h : fl.copyMatch = true ∨ fl.copyAttrs = true) (st : JSt)
    (it : Item) : (itemStep fl T st it).rb = st.rb := by
  unfold itemStep
  split
  · rfl
  · split
    · rfl
    · simp only
      split
      · rfl
      · split
        · rfl
        · rename_i h1 h2
          rcases h with h | h
          · exact absurd h h2
          · exact absurd h h1

theorem set_getElem?_self {α : Type} : ∀ (l : List α) (i : Nat) (a : α), l[i]? = some a → l.set i a = l
  | [], _, _, _ => rfl
  | x :: xs, 0, a, h => by
    simp only [List.getElem?_cons_zero, Option.some.injEq] at h
    subst h; rfl
  | x :: xs, i + 1, a, h => by
    simp only [List.getElem?_cons_succ] at h
    simp only [List.set_cons_succ, set_getElem?_self xs i a h]

theorem rowStep_rb_of_pure (fl : Flags) (T : Tables) (hp : ∀ r, PureD (T.dlogic r)) (st : JSt) (r : Nat) :
    (rowStep fl T st r).rb = st.rb := by
  unfold rowStep
  split
  · rfl
  · split
    · rfl
    · rename_i a ha
      simp only
      split
      · split <;> rfl
      · simp only [hp r a st.glob]
        exact set_getElem?_self _ _ _ ha

/-! ### globals are not written by confined functions -/

theorem rowStep_glob (fl : Flags) (T : Tables) (hc : T.Confined) (st : JSt) (r : Nat) :
    (rowStep fl T st r).glob = st.glob := by
  unfold rowStep
  split
  · rfl
  · split
    · rfl
    · simp only
      have hg := confinedD_glob (hc.2 r)
      split
      · split <;> simp [hg]
      · simp [hg]

theorem itemStep_glob (fl : Flags) (T : Tables) (hc : T.Confined) (st : JSt) (it : Item) :
    (itemStep fl T st it).glob = st.glob := by
  unfold itemStep
  split
  · rfl
  · split
    · rfl
    · simp only
      have hg := fun a => confinedL_glob (hc.1 it.rule) it.key ⟨a, it.buckets, st.glob⟩
      split
      · simp [hg]
      · split <;> simp [hg]

/-- the state of the process after a job: nothing written, when `_select_match` copies -/
theorem runJobSt_proc_of_copyMatch (fl : Flags) (T : Tables) (h : fl.copyMatch = true) (hc : T.Confined)
    (p : Proc) (j : Job) : (runJobSt fl T p j).proc = p := by
  have key : (runJobSt fl T p j).rb = p.rb ∧ (runJobSt fl T p j).glob = p.glob := by
    unfold runJobSt
    apply foldl_inv (fun s : JSt => s.rb = p.rb ∧ s.glob = p.glob)
    · intro s x hs
      exact ⟨(itemStep_rb_of_copy fl T (Or.inl h) s x).trans hs.1, (itemStep_glob fl T hc s x).trans hs.2⟩
    · apply foldl_inv (fun s : JSt => s.rb = p.rb ∧ s.glob = p.glob)
      · intro s x hs
        exact ⟨(rowStep_rb_of_copyMatch fl T h s x).trans hs.1, (rowStep_glob fl T hc s x).trans hs.2⟩
      · exact ⟨rfl, rfl⟩
  cases p
  simp only [JSt.proc, key.1, key.2]

/-- … and also when only make_patch copies, provided no diff-logic writes into the match it is shown -/
theorem runJobSt_proc_of_copyAttrs (fl : Flags) (T : Tables) (h : fl.copyAttrs = true) (hc : T.Confined)
    (hp : ∀ r, PureD (T.dlogic r)) (p : Proc) (j : Job) : (runJobSt fl T p j).proc = p := by
  have key : (runJobSt fl T p j).rb = p.rb ∧ (runJobSt fl T p j).glob = p.glob := by
    unfold runJobSt
    apply foldl_inv (fun s : JSt => s.rb = p.rb ∧ s.glob = p.glob)
    · intro s x hs
      exact ⟨(itemStep_rb_of_copy fl T (Or.inr h) s x).trans hs.1, (itemStep_glob fl T hc s x).trans hs.2⟩
    · apply foldl_inv (fun s : JSt => s.rb = p.rb ∧ s.glob = p.glob)
      · intro s x hs
        exact ⟨(rowStep_rb_of_pure fl T hp s x).trans hs.1, (rowStep_glob fl T hc s x).trans hs.2⟩
      · exact ⟨rfl, rfl⟩
  cases p
  simp only [JSt.proc, key.1, key.2]

/-- a process whose every job leaves it as it was: any history is the empty history -/
theorem after_eq_of_fix (fl : Flags) (T : Tables) (p : Proc) (hfix : ∀ j, (runJob fl T p j).2 = p) :
    ∀ js : List Job, after fl T p js = p
  | [] => rfl
  | j :: js => by
    rw [after, hfix j]
    exact after_eq_of_fix fl T p hfix js

theorem runJobs_eq_of_fix (fl : Flags) (T : Tables) (p : Proc) (hfix : ∀ j, (runJob fl T p j).2 = p) :
    ∀ js : List Job, runJobs fl T p js = js.map (fun j => (runJob fl T p j).1)
  | [] => rfl
  | j :: js => by
    rw [runJobs, hfix j, runJobs_eq_of_fix fl T p hfix js]
    rfl

/-! ### items do not see each other when make_patch copies -/

/-- results of independent calls, put one after the other the way an exception cuts a loop short -/
def seqOut : List (List Emit × Option Err) → List Emit × Option Err
  | [] => ([], none)
  | (es, some e) :: _ => (es, some e)
  | (es, none) :: rest => (es ++ (seqOut rest).1, (seqOut rest).2)

/-- what one item yields when it is the only item processed after the diff phase `st0` -/
def itemAlone (fl : Flags) (T : Tables) (st0 : JSt) (it : Item) : List Emit × Option Err :=
  ((itemStep fl T { st0 with emits := [] } it).emits, (itemStep fl T { st0 with emits := [] } it).err)

theorem itemStep_frame_of_copyAttrs (fl : Flags) (T : Tables) (h : fl.copyAttrs = true) (hc : T.Confined)
    (st : JSt) (it : Item) :
    (itemStep fl T st it).rb = st.rb ∧ (itemStep fl T st it).pre = st.pre ∧ (itemStep fl T st it).glob = st.glob ∧
    (itemStep fl T st it).dobs = st.dobs := by
  refine ⟨itemStep_rb_of_copy fl T (Or.inr h) st it, ?_, itemStep_glob fl T hc st it, ?_⟩
  · unfold itemStep
    split
    · rfl
    · split
      · rfl
      · simp
  · unfold itemStep
    split
    · rfl
    · split
      · rfl
      · simp

theorem itemStep_emits_of_same_cells (fl : Flags) (T : Tables) (st st0 : JSt) (it : Item)
    (hrb : st.rb = st0.rb) (hpre : st.pre = st0.pre) (hg : st.glob = st0.glob) (he : st.err = none)
    (he0 : st0.err = none) :
    (itemStep fl T st it).emits = st.emits ++ (itemAlone fl T st0 it).1 ∧
    (itemStep fl T st it).err = (itemAlone fl T st0 it).2 := by
  have hcell : preCell fl st it.rule = preCell fl { st0 with emits := [] } it.rule := by
    simp [preCell, hrb, hpre]
  unfold itemAlone itemStep
  simp only [he, he0, Option.isSome_none, Bool.false_eq_true, if_false, hcell, hg]
  split
  · simp
  · split <;> (try split) <;> simp

theorem items_seq (fl : Flags) (T : Tables) (h : fl.copyAttrs = true) (hc : T.Confined) (st0 : JSt)
    (he0 : st0.err = none) :
    ∀ (items : List Item) (st : JSt), st.rb = st0.rb → st.pre = st0.pre → st.glob = st0.glob →
      ((items.foldl (itemStep fl T) st).emits, (items.foldl (itemStep fl T) st).err) =
        (match st.err with
         | some e => (st.emits, some e)
         | none => (st.emits ++ (seqOut (items.map (itemAlone fl T st0))).1, (seqOut (items.map (itemAlone fl T st0))).2))
  | [], st, _, _, _ => by
    cases he : st.err <;> simp [seqOut, he]
  | it :: rest, st, hrb, hpre, hg => by
    have fr := itemStep_frame_of_copyAttrs fl T h hc st it
    have ih := items_seq fl T h hc st0 he0 rest (itemStep fl T st it) (fr.1.trans hrb) (fr.2.1.trans hpre)
      (fr.2.2.1.trans hg)
    rw [List.foldl_cons, ih]
    cases he : st.err with
    | some e =>
      have hs : itemStep fl T st it = st := by
        unfold itemStep; simp [he]
      simp [hs, he]
    | none =>
      have := itemStep_emits_of_same_cells fl T st st0 it hrb hpre hg he he0
      rw [this.1, this.2]
      simp only [List.map_cons]
      cases hx : (itemAlone fl T st0 it).2 with
      | some e =>
        have : itemAlone fl T st0 it = ((itemAlone fl T st0 it).1, some e) := by rw [← hx]
        rw [this]; simp [seqOut]
      | none =>
        have : itemAlone fl T st0 it = ((itemAlone fl T st0 it).1, none) := by rw [← hx]
        rw [this]; simp [seqOut, List.append_assoc]

/-! ### the effect language is confined -/

theorem phaseLogic_confined (ps : List Phase) : ConfinedL (phaseLogic ps) := by
  intro key c g
  simp only [phaseLogic]

theorem effDLogic_confined (effs : List Eff) : ConfinedD (effDLogic effs) := by
  intro a g g'
  simp only [effDLogic]

/-! ### pruning by `apply_diff_rb` is idempotent -/

mutual
  theorem annotate_erase : (t : Cfg) → (rules : PRules) → (a : ACfg) → annotate rules t = .ok a →
      annotate rules (eraseA a) = .ok a
    | .mk ks, rules, a, h => by
      rw [annotate] at h
      cases hl : annotateList rules ks with
      | error e => rw [hl] at h; cases h
      | ok l =>
        rw [hl] at h
        simp only [Except.map] at h
        cases h
        rw [eraseA, annotate, annotateList_erase ks rules l hl]
        rfl
  theorem annotateList_erase : (ks : List (String × Cfg)) → (rules : PRules) → (l : List (String × PMatch × ACfg)) →
      annotateList rules ks = .ok l → annotateList rules (eraseL l) = .ok l
    | [], rules, l, h => by
      rw [annotateList] at h
      cases h
      rfl
    | (row, ch) :: rest, rules, l, h => by
      rw [annotateList] at h
      cases hm : matchRow row rules with
      | grammar => rw [hm] at h; cases h
      | «nomatch» =>
        rw [hm] at h
        exact annotateList_erase rest rules l h
      | found m cr =>
        rw [hm] at h
        simp only at h
        cases hc : annotate cr ch with
        | error e => rw [hc] at h; cases h
        | ok ch' =>
          rw [hc] at h
          simp only at h
          cases hr : annotateList rules rest with
          | error e => rw [hr] at h; cases h
          | ok rest' =>
            rw [hr] at h
            simp only at h
            cases h
            rw [eraseL, annotateList, hm]
            simp only
            rw [annotate_erase ch cr ch' hc]
            simp only
            rw [annotateList_erase rest rules rest' hr]
end

/-! ### the ACL scratch field is written before it is read -/

theorem scanPass_length (m : Nat → Option Groups) (isRev : Bool) :
    ∀ (sc : List (Option Groups)) (i : Nat), (scanPass m isRev i sc).1.length = sc.length
  | [], _ => rfl
  | s :: rest, i => by
    simp only [scanPass]
    cases m i <;> simp [scanPass_length m isRev rest (i + 1)]

/-- after a pass, rule `i + k` holds the groups of this row if it matched, and what it held before otherwise -/
theorem scanPass_get (m : Nat → Option Groups) (isRev : Bool) :
    ∀ (sc : List (Option Groups)) (i k : Nat), k < sc.length →
      (scanPass m isRev i sc).1[k]? = some (match m (i + k) with | some g => some g | none => (sc[k]?).join)
  | [], _, _, hk => by simp at hk
  | s :: rest, i, 0, _ => by
    simp only [scanPass]
    cases h : m i <;> simp
  | s :: rest, i, k + 1, hk => by
    have ih := scanPass_get m isRev rest (i + 1) k (by simpa using hk)
    have e : i + 1 + k = i + (k + 1) := by omega
    simp only [scanPass]
    cases h : m i <;> simp [ih, e]

/-- the matches a pass reports are exactly rules on which the regexp matched -/
theorem scanPass_mem (m : Nat → Option Groups) (isRev : Bool) :
    ∀ (sc : List (Option Groups)) (i r : Nat) (b : Bool), (r, b) ∈ (scanPass m isRev i sc).2 →
      b = isRev ∧ i ≤ r ∧ r < i + sc.length ∧ (m r).isSome
  | [], _, _, _, h => by simp [scanPass] at h
  | s :: rest, i, r, b, h => by
    simp only [scanPass] at h
    cases hm : m i with
    | none =>
      simp only [hm] at h
      have := scanPass_mem m isRev rest (i + 1) r b h
      exact ⟨this.1, by omega, by simp only [List.length_cons]; omega, this.2.2.2⟩
    | some g =>
      simp only [hm, List.mem_cons, Prod.mk.injEq] at h
      rcases h with ⟨rfl, rfl⟩ | h
      · exact ⟨rfl, Nat.le_refl _, by simp, by simp [hm]⟩
      · have := scanPass_mem m isRev rest (i + 1) r b h
        exact ⟨this.1, by omega, by simp only [List.length_cons]; omega, this.2.2.2⟩

/-- what the scratch field of a rule that matched holds after `_find_acl_matches`: the reverse groups if the
reverse regexp matched, else the direct groups — whatever it held before -/
def freshScratch (dm rm : Nat → Option Groups) (r : Nat) : Option Groups :=
  match rm r with
  | some g => some g
  | none => dm r

theorem findAclMatches_scratch (dm rm : Nat → Option Groups) (sc : List (Option Groups)) (r : Nat) (b : Bool)
    (h : (r, b) ∈ (findAclMatches dm rm sc).2) :
    ((findAclMatches dm rm sc).1[r]?).join = freshScratch dm rm r := by
  unfold findAclMatches at h ⊢
  simp only [List.mem_append] at h ⊢
  have hlen1 := scanPass_length dm false sc 0
  rcases h with h | h
  · have hm := scanPass_mem dm false sc 0 r b h
    have hr : r < sc.length := by omega
    have g2 := scanPass_get rm true (scanPass dm false 0 sc).1 0 r (by omega)
    have g1 := scanPass_get dm false sc 0 r hr
    simp only [Nat.zero_add] at g1 g2
    rw [g2, g1]
    unfold freshScratch
    cases hrm : rm r with
    | some g => simp
    | none =>
      simp only [Option.join]
      cases hdm : dm r with
      | some g => simp
      | none => simp [hdm] at hm
  · have hm := scanPass_mem rm true (scanPass dm false 0 sc).1 0 r b h
    have hr : r < sc.length := by omega
    have g2 := scanPass_get rm true (scanPass dm false 0 sc).1 0 r (by omega)
    simp only [Nat.zero_add] at g2
    rw [g2]
    unfold freshScratch
    cases hrm : rm r with
    | some g => simp
    | none => simp [hrm] at hm

end Annet.Effects
