/-
C03 — The diff is a faithful, lossless description of old versus new.

Model: `Model/Diff.lean`.  `baseDiff` is the body shared by `default_diff`, `ordered_diff` and
`rewrite_diff`; `callDiffLogic` groups rows by diff logic and concatenates the groups' diffs, so the
projection laws are stated per group (= per call of `baseDiff`), for an arbitrary recursive callee.
Property theorems only; proofs of the lemmas are in `Lemmas/Diff.lean`.
-/
import AnnetModel.Lemmas.Diff
import AnnetModel.Lemmas.DiffText
import AnnetModel.Lemmas.DiffWhole
import AnnetModel.Lemmas.DiffTextStrict
import AnnetModel.Lemmas.Collapse
import AnnetModel.Lemmas.Multiline

/-! OBLIGATIONS
Annet.Diff.C03_proj_new
Annet.Diff.C03_proj_old
Annet.Diff.C03_ops_exact
Annet.Diff.C03_moved_characterisation
Annet.Diff.C03_self_diff_empty
Annet.Diff.C03_strip_idempotent
Annet.Diff.C03_make_diff_ops_exact
Annet.Diff.C03_make_diff_projections
Annet.Diff.C03_diff_text_roundtrip
Annet.Diff.C03_diff_text_roundtrip_strict
Annet.Diff.C03_diff_text_injective
Annet.Diff.C03_stripped_diff_has_text
Annet.Diff.C03_pre_text_roundtrip
Annet.Diff.C03_text_rows_ok_shipped_formatters
Annet.Diff.C03_moved_iff_relative_order_false
Annet.Diff.C03_proj_old_order_false
Annet.Diff.C03_collapse_partition
Annet.Diff.C03_collapse_group_same_text
Annet.Diff.C03_collapse_runs_maximal
Annet.Diff.C03_collapse_faithful
Annet.Multiline.C03_multiline_total
Annet.Multiline.C03_multiline_entry_iff
Annet.Multiline.C03_multiline_children_lossless
Annet.Multiline.C03_multiline_reports_nonempty_changes_partial
Annet.Multiline.C03_multiline_empty_block_false
Annet.Multiline.C03_multiline_body_emptied_false
Annet.Multiline.C03_multiline_body_emptied_false_fixed
Annet.Multiline.C03_multiline_self_diff_empty
Annet.Multiline.C03_multiline_entry_iff_fixed
Annet.Multiline.C03_multiline_children_lossless_fixed
Annet.Multiline.C03_multiline_reports_all_fixed
Annet.Multiline.C03_multiline_empty_block_reported_fixed
Annet.Multiline.C03_multiline_self_diff_empty_fixed
-/

namespace Annet.Diff
open Annet.Rules Annet.Diff.Spec

/-- Dropping removed lines yields the new configuration, *in new's order* (so in particular for the rows
of `%ordered` rules).
STATEMENT CHANGED: `hp` added — not below a REMOVED parent unless `new` is empty there (as in every real
run); otherwise a common row is labelled REMOVED, counterexample in `Lemmas/Diff.lean`. -/
theorem C03_proj_new (rec : Rec) (pops : List Pop) (m2a : Bool) (old new : Level) (d : List DItem)
    (h : baseDiff rec pops m2a old new = .ok d) (hp : new = [] ∨ lastOp pops ≠ .removed) :
    (d.filter (fun i => i.op != .removed)).map (·.row) = rowsOf new :=
  Lemmas.base_proj_new rec pops m2a old new d h hp

/-- Dropping added lines yields the old configuration — as a multiset of rows.  The ordered reading is
false of the code, see `C03_proj_old_order_false`.
STATEMENT CHANGED: `hp` added — not below an ADDED parent unless `old` is empty there (as in every real
run); otherwise a common row is labelled ADDED, counterexample in `Lemmas/Diff.lean`. -/
theorem C03_proj_old (rec : Rec) (pops : List Pop) (m2a : Bool) (old new : Level) (d : List DItem)
    (h : baseDiff rec pops m2a old new = .ok d) (hp : old = [] ∨ lastOp pops ≠ .added)
    (ho : (rowsOf old).Nodup) (hn : (rowsOf new).Nodup) :
    ((d.filter (fun i => i.op != .added)).map (·.row)).Perm (rowsOf old) :=
  Lemmas.base_proj_old rec pops m2a old new d h hp ho hn

/-- A line is reported added only if absent from old, removed only if absent from new, and every other
op only for lines present on both sides.
STATEMENT CHANGED: `hpa`, `hpr` added — below an ADDED (REMOVED) parent `old` (`new`) is empty, as in
every real run; otherwise a common row inherits the parent's ADDED/REMOVED, counterexamples in
`Lemmas/Diff.lean`. -/
theorem C03_ops_exact (rec : Rec) (pops : List Pop) (m2a : Bool) (old new : Level) (d : List DItem)
    (h : baseDiff rec pops m2a old new = .ok d)
    (hpa : old = [] ∨ lastOp pops ≠ .added) (hpr : new = [] ∨ lastOp pops ≠ .removed)
    (i : DItem) (hi : i ∈ d) :
    (i.op = .added → hasRow old i.row = false ∧ hasRow new i.row = true) ∧
    (i.op = .removed → hasRow old i.row = true ∧ hasRow new i.row = false) ∧
    (i.op ≠ .added → i.op ≠ .removed → hasRow old i.row = true ∧ hasRow new i.row = true) :=
  Lemmas.base_ops_exact rec pops m2a old new d h hpa hpr i hi

/-- In an `%ordered` group a common row is MOVED iff, up to and including its position in `new`, some
row is new or sits at another index than in `old` (this *is* `block_in_disorder`). -/
theorem C03_moved_characterisation (rec : Rec) (pops : List Pop) (old new : Level) (d : List DItem)
    (h : baseDiff rec pops false old new = .ok d) (hn : (rowsOf new).Nodup)
    (k : Nat) (e : String × PMatch × ACfg) (hk : new[k]? = some e) (hcommon : hasRow old e.1 = true) :
    ∃ i ∈ d, i.row = e.1 ∧ i.op = (if disorderUpTo old new k then Op.moved else lastOp pops) :=
  Lemmas.moved_characterisation rec pops old new d h hn k e hk hcommon

/-- Comparing a configuration with itself reports no change, at any depth, for every rulebook over the
standard diff logics (default, ordered, rewrite). -/
theorem C03_self_diff_empty (fuel : Nat) (a : ACfg) (d : List DItem)
    (hnd : NoDupRows a) (hf : adepth a < fuel)
    (h : callDiffLogic fuel [.op .affected] a.kids a.kids = .ok d) :
    stripUnchanged (markUnchanged d) = [] :=
  Lemmas.self_diff_empty fuel a d hnd hf h

theorem C03_strip_idempotent (d : List DItem) : stripUnchanged (stripUnchanged d) = stripUnchanged d :=
  Lemmas.strip_idempotent d

/-! ### the whole `make_diff`, at every depth (Spec/DiffWhole.lean)

The theorems above speak of one diff-logic group (one call of `base_diff`) with an arbitrary recursive callee.  These two
lift them over the groups of a level (`call_diff_logic`), over the depth (the fuel is never exhausted) and through
`mark_unchanged`. -/

/-- Ops are exact at every depth of the diff `make_diff` returns, for any of the three standard diff logics: ADDED only if
absent from old and present in new, REMOVED the other way round, every other op only for rows present on both sides.
`NoDupRows`: sibling rows are distinct (Python dict keys; without it the statement is false for a repeated block row,
kernel-checked counterexample in `Lemmas/DiffWhole.lean`). -/
theorem C03_make_diff_ops_exact (rules : PRules) (old new : Cfg) (ao an : ACfg) (d : List DItem)
    (ha : annotate rules old = .ok ao) (hn : annotate rules new = .ok an)
    (hdo : NoDupRows ao) (hdn : NoDupRows an)
    (h : makeDiff rules old new = .ok d) :
    ExactL ao.kids an.kids d :=
  Lemmas.makeDiff_ops_exact rules old new ao an d ha hn hdo hdn h

/-- From the diff alone both inputs can be reconstructed, with block nesting intact: dropping ADDED entries (at every
depth) gives `old`, dropping REMOVED entries gives `new`, each restricted to the rows the rulebook knows, per level as a
multiset — for rulebooks comparing with `default_diff` / `ordered_diff` (`rewrite_diff` drops a group that did not
change, by design). -/
theorem C03_make_diff_projections (rules : PRules) (old new : Cfg) (ao an : ACfg) (d : List DItem)
    (ha : annotate rules old = .ok ao) (hn : annotate rules new = .ok an)
    (hdo : NoDupRows ao) (hdn : NoDupRows an) (hpo : PlainLogics ao) (hpn : PlainLogics an)
    (h : makeDiff rules old new = .ok d) :
    RPerm (projOld d) (rtreeOfL ao.kids) ∧ RPerm (projNew d) (rtreeOfL an.kids) :=
  Lemmas.makeDiff_projections rules old new ao an d ha hn hdo hdn hpo hpn h

/-! ### the textual views carry the same information (Model/DiffText.lean, Spec/DiffText.lean)

`DiffText.diffText` models `formatter.diff(diff)` (`CommonFormatter._diff_lines`), `DiffText.preText` models
`gen_pre_as_diff(make_pre(diff))`; both are compared line by line with the real functions on every run (four
formatter shapes: no marks, Junos `{ } ;`, Nokia `{ }`, RouterOS `/`).  `parseSigned` / `parsePre` are the readers. -/

/-- Reading the deploy-confirmation view back gives the same entries with the same signs and nesting, for every
formatter with a non-empty indent unit and every entry forest whose printed rows do not begin with the indent unit
and are not mistaken for a block-end mark (`RowsOK`; see `C03_text_rows_ok_shipped_formatters`). -/
theorem C03_diff_text_roundtrip (f : DiffText.Fmt) (d : List DiffText.SItem)
    (hf : DiffText.FmtOK f) (hd : DiffText.RowsOK f d) :
    DiffText.parseSigned f (DiffText.diffText f d) = some d :=
  DiffText.diff_text_roundtrip f d hf hd

/-- The same for the STRICT reader (`Spec/DiffTextStrict.lean`, the twin of the harness's reader), which also requires every
block-end line (`}`) to close a block of its own sign and level: the text is well nested on the old and on the new side.
(The lenient reader accepts a closing line of any sign; kernel-checked example in `Lemmas/DiffTextStrict.lean`.) -/
theorem C03_diff_text_roundtrip_strict (f : DiffText.Fmt) (d : List DiffText.SItem)
    (hf : DiffText.FmtOK f) (hd : DiffText.RowsOK f d) :
    DiffText.parseSignedStrict f (DiffText.diffText f d) = some d :=
  DiffText.diff_text_roundtrip_strict f d hf hd

/-- Hence two diffs with the same text are the same diff (signs, rows, nesting). -/
theorem C03_diff_text_injective (f : DiffText.Fmt) (d1 d2 : List DiffText.SItem) (hf : DiffText.FmtOK f)
    (h1 : DiffText.RowsOK f d1) (h2 : DiffText.RowsOK f d2)
    (h : DiffText.diffText f d1 = DiffText.diffText f d2) : d1 = d2 :=
  DiffText.diff_text_injective f d1 d2 hf h1 h2 h

/-- What is printed is a stripped diff, and a stripped diff has a sign for every entry at every depth
(`sign_map[flag]` cannot raise). -/
theorem C03_stripped_diff_has_text (d : List DItem) :
    ∃ s, DiffText.signedList (stripUnchanged d) = some s :=
  DiffText.stripped_has_signs d

/-- The `annet diff` view: reading `gen_pre_as_diff(make_pre(d))` back gives the entries of `d`, per level as a
multiset (`make_pre` regroups the entries by rule and key, the printer by operation), for every indent of `k > 0`
blanks and rows that do not begin with a blank. -/
theorem C03_pre_text_roundtrip (k : Nat) (hk : 0 < k) (d : List DItem) (s : List DiffText.SItem)
    (hs : DiffText.signedList d = some s) (hb : DiffText.NoLeadBlank s) :
    ∃ p, DiffText.parsePre k (DiffText.preText (List.replicate k ' ') d) = some p ∧ DiffText.SPermv p s :=
  DiffText.pre_text_roundtrip k hk d s hs hb

/-- For the shipped formatter shapes the side condition is just "no row begins with a blank" (configuration rows
never do: the parsers strip them): formatters without marks (indent of blanks) and the Junos-like one. -/
theorem C03_text_rows_ok_shipped_formatters (d : List DiffText.SItem) (h : DiffText.NoLeadBlank d) :
    (DiffText.FmtOK DiffText.plainFmt ∧ DiffText.RowsOK DiffText.plainFmt d) ∧
    (DiffText.FmtOK DiffText.junosFmt ∧ DiffText.RowsOK DiffText.junosFmt d) :=
  ⟨⟨DiffText.fmtOK_plain, DiffText.rowsOK_plain d h⟩, ⟨DiffText.fmtOK_junos, DiffText.rowsOK_junos d h⟩⟩

/-! ### full-strength readings that are false of the code (recorded findings F03a, F03b) -/

private def m0 : PMatch := { rawRule := "x *  %ordered", key := [], attrs :=
  { row := "x *", logic := "common.ordered", diffLogic := "common.ordered_diff", parent := false, forceCommit := false } }
private def lvl (rows : List String) : Level := rows.map fun r => (r, m0, ACfg.mk [])
private def ops (r : Except Err (List DItem)) : List (String × String) :=
  match r with
  | .ok d => d.map fun i => (i.op.name, i.row)
  | .error _ => []

/-- F03a: "MOVED iff its relative order changed" fails: `[a,b,c] → [b,a,c]` reports `c` as MOVED. -/
theorem C03_moved_iff_relative_order_false :
    ops (callDiffLogic 3 [.op .affected] (lvl ["x a", "x b", "x c"]) (lvl ["x b", "x a", "x c"]))
      = [("moved", "x b"), ("moved", "x a"), ("moved", "x c")] := by decide

/-- F03b: the old order is not recoverable: `[a,b,c] → [c,a]`, dropping added lines gives `[c,a,b]`. -/
theorem C03_proj_old_order_false :
    (ops (callDiffLogic 3 [.op .affected] (lvl ["x a", "x b", "x c"]) (lvl ["x c", "x a"]))).map (·.2)
      = ["x c", "x a", "x b"] := by decide

/-- Non-vacuity: a default-logic group with an addition, a removal and a common row. -/
example : ops (baseDiff (callDiffLogic 2) [.op .affected] true (lvl ["x a", "x b"]) (lvl ["x b", "x c"]))
    = [("affected", "x b"), ("removed", "x a"), ("added", "x c")] := by decide

/-! ### several devices: `collapse_diffs` (annet/diff.py), the grouping behind `annet diff` and the deploy confirmation -/

/-- Every device is shown in exactly one group: the device names of all groups, concatenated, are the device names
given, up to order. -/
theorem C03_collapse_partition {δ : Type} (es : List (Collapse.Entry δ)) :
    ((Collapse.collapse es).flatMap (·.1)).Perm (es.map (·.dev)) :=
  Collapse.collapse_devices_perm es

/-- What is shown for a group is the diff of one of its members, and every member of the group has the same
(transformed) text as that member. -/
theorem C03_collapse_group_same_text {δ : Type} (es : List (Collapse.Entry δ)) :
    ∀ p ∈ Collapse.collapse es, ∃ g ∈ Collapse.groups es, ∃ r ∈ g,
      p.1 = g.map (·.dev) ∧ p.2 = r.diff ∧ ∀ x ∈ g, x.key = r.key :=
  Collapse.collapse_group_spec es

/-- Groups are maximal runs of the sorted list: neighbouring groups differ in text. -/
theorem C03_collapse_runs_maximal {δ : Type} (l : List (Collapse.Entry δ)) :
    ∀ i (h : i + 1 < (Collapse.groupRuns l).length),
      ∀ x ∈ ((Collapse.groupRuns l)[i]'(by omega)).getLast?, ∀ y ∈ ((Collapse.groupRuns l)[i + 1]'h).head?, x.key ≠ y.key :=
  Collapse.groupRuns_maximal l

/-- FAITHFULNESS of the collapsed view: when the text compared is the rendered diff itself (no line masked by
`_transform_text_diff_for_collapsing`; the harness checks on the real code that only `snmp-agent … cipher` lines are
changed by it), every device of a group has exactly the diff that is shown for the group — same entries, same signs,
same nesting.  Combines the grouping lemmas with `C03_diff_text_injective`. -/
theorem C03_collapse_faithful (f : DiffText.Fmt) (hf : DiffText.FmtOK f) (es : List (Collapse.Entry (List DiffText.SItem)))
    (hk : ∀ e ∈ es, e.key = DiffText.diffText f e.diff ∧ DiffText.RowsOK f e.diff) :
    ∀ p ∈ Collapse.collapse es, ∃ g ∈ Collapse.groups es, p.1 = g.map (·.dev) ∧ ∀ x ∈ g, x ∈ es ∧ x.diff = p.2 :=
  Collapse.collapse_faithful f hf es hk

/-- Non-vacuity: three devices, two with the same text; the model groups them and shows the first one's diff. -/
example :
    let e (d v : String) (i : Nat) (k : List String) : Collapse.Entry Nat := ⟨d.toList, v.toList, i, k.map String.toList⟩
    (Collapse.collapse [e "sw3" "huawei" 0 ["+ a", "+  b"], e "sw1" "huawei" 1 ["+ a", "+ b"], e "sw2" "huawei" 2 ["+ a", "+  b"]]).map
        (fun p => (p.1.map String.ofList, p.2)) = [(["sw3", "sw2"], 0), (["sw1"], 1)] := by
  decide


end Annet.Diff

/-! ### `%multiline` rules: `common.multiline_diff` (Model/Multiline.lean), the shipped Huawei rule
`*/[rd]sa/ peer-public-key * %multiline`

`multilineDiffFixed` is the code as it is (since the repair 870061c: skip rule `row in old and row in new and
old[row] == new[row]`); `multilineDiff` is the code as it was before (old rule `old.get(row, {}) == new.get(row, {})`), kept so
that the defect F03d stays a kernel-checked witness of the old rule.  `old` / `new` are the rows of one
group of sibling `%multiline` rows at the top level; `none` would be the `KeyError` of `tree[item.row]`. -/

namespace Annet.Multiline
open Annet
open Annet.Diff (Op)

private def k1 : String := "rsa peer-public-key K1"
private def k2 : String := "rsa peer-public-key K2"
private def k3 : String := "dsa peer-public-key K3"
private def body (hex : String) : Cfg :=
  .mk [("public-key-code begin", .mk [(hex, .mk [])]), ("public-key-code end", .mk []), ("peer-public-key end", .mk [])]

/-- `tree[item.row]` never raises `KeyError`, for either skip rule, any rows, any depth. -/
theorem C03_multiline_total (rule : Rule) (old new : Level) : ∃ d, multilineDiffWith rule old new = some d :=
  total rule old new

/-- (a) The old rule (before 870061c): a row has an entry iff it is in `old` or in `new` and `old.get(row, {}) ≠ new.get(row, {})`;
the entry is REMOVED iff the row is not in `new`, ADDED iff it is not in `old`, AFFECTED iff it is in both.  (No
uniqueness hypothesis is needed: `in` and `[]` both read the first binding.) -/
theorem C03_multiline_entry_iff (old new : Level) (d : List MItem) (h : multilineDiff old new = some d) :
    (∀ r, (∃ i ∈ d, i.row = r) ↔
      ((Cfg.hasKey old r = true ∨ Cfg.hasKey new r = true) ∧ sub old r ≠ sub new r)) ∧
    (∀ i ∈ d, (i.op = .removed ↔ Cfg.hasKey new i.row = false) ∧
              (i.op = .added ↔ Cfg.hasKey old i.row = false) ∧
              (i.op = .affected ↔ (Cfg.hasKey old i.row = true ∧ Cfg.hasKey new i.row = true))) :=
  ⟨fun r => by rw [entry_iff_with .head old new d h r, skip_head],
   fun i hi => let ⟨a, b, c, _⟩ := entry_op .head old new d h i hi; ⟨a, b, c⟩⟩

/-- Non-vacuity: a removed, a changed, an unchanged and an added block. -/
example : (multilineDiff [(k1, body "AA"), (k2, body "BB"), (k3, body "CC")]
                         [(k3, body "CC"), (k2, body "BD"), ("rsa peer-public-key K4", body "EE")]).map
    (fun d => d.map (fun i => (i.op.name, i.row))) =
    some [("removed", "rsa peer-public-key K1"), ("affected", "rsa peer-public-key K2"),
          ("added", "rsa peer-public-key K4")] := by decide

/-- (b) The children of an entry are the WHOLE subtree of the row — of `new` (every descendant ADDED) unless the entry
is REMOVED, then of `old` (every descendant REMOVED): same paths at every depth, one op. -/
theorem C03_multiline_children_lossless (old new : Level) (d : List MItem) (h : multilineDiff old new = some d)
    (i : MItem) (hi : i ∈ d) :
    (i.op ≠ .removed → ∃ t, Cfg.lookup new i.row = some t ∧ i.children = processMultiline .added t ∧
        mpaths i.children = Cfg.paths t ∧ allOp .added i.children = true) ∧
    (i.op = .removed → ∃ t, Cfg.lookup old i.row = some t ∧ i.children = processMultiline .removed t ∧
        mpaths i.children = Cfg.paths t ∧ allOp .removed i.children = true) := by
  obtain ⟨h1, h2⟩ := entry_children .head old new d h i hi
  constructor
  · intro hne
    obtain ⟨t, ht, hc⟩ := h2 hne
    exact ⟨t, ht, hc, by rw [hc, mpaths_process], by rw [hc, allOp_process]⟩
  · intro he
    obtain ⟨t, ht, hc⟩ := h1 he
    exact ⟨t, ht, hc, by rw [hc, mpaths_process], by rw [hc, allOp_process]⟩

/-- Non-vacuity: the changed block carries the new body, two levels deep, all ADDED. -/
example : (multilineDiff [(k1, body "AA")] [(k1, body "AB")]).map flat =
    some [("affected", ["rsa peer-public-key K1"]),
          ("added", ["rsa peer-public-key K1", "public-key-code begin"]),
          ("added", ["rsa peer-public-key K1", "public-key-code begin", "AB"]),
          ("added", ["rsa peer-public-key K1", "public-key-code end"]),
          ("added", ["rsa peer-public-key K1", "peer-public-key end"])] := by decide

/-- (c) `_partial` form of "every block present in exactly one configuration is reported": true of the old rule
when the block has at least one row below its header. -/
theorem C03_multiline_reports_nonempty_changes_partial (old new : Level) (d : List MItem)
    (h : multilineDiff old new = some d) (r : String) (t : Cfg) (hne : t.kids ≠ []) :
    (Cfg.lookup old r = some t → Cfg.hasKey new r = false → ∃ i ∈ d, i.row = r ∧ i.op = .removed) ∧
    (Cfg.lookup new r = some t → Cfg.hasKey old r = false → ∃ i ∈ d, i.row = r ∧ i.op = .added) := by
  have hte : t ≠ Cfg.empty := by
    intro he; rw [he] at hne; exact hne rfl
  constructor
  · intro ho hn
    have hs : sub old r ≠ sub new r := by
      simp only [sub, ho, lookup_none_of_not_hasKey hn, Option.getD_some, Option.getD_none]; exact hte
    obtain ⟨i, hi, hr⟩ := (entry_iff_with .head old new d h r).2 ⟨Or.inl (hasKey_of_lookup ho), (skip_head ..).2 hs⟩
    exact ⟨i, hi, hr, (entry_op .head old new d h i hi).1.2 (hr ▸ hn)⟩
  · intro hn ho
    have hs : sub old r ≠ sub new r := by
      simp only [sub, hn, lookup_none_of_not_hasKey ho, Option.getD_some, Option.getD_none]; exact fun e => hte e.symm
    obtain ⟨i, hi, hr⟩ := (entry_iff_with .head old new d h r).2 ⟨Or.inr (hasKey_of_lookup hn), (skip_head ..).2 hs⟩
    exact ⟨i, hi, hr, (entry_op .head old new d h i hi).2.1.2 (hr ▸ ho)⟩

/-- Non-vacuity: a block with a body, only in `old`. -/
example : (multilineDiff [(k1, body "AA")] []).map (fun d => d.map (fun i => (i.op.name, i.row))) =
    some [("removed", "rsa peer-public-key K1")] := by decide

/-- F03d: the full-strength statement is FALSE of the old rule (before 870061c): a block without rows below its header that is only
in `old` gets no entry (`odict() == {}`); likewise only in `new`. -/
theorem C03_multiline_empty_block_false :
    (multilineDiff [("rsa peer-public-key K1", .mk [])] []).map flat = some [] ∧
    (multilineDiff [] [("rsa peer-public-key K1", .mk [])]).map flat = some [] := by decide

/-- F03e: "a block present in both with different bodies is reported" is FALSE of `make_diff` when the new body is empty:
the entry is AFFECTED without children, `mark_unchanged` turns it UNCHANGED, `strip_unchanged` drops it. -/
theorem C03_multiline_body_emptied_false :
    (multilineDiff [("rsa peer-public-key K1", .mk [("peer-public-key end", .mk [])])]
                   [("rsa peer-public-key K1", .mk [])]).map (fun d => (flat d, flat (reported d))) =
      some ([("affected", ["rsa peer-public-key K1"])], []) := by decide

/-- F03e is untouched by the repair 870061c: the same witness for the code as it is. -/
theorem C03_multiline_body_emptied_false_fixed :
    (multilineDiffFixed [("rsa peer-public-key K1", .mk [("peer-public-key end", .mk [])])]
                        [("rsa peer-public-key K1", .mk [])]).map (fun d => (flat d, flat (reported d))) =
      some ([("affected", ["rsa peer-public-key K1"])], []) := by decide

/-- (d) Unchanged rows produce no entry. -/
theorem C03_multiline_self_diff_empty (t : Level) : multilineDiff t t = some [] := self_empty .head t

/-! #### the same for the code as it is (after the repair 870061c) -/

/-- (a), repaired: a row has an entry iff it is in `old` or `new` and NOT (in both with equal subtrees); ops as before. -/
theorem C03_multiline_entry_iff_fixed (old new : Level) (d : List MItem) (h : multilineDiffFixed old new = some d) :
    (∀ r, (∃ i ∈ d, i.row = r) ↔
      ((Cfg.hasKey old r = true ∨ Cfg.hasKey new r = true) ∧
        ¬ ∃ a b, Cfg.lookup old r = some a ∧ Cfg.lookup new r = some b ∧ a = b)) ∧
    (∀ i ∈ d, (i.op = .removed ↔ Cfg.hasKey new i.row = false) ∧
              (i.op = .added ↔ Cfg.hasKey old i.row = false) ∧
              (i.op = .affected ↔ (Cfg.hasKey old i.row = true ∧ Cfg.hasKey new i.row = true))) :=
  ⟨fun r => by rw [entry_iff_with .fixed old new d h r, skip_fixed],
   fun i hi => let ⟨a, b, c, _⟩ := entry_op .fixed old new d h i hi; ⟨a, b, c⟩⟩

/-- (b), repaired. -/
theorem C03_multiline_children_lossless_fixed (old new : Level) (d : List MItem)
    (h : multilineDiffFixed old new = some d) (i : MItem) (hi : i ∈ d) :
    (i.op ≠ .removed → ∃ t, Cfg.lookup new i.row = some t ∧ i.children = processMultiline .added t ∧
        mpaths i.children = Cfg.paths t ∧ allOp .added i.children = true) ∧
    (i.op = .removed → ∃ t, Cfg.lookup old i.row = some t ∧ i.children = processMultiline .removed t ∧
        mpaths i.children = Cfg.paths t ∧ allOp .removed i.children = true) := by
  obtain ⟨h1, h2⟩ := entry_children .fixed old new d h i hi
  constructor
  · intro hne
    obtain ⟨t, ht, hc⟩ := h2 hne
    exact ⟨t, ht, hc, by rw [hc, mpaths_process], by rw [hc, allOp_process]⟩
  · intro he
    obtain ⟨t, ht, hc⟩ := h1 he
    exact ⟨t, ht, hc, by rw [hc, mpaths_process], by rw [hc, allOp_process]⟩

/-- FULL strength, repaired: every row present in exactly one configuration is reported with that op and its whole
subtree — empty body or not. -/
theorem C03_multiline_reports_all_fixed (old new : Level) (d : List MItem)
    (h : multilineDiffFixed old new = some d) (r : String) :
    (Cfg.hasKey old r = true → Cfg.hasKey new r = false → ∃ i ∈ d, i.row = r ∧ i.op = .removed) ∧
    (Cfg.hasKey new r = true → Cfg.hasKey old r = false → ∃ i ∈ d, i.row = r ∧ i.op = .added) := by
  constructor
  · intro ho hn
    have hs : skip .fixed old new r = false := (skip_fixed ..).2 (by
      rintro ⟨a, b, _, hb, _⟩; rw [lookup_none_of_not_hasKey hn] at hb; cases hb)
    obtain ⟨i, hi, hr⟩ := (entry_iff_with .fixed old new d h r).2 ⟨Or.inl ho, hs⟩
    exact ⟨i, hi, hr, (entry_op .fixed old new d h i hi).1.2 (hr ▸ hn)⟩
  · intro hn ho
    have hs : skip .fixed old new r = false := (skip_fixed ..).2 (by
      rintro ⟨a, b, ha, _, _⟩; rw [lookup_none_of_not_hasKey ho] at ha; cases ha)
    obtain ⟨i, hi, hr⟩ := (entry_iff_with .fixed old new d h r).2 ⟨Or.inr hn, hs⟩
    exact ⟨i, hi, hr, (entry_op .fixed old new d h i hi).2.1.2 (hr ▸ ho)⟩

/-- The witness of F03d under the repaired rule: the empty block is reported, on either side. -/
theorem C03_multiline_empty_block_reported_fixed :
    (multilineDiffFixed [("rsa peer-public-key K1", .mk [])] []).map flat =
      some [("removed", ["rsa peer-public-key K1"])] ∧
    (multilineDiffFixed [] [("rsa peer-public-key K1", .mk [])]).map flat =
      some [("added", ["rsa peer-public-key K1"])] := by decide

/-- (d), repaired. -/
theorem C03_multiline_self_diff_empty_fixed (t : Level) : multilineDiffFixed t t = some [] := self_empty .fixed t

end Annet.Multiline
