/-
C17 — Implicit defaults never override explicit config and never cause commands alone.

Model: `Model/Implicit.lean` (`config` = `implicit.config`, `merge` = `merge_dicts` on config trees,
`complete` = the completion done in `annet/gen.py`), after the repair 387ab6b (a missing default block
is added together with the defaults inside it).
Property theorems only; proofs of the lemmas are in `Lemmas/Implicit.lean`.
-/
import AnnetModel.Lemmas.Implicit
import AnnetModel.Lemmas.ImplicitDiff

/-! OBLIGATIONS
Annet.Implicit.C17_keeps_explicit
Annet.Implicit.C17_merge_keeps_left
Annet.Implicit.C17_merge_self
Annet.Implicit.C17_default_iff
Annet.Implicit.C17_ignore_adds_nothing_new
Annet.Implicit.C17_idempotent
Annet.Implicit.C17_same_default_both_sides
Annet.Implicit.C17_default_never_added_or_removed
-/

namespace Annet.Implicit
open Annet.Implicit.Spec

/-- Completion keeps every explicit line, in order, at every depth. -/
theorem C17_keeps_explicit (rules : List IRule) (t m : Cfg) (h : complete rules t = some m) :
    Annet.Acl.Spec.Sub t m :=
  Lemmas.keeps_explicit rules t m h

theorem C17_merge_keeps_left (a b : Cfg) : Annet.Acl.Spec.Sub a (merge a b) :=
  Lemmas.merge_keeps_left a b

/-- `merge_dicts(t, t) = t` (so the equality shortcut of `merge_dicts` changes nothing). -/
theorem C17_merge_self (t : Cfg) (h : NoDupKeys t) : merge t t = t :=
  Lemmas.merge_self t h

/-- A default line is present after completion iff it was explicit, or no line of the same kind is
present at that place. -/
theorem C17_default_iff (rules : List IRule) (t m : Cfg) (h : complete rules t = some m) (hd : RowsDistinct rules)
    (r : IRule) (hr : r ∈ rules) (hi : r.ignore = false) :
    hasKey m r.row = (hasKey t r.row || !hasLineOfKind r t) :=
  Lemmas.default_iff rules t m h hd r hr hi

/-- `!`-rules only descend: they never add a line at their own level. -/
theorem C17_ignore_adds_nothing_new (rules : List IRule) (t m : Cfg) (h : complete rules t = some m)
    (hall : ∀ r ∈ rules, r.ignore = true) (k : String) : hasKey m k = hasKey t k :=
  Lemmas.ignore_adds_nothing_new rules t m h hall k

/-- Completion is idempotent for rule sets whose sibling rules have disjoint languages (all shipped ones).
STATEMENT CHANGED w.r.t. the first draft: two extra, decidable hypotheses (defined in `Lemmas/Implicit.lean`):
`DeepDistinct rules` — sibling rows distinct at every level (`RowsDistinct` is only the top level; without it the
statement is false: `[t {a {x}, !a {y}}]` on the empty tree, counterexample checked in `Lemmas/Implicit.lean`);
`SelfMatch rules` — every rule row is a line of its own language (fails only for `(?i)` rows), so that the
default line added by a rule is recognised by that rule, and by `Disjoint` by no other, on the second run.
Not covered: rule sets with `(?i)` rows. -/
theorem C17_idempotent (rules : List IRule) (t m : Cfg) (h : complete rules t = some m)
    (hnd : NoDupKeys t) (hd : RowsDistinct rules) (hdis : Disjoint rules)
    (hdd : Lemmas.DeepDistinct rules) (hsm : Lemmas.SelfMatch rules) :
    complete rules m = some m :=
  Lemmas.complete_idempotent rules t m h hnd hd hdis hdd hsm

/-- Old and new are completed the same way: a default that is explicit in neither, where neither has a
line of its kind at that place, is present in both completions — hence (C03_ops_exact) it is never
reported added or removed and yields no command.  Without the "no line of its kind" hypothesis the
statement is false by design (recorded finding F17a). -/
theorem C17_same_default_both_sides (rules : List IRule) (t u mt mu : Cfg)
    (ht : complete rules t = some mt) (hu : complete rules u = some mu) (hd : RowsDistinct rules)
    (r : IRule) (hr : r ∈ rules) (hi : r.ignore = false)
    (hkt : hasLineOfKind r t = false) (hku : hasLineOfKind r u = false) :
    hasKey mt r.row = true ∧ hasKey mu r.row = true := by
  constructor
  · rw [C17_default_iff rules t mt ht hd r hr hi, hkt]; simp
  · rw [C17_default_iff rules u mu hu hd r hr hi, hku]; simp

/-- THE PATCH CLAUSE, through the diff model: a default that is explicit in neither configuration, where neither has a line
of its kind, is present in both completions — hence `make_diff` of the completed configurations, with whatever patching
rulebook, reports it neither ADDED nor REMOVED at the top level, so it yields no command (C02_patch_provenance: commands
stem from changed entries).  Combines `C17_same_default_both_sides` with `C03_make_diff_ops_exact`. -/
theorem C17_default_never_added_or_removed (rules : List IRule) (t u mt mu : Cfg)
    (ht : complete rules t = some mt) (hu : complete rules u = some mu) (hd : RowsDistinct rules)
    (r : IRule) (hr : r ∈ rules) (hi : r.ignore = false)
    (hkt : hasLineOfKind r t = false) (hku : hasLineOfKind r u = false)
    (prules : Rules.PRules) (ao an : Diff.ACfg) (d : List Diff.DItem)
    (ha : Diff.annotate prules mt = .ok ao) (hn : Diff.annotate prules mu = .ok an)
    (hdo : Diff.Spec.NoDupRows ao) (hdn : Diff.Spec.NoDupRows an)
    (h : Diff.makeDiff prules mt mu = .ok d) :
    ∀ i ∈ d, i.row = r.row → i.op ≠ .added ∧ i.op ≠ .removed :=
  Lemmas.default_never_added_or_removed rules t u mt mu ht hu hd r hr hi hkt hku prules ao an d ha hn hdo hdn h

/-- Non-vacuity (Huawei NE fragment): `aaa` comes with its default child; an explicit different value wins. -/
example :
    let rules : List IRule := [.mk "user-interface con *" true [.mk "user privilege level 3" false []],
                               .mk "aaa" false [.mk "undo user-password complexity-check" false []], .mk "netconf" false []]
    let t : Cfg := .mk [("user-interface con 0", .mk [("user privilege level 3 idle", .mk [])]), ("netconf", .mk [])]
    (complete rules t).map Cfg.paths = some [["user-interface con 0"], ["user-interface con 0", "user privilege level 3 idle"],
      ["netconf"], ["aaa"], ["aaa", "undo user-password complexity-check"]] := by
  decide

/-- The two extra hypotheses of `C17_idempotent` are checked by evaluation on a concrete rule set. -/
example :
    let rules : List IRule := [.mk "user-interface con *" true [.mk "user privilege level 3" false []],
                               .mk "aaa" false [.mk "undo user-password complexity-check" false []], .mk "netconf" false []]
    Lemmas.DeepDistinct rules ∧ Lemmas.SelfMatch rules := by
  decide

end Annet.Implicit
