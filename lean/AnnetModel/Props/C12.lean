/-
C12 — The worker pool returns exactly one result per submitted device.

Property theorems only; helper lemmas live in `Lemmas/Pool*.lean`, the transition
system in `Model/Pool.lean`, the specification-side definitions (`Reach`,
`ExactlyOnce`, `Run`, `WeaklyFair`, …) in `Spec/Pool.lean`.

Status of the full statement `ExactlyOnce c` ("every terminal state reachable by any
schedule has delivered = submitted") for the code at HEAD (`rule = .head`):
FALSE, with three machine-checked witnesses
  * `C12_exactly_once_false_race`        a result reaches the pipe between a timed-out
                                         `get` and `_check_children` (genuine race);
  * `C12_exactly_once_false_abort`       `tolerate_fails = False` aborts (by design);
  * `C12_exactly_once_false_unpicklable` an exception whose class cannot be pickled is
                                         dropped by the queue feeder (genuine defect);
and PROVED
  * `C12_exactly_once_partial`  for HEAD, for every schedule that has no flush inside that
                                window, tolerant and picklable outcomes;
  * `C12_exactly_once_patched`  for every schedule, with the proposed loop-exit rule.
`C12_loss_witness_old` shows that the rule before commit a315bab lost results even
without the race (slow consumer only).
-/
import AnnetModel.Lemmas.PoolLive

/-! OBLIGATIONS
Annet.Pool.C12_conservation
Annet.Pool.C12_payload
Annet.Pool.C12_stop_after_ids
Annet.Pool.C12_loss_witness_old
Annet.Pool.C12_exactly_once_false_race
Annet.Pool.C12_exactly_once_false_abort
Annet.Pool.C12_exactly_once_false_unpicklable
Annet.Pool.C12_exactly_once_partial
Annet.Pool.C12_exactly_once_patched
Annet.Pool.C12_single_exact
Annet.Pool.C12_run_partition
Annet.Pool.C12_no_deadlock
Annet.Pool.C12_terminates
-/

namespace Annet.Pool

/-- Conservation (any rule, any schedule, tasks that raise included): in every reachable
state the submitted results are exactly the delivered ones plus those in flight (taken
by the parent but not yet yielded, in the pipe, in a feeder buffer, being computed, or
still queued as a task) plus those a feeder thread dropped. -/
theorem C12_conservation (c : Cfg) (s : State) (h : Reach c s) :
    c.submitted.Perm (s.delivered ++ inflight c s ++ s.dropped) :=
  (inv_reach h).cons

/-- Every delivered result belongs to a submitted id and carries the value (or the
exception) the task computed for that id; `tasks_done` counts the delivered results. -/
theorem C12_payload (c : Cfg) (s : State) (h : Reach c s) :
    (∀ r ∈ s.delivered, r.id ∈ c.ids ∧ r.out = c.out r.id) ∧ s.tasksDone = s.delivered.length := by
  refine ⟨?_, (inv_reach h).count⟩
  intro r hr
  obtain ⟨id, hid, rfl⟩ := (inv_reach h).mem_sub (r := r) (by simp [hr])
  exact ⟨hid, rfl⟩

/-- The task queue always is "remaining ids, then STOPs"; a worker that receives STOP
leaves no id behind; and the STOPs still queued are in bijection with the slots whose
current process has not consumed one - across retirement (exit code 9) and restart. -/
theorem C12_stop_after_ids (c : Cfg) (s : State) (h : Reach c s) :
    s.taskQ = (taskIds s.taskQ).map Task.invoke ++ List.replicate (stops s.taskQ) Task.stop ∧
    stops s.taskQ = s.ws.countP (fun w => w.st.live) ∧
    (∀ w s', step c s (.take w) = some s' → s.taskQ.head? = some .stop → taskIds s.taskQ = []) := by
  have hi := inv_reach h
  refine ⟨hi.shape, hi.stopsLive, ?_⟩
  intro w s' _ hhead
  cases hq : s.taskQ with
  | nil => simp [hq] at hhead
  | cons t q =>
    simp [hq] at hhead
    subst hhead
    rw [← hq]
    exact taskQ_head_stop hi.shape hq

/-! ### Witnesses that the full statement is false -/

/-- Two ids, two workers, quota 25. -/
def cfgW (rule : ExitRule) (tol : Bool) (out : Id → Out) : Cfg :=
  { ids := [0, 1], out := out, parallel := 2, maxTasks := 25, tolerate := tol, rule := rule }

def okOut : Id → Out := fun i => .ok (Int.ofNat i)

/-- Slow consumer: both workers finish, flush and exit before the parent's first `get`.
No flush happens inside the race window. -/
def schedOld : List Ev :=
  [.take 0, .take 1, .finish 0, .finish 1, .flush 0, .flush 1, .take 0, .take 1, .exit 0, .exit 1,
   .parent, .parent, .parent, .parent, .parent]

/-- The loop-exit rule before commit a315bab (`if not pool: break`) loses a result under a
schedule that needs no race at all: one result delivered, the other left in the pipe. -/
theorem C12_loss_witness_old :
    ¬ (∀ s, ReachNoRace (cfgW .old true okOut) s → s.terminal = true →
        s.delivered.Perm (cfgW .old true okOut).submitted) := by
  intro h
  have hrun : ((runSchedNR (cfgW .old true okOut) (init (cfgW .old true okOut)) schedOld).map
      fun s => (s.terminal, s.delivered.length)) = some (true, 1) := by decide
  cases hs : runSchedNR (cfgW .old true okOut) (init (cfgW .old true okOut)) schedOld with
  | none => simp [hs] at hrun
  | some s =>
    simp [hs] at hrun
    have := (h s (reachNR_run .init hs) hrun.1).length_eq
    simp [hrun.2, Cfg.submitted, cfgW] at this

/-- HEAD: the `get` times out, then both results are flushed and both workers exit before
`_check_children` reads their exit codes; the loop is left with `queue_empty = True`. -/
def schedRace : List Ev :=
  [.take 0, .take 1, .finish 0, .finish 1, .take 0, .take 1,
   .parent,                                   -- get: queue.Empty
   .flush 0, .flush 1, .exit 0, .exit 1,      -- results reach the pipe, workers exit
   .parent, .parent, .parent, .parent]        -- read 0, read 1, end of scan, loop-exit test: break

theorem C12_exactly_once_false_race : ¬ ExactlyOnce (cfgW .head true okOut) := by
  intro h
  have hrun : ((runSched (cfgW .head true okOut) (init (cfgW .head true okOut)) schedRace).map
      fun s => (s.terminal, s.delivered.length, s.doneQ.length)) = some (true, 0, 2) := by decide
  cases hs : runSched (cfgW .head true okOut) (init (cfgW .head true okOut)) schedRace with
  | none => simp [hs] at hrun
  | some s =>
    simp [hs] at hrun
    have := (h s (reach_run .init hs) hrun.1).length_eq
    simp [hrun.2.1, Cfg.submitted, cfgW] at this

/-- Task 0 raises (exception tag 1, picklable). -/
def excOut : Id → Out := fun i => if i = 0 then .exc 1 true else .ok (Int.ofNat i)

def schedAbort : List Ev :=
  [.take 0, .finish 0, .flush 0, .parent, .parent, .parent, .parent, .parent]

/-- `tolerate_fails = False`: the first failed task aborts the run - by design; holds for
every exit rule (here the proposed one). -/
theorem C12_exactly_once_false_abort : ¬ ExactlyOnce (cfgW .drained false excOut) := by
  intro h
  have hrun : ((runSched (cfgW .drained false excOut) (init (cfgW .drained false excOut)) schedAbort).map
      fun s => (s.terminal, s.pc.isAborted, s.delivered.length)) = some (true, true, 0) := by decide
  cases hs : runSched (cfgW .drained false excOut) (init (cfgW .drained false excOut)) schedAbort with
  | none => simp [hs] at hrun
  | some s =>
    simp [hs] at hrun
    have := (h s (reach_run .init hs) hrun.1).length_eq
    simp [hrun.2.2, Cfg.submitted, cfgW] at this

/-- Task 0 raises an exception whose class cannot be pickled. -/
def unsendableOut : Id → Out := fun i => if i = 0 then .exc 4 false else .ok (Int.ofNat i)

/-- Worker 0 runs both tasks and receives its STOP before its feeder thread has sent anything;
the feeder then meets the unpicklable result while the process is exiting, and ends. -/
def schedUnsendable : List Ev :=
  [.take 0, .finish 0, .take 0, .finish 0, .take 0, .feederDie 0, .exit 0, .take 1, .exit 1,
   .parent, .parent, .parent, .parent, .parent, .parent, .parent, .parent, .parent]

/-- An outcome that cannot be pickled is dropped by the worker's queue feeder, and when the
worker is already exiting everything buffered behind it is lost as well: here NEITHER id gets
an outcome although `tolerate_fails` is true and id 1 succeeded - for every exit rule (here
the proposed one). -/
theorem C12_exactly_once_false_unpicklable : ¬ ExactlyOnce (cfgW .drained true unsendableOut) := by
  intro h
  have hrun : ((runSched (cfgW .drained true unsendableOut) (init (cfgW .drained true unsendableOut))
      schedUnsendable).map fun s => (s.terminal, s.delivered.length, s.dropped.map (·.id))) =
        some (true, 0, [0, 1]) := by
    decide
  cases hs : runSched (cfgW .drained true unsendableOut) (init (cfgW .drained true unsendableOut))
      schedUnsendable with
  | none => simp [hs] at hrun
  | some s =>
    simp [hs] at hrun
    have := (h s (reach_run .init hs) hrun.1).length_eq
    simp [hrun.2.1, Cfg.submitted, cfgW] at this

/-! ### What is true -/

/-- HEAD (`if not pool and (queue_empty or tasks_done >= len(device_ids))`): if no failed task
aborts the run, every outcome can be pickled and the pool size is positive, then every
terminal state reached by a schedule in which no result reaches the pipe between a
timed-out `get` and the loop-exit test of the same iteration has delivered exactly the
submitted results.  Any number of ids, workers, quota; retirement and restart, slow
consumers and raising tasks included. -/
theorem C12_exactly_once_partial (c : Cfg) (hrule : c.rule = .head) (hpar : 0 < c.parallel)
    (htol : Tolerant c) (hsend : Sendable c) (s : State) (hr : ReachNoRace c s)
    (ht : s.terminal = true) : s.delivered.Perm c.submitted :=
  exactly_once_head_norace hrule hpar htol hsend hr ht

/-- With the proposed loop-exit rule (`ExitRule.drained`: leave on a timed-out `get` only
when the pool had already been found empty in an earlier iteration) the full statement
holds for EVERY schedule. -/
theorem C12_exactly_once_patched (c : Cfg) (hrule : c.rule = .drained) (hpar : 0 < c.parallel)
    (htol : Tolerant c) (hsend : Sendable c) : ExactlyOnce c :=
  exactly_once_drained hrule hpar htol hsend

/-- `pool_size == 1` (one id, or `parallel = 1`): results come in submission order, up to
the first failure that aborts; nothing aborts under `Tolerant`. -/
theorem C12_single_exact (c : Cfg) :
    single c c.ids = ((c.ids.takeWhile fun id => !c.fatal id).map c.res, c.ids.any c.fatal) ∧
    (Tolerant c → single c c.ids = (c.submitted, false)) :=
  ⟨single_spec c c.ids, single_tolerant c⟩

/-- `Parallel.run` on exactly-once results with distinct ids: the keys of the success and
fail dictionaries partition the submitted ids, every id is filed under its own outcome, and
`strict_error_code` raises exactly when some id failed. -/
theorem C12_run_partition (c : Cfg) (rs : List Res) (hp : rs.Perm c.submitted) (hnd : c.ids.Nodup)
    (strict : Bool) :
    run rs strict =
      (if strict && !(rs.filterMap excOf).isEmpty then .runtimeError (rs.filterMap excOf).length
       else .ok (rs.filterMap okOf) (rs.filterMap excOf)) ∧
    ((rs.filterMap okOf).map Prod.fst ++ (rs.filterMap excOf).map Prod.fst).Perm c.ids ∧
    (∀ k v, (k, v) ∈ rs.filterMap okOf → c.out k = .ok v) ∧
    (∀ k e, (k, e) ∈ rs.filterMap excOf → ∃ sd, c.out k = .exc e sd) := by
  obtain ⟨h1, h2, h3, h4⟩ := run_partition hp hnd
  exact ⟨run_spec rs h1 strict, h2, h3, h4⟩

/-- No deadlock: in a reachable state that is not terminal the parent can always step, and
every worker process that has not exited can step (a worker blocked in `task_queue.get()`
always finds a task or its STOP). -/
theorem C12_no_deadlock (c : Cfg) (s : State) (h : Reach c s) (hnt : s.terminal = false) :
    Enabled c s .parent ∧
    (∀ i w, s.ws[i]? = some w → w.st.isExited = false → Enabled c s (.worker i)) :=
  ⟨parent_enabled hnt, fun _ _ hw hne => worker_enabled (inv_reach h) hnt hw hne⟩

/-- Termination under weak fairness, for every exit rule: every infinite run in which no
runnable process (and not the consuming caller) is starved forever reaches a terminal
state.  Tasks that raise, retirement and restart included. -/
theorem C12_terminates (c : Cfg) (r : Run c) (hf : r.WeaklyFair) : ∃ n, (r.st n).terminal = true :=
  fair_run_terminates r hf

/-! ### Non-vacuity -/

/-- three ids on two workers with quota 1 (every worker retires after each task) -/
def cfgE (rule : ExitRule) : Cfg :=
  { ids := [0, 1, 2], out := excOut, parallel := 2, maxTasks := 1, tolerate := true, rule := rule }

/-- a schedule with retirement, restart, a raising task and a slow parent -/
def schedE : List Ev :=
  [.take 0, .take 1, .finish 1, .flush 1, .exit 1, .finish 0,
   .parent, .parent, .parent, .parent, .parent, .parent,      -- get r1, read 0, read 1 (code 9), scanned, yield, restart 1
   .flush 0, .exit 0, .take 1, .finish 1, .flush 1, .exit 1,
   .parent, .parent, .parent, .parent, .parent, .parent, .parent, .parent,   -- loop, get r0, 2 reads (9, 9), scanned, yield, restart 0, restart 1
   .take 0, .take 1, .exit 0, .exit 1,                                       -- both replacements get STOP
   .parent, .parent, .parent, .parent, .parent, .parent]       -- loop, get r2, read 0, read 1, scanned, yield: break

example : Tolerant (cfgE .head) ∧ Sendable (cfgE .head) ∧ 0 < (cfgE .head).parallel := by
  refine ⟨Or.inl rfl, ?_, by decide⟩
  intro id _
  simp only [cfgE, excOut]
  split <;> rfl

example : ((runSchedNR (cfgE .head) (init (cfgE .head)) schedE).map
    fun s => (s.terminal, s.delivered.map (·.id), s.tasksDone)) = some (true, [1, 0, 2], 3) := by decide

example : ((runSched (cfgE .drained) (init (cfgE .drained)) schedE).map
    fun s => (s.terminal, s.delivered.map (·.id))) = some (true, [1, 0, 2]) := by decide

def sFinalE : State :=
  { taskQ := [], doneQ := [], ws := [⟨.exited .zero, []⟩, ⟨.exited .zero, []⟩], pool := [],
    delivered := [⟨1, .ok 1⟩, ⟨0, .exc 1 true⟩, ⟨2, .ok 2⟩], tasksDone := 3, dropped := [],
    drained := false, pc := .done }

theorem runE : runSched (cfgE .head) (init (cfgE .head)) schedE = some sFinalE := by decide

theorem quietE (e : Ev) : step (cfgE .head) sFinalE e = none := by
  cases e with
  | parent => rfl
  | take i => rcases i with _ | _ | i <;> rfl
  | finish i => rcases i with _ | _ | i <;> rfl
  | flush i => rcases i with _ | _ | i <;> rfl
  | feederDie i => rcases i with _ | _ | i <;> rfl
  | exit i => rcases i with _ | _ | i <;> rfl

/-- Non-vacuity of `C12_terminates`: a weakly fair run exists (and it terminates). -/
example : ∃ r : Run (cfgE .head), r.WeaklyFair ∧ ∃ n, (r.st n).terminal = true :=
  ⟨runOfSched _ schedE sFinalE runE rfl, runOfSched_fair runE rfl quietE,
   C12_terminates _ _ (runOfSched_fair runE rfl quietE)⟩


example : single (cfgE .head) [0, 1, 2] = ([⟨0, .exc 1 true⟩, ⟨1, .ok 1⟩, ⟨2, .ok 2⟩], false) := by decide
example : single (cfgW .head false excOut) [1, 0, 1] = ([⟨1, .ok 1⟩], true) := by decide
example : run [⟨1, .ok 1⟩, ⟨0, .exc 1 true⟩, ⟨2, .ok 2⟩] false = .ok [(1, 1), (2, 2)] [(0, 1)] := by decide
example : run [⟨1, .ok 1⟩, ⟨0, .exc 1 true⟩] true = .runtimeError 1 := by decide
example : invokeRetry (fun a => if a < 3 then .netErr else .val 7) 3 0 = .ok 7 := by decide
example : invokeRetry (fun a => if a < 4 then .netErr else .val 7) 3 0 = .exc netTag true := by decide

end Annet.Pool
