/-
C15 — Mesh sessions are mirrored on both ends; handler data merges without loss.

Property theorems only; helper lemmas live in `Lemmas/Mesh.lean` (merge algebra), `Lemmas/MeshFold.lean`
(dicts filled by "merge into the entry of this key"), `Lemmas/MeshDict.lean` (tables with `DictMerge`),
`Lemmas/MeshExec.lean` (executor).  Models: `Model/Mesh.lean`, `Model/MeshExec.lean`.

What is proved, at which strength:
* merge laws of `basemodel.py` — full strength, for every merger table (`Merge`/`DictMerge` nested to any
  depth): unset never overrides, `ForbidChange` equal-or-conflict, `Unite`, `Concat`, `Merge` and `DictMerge`
  recursive, associativity, commutativity up to `Equiv` (false for `UseFirst`/`UseLast`: `_false` witness),
  `merge(first, *others)` independent of the order of `others`;
* order independence — full strength for the pair dicts of `_execute_direct` / `_execute_indirect` (any
  permutation of the registered rules) and for the global options (`merge` fold); FALSE for `execute_for`
  as a whole (`C15_execute_for_order_independent_false`: `ifname` naming an interface another handler
  creates), with the state-independent part of the interface selection proved (`…_partial`,
  `C15_interface_choice`);
* mirrored sessions — `_partial` (hypothesis `KeyCompat`: both ends group the handler results alike);
  FALSE without it (`C15_mirrored_false`: pairs are keyed by the remote address/vrf only); the `Peer`
  fields each end derives from a mirrored pair (`C15_mirrored_peer_fields`, `C15_peer_respects_equiv`).
-/
import AnnetModel.Lemmas.MeshExec
import AnnetModel.Lemmas.MeshDict

/-! OBLIGATIONS
Annet.Mesh.C15_unset_never_overrides
Annet.Mesh.C15_forbidchange_eq_or_conflict
Annet.Mesh.C15_unite_union
Annet.Mesh.C15_concat
Annet.Mesh.C15_merge_recursive
Annet.Mesh.C15_dictmerge_recursive
Annet.Mesh.C15_assoc
Annet.Mesh.C15_assoc_exact
Annet.Mesh.C15_comm_mod_concat
Annet.Mesh.C15_comm_full_false
Annet.Mesh.C15_merge_many_order_independent
Annet.Mesh.C15_pair_handler_symmetric
Annet.Mesh.C15_order_independent_direct
Annet.Mesh.C15_order_independent_indirect
Annet.Mesh.C15_execute_for_order_independent_false
Annet.Mesh.C15_mirrored_direct_partial
Annet.Mesh.C15_mirrored_indirect_partial
Annet.Mesh.C15_mirrored_false
Annet.Mesh.C15_mirrored_peer_fields
Annet.Mesh.C15_peer_respects_equiv
Annet.Mesh.C15_interface_choice
Annet.Mesh.C15_indirect_interface_state_partial
-/

namespace Annet.Mesh

/-! ## Merge laws (`annet/mesh/basemodel.py`), for every merger table -/

/-- Unset fields never override set ones: `merger(name, x, NOT_SET) = x`, `merger(name, NOT_SET, y) = y`
for every merger, and therefore field by field in `_merge(a, b)`: where `b` leaves a field unset the
result keeps `a`'s value, and conversely. -/
theorem C15_unset_never_overrides (t : Table) (hnd : (keys t).Nodup) (a b out : Fields)
    (h : mergeFields t a b = .ok out) (f : String) (m : Merger) (hm : (f, m) ∈ t) :
    (lookup f b = none → lookup f out = lookup f a) ∧ (lookup f a = none → lookup f out = lookup f b) := by
  have h1 := mergeFields_ok hnd h f m hm
  constructor
  · intro hb
    rw [hb, mergeOpt_none_right] at h1
    exact (Except.ok.inj h1).symm
  · intro ha
    rw [ha, mergeOpt_none_left] at h1
    exact (Except.ok.inj h1).symm

/-- `ForbidChange` (the default merger): the merge is defined exactly when the two values are equal
(Python `==`: sets as sets), and then returns the old value; different values raise
`MergeForbiddenError`. -/
theorem C15_forbidchange_eq_or_conflict (x y : Val) :
    (leafEq x y = some true → mergeVal .forbidChange x y = .ok x ∧ leafEqv x y) ∧
    (leafEq x y = some false → mergeVal .forbidChange x y = .error .forbidden) ∧
    (∀ r, mergeVal .forbidChange x y = .ok r → r = x ∧ leafEqv x y) := by
  refine ⟨fun h => ⟨by simp [mergeVal, h], leafEqv_of_leafEq h⟩, fun h => by simp [mergeVal, h], ?_⟩
  intro r h
  simp only [mergeVal] at h
  cases hq : leafEq x y with
  | none => simp [hq] at h
  | some b =>
    cases b with
    | false => simp [hq] at h
    | true =>
      simp only [hq] at h
      exact ⟨(Except.ok.inj h).symm, leafEqv_of_leafEq hq⟩

/-- `Unite`: the result is the set union. -/
theorem C15_unite_union (a b : List String) :
    ∃ c, mergeVal .unite (.set a) (.set b) = .ok (.set c) ∧ ∀ s, s ∈ c ↔ s ∈ a ∨ s ∈ b :=
  ⟨setUnion a b, rfl, fun _ => mem_setUnion⟩

/-- `Concat`: the result is the concatenation, old elements first. -/
theorem C15_concat (a b : List String) : mergeVal .concat (.seq a) (.seq b) = .ok (.seq (a ++ b)) := rfl

/-- `Merge()` is recursive and field by field: merging two nested models succeeds exactly when
every field's own merger succeeds on the two field values, and each field of the result is that
merger's result (`lookup f out`), whatever the nesting depth of the table. -/
theorem C15_merge_recursive (t : Table) (hnd : (keys t).Nodup) (a b : Fields) :
    (∀ v, mergeVal (.merge t) (.model a) (.model b) = .ok v →
        ∃ out, v = .model out ∧ ∀ f m, (f, m) ∈ t → mergeOpt m (lookup f a) (lookup f b) = .ok (lookup f out)) ∧
    ((∃ e, mergeVal (.merge t) (.model a) (.model b) = .error e) ↔
        ∃ f m e, (f, m) ∈ t ∧ mergeOpt m (lookup f a) (lookup f b) = .error e) := by
  simp only [mergeVal]
  constructor
  · intro v h
    cases hm : mergeFields t a b with
    | error e => simp [hm] at h
    | ok out =>
      simp only [hm, map_ok] at h
      exact ⟨out, (Except.ok.inj h).symm, mergeFields_ok hnd hm⟩
  · constructor
    · rintro ⟨e, h⟩
      cases hm : mergeFields t a b with
      | error e' => exact mergeFields_error hm
      | ok out => simp [hm] at h
    · rintro ⟨f, m, e, hm, he⟩
      obtain ⟨e', he'⟩ := mergeFields_error_of_field hm he
      exact ⟨e', by simp [he']⟩

/-- `DictMerge(vm)` is recursive and key by key: the merge of two dicts (distinct keys) succeeds exactly
when `vm` succeeds on the two values of every common key, and each entry of the result is `vm`'s result
for that key (entries of one side only are kept). -/
theorem C15_dictmerge_recursive (vm : Merger) (a b : List (String × Val)) (ha : (keys a).Nodup) (hb : (keys b).Nodup) :
    (∀ v, mergeVal (.dictMerge vm) (.dict a) (.dict b) = .ok v →
        ∃ out, v = .dict out ∧ (keys out).Nodup ∧ ∀ k, mergeOpt vm (lookup k a) (lookup k b) = .ok (lookup k out)) ∧
    ((∃ e, mergeVal (.dictMerge vm) (.dict a) (.dict b) = .error e) ↔
        ∃ k e, mergeOpt vm (lookup k a) (lookup k b) = .error e) := by
  have K := dictKeywise (mergeVal vm)
  simp only [mergeVal]
  constructor
  · intro v h
    cases hm : dictMergeWith (mergeVal vm) a b with
    | error e => simp [hm] at h
    | ok out =>
      simp only [hm, map_ok] at h
      obtain ⟨h1, h2⟩ := K.ok a b out ha hb hm
      exact ⟨out, (Except.ok.inj h).symm, h1, h2⟩
  · constructor
    · rintro ⟨e, h⟩
      cases hm : dictMergeWith (mergeVal vm) a b with
      | error e' => exact K.err a b e' ha hb hm
      | ok out => simp [hm] at h
    · rintro ⟨k, e, he⟩
      obtain ⟨e', he'⟩ := K.errc a b k e ha hb he
      exact ⟨e', by simp [he']⟩

/-- Associativity, for every well-formed table (also with `UseFirst`/`UseLast`, `Merge`, `DictMerge`):
`(x ⊕ y) ⊕ z` and `x ⊕ (y ⊕ z)` either both raise or both succeed with equivalent values (equal up to
the enumeration of Python sets and dicts).  `Val.WFd`: the dicts involved have distinct keys. -/
theorem C15_assoc (m : Merger) (hwf : m.WF) (x y z : Val) (hx : Val.WFd m x) (hy : Val.WFd m y) (hz : Val.WFd m z) :
    RE (Equiv m) (mergeVal m x y >>= fun r => mergeVal m r z) (mergeVal m y z >>= fun r => mergeVal m x r) :=
  mergeVal_assoc_g m hwf x y z hx hy hz

/-- … and for tables without `DictMerge` the two groupings give literally the same value. -/
theorem C15_assoc_exact (m : Merger) (hwf : m.WF) (hdf : m.DictFree) (x y z : Val) :
    RE Eq (mergeVal m x y >>= fun r => mergeVal m r z) (mergeVal m y z >>= fun r => mergeVal m x r) :=
  mergeVal_assoc m hwf hdf x y z

/-- Commutativity up to `Equiv` (Python set/dict equality; element order of `Concat` fields), for every
well-formed table without `UseFirst`/`UseLast`: `x ⊕ y` and `y ⊕ x` both raise, or both succeed with
equivalent values. -/
theorem C15_comm_mod_concat (m : Merger) (hwf : m.WF) (hs : m.SymD) (x y : Val) (hx : Val.WFd m x) (hy : Val.WFd m y) :
    RE (Equiv m) (mergeVal m x y) (mergeVal m y x) :=
  mergeVal_comm_g m hwf hs x y hx hy

/-- The restriction of `C15_comm_mod_concat` is needed: with `UseLast` (or `UseFirst`) the merge is
order dependent by definition, and `Concat` is commutative only up to element order. -/
theorem C15_comm_full_false :
    (¬ ∀ (m : Merger) (x y : Val), RE (Equiv m) (mergeVal m x y) (mergeVal m y x)) ∧
    (¬ ∀ (x y : Val), mergeVal .concat x y = mergeVal .concat y x) := by
  constructor
  · intro h
    have := h .useLast (.atom "1") (.atom "2")
    simp [mergeVal, Equiv, leafEqv] at this
  · intro h
    have := h (.seq ["a"]) (.seq ["b"])
    simp [mergeVal] at this

/-- `merge(first, *others)` — and so `_execute_globals`, a left fold of `merge` over the matching
device rules — does not depend on the order of `others`, up to `Equiv` (or raises in every order);
for every well-formed table without `UseFirst`/`UseLast`, `GlobalOptionsDTO` with its dicts included. -/
theorem C15_merge_many_order_independent (t : Table) (hwf : (Merger.merge t).WF) (hs : (Merger.merge t).SymD)
    (first : Fields) (hf : WFdFields t first) (l l' : List Fields) (hl : ∀ x ∈ l, WFdFields t x) (hp : l.Perm l') :
    RE (EquivFields t) (mergeMany t first l) (mergeMany t first l') :=
  mergeMany_perm_g t hwf hs first hf hl hp

/-! ## Executor (`annet/mesh/executor.py`, `registry.py`, `models_converter.py`) -/

/-- The handler is always called as `(left, right)`: one application `(rule, ports)` between `a` and
`b`, evaluated by `_execute_direct_pair` at `a` and at `b`, gives `None` at both ends, or raises at
both ends, or gives the same two DTOs with `local` and `connected` exchanged. -/
theorem C15_pair_handler_symmetric (dto : Table) (a b : String) (rule : DirectRule) (o : Bool) (g all : PortPairs) :
    RE OptMirror (executeDirectPair dto a b rule o g all)
      (executeDirectPair dto b a rule (!o) (swapPorts g) (swapPorts all)) :=
  executeDirectPair_mirror dto a b rule o g all

/-- **Order independence of `_execute_direct`**: for every permutation of the registered direct rules
the dict of pairs has, key by key `(fqdn, addr, vrf)`, equivalent pairs (equal fields; sets as sets;
`Concat` fields up to order), or both registration orders raise.  The keys of the dict are distinct,
so this is "the same set of pairs". -/
theorem C15_order_independent_direct (dto : Table) (hwf : (Merger.merge dto).WF) (hs : (Merger.merge dto).Sym)
    (hd : (Merger.merge dto).DictFree) (st : Storage) (rules rules' : List DirectRule) (hp : rules.Perm rules')
    (device : String) :
    RE (StateEqv dto) (executeDirect dto st rules device) (executeDirect dto st rules' device) ∧
    (∀ s, executeDirect dto st rules device = .ok s → (keys s).Nodup) :=
  ⟨executeDirect_perm dto hwf hs hd st hp device, fun _ h => executeDirect_nodup h⟩

/-- **Order independence of `_execute_indirect`.** -/
theorem C15_order_independent_indirect (dto : Table) (hwf : (Merger.merge dto).WF) (hs : (Merger.merge dto).Sym)
    (hd : (Merger.merge dto).DictFree) (st : Storage) (rules rules' : List IndirectRule) (hp : rules.Perm rules')
    (device : String) :
    RE (StateEqv dto) (executeIndirect dto st rules device) (executeIndirect dto st rules' device) ∧
    (∀ s, executeIndirect dto st rules device = .ok s → (keys s).Nodup) :=
  ⟨executeIndirect_perm dto hwf hs hd st hp device, fun _ h => executeIndirect_nodup h⟩

/-- Full strength — "`execute_for` succeeds under one registration order iff it succeeds under every
other" — is FALSE of the code: the pairs are order independent (theorems above), but interfaces are
created while the pairs are converted, in dict order, and `_apply_indirect_interface_changes` looks
`ifname` up among the interfaces existing at that moment.  Witness: rule 1 creates `Vlan100` (svi),
rule 2 names it; order (1,2) succeeds, order (2,1) raises.  Replayed on the real code:
`corpus/C15/order-dep-ifname-created.json`. -/
theorem C15_execute_for_order_independent_false :
    ¬ ∀ (T : Tables) (st : Storage) (ipOf : String → Option String) (d : List DirectRule) (v : List VirtualRule)
        (i i' : List IndirectRule) (device : String), i.Perm i' →
        Witness.isOk (executeFor T st ipOf ⟨d, i, v⟩ device) = Witness.isOk (executeFor T st ipOf ⟨d, i', v⟩ device) := by
  intro h
  have := h Witness.tables Witness.st some [] [] [Witness.ruleSvi, Witness.ruleIfname]
    [Witness.ruleIfname, Witness.ruleSvi] "a" (List.Perm.swap _ _ _)
  rw [Witness.order_12_ok, Witness.order_21_raises] at this
  cases this

/-- … the part of it that holds: the only state dependence of the interface selection is the
`find_interface(ifname)` lookup; with `subif`, `svi`, or no `ifname`, the selected interface of an
indirect peer is the same whatever was created before.  (Direct peers: `C15_interface_choice`.) -/
theorem C15_indirect_interface_state_partial (st : Storage) (ifname : Option String) (ch : IfChanges)
    (ds ds' : DevState) (h : ch.subif.isSome ∨ ch.svi.isSome ∨ ifname = none ∨ ifname = some "" ∨ ch.lag.isSome) :
    (applyIndirectIface st ifname ch ds).map (·.1) = (applyIndirectIface st ifname ch ds').map (·.1) :=
  applyIndirectIface_state_independent st ifname ch ds ds' h

/-- **Mirrored direct sessions** (partial: hypothesis `KeyCompat`).  `a` and `b` are neighbours of each
other, the storage reports the same connections from both ends, and both ends file the handler
results under their keys compatibly.  If `_execute_direct` succeeds at both ends, every pair `a` holds
for `b` has a counterpart at `b` whose `local` is `a`'s `connected` and whose `connected` is `a`'s
`local` (up to `Equiv`: Python set equality), whatever the registration order. -/
theorem C15_mirrored_direct_partial (dto : Table) (hwf : (Merger.merge dto).WF) (hs : (Merger.merge dto).Sym)
    (hd : (Merger.merge dto).DictFree) (st : Storage) (rules : List DirectRule) (a b : String)
    (hc : st.conns b a = swapPorts (st.conns a b)) (hka : st.known a = true) (hkb : st.known b = true)
    (hnda : (st.neighbours a).Nodup) (hndb : (st.neighbours b).Nodup)
    (hba : b ∈ st.neighbours a) (hab : a ∈ st.neighbours b)
    (hcompat : KeyCompat dto st rules a b)
    (sA sB : PairState) (hA : executeDirect dto st rules a = .ok sA) (hB : executeDirect dto st rules b = .ok sB)
    (k : PeerKey) (p : Pair) (hp : lookup k sA = some p) (hk : k.1 = b) :
    ∃ k' q, lookup k' sB = some q ∧ k'.1 = a ∧
      EquivFields dto q.loc p.connected ∧ EquivFields dto q.connected p.loc :=
  executeDirect_mirrored dto hwf hs hd st rules a b hc hka hkb hnda hndb hba hab hcompat hA hB k p hp hk

/-- **Mirrored indirect sessions** (partial: hypothesis `KeyCompatI`). -/
theorem C15_mirrored_indirect_partial (dto : Table) (hwf : (Merger.merge dto).WF) (hs : (Merger.merge dto).Sym)
    (hd : (Merger.merge dto).DictFree) (st : Storage) (rules : List IndirectRule) (a b : String)
    (hnd : st.allFqdns.Nodup) (ha : a ∈ st.allFqdns) (hb : b ∈ st.allFqdns)
    (hcompat : KeyCompatI dto rules a b)
    (sA sB : PairState) (hA : executeIndirect dto st rules a = .ok sA) (hB : executeIndirect dto st rules b = .ok sB)
    (k : PeerKey) (p : Pair) (hp : lookup k sA = some p) (hk : k.1 = b) :
    ∃ k' q, lookup k' sB = some q ∧ k'.1 = a ∧
      EquivFields dto q.loc p.connected ∧ EquivFields dto q.connected p.loc :=
  executeIndirect_mirrored dto hwf hs hd st rules a b hnd ha hb hcompat hA hB k p hp hk

/-- Full strength — mirrored sessions without `KeyCompat` — is FALSE of the code: pairs are keyed by
`(remote fqdn, remote addr, remote vrf)` only.  Witness: two handlers give `a` one address and `b` two;
`a` computes two pairs, `b` files both under `a`'s single address and raises (addr conflict).
Replayed on the real code: `corpus/C15/mirror-asym-peerkey.json`. -/
theorem C15_mirrored_false :
    ¬ ∀ (dto : Table) (st : Storage) (rules : List IndirectRule) (a b : String),
        (Merger.merge dto).WF → (Merger.merge dto).Sym → (Merger.merge dto).DictFree →
        st.allFqdns.Nodup → a ∈ st.allFqdns → b ∈ st.allFqdns →
        Witness.isOk (executeIndirect dto st rules a) = Witness.isOk (executeIndirect dto st rules b) := by
  intro h
  have := h Witness.dto Witness.st [Witness.rule "s10.0.0.2", Witness.rule "s10.0.0.3"] "a" "b"
    (by simp [Witness.dto, Merger.WF, Table.WF, keys]) (by simp [Witness.dto, Merger.Sym, Table.Sym])
    (by simp [Witness.dto, Merger.DictFree, Table.DictFree]) (by simp [Witness.st]) (by simp [Witness.st])
    (by simp [Witness.st])
  rw [Witness.b_raises] at this
  have h2 := Witness.a_two_pairs
  cases hx : executeIndirect Witness.dto Witness.st [Witness.rule "s10.0.0.2", Witness.rule "s10.0.0.3"] "a" with
  | error e => rw [hx] at h2; simp [Except.toOption] at h2
  | ok s => rw [hx] at this; simp [Witness.isOk] at this

/-- `to_bgp_peer` at the two ends of a mirrored pair: the address `a`'s peer points at is the address
`b` puts on its own interface (`local.addr`), `a`'s `remote_as` is `b`'s `options.local_as`, and vice
versa (`local_as = None` reads as AS 0, like `ASN(None)`). -/
theorem C15_mirrored_peer_fields (dto : Table) (haddr : ("addr", Merger.forbidChange) ∈ dto)
    (hasn : ("asnum", Merger.forbidChange) ∈ dto)
    (optFields : List String) (ipOf : String → Option String) (p q : Pair)
    (h1 : EquivFields dto q.loc p.connected) (h2 : EquivFields dto q.connected p.loc)
    (hostA hostB : String) (ifA ifB : Option String) (PA PB : PeerOut)
    (hA : toBgpPeer optFields ipOf p.loc p.connected hostB ifA = .ok PA)
    (hB : toBgpPeer optFields ipOf q.loc q.connected hostA ifB = .ok PB) :
    (∃ a cs, PB.localAddr = some (.atom a) ∧ a.toList = 's' :: cs ∧ ipOf (String.ofList cs) = some PA.addr) ∧
    (∃ a cs, PA.localAddr = some (.atom a) ∧ a.toList = 's' :: cs ∧ ipOf (String.ofList cs) = some PB.addr) ∧
    PB.localAs.getD 0 = PA.remoteAs ∧ PA.localAs.getD 0 = PB.remoteAs :=
  toBgpPeer_mirrored dto haddr hasn optFields ipOf h1 h2 hA hB

/-- `to_bgp_peer` reads equivalent DTOs alike, so the order independence and the mirroring of the pair
dicts carry over to the `Peer` objects: it raises on both or succeeds on both, with the same address,
AS numbers, interface and host name, and `==`-equal families. -/
theorem C15_peer_respects_equiv (dto : Table) (haddr : ("addr", Merger.forbidChange) ∈ dto)
    (hasn : ("asnum", Merger.forbidChange) ∈ dto) (hfam : ("families", Merger.unite) ∈ dto)
    (optFields : List String) (ipOf : String → Option String) (loc loc' conn conn' : Fields)
    (hl : EquivFields dto loc loc') (hc : EquivFields dto conn conn') (host : String) (iface : Option String) :
    RE (fun P P' => P.addr = P'.addr ∧ P.remoteAs = P'.remoteAs ∧ P.localAs = P'.localAs ∧
        P.interface = P'.interface ∧ P.hostname = P'.hostname ∧ OptRel leafEqv P.families P'.families)
      (toBgpPeer optFields ipOf loc conn host iface) (toBgpPeer optFields ipOf loc' conn' host iface) :=
  toBgpPeer_congr dto haddr hasn hfam optFields ipOf hl hc host iface

/-- `_apply_direct_interface_changes` as a decision table over `(lag, subif, svi, first processed
port)`: LAG (+ sub-interface), sub-interface of the single port, SVI, the port itself; several ports
without LAG/SVI raise.  The choice does not depend on the interfaces created before, and the local
address (with its vrf) is always put on the selected interface. -/
theorem C15_interface_choice (st : Storage) (device neighbor : String) (ports : List String) (ch : IfChanges)
    (ds : DevState) :
    let pp := (st.conns device neighbor).filter fun p => ports.contains p.1
    match directIfaceTable st pp ch with
    | none => ∃ e, applyDirectIface st device neighbor ports ch ds = .error e
    | some name => ∃ ds', applyDirectIface st device neighbor ports ch ds = .ok (name, ds') ∧
        ds'.calls.getLast? = some (.addAddr name ch.addr ch.vrf) :=
  applyDirectIface_table st device neighbor ports ch ds

/-! Non-vacuity -/
example : mergeVal (.merge [("families", .unite), ("addr", .forbidChange)])
    (.model [("families", .set ["v4"]), ("addr", .atom "s1")]) (.model [("families", .set ["v6"])])
    = .ok (.model [("families", .set ["v4", "v6"]), ("addr", .atom "s1")]) := by
  simp [mergeVal, mergeFields, mergeOptWith, lookup, setUnion]; rfl
example : mergeVal (.merge [("addr", .forbidChange)]) (.model [("addr", .atom "s1")]) (.model [("addr", .atom "s2")])
    = .error .forbidden := by
  simp [mergeVal, mergeFields, mergeOptWith, lookup, leafEq]
example : (Merger.merge [("families", .unite), ("inner", .merge [("routes", .concat)])]).WF ∧
    (Merger.merge [("families", .unite), ("inner", .merge [("routes", .concat)])]).Sym ∧
    (Merger.merge [("families", .unite), ("inner", .merge [("routes", .concat)])]).DictFree := by
  simp [Merger.WF, Table.WF, Merger.Sym, Table.Sym, Merger.DictFree, Table.DictFree, keys]

example : mergeVal (.dictMerge (.merge [("rt", .concat)]))
    (.dict [("v1", .model [("rt", .seq ["1:1"])])]) (.dict [("v2", .model []), ("v1", .model [("rt", .seq ["1:2"])])])
    = .ok (.dict [("v1", .model [("rt", .seq ["1:1", "1:2"])]), ("v2", .model [])]) := by
  simp [mergeVal, dictMergeWith, upsertWith, mergeFields, mergeOptWith, lookup]; rfl
example : Val.WFd (.dictMerge (.merge [("rt", .concat)])) (.dict [("v2", .model []), ("v1", .model [("rt", .seq ["1:2"])])]) ∧
    (Merger.dictMerge (.merge [("rt", .concat)])).WF ∧ (Merger.dictMerge (.merge [("rt", .concat)])).SymD := by
  refine ⟨?_, by simp [Merger.WF, Table.WF, keys], by simp [Merger.SymD, Table.SymD]⟩
  simp only [Val.WFd]
  refine ⟨by decide, ?_⟩
  intro k v h
  cases v <;> simp [Val.WFd, WFdFields]

/-- the hypotheses of the executor theorems are satisfiable: a DTO table with the shape of
`DirectPeerDTO` (everything `ForbidChange`, `families` `Unite`), and a pair of neighbours whose
key grouping is compatible -/
example : (Merger.merge Witness.dto).WF ∧ (Merger.merge Witness.dto).Sym ∧ (Merger.merge Witness.dto).DictFree := by
  simp [Witness.dto, Merger.WF, Table.WF, Merger.Sym, Table.Sym, Merger.DictFree, Table.DictFree, keys]
example : KeyCompatI Witness.dto [Witness.rule "s10.0.0.2"] "a" "b" := by
  intro p1 h1 p2 h2 k1 k2 k1' k2' e1 e2 e3 e4
  have hl : (indirectPairs Witness.dto [Witness.rule "s10.0.0.2"] "a" "b").length = 1 := by decide
  obtain ⟨x, hx⟩ := List.length_eq_one_iff.mp hl
  rw [hx] at h1 h2
  simp only [List.mem_singleton] at h1 h2
  subst h1; subst h2
  rw [e1] at e2; rw [e3] at e4
  cases e2; cases e4
  exact ⟨fun _ => rfl, fun _ => rfl⟩
example : directIfaceTable Witness.st [("e1", "e7"), ("e2", "e8")] ⟨"s10.0.0.1/31", some "i1", none, none, some "i10", none⟩
    = some "Trunki1.i10" := by decide

end Annet.Mesh
