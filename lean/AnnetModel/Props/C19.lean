/-
C19 — File-based devices get each changed file once, from the winning generator.

Property theorems only; helper lemmas live in `Lemmas/Files.lean`, the model in
`Model/Files.lean`, specification-only definitions in `Spec/Files.lean`.

Two clauses of the property are FALSE of the code as it is (the upload decision
and the shown diff are taken on `str.splitlines()`): their full-strength statements
are `Spec.UploadIffDiffers` / `Spec.DiffShownIffDiffers`, refuted by
`…_false`, with `…_partial` (exact characterisation of what the code does) and
`…_canonical` (the full statement on canonical Unix texts) kept beside them.
-/
import AnnetModel.Lemmas.Files

/-! OBLIGATIONS
Annet.Files.C19_winner_is_argmax
Annet.Files.C19_winner_has_max_prio
Annet.Files.C19_new_files_from_winner
Annet.Files.C19_argmax_order_independent
Annet.Files.C19_files_are_generated_content
Annet.Files.C19_reload_iff_enabled
Annet.Files.C19_parse_result_ok
Annet.Files.C19_upload_iff_differs_false
Annet.Files.C19_upload_iff_differs_partial
Annet.Files.C19_upload_equal_never
Annet.Files.C19_upload_iff_differs_canonical
Annet.Files.C19_diff_empty_iff_equal_false
Annet.Files.C19_diff_empty_iff_equal_partial
Annet.Files.C19_diff_empty_iff_equal_canonical
Annet.Files.C19_end_to_end
-/

namespace Annet.Files
open Spec Lemmas

/-! ### clause 1 — the winning generator, in every listing order -/

/-- `entire_results[p]` after `run_file_generators` is exactly the result of highest
priority among those the generators produce for `p` (priorities per path distinct). -/
theorem C19_winner_is_argmax (dev : Dev) (gens : List Gen) (res : Results)
    (h : runFileGenerators dev gens = .ok res) (hd : DistinctPrio (produced dev gens))
    (p : Path) (r : EntireResult) :
    lookup p res = some r ↔ IsWinner (produced dev gens) p r := by
  have := runFrom_ok dev gens [] res h
  rw [this]
  exact lookup_entireResults_iff (produced dev gens) hd p r

/-- Without any hypothesis on the priorities (ties included): whatever is stored for a
path has the highest priority produced for it — with ties it is one of the tied
generators (the first listed, see the example below) — and a path is absent exactly
when no generator produced a result for it. -/
theorem C19_winner_has_max_prio (dev : Dev) (gens : List Gen) (res : Results)
    (h : runFileGenerators dev gens = .ok res) (p : Path) :
    (∀ r, lookup p res = some r → IsWinner (produced dev gens) p r) ∧
    (lookup p res = none ↔ ∀ r ∈ produced dev gens, r.path = p → p = []) := by
  have hres := runFrom_ok dev gens [] res h
  have inv : Inv res (produced dev gens) := by
    rw [hres]; exact entireResults_inv (produced dev gens)
  refine ⟨inv.winner p, inv.absent p, ?_⟩
  intro hall
  cases hl : lookup p res with
  | none => rfl
  | some r =>
    obtain ⟨h1, h2, h3, _⟩ := inv.winner p r hl
    exact absurd (hall r h1 h2) h3

/-- `new_files(safe)[p] = (output, reload)` iff these are the output and the reload
command of a generator of the list, run on its own, whose result is the winner for
`p` (and which is safe when `safe` is asked for).  `new_files` is a dict. -/
theorem C19_new_files_from_winner (dev : Dev) (gens : List Gen) (res : Results)
    (h : runFileGenerators dev gens = .ok res) (hd : DistinctPrio (produced dev gens))
    (safe : Bool) (p : Path) (o rl : Text) :
    (lookup p (newFiles safe res) = some (o, rl) ↔
      ∃ g ∈ gens, ∃ r, runEntireGenerator dev g = .ok (some r) ∧
        IsWinner (produced dev gens) p r ∧ (safe = true → r.isSafe = true) ∧
        o = r.output ∧ rl = r.reload) ∧
    NoDupKeys (newFiles safe res) := by
  refine ⟨?_, noDupKeys_newFiles safe res⟩
  have hres := runFrom_ok dev gens [] res h
  have inv : Inv res (produced dev gens) := by
    rw [hres]; exact entireResults_inv (produced dev gens)
  rw [lookup_newFiles safe res inv.keyed inv.nodup p]
  constructor
  · intro hl
    cases hlr : lookup p res with
    | none => rw [hlr] at hl; simp at hl
    | some r =>
      rw [hlr] at hl
      simp only [Option.bind, planned] at hl
      have hw := (C19_winner_is_argmax dev gens res h hd p r).mp hlr
      obtain ⟨g, hg, hrun⟩ := (mem_produced dev gens r).mp hw.1
      split at hl
      · rename_i hs
        simp at hl
        refine ⟨g, hg, r, hrun, hw, ?_, hl.1.symm, hl.2.symm⟩
        intro hsafe; subst hsafe; simpa using hs
      · simp at hl
  · rintro ⟨g, hg, r, _, hw, hs, ho, hr⟩
    rw [(C19_winner_is_argmax dev gens res h hd p r).mpr hw]
    simp only [Option.bind, planned]
    subst ho hr
    cases safe <;> simp_all

/-- Listing the generators in another order changes neither whether the run succeeds
nor any entry of `new_files()` / `new_files(safe=True)`. -/
theorem C19_argmax_order_independent (dev : Dev) (gens gens' : List Gen) (hp : gens.Perm gens')
    (hd : DistinctPrio (produced dev gens)) (res : Results)
    (h : runFileGenerators dev gens = .ok res) :
    ∃ res', runFileGenerators dev gens' = .ok res' ∧
      ∀ safe p, lookup p (newFiles safe res') = lookup p (newFiles safe res) := by
  have hno : ∀ g ∈ gens', ¬ raises dev g := by
    intro g hg
    exact (runFrom_ok_iff dev gens []).mp ⟨res, h⟩ g (hp.mem_iff.mpr hg)
  obtain ⟨res', h'⟩ := (runFrom_ok_iff dev gens' []).mpr hno
  refine ⟨res', h', ?_⟩
  intro safe p
  have e := runFrom_ok dev gens [] res h
  have e' := runFrom_ok dev gens' [] res' h'
  have inv : Inv res (produced dev gens) := by rw [e]; exact entireResults_inv _
  have inv' : Inv res' (produced dev gens') := by rw [e']; exact entireResults_inv _
  rw [lookup_newFiles safe res inv.keyed inv.nodup p, lookup_newFiles safe res' inv'.keyed inv'.nodup p]
  have := lookup_entireResults_perm (produced_perm (dev := dev) hp) hd p
  simp only [entireResults] at this
  rw [e, e', this]

/-! ### clauses 3 and 4 — uploaded bytes, reload commands -/

/-- What is uploaded for a path is the generated content, unchanged. -/
theorem C19_files_are_generated_content (ud : UDiff) (inp : JobIn) (out : JobOut)
    (he : inp.err = false) (hn : NoDupKeys inp.newFiles) (h : parseResult ud inp = .ok out)
    (p : Path) (c : Text) (hc : lookup p out.files = some c) :
    ∃ rl, lookup p inp.newFiles = some (c, rl) := by
  rw [parseResult_files ud inp out he hn h p] at hc
  cases hl : lookup p inp.newFiles with
  | none => rw [hl] at hc; simp at hc
  | some cr =>
    rw [hl] at hc
    simp only [Option.bind] at hc
    split at hc
    · simp at hc; exact ⟨cr.2, by rw [← hc]⟩
    · simp at hc

/-- A reload command is attached to a path iff the path is uploaded and reloads are
enabled; it is the winning generator's reload command (followed by the deploy
driver's closing commands, if it has any). -/
theorem C19_reload_iff_enabled (ud : UDiff) (inp : JobIn) (out : JobOut)
    (he : inp.err = false) (hn : NoDupKeys inp.newFiles) (h : parseResult ud inp = .ok out)
    (p : Path) :
    ((lookup p out.cmds).isSome ↔ (lookup p out.files).isSome ∧ inp.reload ≠ .no) ∧
    (∀ cmd, lookup p out.cmds = some cmd →
      ∃ c rl, lookup p inp.newFiles = some (c, rl) ∧ cmd = rl ++ driverTail inp.drv) := by
  rw [parseResult_files ud inp out he hn h p, parseResult_cmds ud inp out he hn h p]
  cases hl : lookup p inp.newFiles with
  | none => simp
  | some cr =>
    simp only [Option.bind]
    by_cases hu : uploadsB ud inp (p, cr) = true <;>
      by_cases hen : inp.reload.enable = true
    · have : inp.reload ≠ .no := by simpa [Reload.enable] using hen
      simp only [hu, hen, Bool.and_self, if_true, Option.isSome_some, true_and, this,
        ne_eq, not_false_eq_true]
      intro cmd hcmd
      simp at hcmd
      exact ⟨cr.1, cr.2, rfl, hcmd.symm⟩
    · have : inp.reload = .no := by simpa [Reload.enable] using hen
      simp [hu, this, Reload.enable]
    · simp [hu]
    · simp [hu]

/-- `parse_result` cannot fail when the deploy driver has no closing commands for the
device (the setting of the repo's own test) or reloads are enabled; the only failure
is the `KeyError` of `cmds[file] += …` under `--entire-reload no`. -/
theorem C19_parse_result_ok (ud : UDiff) (inp : JobIn) (hn : NoDupKeys inp.newFiles)
    (h : joinNl (inp.drv.after ++ inp.drv.exit) = [] ∨ inp.reload ≠ .no) :
    ∃ out, parseResult ud inp = .ok out := by
  unfold parseResult
  split
  · exact ⟨_, rfl⟩
  · split
    · exact ⟨_, rfl⟩
    · dsimp only
      split
      · have hs := (finishFiles_some_iff (joinNl inp.drv.before) (joinNl (inp.drv.after ++ inp.drv.exit))
            (afterLoop ud inp).files (afterLoop ud inp).cmds []).mpr (by
          rcases h with h | h
          · exact Or.inl h
          · right
            intro k hk
            have hne : lookup k (afterLoop ud inp).files ≠ none :=
              fun hh => (lookup_eq_none_iff _ _).mp hh hk
            rw [afterLoop_files ud inp hn k] at hne
            rw [afterLoop_cmds ud inp hn k]
            cases hl : lookup k inp.newFiles with
            | none => rw [hl] at hne; simp at hne
            | some cr =>
              rw [hl] at hne
              simp only [Option.bind] at hne ⊢
              have hen : inp.reload.enable = true := by simpa [Reload.enable] using h
              by_cases hu : uploadsB ud inp (k, cr) = true
              · simp [hu, hen]
              · simp [hu] at hne)
        simp only [afterLoop] at hs
        split
        · rename_i hnone; rw [hnone] at hs; simp at hs
        · exact ⟨_, rfl⟩
      · exact ⟨_, rfl⟩

/-! ### clause 2 — the upload decision -/

/-- The full-strength upload clause is FALSE of the code: a file whose generated
content `a\n` differs from the device's `a` is not uploaded. -/
theorem C19_upload_iff_differs_false : ¬ UploadIffDiffers := by
  intro hfull
  have h := hfull udToy udToy_spec witnessIn {} rfl (by unfold NoDupKeys; decide) (by rfl) ['f'] ['a', '\n'] ['r']
    (by decide)
  revert h
  decide

/-- What the code does decide: a planned file is uploaded iff the `splitlines()` of
the device's content (none for a missing or empty file) and of the generated content
differ, or reload is forced. -/
theorem C19_upload_iff_differs_partial (ud : UDiff) (hud : UdSpec ud) (inp : JobIn) (out : JobOut)
    (he : inp.err = false) (hn : NoDupKeys inp.newFiles) (h : parseResult ud inp = .ok out)
    (p : Path) (c rl : Text) (hl : lookup p inp.newFiles = some (c, rl)) :
    (lookup p out.files).isSome ↔
      (linesOf (lookup p inp.oldFiles) ≠ linesOf (some c) ∨ inp.reload = .force) := by
  rw [parseResult_files ud inp out he hn h p, hl]
  simp only [Option.bind]
  rw [← diffFile_join_ne_nil_iff ud hud]
  by_cases hu : uploadsB ud inp (p, (c, rl)) = true
  · simp only [hu, if_true, Option.isSome_some, true_iff]
    exact (uploadsB_iff ud inp p c rl).mp hu
  · simp only [hu, Bool.false_eq_true, if_false, Option.isSome_none, false_iff]
    exact fun hh => hu ((uploadsB_iff ud inp p c rl).mpr hh)

/-- The safe direction holds in full: a file whose generated content equals the
device's content is never uploaded unless reload is forced. -/
theorem C19_upload_equal_never (ud : UDiff) (hud : UdSpec ud) (inp : JobIn) (out : JobOut)
    (he : inp.err = false) (hn : NoDupKeys inp.newFiles) (h : parseResult ud inp = .ok out)
    (p : Path) (c rl : Text) (hl : lookup p inp.newFiles = some (c, rl))
    (heq : lookup p inp.oldFiles = some c) (hf : inp.reload ≠ .force) :
    lookup p out.files = none := by
  have := not_congr (C19_upload_iff_differs_partial ud hud inp out he hn h p c rl hl)
  rw [heq] at this
  simpa [hf] using this

/-- The full-strength clause does hold for canonical Unix texts (only `\n` breaks
lines, a non-empty text ends with `\n`), provided an empty output is not planned for
a file that does not exist on the device. -/
theorem C19_upload_iff_differs_canonical (ud : UDiff) (hud : UdSpec ud) (inp : JobIn) (out : JobOut)
    (he : inp.err = false) (hn : NoDupKeys inp.newFiles) (h : parseResult ud inp = .ok out)
    (p : Path) (c rl : Text) (hl : lookup p inp.newFiles = some (c, rl))
    (hold : ∀ o, lookup p inp.oldFiles = some o → Canonical o) (hc : Canonical c)
    (hmiss : lookup p inp.oldFiles = none → c ≠ []) :
    (lookup p out.files).isSome ↔ (lookup p inp.oldFiles ≠ some c ∨ inp.reload = .force) := by
  rw [C19_upload_iff_differs_partial ud hud inp out he hn h p c rl hl]
  simp only [ne_eq, linesOf_eq_iff_canonical (lookup p inp.oldFiles) c hold hc hmiss]

/-! ### clause 5 — the diff shown -/

/-- The full-strength diff clause is FALSE of the code: device `a`, generated `a\n`
(and a missing file vs an empty output) show no diff. -/
theorem C19_diff_empty_iff_equal_false : ¬ DiffShownIffDiffers := by
  intro hfull
  have h := hfull udToy udToy_spec [] [(['f'], ([], ['r']))] (by unfold NoDupKeys; decide) ['f'] [] ['r'] (by decide)
  revert h
  decide

/-- What `pc_diff` does show: a planned file appears iff the `splitlines()` of the two
contents differ. -/
theorem C19_diff_empty_iff_equal_partial (ud : UDiff) (hud : UdSpec ud)
    (old : List (Path × Text)) (new : NewFiles) (hn : NoDupKeys new)
    (p : Path) (c rl : Text) (hl : lookup p new = some (c, rl)) :
    (∃ e ∈ pcDiffEntries ud old new, e.1 = p) ↔ linesOf (lookup p old) ≠ linesOf (some c) := by
  rw [shown_iff ud old new hn p c rl hl, diffFile_ne_nil_iff ud hud]

/-- … and on canonical Unix texts that is exactly "the contents differ". -/
theorem C19_diff_empty_iff_equal_canonical (ud : UDiff) (hud : UdSpec ud)
    (old : List (Path × Text)) (new : NewFiles) (hn : NoDupKeys new)
    (p : Path) (c rl : Text) (hl : lookup p new = some (c, rl))
    (hold : ∀ o, lookup p old = some o → Canonical o) (hc : Canonical c)
    (hmiss : lookup p old = none → c ≠ []) :
    (∃ e ∈ pcDiffEntries ud old new, e.1 = p) ↔ lookup p old ≠ some c := by
  rw [C19_diff_empty_iff_equal_partial ud hud old new hn p c rl hl]
  simp only [ne_eq, linesOf_eq_iff_canonical (lookup p old) c hold hc hmiss]

/-! ### the pipeline -/

/-- From the generator list to the upload: each path is uploaded at most once, and
`files[p] = c` iff `c` is the output of the winning generator for `p` (safe when
`--acl-safe`) and its lines differ from the device's or reload is forced. -/
theorem C19_end_to_end (ud : UDiff) (hud : UdSpec ud) (dev : Dev) (gens : List Gen) (res : Results)
    (hrun : runFileGenerators dev gens = .ok res) (hd : DistinctPrio (produced dev gens))
    (safe : Bool) (inp : JobIn) (out : JobOut) (he : inp.err = false)
    (hnf : inp.newFiles = newFiles safe res) (h : parseResult ud inp = .ok out) (p : Path) (c : Text) :
    NoDupKeys out.files ∧
    (lookup p out.files = some c ↔
      ∃ r, IsWinner (produced dev gens) p r ∧ (safe = true → r.isSafe = true) ∧ c = r.output ∧
        (linesOf (lookup p inp.oldFiles) ≠ linesOf (some c) ∨ inp.reload = .force)) := by
  have hn : NoDupKeys inp.newFiles := hnf ▸ noDupKeys_newFiles safe res
  refine ⟨?_, ?_⟩
  · rw [(parseResult_ok_cases ud inp out he h).1]; exact afterLoop_noDup_files ud inp
  · constructor
    · intro hc
      obtain ⟨rl, hl⟩ := C19_files_are_generated_content ud inp out he hn h p c hc
      have hup := (C19_upload_iff_differs_partial ud hud inp out he hn h p c rl hl).mp (by simp [hc])
      rw [hnf] at hl
      obtain ⟨g, _, r, _, hw, hs, ho, _⟩ := ((C19_new_files_from_winner dev gens res hrun hd safe p c rl).1).mp hl
      exact ⟨r, hw, hs, ho, hup⟩
    · rintro ⟨r, hw, hs, ho, hup⟩
      obtain ⟨g, hg, hrung⟩ := (mem_produced dev gens r).mp hw.1
      have hl : lookup p inp.newFiles = some (c, r.reload) := by
        rw [hnf]
        exact ((C19_new_files_from_winner dev gens res hrun hd safe p c r.reload).1).mpr
          ⟨g, hg, r, hrung, hw, hs, ho, rfl⟩
      have hsome := (C19_upload_iff_differs_partial ud hud inp out he hn h p c r.reload hl).mpr hup
      rw [parseResult_files ud inp out he hn h p, hl] at hsome ⊢
      simp only [Option.bind] at hsome ⊢
      split
      · rfl
      · rename_i hu; simp [hu] at hsome

/-! ### non-vacuity: concrete instances meeting the hypotheses above -/

section Examples

def exDev : Dev := { isPC := true, soft := "SONiC x".toList }

/-- three generators, two of them for `/a` (priorities 1 and 5), listed loser first -/
def exGens : List Gen :=
  [ { path := some "/a".toList, prio := some 1, run := .str "x".toList, reload := some "r1".toList, isSafe := true },
    { path := some "/a".toList, prio := some 5, run := .parts [.str "y".toList, .tup ["k".toList, "v".toList]],
      reload := none, isSafe := false },
    { path := some "/b".toList, prio := none, run := .str "z\n".toList, reload := some "r3".toList, isSafe := true },
    { path := none, prio := none, run := .none, reload := none, isSafe := true } ]

example : DistinctPrio (produced exDev exGens) := by unfold DistinctPrio; decide

example : ((runFileGenerators exDev exGens).map (newFiles false)).toOption =
    some [("/a".toList, ("y\nk v".toList, "/usr/bin/etckeeper commitreload /a".toList)),
         ("/b".toList, ("z\n".toList, "r3\n/usr/bin/etckeeper commitreload /b".toList))] := by decide

example : ((runFileGenerators exDev exGens.reverse).map (newFiles true)).toOption =
    some [("/b".toList, ("z\n".toList, "r3\n/usr/bin/etckeeper commitreload /b".toList))] := by decide

/-- the hypothesis `DistinctPrio` is needed: with equal priorities the first listed wins -/
example :
    let g (o : String) : Gen :=
      { path := some "/a".toList, prio := none, run := .str o.toList, reload := none, isSafe := true }
    ((runFileGenerators exDev [g "x", g "y"]).map (newFiles false)).toOption ≠
      ((runFileGenerators exDev [g "y", g "x"]).map (newFiles false)).toOption := by decide

def errOf {α : Type} : Except Err α → Option Err
  | .error e => some e
  | .ok _ => none

/-- a generator returning `None`, or yielding the word `None`, stops the whole run -/
example : errOf (runFileGenerators exDev
    [{ path := some "/a".toList, prio := none, run := .none, reload := none, isSafe := true }]) =
      some .exception := by decide
example : errOf (runFileGenerators exDev
    [{ path := some "/a".toList, prio := none, run := .str "x None".toList, reload := none, isSafe := true }]) =
      some .assertion := by decide
example : hasNoneWord "xNone None1 _None".toList = false := by decide

example : splitlines "a\r\nb\n\nc\x0cd\r".toList = ["a".toList, "b".toList, [], "c".toList, "d".toList] := by
  decide
example : Canonical "a\nb\n".toList := by unfold Canonical; decide
example : ¬ Canonical "a\nb".toList := by unfold Canonical; decide

/-- canonical texts, one changed and one equal file, reloads enabled: only the changed
file is uploaded, with its reload command; forcing uploads both -/
def exIn (r : Reload) (after : List Text) : JobIn :=
  { hostname := "h".toList, err := false,
    oldFiles := [("/a".toList, "x\n".toList), ("/b".toList, "z\n".toList)],
    newFiles := [("/a".toList, ("y\n".toList, "ra".toList)), ("/b".toList, ("z\n".toList, "rb".toList))],
    reload := r, drv := { before := [], after := after, exit := [] } }

example : NoDupKeys (exIn .yes []).newFiles := by unfold NoDupKeys; decide
example : (parseResult udToy (exIn .yes [])).toOption.map (fun o => (o.files, o.cmds)) =
    some ([("/a".toList, "y\n".toList)], [("/a".toList, "ra".toList)]) := by decide
example : (parseResult udToy (exIn .no [])).toOption.map (fun o => (o.files, o.cmds)) =
    some ([("/a".toList, "y\n".toList)], []) := by decide
example : (parseResult udToy (exIn .force ["sync".toList])).toOption.map (fun o => (o.files, o.cmds)) =
    some ([("/a".toList, "y\n".toList), ("/b".toList, "z\n".toList)],
          [("/a".toList, "ra\nsync".toList), ("/b".toList, "rb\nsync".toList)]) := by decide
/-- the `KeyError` branch: reloads disabled and a driver with closing commands -/
example : (parseResult udToy (exIn .no ["sync".toList])).toOption = none := by decide
example : (pcDiff udToy "h".toList (exIn .yes []).oldFiles (exIn .yes []).newFiles).map (·.1) =
    ["h//a".toList] := by decide

end Examples

end Annet.Files
