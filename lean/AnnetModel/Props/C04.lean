/-
C04 — Vendor text and config trees round-trip for every supported vendor.

Property theorems only; helper lemmas live in `Lemmas/FormatSplit*.lean`, the model in
`Model/FormatSplit.lean` (+ `Model/Offside.lean`), the domain `WF` (= `WFfull`) and the statements
`RoundTrip` / `FixPoint` in `Spec/FormatSplit.lean`.

  RoundTrip f t  :=  ∃ s, join f t = some s ∧ parse f s = some (.ok t)
  FixPoint  f t  :=  ∃ s t', join f t = some s ∧ parse f s = some (.ok t') ∧ join f t' = some s

Nothing here bounds the depth or the size of the tree, the number of rows, or the indentation width.
-/
import AnnetModel.Lemmas.FormatSplit
import AnnetModel.Lemmas.FormatSplitParsed

/-! OBLIGATIONS
Annet.FormatSplit.C04_offside_render
Annet.FormatSplit.C04_common_roundtrip
Annet.FormatSplit.C04_juniper_roundtrip
Annet.FormatSplit.C04_ribbon_roundtrip
Annet.FormatSplit.C04_nokia_roundtrip
Annet.FormatSplit.C04_cisco_roundtrip
Annet.FormatSplit.C04_ros_roundtrip
Annet.FormatSplit.C04_roundtrip_every_vendor
Annet.FormatSplit.C04_fixpoint
Annet.FormatSplit.C04_parsed_text_roundtrip
Annet.FormatSplit.C04_cisco_old_rule_false
Annet.FormatSplit.C04_ros_old_rule_false
-/

namespace Annet.FormatSplit
open Annet Annet.Offside

/-- an `indent` keyword of `make_formatter` inside the domain: absent, or `w ≥ 1` blanks -/
def IndentOk (kw : Option Str) : Prop := kw = none ∨ ∃ w, 0 < w ∧ kw = some (blanks w)

/-- The core of every round trip (`offside_render` of DESIGN §5): the offside parser applied to the
reference rendering of a tree — one row per line behind `w·depth` blanks, ANY width `w ≥ 1`, any
depth — returns exactly that tree, provided rows are non-empty, stripped, no comments, and siblings
are distinct. -/
theorem C04_offside_render (w : Nat) (hw : 0 < w) (t : Cfg)
    (h : wf (fun r => rowBase r.toList) t = true) :
    parseToTree comments ((render w 0 t).map String.ofList) = .ok t :=
  Lemmas.parse_render w hw _ (fun _ hr => hr) t h

/-- Common (optixtrans, pc), Huawei (huawei, h3c), Nexus-like (nexus, arista, aruba, b4com) and Asr
(iosxr): `parse(join(t)) = t` on the whole well-formed domain. -/
theorem C04_common_roundtrip (k : Kind) (_hk : k = .common ∨ k = .huawei ∨ k = .nexusLike ∨ k = .asr)
    (kw : Option Str) (hkw : IndentOk kw) (t : Cfg) (h : WF k t = true) :
    RoundTrip (mkFormatter k kw) t := by
  obtain ⟨w, hw, e⟩ := Lemmas.mkFormatter_blanks k kw hkw
  rw [e]
  exact Lemmas.roundtrip_WF k w hw t h

/-- Juniper: through `_formatted_blocks` (braces, semicolons) and the five `sub_regexs`. -/
theorem C04_juniper_roundtrip (kw : Option Str) (hkw : IndentOk kw) (t : Cfg)
    (h : WF .juniper t = true) : RoundTrip (mkFormatter .juniper kw) t := by
  obtain ⟨w, hw, e⟩ := Lemmas.mkFormatter_blanks .juniper kw hkw
  rw [e]
  exact Lemmas.roundtrip_WF _ w hw t h

/-- Ribbon (its `; # SECRET-DATA` end-of-line comment never reaches the compiled regexes). -/
theorem C04_ribbon_roundtrip (kw : Option Str) (hkw : IndentOk kw) (t : Cfg)
    (h : WF .ribbon t = true) : RoundTrip (mkFormatter .ribbon kw) t := by
  obtain ⟨w, hw, e⟩ := Lemmas.mkFormatter_blanks .ribbon kw hkw
  rw [e]
  exact Lemmas.roundtrip_WF _ w hw t h

/-- Nokia: no statement end on output, `;` still stripped on input, and the `configure {}` bounds are
the whole text when no top-level row is `configure`. -/
theorem C04_nokia_roundtrip (kw : Option Str) (hkw : IndentOk kw) (t : Cfg)
    (h : WF .nokia t = true) : RoundTrip (mkFormatter .nokia kw) t := by
  obtain ⟨w, hw, e⟩ := Lemmas.mkFormatter_blanks .nokia kw hkw
  rw [e]
  exact Lemmas.roundtrip_WF _ w hw t h

/-- Cisco, at full strength: rows are words (no double blank), none is the formatter's own delimiter
`exit-address-family`; rows starting with `address-family` are ordinary rows, at any depth, followed by
anything.  (`split` shifts an `address-family` section only when an `exit-address-family` line closes
it at the same indent — `join` of such a tree never prints one.) -/
theorem C04_cisco_roundtrip (kw : Option Str) (hkw : IndentOk kw) (t : Cfg)
    (h : WF .cisco t = true) : RoundTrip (mkFormatter .cisco kw) t := by
  obtain ⟨w, hw, e⟩ := Lemmas.mkFormatter_blanks .cisco kw hkw
  rw [e]
  exact Lemmas.roundtrip_WF _ w hw t h

/-- RouterOS, at full strength: the top level holds sections; a section holds leaf rows, then
sub-sections, to any depth.  `join` prints `/path words` for every section, `split` announces the whole
path again one word per line, and the parser merges the repeated ancestors. -/
theorem C04_ros_roundtrip (kw : Option Str) (hkw : IndentOk kw) (t : Cfg)
    (h : WF .ros t = true) : RoundTrip (mkFormatter .ros kw) t := by
  obtain ⟨w, hw, e⟩ := Lemmas.mkFormatter_blanks .ros kw hkw
  rw [e]
  exact Lemmas.roundtrip_WF _ w hw t h

/-- The property in its own shape: for EVERY vendor name of the registry, every tree of that vendor's
whole well-formed domain, every admissible indent: `parse_to_tree(join(t), split) == t`. -/
theorem C04_roundtrip_every_vendor (vendor : String) (k : Kind) (_hv : kindOf vendor = some k)
    (kw : Option Str) (hkw : IndentOk kw) (t : Cfg) (h : WFfull k t = true) :
    RoundTrip (mkFormatter k kw) t := by
  obtain ⟨w, hw, e⟩ := Lemmas.mkFormatter_blanks k kw hkw
  rw [e]
  exact Lemmas.roundtrip_WF k w hw t h

/-- Second clause: for the text `s = join(t)`, `join(parse(s)) = s` — for every vendor, on the same domain. -/
theorem C04_fixpoint (vendor : String) (k : Kind) (hv : kindOf vendor = some k)
    (kw : Option Str) (hkw : IndentOk kw) (t : Cfg) (h : WFfull k t = true) :
    FixPoint (mkFormatter k kw) t :=
  Lemmas.fixpoint_of_roundtrip _ t (C04_roundtrip_every_vendor vendor k hv kw hkw t h)

/-- "Re-rendering a parsed device config and parsing again is a fixed point", for the Common formatter
(optixtrans, pc) and ARBITRARY text: whatever tree `parse_to_tree` returns for a text is inside the
round-trip domain, so `parse(join(parse(text))) = parse(text)`. -/
theorem C04_parsed_text_roundtrip (text : Str) (kw kw' : Option Str) (hkw' : IndentOk kw') (t : Cfg)
    (h : parse (mkFormatter .common kw) text = some (.ok t)) :
    RoundTrip (mkFormatter .common kw') t := by
  have hwf : wf (fun r => rowBase r.toList) t = true := by
    apply Lemmas.parsed_wf text t
    simpa [parse, split, mkFormatter] using h
  have hWF : WF .common t = true := by
    have e : (rowOk .common) = (fun r => rowBase r.toList) := by
      funext r; simp [rowOk]
    simp only [WF, e]
    exact hwf
  exact C04_common_roundtrip .common (Or.inl rfl) kw' hkw' t hWF

/-- The Cisco rule as it was before fix 13137d1 (`ciscoSplitOld`: EVERY `address-family` row shifts what
follows) did NOT round-trip on this domain: `[address-family a, c]` came back as `{address-family a: {c}}`. -/
theorem C04_cisco_old_rule_false :
    ¬ ∀ t : Cfg, WF .cisco t = true →
      parseToTree comments ((ciscoSplitOld (commonJoin (blanks 2) t)).map String.ofList) = .ok t := by
  intro hall
  have hp := hall Lemmas.ciscoWitness (by decide)
  have e : blanks 2 = [' ', ' '] := rfl
  rw [e, Lemmas.ciscoWitness_old_parse] at hp
  simp only [Except.ok.injEq, Lemmas.ciscoWitness] at hp
  injection hp with hp
  injection hp with _ h2
  simp at h2

/-- The RouterOS rule as it was before fix c926070 (`rosJoinOld`: sub-section prefix taken from
`context.parent.row`) did NOT round-trip: `{ip: {address: {r}}}` was printed `/ip`, `/address` and came
back as `{ip: {}, address: {r}}`. -/
theorem C04_ros_old_rule_false :
    ¬ ∀ t : Cfg, WF .ros t = true →
      ∃ ls, rosSplit (blanks 2) (rosJoinOld (blanks 2) t) = some ls ∧
        parseToTree comments (ls.map String.ofList) = .ok t := by
  intro hall
  obtain ⟨ls, hs, hp⟩ := hall Lemmas.rosWitness (by decide)
  have e : blanks 2 = [' ', ' '] := rfl
  rw [e, Lemmas.rosWitness_old_split] at hs
  simp only [Option.some.injEq] at hs
  rw [← hs, Lemmas.rosWitness_old_parse] at hp
  simp only [Except.ok.injEq, Lemmas.rosWitness] at hp
  injection hp with hp
  injection hp with _ h2
  simp at h2

/-! ## Non-vacuity -/

/-- all 14 registered vendor names are in the table -/
example : ["huawei", "h3c", "optixtrans", "cisco", "nexus", "iosxr", "arista", "aruba", "b4com", "juniper",
    "ribbon", "nokia", "routeros", "pc"].all (fun v => (kindOf v).isSome) = true := by decide

private def leaf (s : String) : String × Cfg := (s, .mk [])

/-- a three-level tree with multi-word rows is in the domain of the indentation vendors … -/
private def sample : Cfg :=
  .mk [("interface Eth1", .mk [leaf "description up link", ("vrf MGMT", .mk [leaf "mtu 9000"]), leaf "shutdown"]),
       leaf "snmp-agent", ("bgp 65000", .mk [leaf "peer 10.0.0.1 as-number 65001"])]

example : WF .common sample = true := by decide
example : WF .huawei sample = true := by decide
example : WF .nexusLike sample = true := by decide
example : WF .asr sample = true := by decide
example : WF .cisco sample = true := by decide
/-- … and of the Juniper family (`[ a b ]` lists, `/` and `#` inside words are fine) -/
private def sampleJ : Cfg :=
  .mk [("interfaces", .mk [("ge-0/0/0", .mk [leaf "description \"up link\"", ("unit 0", .mk [leaf "family inet"])])]),
       leaf "apply-groups [ a b ]", leaf "x a#b"]

example : WF .juniper sampleJ = true := by decide
example : WF .ribbon sampleJ = true := by decide
example : WF .nokia sampleJ = true := by decide
/-- RouterOS: nested sections (`/ip address`, `/ip address x`), leaves before sub-sections -/
private def sampleR : Cfg :=
  .mk [("ip", .mk [leaf "add address=10.0.0.1/24 interface=ether1",
         ("address", .mk [leaf "set x=1", ("x", .mk [leaf "q"])]), ("route", .mk [leaf "add gateway=10.0.0.254"])]),
       ("user", .mk [("aaa", .mk [leaf "set accounting=yes"])])]

example : WF .ros sampleR = true := by decide
/-- Cisco: `address-family` rows with and without children, followed by siblings and shallower rows -/
private def sampleC : Cfg :=
  .mk [("router bgp 1", .mk [("address-family ipv4", .mk [leaf "neighbor x activate"]), leaf "address-family ipv6",
         leaf "bgp log-neighbor-changes"]), leaf "exit", leaf "interface a"]

example : WF .cisco sampleC = true := by decide
example : IndentOk (some (blanks 3)) := Or.inr ⟨3, by omega, rfl⟩
/-- the two old-rule witnesses are inside today's domains -/
example : WF .cisco Lemmas.ciscoWitness = true ∧ WF .ros Lemmas.rosWitness = true := by decide
/-- the remaining exclusions are real: the `/user ssh-keys` section is post-processed by `split` -/
example : WF .ros (.mk [("user", .mk [("ssh-keys", .mk [leaf "r"])])]) = false := by decide

end Annet.FormatSplit
