/-
C20 — Results are independent of processing history and inputs are left unmodified.

Model: `Model/Effects.lean` (an effect model: which long-lived objects a job writes, with the three
`copy.deepcopy` calls as flags).  `Gen/Effects.lean` is regenerated from the Python ASTs on every run: the
flags as the source has them now, and the write sets of every function behind a `%logic` / `%diff_logic`
name of the shipped rule files.

What is proved, for every process state, every sequence of jobs, every table of logic functions:

  * with `_select_match`'s copy in place and logic functions that write to their own arguments only, no job
    writes the compiled rulebook or anything global (`C20_no_escape`), so a job run after any history gives
    what it gives in a fresh process (`C20_history_independent`);
  * make_patch's copy alone gives the same, provided no diff-logic writes into the match it is shown
    (`C20_no_escape_copy_attrs`) — juniper's `comment_processor` does, so `_select_match`'s copy is the one
    that matters there (`C20_flag_needed_match`);
  * make_patch's copy is what makes the commands of one (rule, key) independent of the keys processed before
    it *inside* a job (`C20_items_independent`, `C20_flag_needed_attrs`);
  * make_diff's copy protects the caller's trees only: the trees `apply_diff_rb` leaves behind give the same
    diff input again (`C20_prune_idempotent`), and without the copy the caller's tree is changed
    (`C20_flag_needed_old_new`);
  * the scratch field of a compiled ACL is written before it is read (`C20_scratch_fresh`);
  * the regenerated table is confined and the three copies are in the source (`C20_confined_table`,
    `C20_flags_hold`).

The design's claim "each of the three flags is needed for history independence *of jobs*" is false of the code:
with `copyAttrs` off and `copyMatch` on, jobs are still independent (that is `C20_history_independent`, whose
hypothesis does not mention `copyAttrs`); what breaks is the independence of keys inside one job.
-/
import AnnetModel.Lemmas.Effects
import AnnetModel.Gen.Effects
import AnnetModel.Spec.ProcessState

/-! OBLIGATIONS
Annet.Effects.C20_no_escape
Annet.Effects.C20_no_escape_copy_attrs
Annet.Effects.C20_history_independent
Annet.Effects.C20_inputs_unchanged
Annet.Effects.C20_items_independent
Annet.Effects.C20_prune_idempotent
Annet.Effects.C20_scratch_fresh
Annet.Effects.C20_effect_language_confined
Annet.Effects.C20_confined_table
Annet.Effects.C20_flags_hold
Annet.Effects.C20_flag_needed_old_new
Annet.Effects.C20_flag_needed_attrs
Annet.Effects.C20_flag_needed_match
Annet.Effects.C20_flag_needed_both
Annet.Effects.C20_confinement_needed
Annet.Effects.C20_process_state_audited
-/

namespace Annet.Effects
open Annet Annet.Rules Annet.Diff

/-! ### general theorems -/

/-- No job writes the compiled rulebook or a global: every logic / diff-logic function writes to its own
arguments only, and `_select_match` hands out copies. -/
theorem C20_no_escape (fl : Flags) (T : Tables) (hm : fl.copyMatch = true) (hc : T.Confined) (p : Proc) (j : Job) :
    (runJob fl T p j).2 = p :=
  runJobSt_proc_of_copyMatch fl T hm hc p j

/-- The same from make_patch's copy alone, when no diff-logic writes into the match it is shown. -/
theorem C20_no_escape_copy_attrs (fl : Flags) (T : Tables) (ha : fl.copyAttrs = true) (hc : T.Confined)
    (hp : ∀ r, PureD (T.dlogic r)) (p : Proc) (j : Job) : (runJob fl T p j).2 = p :=
  runJobSt_proc_of_copyAttrs fl T ha hc hp p j

/-- result(jᵢ | after j₁ … jᵢ₋₁) = result(jᵢ | fresh process), for every history, and a whole sequence run in
one process gives the list of the fresh results. -/
theorem C20_history_independent (fl : Flags) (T : Tables) (hm : fl.copyMatch = true) (hc : T.Confined) (p : Proc)
    (history : List Job) (j : Job) :
    runJob fl T (after fl T p history) j = runJob fl T p j ∧
    runJobs fl T p (history ++ [j]) = (history ++ [j]).map (fun x => (runJob fl T p x).1) := by
  have hfix : ∀ x, (runJob fl T p x).2 = p := C20_no_escape fl T hm hc p
  exact ⟨by rw [after_eq_of_fix fl T p hfix history], runJobs_eq_of_fix fl T p hfix _⟩

/-- With the copies the source has, a job leaves the process state and the caller's two trees as they were. -/
theorem C20_inputs_unchanged (T : Tables) (hc : T.Confined) (p : Proc) (j : Job) (rules : PRules) (old new : Cfg) :
    (runJob Flags.all T p j).2 = p ∧ callerTreeAfter Flags.all rules old = .ok old ∧
    callerTreeAfter Flags.all rules new = .ok new :=
  ⟨C20_no_escape Flags.all T rfl hc p j, rfl, rfl⟩

theorem rowStep_emits (fl : Flags) (T : Tables) (st : JSt) (r : Nat) : (rowStep fl T st r).emits = st.emits := by
  unfold rowStep
  split
  · rfl
  · split
    · rfl
    · simp only
      split
      · split <;> rfl
      · rfl

/-- make_patch's copy: what a job yields is what its `(rule, key)` items yield one by one, each processed as the
only item after the same diff — no item sees what an earlier one wrote (an exception cuts the sequence short). -/
theorem C20_items_independent (fl : Flags) (T : Tables) (ha : fl.copyAttrs = true) (hc : T.Confined) (p : Proc)
    (rows : List Nat) (items : List Item) (hd : (rows.foldl (rowStep fl T) (JSt.start p)).err = none) :
    ((runJobSt fl T p ⟨rows, items⟩).emits, (runJobSt fl T p ⟨rows, items⟩).err) =
      seqOut (items.map fun it => ((runJobSt fl T p ⟨rows, [it]⟩).emits, (runJobSt fl T p ⟨rows, [it]⟩).err)) := by
  have hem : (rows.foldl (rowStep fl T) (JSt.start p)).emits = [] :=
    foldl_inv (fun s : JSt => s.emits = []) _ (fun s x hs => (rowStep_emits fl T s x).trans hs) rows _ rfl
  have hself : ({ (rows.foldl (rowStep fl T) (JSt.start p)) with emits := [] } : JSt) =
      rows.foldl (rowStep fl T) (JSt.start p) := by
    generalize rows.foldl (rowStep fl T) (JSt.start p) = s at hem
    cases s
    simp_all
  have hmap : items.map (itemAlone fl T (rows.foldl (rowStep fl T) (JSt.start p))) =
      items.map (fun it => ((itemStep fl T (rows.foldl (rowStep fl T) (JSt.start p)) it).emits,
                            (itemStep fl T (rows.foldl (rowStep fl T) (JSt.start p)) it).err)) := by
    apply List.map_congr_left
    intro it _
    simp only [itemAlone, hself]
  have := items_seq fl T ha hc _ hd items _ rfl rfl rfl
  simp only [runJobSt, this, hd, hem, List.nil_append, List.foldl_cons, List.foldl_nil, hmap]

/-- make_diff's copy protects the caller only: the tree `apply_diff_rb` leaves behind, given again, is annotated
exactly as before — so without the copy a repeated computation on the same (now pruned) trees gives the same diff. -/
theorem C20_prune_idempotent (rules : PRules) (t : Cfg) (a : ACfg) (h : annotate rules t = .ok a) :
    prune rules t = .ok (eraseA a) ∧ annotate rules (eraseA a) = .ok a := by
  refine ⟨?_, annotate_erase t rules a h⟩
  simp [prune, h, Except.map]

theorem scanPass_snd_of_length (m : Nat → Option Groups) (isRev : Bool) :
    ∀ (sc sc' : List (Option Groups)) (i : Nat), sc.length = sc'.length →
      (scanPass m isRev i sc).2 = (scanPass m isRev i sc').2
  | [], [], _, _ => rfl
  | [], _ :: _, _, h => by simp at h
  | _ :: _, [], _, h => by simp at h
  | s :: rest, s' :: rest', i, h => by
    have ih := scanPass_snd_of_length m isRev rest rest' (i + 1) (by simpa using h)
    simp only [scanPass]
    cases m i <;> simp [ih]

/-- The scratch field is fresh at every read: what `match_row_to_acl` returns (the rule, the direction and the
`match` groups its caller reads) does not depend on what earlier rows, configurations or devices left in the
shared compiled ACL. -/
theorem C20_scratch_fresh (sel : List (Nat × Bool) → Option (Nat × Bool)) (hsel : ∀ l x, sel l = some x → x ∈ l)
    (dm rm : Nat → Option Groups) (sc sc' : List (Option Groups)) (hl : sc.length = sc'.length) :
    (matchRowToAcl sel dm rm sc).2 = (matchRowToAcl sel dm rm sc').2 := by
  have hms : (findAclMatches dm rm sc).2 = (findAclMatches dm rm sc').2 := by
    unfold findAclMatches
    simp only
    rw [scanPass_snd_of_length dm false sc sc' 0 hl,
        scanPass_snd_of_length rm true (scanPass dm false 0 sc).1 (scanPass dm false 0 sc').1 0
          (by rw [scanPass_length, scanPass_length, hl])]
  unfold matchRowToAcl
  simp only
  rw [← hms]
  cases hs : sel (findAclMatches dm rm sc).2 with
  | none => rfl
  | some x =>
    obtain ⟨r, b⟩ := x
    have hmem := hsel _ _ hs
    simp only
    rw [findAclMatches_scratch dm rm sc r b hmem, findAclMatches_scratch dm rm sc' r b (hms ▸ hmem)]

/-- Every function written in the effect language (the shipped writers and the harness's test logics) is confined. -/
theorem C20_effect_language_confined (logic : Nat → List Phase) (dlogic : Nat → List Eff) :
    Tables.Confined ⟨fun r => phaseLogic (logic r), fun r => effDLogic (dlogic r)⟩ :=
  ⟨fun r => phaseLogic_confined (logic r), fun r => effDLogic_confined (dlogic r)⟩

/-! ### the regenerated table -/

/-- Every function behind a `%logic` / `%diff_logic` name of the shipped rule files was found, and every write in
its source (and in the functions it calls inside the rulebook packages) goes to one of its own arguments; no logic
function reaches into a match. -/
theorem C20_confined_table : ∀ e ∈ Annet.Gen.Effects.table, e.confined = true := by
  have h : Annet.Gen.Effects.table.all Entry.confined = true := by decide
  exact fun e he => List.all_eq_true.1 h e he

/-- The three copies are in the source: make_diff copies old and new, make_patch the rule attrs, `_select_match`
the match attrs. -/
theorem C20_flags_hold : Annet.Gen.Effects.flags = Flags.all := by decide

/-! ### each hypothesis is needed: witnesses -/

/-- a logic that yields, then sets `force_commit` on its rule argument (as `huawei.bgp.undo_commit` does before its
first yield) -/
private def lLate : List Phase :=
  [⟨.always, [], some .default⟩, ⟨.always, [.setField "force_commit" (.bool true)], none⟩]

private def tLate : Tables := ⟨fun _ => phaseLogic lLate, fun _ => effDLogic []⟩

private def p0 : Proc := { rb := [[("reverse", .str "undo vlan {}"), ("force_commit", .bool false)]], glob := [] }

private def item (row : String) (k : String) : Item :=
  { rule := 0, key := [k], buckets := ({ added := [row] } : Buckets) }

private def job2 : Job := { rows := [0, 0], items := [item "vlan 1" "1", item "vlan 2" "2"] }

private def fcs (r : Res) : List Bool := r.emits.map (·.forceCommit)

/-- Without make_diff's copy the caller's tree loses the rows no rule knows (here `stray`), at every level. -/
theorem C20_flag_needed_old_new :
    let attrs : PAttrs :=
      { row := "vlan *", logic := "common.default", diffLogic := "common.default_diff", parent := false, forceCommit := false }
    let rules : PRules := ⟨[.mk "vlan *" false attrs (some ([], []))], []⟩
    let old : Cfg := .mk [("vlan 10", .mk []), ("stray", .mk [])]
    (match callerTreeAfter ⟨false, true, true⟩ rules old with
     | .ok t => t.kids.map (·.1)
     | .error _ => ["<error>"]) = ["vlan 10"] ∧
    (match callerTreeAfter Flags.all rules old with
     | .ok t => t.kids.map (·.1)
     | .error _ => ["<error>"]) = ["vlan 10", "stray"] := by
  decide +kernel

/-- Without make_patch's copy the second key of a job sees what the logic wrote while processing the first one:
its item needs a commit although, processed alone, it does not.  Jobs are still independent of each other. -/
theorem C20_flag_needed_attrs :
    fcs (runJob ⟨true, false, true⟩ tLate p0 job2).1 = [false, true] ∧
    fcs (runJob Flags.all tLate p0 job2).1 = [false, false] ∧
    (runJob ⟨true, false, true⟩ tLate p0 job2).2 = p0 := by
  decide +kernel

/-- Without `_select_match`'s copy a diff-logic that writes into the match it is shown (juniper's
`comment_processor` sets `context["comment"]`) writes the compiled rulebook, whatever make_patch copies. -/
theorem C20_flag_needed_match :
    let T : Tables := ⟨fun _ => phaseLogic lDefault, fun _ => effDLogic [.setField "comment_seen" (.bool true)]⟩
    (runJob ⟨true, true, false⟩ T p0 job2).2 ≠ p0 ∧ (runJob Flags.all T p0 job2).2 = p0 := by
  decide +kernel

/-- Without both copies of the attrs the rulebook is written and the same job gives another answer the second time. -/
theorem C20_flag_needed_both :
    fcs (runJob ⟨true, false, false⟩ tLate p0 job2).1 = [false, true] ∧
    (runJob ⟨true, false, false⟩ tLate p0 job2).2 ≠ p0 ∧
    fcs (runJob ⟨true, false, false⟩ tLate (runJob ⟨true, false, false⟩ tLate p0 job2).2 job2).1 = [true, true] := by
  decide +kernel

/-- a logic that counts in a global: not confined -/
private def lGlobal : LogicSem := fun _ c =>
  { cells := { c with glob := setF c.glob "seen" (.bool true) },
    emits := [{ direct := true, tmpl := "x", fmtKey := none, comments := [], forceCommit := (getF c.glob "seen").isSome }],
    err := none }

/-- With all three copies in place, a logic function that writes a global makes the second job differ: the
confinement hypothesis of `C20_no_escape` cannot be dropped. -/
theorem C20_confinement_needed :
    let T : Tables := ⟨fun _ => lGlobal, fun _ => effDLogic []⟩
    fcs (runJob Flags.all T p0 job2).1 = [false, true] ∧
    fcs (runJob Flags.all T (runJob Flags.all T p0 job2).2 job2).1 = [true, true] ∧ ¬ ConfinedL lGlobal := by
  refine ⟨by decide +kernel, by decide +kernel, ?_⟩
  intro h
  have := h [] { rule := [], diff := {}, glob := [] } [("seen", .bool true)]
  revert this
  decide +kernel

/-! ### non-vacuity -/

/-- the hypotheses of the general theorems hold for the shipped writers -/
example : Tables.Confined ⟨fun _ => phaseLogic lUndoCommit, fun _ => effDLogic []⟩ :=
  C20_effect_language_confined (fun _ => lUndoCommit) (fun _ => [])

example : ∀ r, PureD ((⟨fun _ => phaseLogic lDefaultInsteadUndo, fun _ => effDLogic []⟩ : Tables).dlogic r) :=
  fun _ _ _ => rfl

/-- `huawei.bgp.undo_commit` on a removed row: the `undo` line is yielded while `force_commit` is set, the copy
make_patch handed out is dropped afterwards -/
example :
    fcs (runJob Flags.all ⟨fun _ => phaseLogic lUndoCommit, fun _ => effDLogic []⟩ p0
      { rows := [0], items := [{ rule := 0, key := ["1"], buckets := ({ removed := ["vlan 1"] } : Buckets) }] }).1 = [true, false] := by
  decide +kernel

/-- a job on which the diff phase raises nothing, as `C20_items_independent` asks -/
example : (job2.rows.foldl (rowStep Flags.all tLate) (JSt.start p0)).err = none := by decide +kernel

/-- the selection hypothesis of `C20_scratch_fresh` holds for "first of the list" (what `_select_match` takes after
the sort) -/
example : ∀ (l : List (Nat × Bool)) x, l.head? = some x → x ∈ l := fun _ _ h => List.mem_of_mem_head? h

/-- the table is not empty and contains writers -/
example : (Annet.Gen.Effects.table.filter (fun e => !e.writes.isEmpty)).length ≥ 10 := by decide

/-- THE HIDDEN HYPOTHESIS OF HISTORY INDEPENDENCE, checked against the source on every run: the places of the annet modules a
worker runs where a value can outlive a call (regenerated from the Python ASTs: `Gen.Effects.processState`) are exactly the
audited ones of `Spec/ProcessState.lean` — constant tables, memoised pure functions of texts, start-up configuration.  A new
cache, class-level container, mutable default argument or `global` breaks this theorem. -/
theorem C20_process_state_audited : Annet.Gen.Effects.processState = Annet.ProcessState.audited := by
  decide +kernel


end Annet.Effects
