/-
C01 — Deploying the patch makes the diff empty (convergence).

What is proved here, and what is not.  The device of the property ("holds one line per rulebook rule and
key") is the specification `Spec/Device.lean`.  The theorems show that one level of that device
*refines a finite map* slot ↦ line: every command of a patch acts on exactly one slot (put / delete /
no-op), keeps the level well-formed and leaves every other line, its subtree and its position alone —
so the effect of a command list is determined per slot by the last command on that slot, whatever the
interleaving with other slots, and two levels with the same map have the same lines.  Together with
C08 (the sort keeps the removal of a slot before its re-creation and only permutes) this is the
algebra convergence rests on.  The end-to-end statement `applyCmds (cmdPaths (patch old new)) old ≃ new`
is PROVED for flat configurations (`C01_flat_converges`, stage 1) and for configurations of any depth at
the level of the patch tree (`C01_nested_converges`, stage 2) over the default/undo_redo logics; for
`%ordered`/`%rewrite`/`%global` rules, the formatter's linearisation and chains it is decided on every
generated case by the correspondence check and the simulator oracle, not by a theorem (status: partial).  The full-strength statement is false of the code for the logics that
deliberately emit nothing (`permanent`, `ignore_changes`) and in the corner cases F01c–F01g; the two
by-design ones are kernel-checked witnesses below.
-/
import AnnetModel.Lemmas.Device
import AnnetModel.Lemmas.Converge
import AnnetModel.Lemmas.ConvergeExample
import AnnetModel.Lemmas.ConvergeNested
import AnnetModel.Lemmas.ConvergeNestedPaths
import AnnetModel.Lemmas.ConvergeNestedExample
import AnnetModel.Lemmas.ConvergeNestedSecond
import AnnetModel.Lemmas.ConvergeNestedChain

/-! OBLIGATIONS
Annet.Device.C01_put_refines
Annet.Device.C01_del_refines
Annet.Device.C01_exit_noop
Annet.Device.C01_put_keeps_same_line
Annet.Device.C01_leaf_preserves_others
Annet.Device.C01_same_map_same_lines
Annet.Device.C01_cmds_refine
Annet.Device.C01_flat_converges
Annet.Device.C01_flat_converges_lines
Annet.Device.C01_flat_converges_nonvacuous
Annet.Device.C01_nested_converges
Annet.Device.C01_nested_converges_paths
Annet.Device.C01_nested_second_run_empty
Annet.Device.C01_same_lines_diff_empty
Annet.Device.C01_chain_converges
Annet.Device.C01_nested_converges_nonvacuous
Annet.Device.C01_full_false_permanent
Annet.Device.C01_full_false_ignore_changes
Annet.Device.C01_flat_default_witness_converges
-/

namespace Annet.Device
open Annet Annet.Rules Annet.Device.Abs

theorem C01_put_refines (env : Env) (rules : PRules) (c : String) (kids : List (String × Cfg))
    (hwf : WF rules kids) (hc : (slotOf rules c).isSome)
    (hne : ¬ env.exits.contains c = true)
    (hnr : ((stripReverse env c).bind fun r' => slotOf rules r') = none) :
    WF rules (execLeaf env rules c kids) ∧
    ∀ s, holder rules (execLeaf env rules c kids) s = absStep rules (holder rules kids) (.put c) s :=
  Lemmas.put_refines env rules c kids hwf hc hne hnr

theorem C01_del_refines (env : Env) (rules : PRules) (c r' : String) (kids : List (String × Cfg))
    (hwf : WF rules kids) (hne : ¬ env.exits.contains c = true)
    (hs : stripReverse env c = some r') (hr : (slotOf rules r').isSome) :
    WF rules (execLeaf env rules c kids) ∧
    ∀ s, holder rules (execLeaf env rules c kids) s = absStep rules (holder rules kids) (.del r') s :=
  Lemmas.del_refines env rules c r' kids hwf hne hs hr

theorem C01_exit_noop (env : Env) (rules : PRules) (c : String) (kids : List (String × Cfg))
    (h : env.exits.contains c = true) : execLeaf env rules c kids = kids :=
  Lemmas.exit_noop env rules c kids h

theorem C01_put_keeps_same_line (env : Env) (rules : PRules) (c : String) (sub : Cfg) (kids : List (String × Cfg))
    (hwf : WF rules kids) (hc : (slotOf rules c).isSome) (hne : ¬ env.exits.contains c = true)
    (hnr : ((stripReverse env c).bind fun r' => slotOf rules r') = none) (hin : (c, sub) ∈ kids) :
    (c, sub) ∈ execLeaf env rules c kids :=
  Lemmas.put_keeps_same_line env rules c sub kids hwf hc hne hnr hin

theorem C01_leaf_preserves_others (env : Env) (rules : PRules) (c : String) (kids : List (String × Cfg)) (s : Slot)
    (hwf : WF rules kids)
    (hother : slotOf rules c ≠ some s)
    (hother' : ∀ r', stripReverse env c = some r' → slotOf rules r' ≠ some s) :
    (execLeaf env rules c kids).filter (fun e => slotOf rules e.1 == some s) =
      kids.filter (fun e => slotOf rules e.1 == some s) :=
  Lemmas.leaf_preserves_others env rules c kids s hwf hother hother'

theorem C01_same_map_same_lines (rules : PRules) (a b : List (String × Cfg)) (ha : WF rules a) (hb : WF rules b)
    (h : ∀ s, holder rules a s = holder rules b s) : (a.map (·.1)).Perm (b.map (·.1)) :=
  Lemmas.same_map_perm rules a b ha hb h

/-- a command word together with the abstract command it denotes -/
def Denotes (env : Env) (rules : PRules) (c : String) : Cmd → Prop
  | .nop => env.exits.contains c = true
  | .del r' => ¬ env.exits.contains c = true ∧ stripReverse env c = some r' ∧ (slotOf rules r').isSome
  | .put r => ¬ env.exits.contains c = true ∧ r = c ∧ (slotOf rules c).isSome ∧
      ((stripReverse env c).bind fun r' => slotOf rules r') = none

/-- Any sequence of leaf commands behaves like the abstract map: after executing them in order the level
is well-formed and every slot is held as the fold of `absStep` says (in particular by the *last* command
that touched it, independently of commands on other slots). -/
theorem C01_cmds_refine (env : Env) (rules : PRules) (cs : List (String × Cmd)) (kids : List (String × Cfg))
    (hwf : WF rules kids) (hd : ∀ p ∈ cs, Denotes env rules p.1 p.2) :
    WF rules (cs.foldl (fun k p => execLeaf env rules p.1 k) kids) ∧
    ∀ s, holder rules (cs.foldl (fun k p => execLeaf env rules p.1 k) kids) s =
         (cs.foldl (fun f p => absStep rules f p.2) (holder rules kids)) s := by
  induction cs generalizing kids with
  | nil => exact ⟨hwf, fun _ => rfl⟩
  | cons p rest ih =>
    have hp := hd p (List.mem_cons_self ..)
    have hrest : ∀ q ∈ rest, Denotes env rules q.1 q.2 := fun q hq => hd q (List.mem_cons_of_mem _ hq)
    obtain ⟨c, cmd⟩ := p
    have step : WF rules (execLeaf env rules c kids) ∧
        ∀ s, holder rules (execLeaf env rules c kids) s = absStep rules (holder rules kids) cmd s := by
      cases cmd with
      | nop =>
        have h : env.exits.contains c = true := hp
        rw [Lemmas.exit_noop env rules c kids h]; exact ⟨hwf, fun _ => rfl⟩
      | del r' =>
        obtain ⟨h1, h2, h3⟩ := hp
        exact Lemmas.del_refines env rules c r' kids hwf h1 h2 h3
      | put r =>
        obtain ⟨h1, h2, h3, h4⟩ := hp
        subst h2
        exact Lemmas.put_refines env rules r kids hwf h3 h1 h4
    have := ih (execLeaf env rules c kids) step.1 hrest
    have hf : holder rules (execLeaf env rules c kids) = absStep rules (holder rules kids) cmd := funext step.2
    refine ⟨this.1, fun s => ?_⟩
    rw [List.foldl_cons, List.foldl_cons, this.2 s, hf]

/-! ### end-to-end convergence, stage 1: flat configurations

For a one-level rulebook over the `default` / `undo_redo` logics (pairwise distinct rule texts), ANY
ordering rulebook without `%order_reverse` pins, a vendor whose removal commands the device understands
(`CmdsOK`: C07's reverse round trip, stated as what the proof needs), and flat configurations whose lines
all instantiate rules with one line per (rule, key): executing the commands of the patch annet's
pipeline computes (`make_diff → make_pre → logic functions → get_order → sort`), in the emitted order,
on `old` yields exactly the lines of `new` (as a set: the map slot ↦ line is `new`'s).  1850 lines of
proof in `Lemmas/Converge.lean`; hypotheses in `Spec/Converge.lean`, two of them (`distinct rule texts`,
`exitKnown`) forced by counterexamples found while proving. -/

theorem C01_flat_converges (v : Vendor) (env : Env) (rules : PRules) (ordering : List ORule) (old new : Cfg)
    (r : Api.Result)
    (hfr : Converge.FlatRules rules) (hfo : Converge.FlatCfg old) (hfn : Converge.FlatCfg new)
    (hko : Converge.AllKnown rules old) (hkn : Converge.AllKnown rules new)
    (hwo : WF rules old.kids) (hwn : WF rules new.kids)
    (hc : Converge.CmdsOK v env rules) (hp : Converge.NoPin ordering)
    (hr : Api.deviceMode Patch.runLogic v rules ordering true old new = .ok r) :
    WF rules (applyCmds env rules (flatPaths r.patch) old).kids ∧
    ∀ s, holder rules (applyCmds env rules (flatPaths r.patch) old).kids s = holder rules new.kids s :=
  Converge.Lemmas.flat_converges v env rules ordering old new r hfr hfo hfn hko hkn hwo hwn hc hp hr

/-- … hence the device holds exactly the lines of `new`, up to their order. -/
theorem C01_flat_converges_lines (v : Vendor) (env : Env) (rules : PRules) (ordering : List ORule) (old new : Cfg)
    (r : Api.Result)
    (hfr : Converge.FlatRules rules) (hfo : Converge.FlatCfg old) (hfn : Converge.FlatCfg new)
    (hko : Converge.AllKnown rules old) (hkn : Converge.AllKnown rules new)
    (hwo : WF rules old.kids) (hwn : WF rules new.kids)
    (hc : Converge.CmdsOK v env rules) (hp : Converge.NoPin ordering)
    (hr : Api.deviceMode Patch.runLogic v rules ordering true old new = .ok r) :
    (rowsOf (applyCmds env rules (flatPaths r.patch) old)).Perm (rowsOf new) := by
  have h := C01_flat_converges v env rules ordering old new r hfr hfo hfn hko hkn hwo hwn hc hp hr
  exact Lemmas.same_map_perm rules _ _ h.1 hwn h.2

/-- Non-vacuity: the hypotheses of `C01_flat_converges` are jointly satisfied by a concrete two-rule rulebook
(`mtu` with undo_redo, `description` with default), an ordering rulebook, old = {mtu 1500, description a},
new = {mtu 9000}; the theorem then yields convergence for it (`Lemmas/ConvergeExample.lean`). -/
theorem C01_flat_converges_nonvacuous :
    ∃ r, Api.deviceMode Patch.runLogic Converge.Example.v Converge.Example.rules Converge.Example.ordering true
           Converge.Example.old Converge.Example.new = .ok r ∧
      (rowsOf (applyCmds Converge.Example.env Converge.Example.rules (flatPaths r.patch) Converge.Example.old)).Perm
        (rowsOf Converge.Example.new) :=
  Converge.Example.flat_converges_instance'

/-! ### end-to-end convergence, stage 2: configurations of any depth

For a rulebook of ANY DEPTH over the `default` / `undo_redo` logics (no `%global` rules, pairwise distinct
rule texts at every level), any ordering rulebook without `%order_reverse` pins, a vendor whose removal
commands the device understands at every level, and configurations of any depth whose lines instantiate
exactly one rule at their level with one line per (rule, key): executing the PATCH TREE the pipeline
computes (`ConvergeNested.applyTree`: a leaf item is a leaf command, a block item enters — creating if
absent — the block and executes its children there) on `old` yields, at every level of every block,
exactly the lines `new` holds (`SameC`).  2675 lines of proof in `Lemmas/ConvergeNested*.lean`.
What is still decided by the tie and the oracle only: `%ordered` / `%rewrite` / `%global` rules, custom logics and
chains (the linearisation into command paths is `C01_nested_converges_paths` below). -/

theorem C01_nested_converges (v : Vendor) (env : Env) (rules : PRules) (ordering : List ORule) (old new : Cfg)
    (r : Api.Result)
    (hr : ConvergeNested.NestedRules rules) (hgo : ConvergeNested.GoodC rules old) (hgn : ConvergeNested.GoodC rules new)
    (hc : ConvergeNested.CmdsOKAll v env rules) (hp : Converge.NoPin ordering)
    (hres : Api.deviceMode Patch.runLogic v rules ordering true old new = .ok r) :
    ConvergeNested.SameC rules (.mk (ConvergeNested.applyTree env rules r.patch old.kids)) new :=
  ConvergeNested.Lemmas.nested_converges v env rules ordering old new r hr hgo hgn hc hp hres

/-- The same for the COMMAND PATHS the formatter sends (`ConvergeNested.treePaths`: each row, the paths of its
children below it, then `[row, exit]` — what `BlockExitFormatter.cmd_paths` produces, compared with the real
`cmd_paths` on every run): executing them one by one on the device specification (`Device.applyCmds`, i.e.
`execPath` with its descent from the top for every command) makes the device agree with `new`.  The link
`applyCmds env rules (treePaths exit t) dev = applyTree …` is `ConvergeNested.Lemmas.applyCmds_treePaths`; that the
pipeline's patch tree meets its side conditions (no row is an exit word or a removal of a known row, no
`%rewrite`) is `pipeline_pathOK`. -/
theorem C01_nested_converges_paths (v : Vendor) (env : Env) (exit : String) (rules : PRules) (ordering : List ORule)
    (old new : Cfg) (r : Api.Result)
    (hr : ConvergeNested.NestedRules rules) (hgo : ConvergeNested.GoodC rules old) (hgn : ConvergeNested.GoodC rules new)
    (hc : ConvergeNested.CmdsOKAll v env rules) (hp : Converge.NoPin ordering) (hex : env.exits.contains exit = true)
    (hres : Api.deviceMode Patch.runLogic v rules ordering true old new = .ok r) :
    ConvergeNested.SameC rules (applyCmds env rules (ConvergeNested.treePaths exit r.patch) old) new :=
  ConvergeNested.Lemmas.nested_converges_paths v env exit rules ordering old new r hr hgo hgn hc hp hex hres

/-- THE PROPERTY IN ITS OWN WORDS: deploying the patch makes the diff empty.  Under the hypotheses of
`C01_nested_converges`, running the pipeline a second time — on the device state after the patch and the same target —
reports no difference and produces an empty patch.  (The device state after the patch is again a configuration of the
kind the theorem quantifies over: `ConvergeNested.Lemmas.applied_good`.) -/
theorem C01_nested_second_run_empty (v : Vendor) (env : Env) (rules : PRules) (ordering : List ORule) (old new : Cfg)
    (r : Api.Result)
    (hr : ConvergeNested.NestedRules rules) (hgo : ConvergeNested.GoodC rules old) (hgn : ConvergeNested.GoodC rules new)
    (hc : ConvergeNested.CmdsOKAll v env rules) (hp : Converge.NoPin ordering)
    (hres : Api.deviceMode Patch.runLogic v rules ordering true old new = .ok r) :
    ∃ r2, Api.deviceMode Patch.runLogic v rules ordering true
        (.mk (ConvergeNested.applyTree env rules r.patch old.kids)) new = .ok r2 ∧
      r2.diff = [] ∧ r2.patch.items = [] :=
  ConvergeNested.Lemmas.nested_second_run_empty v env rules ordering old new r hr hgo hgn hc hp hres

/-- The link between the device-level conclusion and the diff: two configurations that hold the same lines slot by slot at
every level (in any order) have an empty diff. -/
theorem C01_same_lines_diff_empty (rules : PRules) (a b : Cfg)
    (hr : ConvergeNested.NestedRules rules) (hga : ConvergeNested.GoodC rules a) (hgb : ConvergeNested.GoodC rules b)
    (hs : ConvergeNested.SameC rules a b) :
    ∃ d, Diff.makeDiff rules a b = .ok d ∧ Diff.stripUnchanged d = [] :=
  ConvergeNested.Lemmas.same_diff_empty rules a b hr hga hgb hs

/-- ALONG CHAINS OF TARGETS (the property's quantifier): deploying target after target — each patch computed by the
pipeline against the device state the previous patch left — the device stays a configuration of the kind the theorem
quantifies over and, after the last step, agrees with the last target.  (A kernel-checked two-step chain
`old → new → old` on the closed instance is in `Lemmas/ConvergeNestedChain.lean`.) -/
theorem C01_chain_converges (v : Vendor) (env : Env) (rules : PRules) (ordering : List ORule)
    (hr : ConvergeNested.NestedRules rules) (hc : ConvergeNested.CmdsOKAll v env rules) (hp : Converge.NoPin ordering)
    (old : Cfg) (targets : List Cfg) (last : Cfg) (final : Cfg)
    (hgo : ConvergeNested.GoodC rules old) (hgt : ∀ t ∈ targets ++ [last], ConvergeNested.GoodC rules t)
    (hres : ConvergeNested.Lemmas.deployChain v env rules ordering old (targets ++ [last]) = some final) :
    ConvergeNested.GoodC rules final ∧ ConvergeNested.SameC rules final last :=
  ConvergeNested.Lemmas.chain_converges v env rules ordering hr hc hp old targets last final hgo hgt hres

/-- Non-vacuity of `C01_nested_converges`: a three-level instance (interfaces with sub-blocks; one block removed,
one added, one changed at two levels, one unchanged) meets every hypothesis, so the theorem applies to it. -/
theorem C01_nested_converges_nonvacuous :
    ∃ r, Api.deviceMode Patch.runLogic ConvergeNested.Example.v ConvergeNested.Example.rules
        ConvergeNested.Example.ordering true ConvergeNested.Example.old ConvergeNested.Example.new = .ok r ∧
      ConvergeNested.SameC ConvergeNested.Example.rules
        (.mk (ConvergeNested.applyTree ConvergeNested.Example.env ConvergeNested.Example.rules r.patch
          ConvergeNested.Example.old.kids)) ConvergeNested.Example.new :=
  ConvergeNested.Example.nested_converges_instance

/-! ### the full-strength statement is false by design for `permanent` and `ignore_changes` -/

private def env0 : Env := { reverse := "undo", exits := ["quit"] }
private def v0 : Vendor := { reverse := "undo", exit := "quit" }
private def rule1 (row logic : String) : PRules :=
  ⟨[.mk row false { row := row, logic := logic, diffLogic := "common.default_diff", parent := false, forceCommit := false }
      (some ([], []))], []⟩

/-- the commands the pipeline sends for a flat config pair -/
private def patchCmds (rules : PRules) (old new : Cfg) : List (List String) :=
  match Api.deviceMode Patch.runLogic v0 rules [] true old new with
  | .ok r => flatPaths r.patch
  | .error _ => [["<error>"]]

private def after (rules : PRules) (cmds : List (List String)) (old : Cfg) : List String :=
  rowsOf (applyCmds env0 rules cmds old)

/-- F01a: `permanent` never removes a childless row: no command is sent, the device keeps the row. -/
theorem C01_full_false_permanent :
    let rules := rule1 "description" "common.permanent"
    let old : Cfg := .mk [("description x", .mk [])]
    patchCmds rules old (.mk []) = [] ∧ after rules [] old = ["description x"] := by
  decide

/-- F01b: `ignore_changes` emits nothing for a replaced row: the device keeps the old text. -/
theorem C01_full_false_ignore_changes :
    let rules := rule1 "mtu" "common.ignore_changes"
    let old : Cfg := .mk [("mtu 1500", .mk [])]
    patchCmds rules old (.mk [("mtu 9000", .mk [])]) = [] ∧ after rules [] old = ["mtu 1500"] := by
  decide

/-- Non-vacuity / sanity: with the default logic a replacement and an addition converge. -/
theorem C01_flat_default_witness_converges :
    (let rules := rule1 "mtu" "common.default"
     let old : Cfg := .mk [("mtu 1500", .mk [])]
     patchCmds rules old (.mk [("mtu 9000", .mk [])]) = [["mtu 9000"]] ∧ after rules [["mtu 9000"]] old = ["mtu 9000"]) ∧
    (let rules := rule1 "mtu" "common.default"
     let old : Cfg := .mk []
     patchCmds rules old (.mk [("mtu 9000", .mk [])]) = [["mtu 9000"]] ∧ after rules [["mtu 9000"]] old = ["mtu 9000"]) ∧
    (let rules := rule1 "mtu" "common.default"
     after rules [["undo mtu"]] (.mk [("mtu 1500", .mk []), ("sysname x", .mk [])]) = ["sysname x"]) := by
  decide

end Annet.Device
