/-
C14 — Shipped routing-policy generators emit ACL-covered, self-consistent config.

Model: `Model/Rpl.lean` (Huawei, Arista), `Model/RplCumulus.lean`, `Model/RplRun.lean` (`_run_partial_generator`).
Property theorems only; proofs of the lemmas are in `Lemmas/Rpl.lean`.
-/
import AnnetModel.Lemmas.Rpl
import AnnetModel.Lemmas.RplAcl
import AnnetModel.Lemmas.RplRefs
import AnnetModel.Lemmas.RplRefsA
import AnnetModel.Lemmas.RplRefsC
import AnnetModel.Lemmas.RplNesting

/-! OBLIGATIONS
Annet.Rpl.C14_error_before_lines_huawei
Annet.Rpl.C14_huawei_next_hop_returns
Annet.Rpl.C14_as_path_rejected_before_rows
Annet.Rpl.C14_huawei_extcommunity_rejected_before_rows
Annet.Rpl.C14_huawei_extcommunity_soo_rejected_before_rows
Annet.Rpl.C14_cumulus_rejected_before_rows
Annet.Rpl.C14_error_before_lines_false
Annet.Rpl.C14_error_before_lines_partial_arista
Annet.Rpl.C14_error_before_lines_partial_cumulus
Annet.Rpl.C14_condition_error_before_lines
Annet.Rpl.C14_statement_stream_huawei
Annet.Rpl.C14_statement_stream_arista
Annet.Rpl.C14_statement_stream_cumulus
Annet.Rpl.C14_acl_covered_huawei
Annet.Rpl.C14_acl_covered_arista
Annet.Rpl.C14_arista_large_covered
Annet.Rpl.C14_acl_covered_tree
Annet.Rpl.C14_refs_defined_huawei
Annet.Rpl.C14_refs_defined_false_empty_list
Annet.Rpl.C14_refs_defined_arista
Annet.Rpl.C14_refs_defined_cumulus
Annet.Rpl.C14_refs_defined_cumulus_text
Annet.Rpl.C14_refs_defined_cumulus_false_empty_list
Annet.Rpl.C14_parse_nesting
Annet.Rpl.C14_block_stream_rows
-/

namespace Annet.Rpl
open Annet.Rpl.Spec

/-! ### "A construct the back-end cannot express is rejected before any line for it is emitted"

Full statement: `∀ cl a, actNamesKnown cl a → ErrorBeforeLines (then_<vendor> cl a)`.
After the repairs 0cac6f0 (F14b), 47fe134 (F14c–e) and f38bcab (F14f) it **holds for Huawei** at full strength
(`C14_error_before_lines_huawei`); the former false-witnesses are kept as positive theorems about the same inputs.
For Arista and Cumulus one shape remains (`C14_error_before_lines_false`): `extcommunity` naming a list that is not an
RT/SOO list is refused with `ValueError` after a row of an earlier list was yielded — an invalid input, not a construct
the back-end cannot express; the `_partial` theorems exclude exactly that shape (`safeActA`, `safeActC`). -/

def rtList : CommList := { name := s "T1", members := [s "1:1"], type := .rt }
def sooList : CommList := { name := s "S1", members := [s "2:2"], type := .soo }
def largeList : CommList := { name := s "L1", members := [s "1:1:1"], type := .large }
def basicList : CommList := { name := s "C1", members := [s "1:1", s "1:2"] }

def nextHopSelf : Action :=
  { field := .nextHop, type := .custom, val := .nextHop { target := s "self", addr := [] } }
def demoStmt : Stmt :=
  { name := none, number := some (s "10"), result := .allow,
    conds := [{ field := .community, op := .has, val := .names [s "C1"] }],
    acts := [{ field := .community, type := .custom,
               val := .comm { replaced := none, added := [s "C1"], removed := [s "C1"] } },
             { field := .rpkiValidState, type := .set, val := .scalar (s "valid") },
             { field := .tag, type := .set, val := .scalar (s "7") }] }
def communityAddRemove : Action :=
  { field := .community, type := .custom,
    val := .comm { replaced := none, added := [s "C1"], removed := [s "C1"] } }
/-- `rule.extcommunity.add("T1"); rule.extcommunity.remove("C1")` with `C1` a BASIC list -/
def extAddRtRemoveBasic : Action :=
  { field := .extcommunity, type := .custom,
    val := .comm { replaced := none, added := [s "T1"], removed := [s "C1"] } }
/-- `rule.extcommunity.set("T1", "C1")` with `C1` a BASIC list -/
def extSetRtBasic : Action :=
  { field := .extcommunity, type := .custom,
    val := .comm { replaced := some [s "T1", s "C1"], added := [], removed := [] } }

/-- Huawei, full strength: whatever the action and the lists, an action whose lists exist either yields its rows or
raises before any of them. -/
theorem C14_error_before_lines_huawei (cl : List CommList) (a : Action) (hk : actNamesKnown cl a = true) :
    ErrorBeforeLines (thenH cl a) :=
  Lemmas.ebl_thenH cl a hk

/-- F14b repaired (0cac6f0) — Huawei `rule.next_hop.self()` yields `apply cost 1` and returns (policy.py:358-374). -/
theorem C14_huawei_next_hop_returns :
    thenH [] nextHopSelf = ([[s "apply", s "cost 1"]], none) := by decide

/-- F14c repaired (47fe134) — `as_path`: Huawei refuses `expand` / `expand_last_as`, Arista refuses `expand` /
`delete`, before the `prepend` rows (policy.py:302-305, 671-674). -/
theorem C14_as_path_rejected_before_rows :
    thenAsPathH { set := none, prepend := [s "65000"], expand := [s "1"], expandLastAs := [], delete := [] }
      = ([], some .runtime) ∧
    thenAsPathH { set := none, prepend := [s "65000"], expand := [], expandLastAs := s "2", delete := [] }
      = ([], some .runtime) ∧
    thenAsPathA { set := none, prepend := [], expand := [s "1"], expandLastAs := [], delete := [] }
      = ([], some .runtime) ∧
    thenAsPathA { set := none, prepend := [], expand := [], expandLastAs := [], delete := [s "1"] }
      = ([], some .runtime) := by decide

/-- F14d repaired (47fe134) — Huawei `extcommunity`: add + remove, and a replace mixing RT and SOO lists, are refused
with no row (policy.py:268-296). -/
theorem C14_huawei_extcommunity_rejected_before_rows :
    thenExtH [rtList, sooList] { replaced := none, added := [s "T1"], removed := [s "T1"] }
      = ([], some .notImplemented) ∧
    thenExtH [rtList, sooList] { replaced := some [s "T1", s "S1"], added := [], removed := [] }
      = ([], some .notImplemented) := by decide

/-- F14e repaired (47fe134) — Huawei `extcommunity_soo` add + remove is refused with no row (policy.py:240-246). -/
theorem C14_huawei_extcommunity_soo_rejected_before_rows :
    thenExtSooH [sooList] { replaced := none, added := [s "S1"], removed := [s "S1"] }
      = ([], some .notImplemented) := by decide

/-- F14f repaired (f38bcab) — Cumulus: `large_community` (and `extcommunity_rt` / `_soo`) add + remove, `as_path`
prepend + expand are refused with no row (cumulus_frr.py:283-316, 354-358). -/
theorem C14_cumulus_rejected_before_rows :
    cumThenAddOnly (s "large-community") { replaced := none, added := [s "L1"], removed := [s "L1"] }
      = ([], some .notImplemented) ∧
    cumThenAsPath { set := none, prepend := [s "65000"], expand := [s "1"], expandLastAs := [], delete := [] }
      = ([], some .notImplemented) := by decide

/-- What remains: for Arista and Cumulus the full-strength statement is still false — an `extcommunity` action that
names a BASIC (or LARGE) list raises `ValueError` after the row of the RT list before it (policy.py:659-664,
cumulus_frr.py:340-343).  All names exist. -/
theorem C14_error_before_lines_false :
    thenA [rtList, basicList] extAddRtRemoveBasic = ([[s "set extcommunity", s "rt 1:1", s "additive"]], some .value) ∧
    cumThen [rtList, basicList] extSetRtBasic = ([[s "set", s "extcommunity", s "rt", s "1:1"]], some .value) ∧
    (¬ ∀ cl a, actNamesKnown cl a = true → ErrorBeforeLines (thenA cl a)) ∧
    (¬ ∀ cl a, actNamesKnown cl a = true → ErrorBeforeLines (cumThen cl a)) := by
  refine ⟨by decide, by decide, fun h => ?_, fun h => ?_⟩
  · exact absurd (h [rtList, basicList] extAddRtRemoveBasic (by decide)) (by decide)
  · exact absurd (h [rtList, basicList] extSetRtBasic (by decide)) (by decide)

/-- Arista: every action whose lists exist, except `extcommunity` add + remove with a removed list that is not an
RT/SOO list (`safeActA`). -/
theorem C14_error_before_lines_partial_arista (cl : List CommList) (a : Action)
    (hk : actNamesKnown cl a = true) (hs : safeActA cl a = true) : ErrorBeforeLines (thenA cl a) :=
  Lemmas.ebl_thenA cl a hk hs

/-- Cumulus: every action whose lists exist, except `extcommunity.set(...)` naming a list that is not an RT/SOO list
(`safeActC`). -/
theorem C14_error_before_lines_partial_cumulus (cl : List CommList) (a : Action)
    (hk : actNamesKnown cl a = true) (hs : safeActC cl a = true) : ErrorBeforeLines (cumThen cl a) :=
  Lemmas.ebl_cumThen cl a hk hs

/-- Conditions hold the clause at full strength on all three back-ends: a condition whose lists exist either yields
its rows or raises before any of them. -/
theorem C14_condition_error_before_lines (inp : Input) (c : Cond) (hk : condNamesKnown inp c = true) :
    ErrorBeforeLines (matchH inp c) ∧ ErrorBeforeLines (matchA inp c) ∧ ErrorBeforeLines (cumMatch inp c) :=
  ⟨Lemmas.ebl_matchH inp c hk, Lemmas.ebl_matchA inp c hk, Lemmas.ebl_cumMatch inp c hk⟩

/-- On the `run(device)` stream of any Huawei statement whose lists exist: below the header row
there are exactly the rows of the conditions and actions that completed, in order; the run ends with the exception of
the first failing element, which contributed no row. -/
theorem C14_statement_stream_huawei (inp : Input) (p : Policy) (st : Stmt) (num res : Str)
    (hn : st.number = some num) (hr : resultWord st.result = some res)
    (hc : ∀ c ∈ st.conds, condNamesKnown inp c = true)
    (ha : ∀ a ∈ st.acts, actNamesKnown inp.clists a = true) :
    statementH inp p st =
      (Line.mk [] [s "route-policy", p.name, res, s "node", num] ::
         (completedRows (stmtElemsH inp st)).map (Line.mk [joinSp [s "route-policy", p.name, res, s "node", num]]),
       firstErr (stmtElemsH inp st)) := by
  rw [Lemmas.statementH_eq inp p st num res hn hr, Lemmas.inBlock_eq, Lemmas.seqAll_clean]
  intro o ho
  simp only [stmtElemsH, List.mem_append, List.mem_map, List.mem_singleton] at ho
  rcases ho with (⟨c, hc', rfl⟩ | ⟨a, ha', rfl⟩) | rfl
  · exact Lemmas.ebl_matchH inp c (hc c hc')
  · exact Lemmas.ebl_thenH _ a (ha a ha')
  · exact Lemmas.ebl_trailer _ _

/-- The same on the Arista stream. -/
theorem C14_statement_stream_arista (inp : Input) (p : Policy) (st : Stmt) (num res : Str)
    (hn : st.number = some num) (hr : resultWord st.result = some res)
    (hc : ∀ c ∈ st.conds, condNamesKnown inp c = true)
    (ha : ∀ a ∈ st.acts, actNamesKnown inp.clists a = true ∧ safeActA inp.clists a = true) :
    statementA inp p st =
      (Line.mk [] [s "route-map", p.name, res, num] ::
         (completedRows (stmtElemsA inp st)).map (Line.mk [joinSp [s "route-map", p.name, res, num]]),
       firstErr (stmtElemsA inp st)) := by
  rw [Lemmas.statementA_eq inp p st num res hn hr, Lemmas.inBlock_eq, Lemmas.seqAll_clean]
  intro o ho
  simp only [stmtElemsA, List.mem_append, List.mem_map, List.mem_singleton] at ho
  rcases ho with (⟨c, hc', rfl⟩ | ⟨a, ha', rfl⟩) | rfl
  · exact Lemmas.ebl_matchA inp c (hc c hc')
  · exact Lemmas.ebl_thenA _ a (ha a ha').1 (ha a ha').2
  · exact Lemmas.ebl_trailer _ _

/-- The same on the Cumulus stream (`generate_cumulus_rpl`): the `route-map` row, the rows of the conditions and
actions that completed (behind `FRR_INDENT`), and — only when nothing raised — `on-match next` and the closing `!`. -/
theorem C14_statement_stream_cumulus (inp : Input) (p : Policy) (st : Stmt) (num res : Str)
    (hr : resultWord st.result = some res)
    (hc : ∀ c ∈ st.conds, condNamesKnown inp c = true)
    (ha : ∀ a ∈ st.acts, actNamesKnown inp.clists a = true ∧ safeActC inp.clists a = true) :
    cumStatement inp p st num =
      ([s "route-map", p.name, res, num] :: (completedRows (stmtElemsC inp st)).map indentRow ++
         (match firstErr (stmtElemsC inp st) with
          | none => (if st.result == .next then [indentRow [s "on-match next"]] else []) ++ [[s "!"]]
          | some _ => []),
       firstErr (stmtElemsC inp st)) := by
  apply Lemmas.cumStatement_clean inp p st num res hr
  intro o ho
  simp only [stmtElemsC, List.mem_append, List.mem_map] at ho
  rcases ho with ⟨c, hc', rfl⟩ | ⟨a, ha', rfl⟩
  · exact Lemmas.ebl_cumMatch inp c (hc c hc')
  · exact Lemmas.ebl_cumThen _ a (ha a ha').1 (ha a ha').2

/-- Non-vacuity: a non-trivial statement (a condition, a community action adding and removing lists, a failing
`rpki_valid_state` action): the stream stops with `NotImplementedError`, and the failing action left no row. -/
example :
    let cl : List CommList := [basicList]
    let inp : Input := { policies := [], clists := cl, plists := [], aspaths := [], rds := [] }
    let st : Stmt := demoStmt
    (∀ a ∈ st.acts, actNamesKnown cl a = true) ∧
    (statementH inp { name := s "p", stmts := [st] } st).2 = some .notImplemented ∧
    ((statementH inp { name := s "p", stmts := [st] } st).1.map (·.toks)) =
      [[s "route-policy", s "p", s "permit", s "node", s "10"], [s "if-match community-filter", s "C1"],
       [s "apply", s "community", s "1:1", s "1:2", s "additive"], [s "apply comm-filter", s "C1", s "delete"]] := by
  decide

/-! ### "Every generated line is covered by that generator's own ACL"

`Lemmas.Covered v k l`: the path of the row `l` (the rows of its enclosing blocks, then its text) walks through the
compiled ACL of generator `k` (`compile_acl_text(gen.acl(device))`, `Model/Acl.lean`): every row on the path has a
match whose first candidate lets it pass, the children being judged by the rules that match hands down. -/

/-- Huawei, full strength: every row every generator yields — whatever the policies, lists and filters contain — is
covered by that generator's own ACL.  The only hypothesis is on policy names (`route-policy *` binds one word). -/
theorem C14_acl_covered_huawei (inp : Input) (hnames : ∀ p ∈ inp.policies, Pattern.cleanWord p.name)
    (k : GenKind) (l : Line) (h : l ∈ (runGen inp .huawei k).1) : Lemmas.Covered .huawei k l :=
  Lemmas.covered_huawei inp hnames k l h

/-- Arista, full strength (after db6d169, F14a): every row every generator yields is covered by that generator's own
ACL — no hypothesis at all (`route-map` binds nothing, LARGE lists included). -/
theorem C14_acl_covered_arista (inp : Input) (k : GenKind) (l : Line) (h : l ∈ (runGen inp .arista k).1) :
    Lemmas.Covered .arista k l :=
  Lemmas.covered_arista inp k l h

def largeMatchStmt : Stmt :=
  { name := none, number := some (s "10"), result := .allow,
    conds := [{ field := .largeCommunity, op := .has, val := .names [s "L1"] }], acts := [] }
def largeInput : Input :=
  { policies := [{ name := s "p", stmts := [largeMatchStmt] }], clists := [largeList], plists := [], aspaths := [],
    rds := [] }

def aclErrOf (r : Except Acl.Err Cfg) : Option Acl.Err :=
  match r with
  | .ok _ => none
  | .error e => some e

/-- F14a repaired (db6d169) — Arista `CommunityType.LARGE`: the community generator yields
`ip large-community-list  L1 permit 1:1:1` (community.py:192-193) and its own ACL, which now lists
`ip large-community-list` (community.py:172-177), lets that row pass — as yielded and with the blanks collapsed as
`AristaFormatter.split` does. -/
theorem C14_arista_large_covered :
    (runCommunityA largeInput).1.map (·.text) = ["ip large-community-list  L1 permit 1:1:1".toList] ∧
    (runCommunityA largeInput).2 = none ∧
    aclErrOf (Acl.applyAcl (aclVendor .arista) true false (Lemmas.rulesFor .arista .community) []
        (.mk [("ip large-community-list  L1 permit 1:1:1", .mk [])])) = none ∧
    aclErrOf (Acl.applyAcl (aclVendor .arista) true false (Lemmas.rulesFor .arista .community) []
        (.mk [("ip large-community-list L1 permit 1:1:1", .mk [])])) = none := by
  refine ⟨by decide, by decide, ?_, ?_⟩
  · simp only [Lemmas.rulesFor, genAcl, Lemmas.compile_communityA]; decide
  · simp only [Lemmas.rulesFor, genAcl, Lemmas.compile_communityA]; decide

/-- Consequence for `_run_partial_generator`: a configuration tree all of whose paths are paths of covered rows
passes `apply_acl(..., fatal_acl=True)` unchanged — no `AclError`, nothing dropped. -/
theorem C14_acl_covered_tree (v : Vend) (k : GenKind) (lines : List Line) (hc : ∀ l ∈ lines, Lemmas.Covered v k l)
    (t : Cfg) (ht : ∀ p ∈ t.paths, ∃ l ∈ lines, p = (l.path ++ [l.text]).map String.ofList) :
    Acl.applyAcl (aclVendor v) true false (Lemmas.rulesFor v k) [] t = .ok t := by
  apply Lemmas.covered_tree_passes
  intro p hp
  obtain ⟨l, hl, rfl⟩ := ht p hp
  exact hc l hl

/-- Non-vacuity: the Huawei statement of the example above, its header and child rows all covered. -/
example :
    let inp : Input := { policies := [{ name := s "p", stmts := [demoStmt] }], clists := [basicList], plists := [],
                         aspaths := [], rds := [] }
    (∀ p ∈ inp.policies, p.name ≠ [] ∧ ∀ c ∈ p.name, Offside.pyIsSpace c = false) ∧
    ((runGen inp .huawei .policy).1.map (·.path.length)) = [0, 1, 1, 1] := by decide

/-! ### "Every named list a policy statement refers to is defined, under the same name, by the matching list
generator fed the same inputs"

`refsH` reads the references off the rows inside `route-policy` nodes (`if-match community-filter N`,
`if-match ip-prefix N`, `apply comm-filter N delete`, `if-match rd-filter NUM`, …); `defsH` reads the definitions off
the rows of the list generators (`ip community-filter basic N …`, `ip ip-prefix N …`, `ip rd-filter NUM …`, …); both
are specifications (`Spec/Rpl.lean`), kind-sensitive except for the address family of prefix lists. -/

/-- Huawei: whenever the four list generators complete, every reference made by the policy rows — including the
derived prefix-list names `N_ge_le` — is defined by them, provided every community list is used under the field of its
own type and no list is empty.  (The policy stream may be partial: rows yielded before an error count too.) -/
theorem C14_refs_defined_huawei (inp : Input)
    (hc : (runCommunityH inp).2 = none) (hpl : (runPrefixH inp).2 = none) (ha : (runAsPathH inp).2 = none)
    (hr : (runRdH inp).2 = none) (hty : TypeConsistent inp) (hne : NonEmptyLists inp)
    (r : RefKind × Str) (h : r ∈ refsH (runPolicyH inp).1) :
    r ∈ defsH ((runCommunityH inp).1 ++ (runPrefixH inp).1 ++ (runAsPathH inp).1 ++ (runRdH inp).1) :=
  Lemmas.refs_defined_huawei inp hc hpl ha hr hty hne r h

def emptyListStmt : Stmt :=
  { name := none, number := some (s "10"), result := .allow,
    conds := [{ field := .community, op := .has, val := .names [s "C1"] }], acts := [] }
def emptyListInput : Input :=
  { policies := [{ name := s "p", stmts := [emptyListStmt] }],
    clists := [{ name := s "C1", members := [] }], plists := [], aspaths := [], rds := [] }

/-- F14g — without the non-emptiness hypothesis the statement is false: a community list without members yields no
`ip community-filter` row, yet the policy row `if-match community-filter C1` refers to it; every generator completes. -/
theorem C14_refs_defined_false_empty_list :
    (runPolicyH emptyListInput).2 = none ∧ (runCommunityH emptyListInput).2 = none ∧
    refsH (runPolicyH emptyListInput).1 = [(.communityFilter, s "C1")] ∧
    defsH ((runCommunityH emptyListInput).1 ++ (runPrefixH emptyListInput).1 ++ (runAsPathH emptyListInput).1 ++
      (runRdH emptyListInput).1) = [] := by decide

def refsDemoStmt : Stmt :=
  { name := none, number := some (s "10"), result := .allow,
    conds := [{ field := .community, op := .hasAny, val := .names [s "C1"] },
              { field := .ipPrefix, op := .custom, val := .pfx [s "P1"] (some (s "8")) (some (s "24")) },
              { field := .rd, op := .has, val := .names [s "RD1"] }],
    acts := [] }
def refsDemoPl : PrefixList :=
  { name := s "P1",
    members := [{ net := s "10.0.0.0/8", addr := s "10.0.0.0", len := s "8", ge := none, le := none }] }
def refsDemoInput : Input :=
  { policies := [{ name := s "p", stmts := [refsDemoStmt] }], clists := [basicList], plists := [refsDemoPl],
    aspaths := [], rds := [{ name := s "RD1", number := s "7", members := [s "1:1"] }] }

/-- Non-vacuity: a type-consistent program with non-empty lists whose references (a community filter, a derived
prefix list `P1_8_24`, an rd filter by number) are all defined. -/
example :
    refsH (runPolicyH refsDemoInput).1 =
      [(.communityFilter, s "C1"), (.prefixList, s "P1_8_24"), (.rdFilter, s "7")] ∧
    (∀ r ∈ refsH (runPolicyH refsDemoInput).1,
      r ∈ defsH ((runCommunityH refsDemoInput).1 ++ (runPrefixH refsDemoInput).1 ++ (runAsPathH refsDemoInput).1 ++
        (runRdH refsDemoInput).1)) := by decide

/-- Arista: whenever the three list generators complete, every reference made by the policy rows — united names
`A_OR_B` of `has_any(A, B)`, `set community community-list A`, derived prefix-list names — is defined by them, provided
every community list is used under the field of its own type, no list is empty, every community-like condition names
a list, and mangling is injective on the name lists the program uses as keys (true when no name contains `_OR_`). -/
theorem C14_refs_defined_arista (inp : Input)
    (hc : (runCommunityA inp).2 = none) (hpl : (runPrefixA inp).2 = none) (ha : (runAsPathA inp).2 = none)
    (hty : TypeConsistent inp) (hne : NonEmptyLists inp) (hcn : Lemmas.CondsNamed inp) (hinj : Lemmas.MangleInj inp)
    (r : RefKindA × Str) (h : r ∈ refsA (runPolicyA inp).1) :
    r ∈ defsA ((runCommunityA inp).1 ++ (runPrefixA inp).1 ++ (runAsPathA inp).1) :=
  Lemmas.refs_defined_arista inp hc hpl ha hty hne hcn hinj r h

def basicList2 : CommList := { name := s "C2", members := [s "2:1"] }
def aristaRefsStmt : Stmt :=
  { name := none, number := some (s "10"), result := .allow,
    conds := [{ field := .community, op := .hasAny, val := .names [s "C1", s "C2"] },
              { field := .ipPrefix, op := .custom, val := .pfx [s "P1"] none (some (s "24")) }],
    acts := [{ field := .community, type := .custom,
               val := .comm { replaced := none, added := [s "C1"], removed := [] } }] }
def aristaRefsInput : Input :=
  { policies := [{ name := s "p", stmts := [aristaRefsStmt] }], clists := [basicList, basicList2],
    plists := [refsDemoPl], aspaths := [], rds := [] }

/-- Non-vacuity (Arista): `has_any(C1, C2)` refers to `C1_OR_C2`, the action to `C1`, the prefix condition to
`P1_unset_24`; the key lists are mangled injectively; all three references are defined. -/
example :
    refsA (runPolicyA aristaRefsInput).1 =
      [(.communityList, s "C1_OR_C2"), (.prefixList, s "P1_unset_24"), (.communityList, s "C1")] ∧
    (∀ ns ∈ Lemmas.keyLists aristaRefsInput, ∀ ns' ∈ Lemmas.keyLists aristaRefsInput,
      mangle ns = mangle ns' → ns = ns') ∧
    (∀ r ∈ refsA (runPolicyA aristaRefsInput).1,
      r ∈ defsA ((runCommunityA aristaRefsInput).1 ++ (runPrefixA aristaRefsInput).1 ++
        (runAsPathA aristaRefsInput).1)) := by decide

/-- Cumulus (`generate_cumulus_rpl`): whenever the three list sections complete, every reference made by the route-map
rows — `match community|large-community-list|extcommunity N` (united names `A_OR_B` for `has_any`),
`match ip|ipv6 address prefix-list N` (derived names `N_ge_le`), `match as-path N`, `set comm-list N delete` — is
defined by them (`bgp community-list|large-community-list|extcommunity … N`, `ip|ipv6 prefix-list N`,
`ip as-path access-list N`), under the same hypotheses as for Arista.  The route-map section may be partial. -/
theorem C14_refs_defined_cumulus (inp : Input)
    (ha : (cumAsPath inp).2 = none) (hc : (cumCommunities inp).2 = none) (hpl : (cumPrefixLists inp).2 = none)
    (hty : TypeConsistent inp) (hne : NonEmptyLists inp) (hcn : Lemmas.CondsNamed inp) (hinj : Lemmas.MangleInj inp)
    (r : RefKindC × Str) (h : r ∈ refsC (cumPolicyConfig inp).1) :
    r ∈ defsC ((cumAsPath inp).1 ++ (cumCommunities inp).1 ++ (cumPrefixLists inp).1) :=
  Lemmas.refs_defined_cumulus inp ha hc hpl hty hne hcn hinj r h

/-- The same read off the one text the generator produces: if `generate_cumulus_rpl` completes, every reference any
of its rows makes is defined by one of its rows. -/
theorem C14_refs_defined_cumulus_text (inp : Input) (hrun : (runCumulus inp).2 = none)
    (hty : TypeConsistent inp) (hne : NonEmptyLists inp) (hcn : Lemmas.CondsNamed inp) (hinj : Lemmas.MangleInj inp)
    (r : RefKindC × Str) (h : r ∈ refsC (runCumulus inp).1) : r ∈ defsC (runCumulus inp).1 :=
  Lemmas.refs_defined_cumulus_run inp hrun hty hne hcn hinj r h

/-- F14g on Cumulus — without `NonEmptyLists` the statement is false: the community list `C1` has no members, the
community section yields no `bgp community-list … C1` row, the run completes, and `match community C1` refers to it
(replayed on the real code: corpus/C14/dangling-ref:cumulus:empty-list.json). -/
theorem C14_refs_defined_cumulus_false_empty_list :
    (runCumulus emptyListInput).2 = none ∧
    refsC (runCumulus emptyListInput).1 = [(.communityList, s "C1")] ∧
    defsC (runCumulus emptyListInput).1 = [] := by decide

def cumulusRefsStmt : Stmt :=
  { name := none, number := some (s "10"), result := .allow,
    conds := [{ field := .community, op := .hasAny, val := .names [s "C1", s "C2"] },
              { field := .ipPrefix, op := .custom, val := .pfx [s "P1"] none (some (s "24")) }],
    acts := [{ field := .community, type := .custom,
               val := .comm { replaced := none, added := [], removed := [s "C1"] } }] }
def cumulusRefsInput : Input :=
  { policies := [{ name := s "p", stmts := [cumulusRefsStmt] }], clists := [basicList, basicList2],
    plists := [refsDemoPl], aspaths := [], rds := [] }

/-- Non-vacuity (Cumulus): `has_any(C1, C2)` refers to `C1_OR_C2`, the prefix condition to the derived `P1_unset_24`,
`community.remove(C1)` to `C1`; the run completes, the key lists are mangled injectively, every community-like
condition names a list, no list is empty; the three references are defined by rows of the same text. -/
example :
    (runCumulus cumulusRefsInput).2 = none ∧
    refsC (runCumulus cumulusRefsInput).1 =
      [(.communityList, s "C1_OR_C2"), (.prefixList, s "P1_unset_24"), (.communityList, s "C1")] ∧
    defsC (runCumulus cumulusRefsInput).1 =
      [(.communityList, s "C1"), (.communityList, s "C1"), (.communityList, s "C1_OR_C2"),
       (.communityList, s "C1_OR_C2"), (.communityList, s "C1_OR_C2"), (.prefixList, s "P1_unset_24")] ∧
    (∀ ns ∈ Lemmas.keyLists cumulusRefsInput, ∀ ns' ∈ Lemmas.keyLists cumulusRefsInput,
      mangle ns = mangle ns' → ns = ns') ∧
    (∀ r ∈ refsC (runCumulus cumulusRefsInput).1, r ∈ defsC (runCumulus cumulusRefsInput).1) := by decide

/-- … and that input meets every hypothesis of `C14_refs_defined_cumulus_text`. -/
example : TypeConsistent cumulusRefsInput ∧ NonEmptyLists cumulusRefsInput ∧ Lemmas.CondsNamed cumulusRefsInput ∧
    Lemmas.MangleInj cumulusRefsInput := by
  refine ⟨?_, ?_, ?_, ?_⟩
  · unfold TypeConsistent; decide
  · unfold NonEmptyLists; decide
  · intro p hp st hst c hc l hv
    simp only [cumulusRefsInput, List.mem_singleton] at hp; subst hp
    simp only [List.mem_singleton] at hst; subst hst
    simp only [cumulusRefsStmt, List.mem_cons, List.not_mem_nil, or_false] at hc
    rcases hc with rfl | rfl
    · cases hv; simp
    · cases hv
  · unfold Lemmas.MangleInj; decide

/-! ### "Every generated line parses back to the block structure it was generated in" -/

/-- For any number of blocks with any number of rows each: the text `PartialGenerator.__call__` produces (header
rows at column 0, the rows yielded inside `with self.block(...)` behind the two-blank indent) is parsed by
`parse_to_tree` into exactly the tree of the yielded paths `[header]`, `[header, row]` — provided the row texts are
"clean" (start and end with a non-blank character and do not start with `!` / `#`).  Flat generators are the case
of blocks without rows.  (`fmtr.split`'s blank-collapsing is the identity on such rows unless they contain a
run of blanks; that step is validated by the correspondence only.) -/
theorem C14_parse_nesting (bs : List (Str × List Str))
    (hclean : ∀ b ∈ bs, Lemmas.CleanBody b.1 ∧ ∀ c ∈ b.2, Lemmas.CleanBody c) :
    Offside.parseToTree ["!", "#"] (Lemmas.renderBlocks bs)
      = .ok (Offside.treeOfStacks (Lemmas.blockPaths (Lemmas.blocksAsStrings bs))) :=
  Lemmas.parse_blocks bs hclean

/-- The rows of a statement stream (`with self.block(header): <body>`) are such a block, whatever the body yields
before it ends or raises. -/
theorem C14_block_stream_rows (header : List Str) (body : Out (List Str)) :
    (inBlock header body).1.map (fun l => String.ofList (rowText l))
      = Lemmas.renderBlocks [(joinSp header, body.1.map joinSp)] := by
  rw [Lemmas.inBlock_eq]
  simp only [List.map_cons, List.map_map, Lemmas.renderBlocks, List.append_nil]
  congr 1

/-- Non-vacuity (item level): two blocks, the second without rows. -/
example : (Offside.stacks (Lemmas.blockItems [("route-policy p permit node 10", ["if-match cost 1", "apply tag 7"]),
                                              ("ip as-path-filter A index 10 permit _1_", [])])).toOption
    = some [["route-policy p permit node 10"], ["route-policy p permit node 10", "if-match cost 1"],
            ["route-policy p permit node 10", "apply tag 7"], ["ip as-path-filter A index 10 permit _1_"]] := by
  decide

end Annet.Rpl
