/-
C09 — The command stream sent at deploy is exactly the patch that was shown.

Model: `Model/Format.lean` (`blocks_and_context`, `block_exit` variants, `patch`, `cmd_paths`),
`Model/Deploy.lean` (`match_deploy_rule`, `make_cmd_params`, `apply_deploy_rulebook`),
`Gen/ApplyTab.lean` (the `%apply_logic` functions as a table regenerated from the real code).
Specification-only definitions: `Spec/Format.lean`.  Helper lemmas: `Lemmas/Format.lean`,
`Lemmas/Deploy.lean`.  Property theorems only.

Formatter theorems are stated for an *arbitrary* `block_exit` function `ex` that yields nothing,
`block_wrapper(x)` or one bare statement (`ExitOk`), and instantiated for the formatter classes
of annet (`blockExit f`, all of which are `ExitOk`: `C09_block_exit_wellformed`).
-/
import AnnetModel.Lemmas.Format
import AnnetModel.Lemmas.Deploy
import AnnetModel.Gen.ApplyTab

/-! OBLIGATIONS
Annet.Format.C09_block_exit_wellformed
Annet.Format.C09_shown_lines_are_block_paths
Annet.Format.C09_cmd_paths_total
Annet.Format.C09_paths_are_dedup_of_text
Annet.Format.C09_text_eq_paths
Annet.Format.C09_text_eq_paths_formatters
Annet.Format.C09_text_eq_paths_partial
Annet.Format.C09_text_eq_paths_false_dup
Annet.Format.C09_text_eq_paths_false_exit_row
Annet.Deploy.C09_body_in_order
Annet.Deploy.C09_only_wrapper_added
Annet.Deploy.C09_body_exact
Annet.Deploy.C09_no_commit_table
Annet.Deploy.C09_no_commit
Annet.Deploy.C09_no_commit_patch
Annet.Deploy.C09_rule_params
Annet.Deploy.C09_rule_params_stream
Annet.Deploy.C09_rule_params_false_overlap
-/

namespace Annet.Format
open Annet.Format.Spec

/-- every formatter class of annet has a well-formed `block_exit`, whatever the context -/
theorem C09_block_exit_wellformed (f : Fmt) (cx : FCtx) : ExitOk (blockExit f cx) :=
  Lemmas.blockExit_ok f cx

/-- The lines of `formatter.patch(pt)` are exactly the rows the block generator yields — the rows
of the PatchTree and the exit statements —, in order, each at depth `len(block path) − 1`
(`shownPaths` = the loop of `cmd_paths` without its dictionary). -/
theorem C09_shown_lines_are_block_paths (ex : FCtx → List Mark) (hex : ∀ cx, ExitOk (ex cx)) (pt : PT) :
    ∃ sp, shownPaths ex pt = .ok sp ∧ patchLinesOf ex pt = sp.map fun e => depthLast e.1 :=
  Lemmas.shown_lines_are_block_paths ex hex pt

/-- `cmd_paths` never raises (`path[-1]`, `path.pop()` are never applied to an empty list). -/
theorem C09_cmd_paths_total (ex : FCtx → List Mark) (hex : ∀ cx, ExitOk (ex cx)) (pt : PT) :
    ∃ ps, cmdPathsOf ex pt = .ok ps := by
  obtain ⟨sp, h, _⟩ := Lemmas.shown_lines_are_block_paths ex hex pt
  exact ⟨odictOfList sp, by rw [Lemmas.cmdPathsOf_eq, h]; rfl⟩

/-- What is sent, in general: the block paths of the shown lines with every *repeated* block path
dropped (first occurrence kept) — same order otherwise. -/
theorem C09_paths_are_dedup_of_text (ex : FCtx → List Mark) (hex : ∀ cx, ExitOk (ex cx)) (pt : PT) :
    ∃ sp ps, shownPaths ex pt = .ok sp ∧ cmdPathsOf ex pt = .ok ps ∧
      patchLinesOf ex pt = sp.map (fun e => depthLast e.1) ∧
      ps.map (·.1) = dedupKeys (sp.map (·.1)) := by
  obtain ⟨sp, h, hl⟩ := Lemmas.shown_lines_are_block_paths ex hex pt
  refine ⟨sp, odictOfList sp, h, by rw [Lemmas.cmdPathsOf_eq, h]; rfl, hl, Lemmas.odictOfList_keys sp⟩

/-- FULL statement, `lines(patch(pt)) = [(len(p)−1, p[-1]) for p in cmd_paths(pt)]`, under the
hypothesis that no block path is shown twice: same commands, same order, same depth, exits
included, each exactly once. -/
theorem C09_text_eq_paths_partial (ex : FCtx → List Mark) (hex : ∀ cx, ExitOk (ex cx)) (pt : PT)
    (sp : List (List String × Ctx)) (hsp : shownPaths ex pt = .ok sp) (hnd : (sp.map (·.1)).Nodup) :
    cmdPathsOf ex pt = .ok sp ∧ patchLinesOf ex pt = sp.map fun e => depthLast e.1 := by
  obtain ⟨sp', h, hl⟩ := Lemmas.shown_lines_are_block_paths ex hex pt
  rw [hsp] at h
  cases h
  refine ⟨?_, hl⟩
  rw [Lemmas.cmdPathsOf_eq, hsp]
  show Except.ok (odictOfList sp) = Except.ok sp
  rw [Lemmas.odictOfList_nodup sp hnd]

/-- FULL statement under the structural hypothesis `NoDupPaths` of the design: in every block of the
PatchTree the rows, the bare exit statements yielded at that level and the exit statement the
formatter appends to the block are pairwise distinct.  Then the lines of `patch(pt)` are exactly
`[(len(p)−1, p[-1]) for p in cmd_paths(pt)]` and every command path occurs once. -/
theorem C09_text_eq_paths (ex : FCtx → List Mark) (hex : ∀ cx, ExitOk (ex cx)) (pt : PT) (h : NoDupPaths ex pt) :
    ∃ ps, cmdPathsOf ex pt = .ok ps ∧ (patchLinesOf ex pt = ps.map fun e => depthLast e.1) ∧ (ps.map (·.1)).Nodup := by
  obtain ⟨sp, hsp, hnd⟩ := Lemmas.noDupPaths_nodup ex hex pt h
  obtain ⟨h1, h2⟩ := C09_text_eq_paths_partial ex hex pt sp hsp hnd
  exact ⟨sp, h1, h2, hnd⟩

/-- … for every formatter class of annet (Common, Optixtrans, BlockExit, Huawei/H3C, Cisco, Nexus,
B4com, Aruba, Arista, Asr) and any indent. -/
theorem C09_text_eq_paths_formatters (f : Fmt) (pt : PT) (h : NoDupPaths (blockExit f) pt) :
    ∃ ps, cmdPaths f pt = .ok ps ∧ (patchLines f pt = ps.map fun e => depthLast e.1) ∧ (ps.map (·.1)).Nodup :=
  C09_text_eq_paths (blockExit f) (C09_block_exit_wellformed f) pt h

/-- non-vacuity of `NoDupPaths`: a Huawei patch with a nested block, an `xpl` block, exit statements -/
example :
    NoDupPaths (blockExit (mkHuawei "  "))
      (.mk [("interface Eth1", some (.mk [("mtu 9000", none, []), ("undo shutdown", none, [])]), []),
            ("xpl route-filter R", some (.mk [("if x then", some (.mk [("refuse", none, [])]), [])]), [])]) := by
  simp only [NoDupPaths, NoDupTree, NoDupItems]
  decide

/-- non-vacuity: a Huawei patch with a nested block, an `xpl` block and exit statements -/
example :
    let pt : PT := .mk [("interface Eth1", some (.mk [("mtu 9000", none, []), ("undo shutdown", none, [])]), []),
                        ("xpl route-filter R", some (.mk [("if x then", some (.mk [("refuse", none, [])]), [])]), [])]
    (∃ sp, shownPaths (blockExit (mkHuawei "  ")) pt = .ok sp ∧ (sp.map (·.1)).Nodup ∧ sp.length = 9) := by
  refine ⟨_, rfl, by decide, by decide⟩

/-- Without the hypothesis the full statement is FALSE (finding F09a): a command shown twice among
siblings is one key of the path dictionary and is sent once. -/
theorem C09_text_eq_paths_false_dup :
    ¬ (∀ (f : Fmt) (pt : PT), ∃ ps, cmdPaths f pt = .ok ps ∧ patchLines f pt = ps.map fun e => depthLast e.1) := by
  intro h
  obtain ⟨ps, h1, h2⟩ := h (mkPlainExit "") (.mk [("no ipv6 nd suppress-ra", none, []), ("mtu 9000", none, []),
                                                   ("no ipv6 nd suppress-ra", none, [])])
  have e1 : (cmdPaths (mkPlainExit "") (.mk [("no ipv6 nd suppress-ra", none, []), ("mtu 9000", none, []),
      ("no ipv6 nd suppress-ra", none, [])])).toOption = some [(["no ipv6 nd suppress-ra"], []), (["mtu 9000"], [])] := by decide
  rw [h1] at e1
  cases e1
  revert h2
  decide

/-- … also with pairwise distinct sibling rows: a config row equal to the exit statement the
formatter appends to its block (`exit-address-family` inside `address-family …` on Cisco). -/
theorem C09_text_eq_paths_false_exit_row :
    ¬ (∀ (f : Fmt) (pt : PT), ∃ ps, cmdPaths f pt = .ok ps ∧ patchLines f pt = ps.map fun e => depthLast e.1) := by
  intro h
  obtain ⟨ps, h1, h2⟩ := h (mkCisco "") (.mk [("address-family ipv4", some (.mk [("exit-address-family", none, [])]), [])])
  have e1 : (cmdPaths (mkCisco "") (.mk [("address-family ipv4", some (.mk [("exit-address-family", none, [])]), [])])).toOption
      = some [(["address-family ipv4"], []), (["address-family ipv4", "exit-address-family"], [])] := by decide
  rw [h1] at e1
  cases e1
  revert h2
  decide

end Annet.Format

namespace Annet.Deploy
open Annet.Deploy.Spec Annet.Deploy.Lemmas
open Annet.Format (Ctx)

/-- Every command of the patch is handed to the driver, in the order of the patch, with its nesting
depth as `level` (the list of `(cmd, level)` of the command paths is a subsequence of the result). -/
theorem C09_body_in_order (rx : Rx) (tab : ApplyTab) (hw : String) (rules : List DRule)
    (paths : List (List String × Ctx)) (df dc : Bool) (out : List Cmd)
    (h : applyDeployRulebook rx tab hw rules paths df dc = .ok out) :
    (paths.map pathCmd).Sublist (out.map fun c => (c.cmd, c.level)) := by
  obtain ⟨cwa, gs, hf, hfl, _, hw⟩ := apply_decompose h
  have := (wrapped_sublist hw).map (fun c : Cmd => (c.cmd, c.level))
  rw [hfl, List.map_map] at this
  rw [← forall2_map_cmd hf]
  exact this

/-- … and nothing else is added than session-wrapper commands: every other command of the result
has level 0 and is a `before`/`after` command of the apply logic of the rule of some patch command. -/
theorem C09_only_wrapper_added (rx : Rx) (tab : ApplyTab) (hw : String) (rules : List DRule)
    (paths : List (List String × Ctx)) (df dc : Bool) (out : List Cmd)
    (h : applyDeployRulebook rx tab hw rules paths df dc = .ok out) :
    ∀ c ∈ out, (c.cmd, c.level) ∈ paths.map pathCmd ∨
      (c.level = 0 ∧ ∃ p ∈ paths, ∃ r b a, matchDeployRule rx rules p.1 p.2 = .ok r ∧
        applyLogic tab r.applyLogic hw dc df = .ok (b, a) ∧ c.cmd ∈ (b ++ a).map (·.cmd)) := by
  obtain ⟨cwa, gs, hf, hfl, _, hwr⟩ := apply_decompose h
  intro c hc
  rcases wrapped_mem hwr c hc with hb | ⟨w, hw', hl, hba⟩
  · left
    rw [← forall2_map_cmd hf, ← hfl]
    obtain ⟨x, hx, hxc⟩ := List.mem_map.mp hb
    exact List.mem_map.mpr ⟨x, hx, by rw [hxc]⟩
  · right
    refine ⟨hl, ?_⟩
    rw [hfl] at hw'
    -- find the path of `w`
    obtain ⟨p, hp, hpw⟩ := forall2_mem_right hf w hw'
    obtain ⟨r, hr, ha, _⟩ := cmdOf_before_after hpw
    refine ⟨p, hp, r, w.before, w.after, hr, ha, ?_⟩
    rw [List.map_append, List.mem_append]
    exact hba

/-- When every command of the patch resolves to the same apply logic (shipped rulebooks: always
`common.apply`, except Aruba's `ap-env` block), the list is exactly
`before ++ [(cmd, level) of the command paths, in order] ++ after`. -/
theorem C09_body_exact (rx : Rx) (tab : ApplyTab) (hw : String) (rules : List DRule)
    (paths : List (List String × Ctx)) (df dc : Bool) (out : List Cmd) (lg : String) (b a : List TabCmd)
    (h : applyDeployRulebook rx tab hw rules paths df dc = .ok out) (hne : paths ≠ [])
    (hlg : ∀ p ∈ paths, ∀ r, matchDeployRule rx rules p.1 p.2 = .ok r → r.applyLogic = lg)
    (hba : applyLogic tab lg hw dc df = .ok (b, a)) :
    ∃ b' body a', out = b' ++ body ++ a' ∧
      body.map (fun c => (c.cmd, c.level)) = paths.map pathCmd ∧
      b'.map (·.cmd) = b.map (·.cmd) ∧ a'.map (·.cmd) = a.map (·.cmd) ∧ ∀ c ∈ b' ++ a', c.level = 0 := by
  obtain ⟨cwa, gs, hf, _, hgs, hwr⟩ := apply_decompose h
  -- every element carries the same before/after
  have hall : ∀ w ∈ cwa, w.before = b ∧ w.after = a := by
    intro w hw'
    obtain ⟨p, hp, hpw⟩ := forall2_mem_right hf w hw'
    obtain ⟨r, hr, ha, _⟩ := cmdOf_before_after hpw
    rw [hlg p hp r hr, hba] at ha
    cases ha; exact ⟨rfl, rfl⟩
  have hcne : cwa ≠ [] := forall2_ne_nil hf hne
  have hsingle : groupRuns groupKey cwa = [cwa] := by
    apply groupRuns_single groupKey cwa hcne
    intro x hx y hy
    simp [groupKey, (hall x hx).1, (hall x hx).2, (hall y hy).1, (hall y hy).2]
  rw [hsingle] at hgs
  subst hgs
  cases hwr with
  | @cons w ws gs' b' a' out' hb' ha' hrest =>
    cases hrest
    obtain ⟨hb1, hb2⟩ := fillCmds_spec hb'
    obtain ⟨ha1, ha2⟩ := fillCmds_spec ha'
    have hw := hall w List.mem_cons_self
    refine ⟨b', (w :: ws).map (·.cmd), a', by simp, ?_, by rw [hb1, hw.1], by rw [ha1, hw.2], ?_⟩
    · rw [List.map_map]
      exact forall2_map_cmd hf
    · intro c hc
      rcases List.mem_append.mp hc with hc | hc
      · exact hb2 c hc
      · exact ha2 c hc

/-- non-vacuity of `C09_body_exact`: Huawei CE, two commands, commit and save -/
example :
    (applyDeployRulebook (rxGrammar []) Annet.Gen.applyTab "Huawei CE6870" []
      [(["interface Eth1"], []), (["interface Eth1", "mtu 9000"], [])] true true).toOption
    = some [⟨"system-view", [], 30000, 0⟩, ⟨"interface Eth1", [], 30000, 0⟩, ⟨"mtu 9000", [], 30000, 1⟩,
           ⟨"commit", [], 30000, 0⟩, ⟨"q", [], 30000, 0⟩, ⟨"save", [], 30000, 0⟩] := by decide +kernel

/-- The regenerated table of all `%apply_logic` functions (every hardware class × do_commit ×
do_finalize): no entry with `do_commit = false` contains a commit command.  (Finite table,
re-checked by the kernel whenever the real functions change.) -/
theorem C09_no_commit_table : tabNoCommit Annet.Gen.applyTab = true := by decide +kernel

/-- When committing is disabled, the only commit commands that can be sent are rows of the patch
itself: no session wrapper contains one. -/
theorem C09_no_commit (rx : Rx) (tab : ApplyTab) (htab : tabNoCommit tab = true) (hw : String) (rules : List DRule)
    (paths : List (List String × Ctx)) (df : Bool) (out : List Cmd)
    (h : applyDeployRulebook rx tab hw rules paths df false = .ok out) :
    ∀ c ∈ out, isCommitCmd c.cmd = true → (c.cmd, c.level) ∈ paths.map pathCmd := by
  intro c hc hcommit
  rcases C09_only_wrapper_added rx tab hw rules paths df false out h c hc with hb | ⟨_, p, _, r, b, a, _, ha, hmem⟩
  · exact hb
  · obtain ⟨x, hx, hxc⟩ := List.mem_map.mp hmem
    have := applyLogic_noCommit htab ha x hx
    rw [hxc, hcommit] at this
    cases this

/-- … and `make_patch(do_commit=False)` creates no item of a `%force_commit` rule, hence injects no
`commit` row: the rows of the built tree are exactly the rows the logic functions yielded. -/
theorem C09_no_commit_patch (rec : Patch.PRec) (v : Rules.Vendor) (ordering : List Rules.ORule) (raw : String)
    (attrs : Rules.PAttrs) (ys : List Patch.Yield) (items : List Patch.RawItem)
    (h : Patch.yieldsToItems rec v ordering false raw attrs ys = .ok items) :
    (∀ it ∈ items, it.forceCommit = false) ∧ (Patch.buildTree items).items.map (·.1) = items.map (·.row) := by
  have hfc := yieldsToItems_noForceCommit rec v ordering raw attrs ys items h
  refine ⟨hfc, ?_⟩
  clear h
  have items_mk : ∀ l, (Patch.PTree.mk l).items = l := fun _ => rfl
  unfold Patch.buildTree
  rw [items_mk]
  induction items with
  | nil => simp
  | cons it rest ih =>
    have hit := hfc it List.mem_cons_self
    simp only [List.flatMap_cons, List.map_append, List.map_cons]
    rw [ih (fun x hx => hfc x (List.mem_cons_of_mem _ hx))]
    simp only [hit, Bool.false_eq_true, if_false, List.map_cons, List.map_nil, List.singleton_append, List.cons.injEq, and_true]
    split <;> rfl

/-- For deploy rulebooks whose sibling rules have disjoint languages, every command of the patch
carries the timeout and the dialog answers of the rule at the end of the unique rule chain matching
its block path (`specChain`: ancestors no rule matches are skipped), and the defaults — 30 s, no
dialogs (`defaultRule`) — when no chain matches. -/
theorem C09_rule_params (rx : Rx) (tab : ApplyTab) (hw : String) (rules : List DRule) (hd : Disjoint rx rules)
    (df dc : Bool) (p : List String × Ctx) (w : WithApply)
    (h : cmdOf rx tab hw rules df dc p = .ok w) :
    w.cmd.timeout = (specChain rx p.2 rules p.1).timeout ∧
    questionsOf (specChain rx p.2 rules p.1).dialogs = .ok w.cmd.questions := by
  obtain ⟨r, hr, _, hq⟩ := cmdOf_before_after h
  have hs := matchDeployRule_spec rx p.2 p.1 rules r hd hr
  subst hs
  unfold makeCmdParams at hq
  split at hq
  · cases hq
  · rename_i qs hqs
    have hinj := Except.ok.inj hq
    have h1 : qs = w.cmd.questions := (Prod.mk.inj hinj).1
    have h2 : (specChain rx p.2 rules p.1).timeout = w.cmd.timeout := (Prod.mk.inj hinj).2
    exact ⟨h2.symm, by rw [hqs, h1]⟩

/-- … for the whole stream: the commands of the patch, one per command path and in the same order,
each with `(cmd, level)` of its path and the parameters of its rule chain, are a subsequence of
the list handed to the driver. -/
theorem C09_rule_params_stream (rx : Rx) (tab : ApplyTab) (hw : String) (rules : List DRule) (hd : Disjoint rx rules)
    (paths : List (List String × Ctx)) (df dc : Bool) (out : List Cmd)
    (h : applyDeployRulebook rx tab hw rules paths df dc = .ok out) :
    ∃ body : List Cmd, body.Sublist out ∧
      Forall2 (fun p c => (c.cmd, c.level) = pathCmd p ∧ c.timeout = (specChain rx p.2 rules p.1).timeout ∧
        questionsOf (specChain rx p.2 rules p.1).dialogs = .ok c.questions) paths body := by
  obtain ⟨cwa, gs, hf, hfl, hgs, hwr⟩ := apply_decompose h
  refine ⟨cwa.map (·.cmd), by rw [← hfl]; exact wrapped_sublist hwr, ?_⟩
  clear hwr hfl h hgs
  induction hf with
  | nil => exact Forall2.nil
  | cons hpw _ ih =>
    obtain ⟨h1, h2⟩ := C09_rule_params rx tab hw rules hd df dc _ _ hpw
    exact Forall2.cons ⟨cmdOf_cmd hpw, h1, h2⟩ ih

/-- non-vacuity: a disjoint rulebook, a chain with a skipped ancestor, and the default -/
example :
    let rules := [DRule.mk "undo peer *" 60000 "common.apply" [⟨"Continue? [Y/N]:", "Y", true⟩] [] [],
                  DRule.mk "bgp *" 30000 "common.apply" [] [] [DRule.mk "peer * enable" 5000 "common.apply" [] [] []]]
    let rx : Rx := fun rr row => rr == row || (rr == "undo peer *" && row == "undo peer 1.1.1.1")
      || (rr == "bgp *" && row == "bgp 65000") || (rr == "peer * enable" && row == "peer 1.1.1.1 enable")
    (specChain rx [] rules ["bgp 65000", "ipv4-family unicast", "peer 1.1.1.1 enable"]).timeout = 5000 ∧
    (specChain rx [] rules ["interface Eth1", "undo peer 1.1.1.1"]).timeout = 60000 ∧
    (specChain rx [] rules ["bgp 65000", "router-id 1.1.1.1"]).timeout = 30000 := by decide

/-- Without disjointness the statement is FALSE: `match_deploy_rule` rebinds `rules` while it keeps
iterating the old level, so with two matching siblings the *last* one's children are searched
although the first one would be returned at the last depth.  (Shipped rulebooks have no nested
deploy rules; recorded as a modelled curiosity, not as a finding of the property, whose quantifier
excludes overlapping siblings.) -/
theorem C09_rule_params_false_overlap :
    ¬ (∀ (rx : Rx) (rules : List DRule) (path : List String) (ctx : Ctx) (r : DRule),
        matchDeployRule rx rules path ctx = .ok r → r = specChain rx ctx rules path) := by
  intro h
  have := h (fun rr row => rr == row || rr == "~")
    [DRule.mk "a" 30000 "common.apply" [] [] [DRule.mk "x" 1000 "common.apply" [] [] []],
     DRule.mk "~" 30000 "common.apply" [] [] [DRule.mk "y" 2000 "common.apply" [] [] []]]
    ["a", "y"] [] (DRule.mk "y" 2000 "common.apply" [] [] []) (by rfl)
  have := congrArg DRule.timeout this
  revert this
  decide

end Annet.Deploy
