/-
C06 — ACL filtering selects exactly the covered lines and nothing else.

Model: `Model/Acl.lean` (`compileAcl`, `findMatches`, `selectMatch`, `applyAcl`).
Property theorems only; proofs of the lemmas are in `Lemmas/Acl.lean`.
-/
import AnnetModel.Lemmas.Acl
import AnnetModel.Lemmas.AclMerge

/-! OBLIGATIONS
Annet.Acl.C06_subtree_ordered
Annet.Acl.C06_idempotent
Annet.Acl.C06_path_predicate
Annet.Acl.C06_fatal_iff
Annet.Acl.C06_global_tilde_covers_everything
Annet.Acl.C06_merge_monotone_false_global
Annet.Acl.C06_merge_monotone_false_reverse_cant_delete
Annet.Acl.C06_merge_monotone_false_reverse_shadows
Annet.Acl.C06_merge_monotone_false_same_row_global
Annet.Acl.C06_merge_monotone_partial
-/

namespace Annet.Acl
open Annet.Acl.Spec

/-- The filter returns a sub-tree of its input, in input order (any mode). -/
theorem C06_subtree_ordered (v : Vendor) (fatal excl : Bool) (rules : Rules) (path : List String) (t t' : Cfg)
    (h : applyAcl v fatal excl rules path t = .ok t') : Sub t' t :=
  Lemmas.subtree_ordered v fatal excl rules path t t' h

/-- Filtering twice changes nothing. -/
theorem C06_idempotent (v : Vendor) (rules : Rules) (path : List String) (t t' : Cfg)
    (h : applyAcl v false false rules path t = .ok t') :
    applyAcl v false false rules path t' = .ok t' :=
  Lemmas.idempotent v rules path t t' h

/-- Precisely the lines whose whole path is covered survive: a path is in the result iff it is in the
input and every row along it passes at the rules reached along it. -/
theorem C06_path_predicate (v : Vendor) (rules : Rules) (path : List String) (t t' : Cfg)
    (h : applyAcl v false false rules path t = .ok t') (p : List String) :
    p ∈ t'.paths ↔ (p ∈ t.paths ∧ (walk v rules p).isSome) :=
  Lemmas.path_predicate v rules path t t' h p

/-- Strict mode raises `AclError` iff some row at a covered parent has no match, names the first such
row in document order, and otherwise returns what the lenient mode returns. -/
theorem C06_fatal_iff (v : Vendor) (rules : Rules) (path : List String) (t t0 : Cfg)
    (h : applyAcl v false false rules path t = .ok t0) :
    applyAcl v true false rules path t =
      (match firstUnmatched v rules path t with
       | some q => .error (.aclError q)
       | none => .ok t0) :=
  Lemmas.fatal_iff v rules path t t0 h

/-- Below a row governed by a deletable `~ %global` rule (the rules handed to its children are exactly
that global rule) every non-empty row at every depth survives, in every mode.
`hg`: the run stays inside the modelled grammar (it leaves it iff the vendor's negation word makes the
reverse row `<word> ~` unparsable, e.g. an empty word or one with a regex metacharacter). -/
theorem C06_global_tilde_covers_everything (v : Vendor) (fatal excl : Bool) (cd : List Bool) (prio : Nat)
    (names : List String) (id : String) (path : List String) (t : Cfg)
    (hj : v.juniper = false) (hcd : cd.all (fun b => b) = false) (hne : allRowsNonEmpty t = true)
    (hx : (names.zip cd).length ≤ 1 ∨ excl = false)
    (hg : NoGrammarErr (applyAcl v fatal excl ⟨[], [Rule.mk id "~" false cd prio names none]⟩ path t)) :
    applyAcl v fatal excl ⟨[], [Rule.mk id "~" false cd prio names none]⟩ path t = .ok t :=
  Lemmas.global_tilde_covers_everything v fatal excl cd prio names id path t hj hcd hne hx hg

/-! ### Merge monotonicity is false of the code

"The filter by two ACLs merged passes everything either passes alone" does not hold: only the
*first* (most specific) match of a row decides whether children rules are taken and whether the row is
dropped.  Three mechanisms, each a recorded finding replayed on the real `apply_acl`: -/

def okPaths (r : Except Err Cfg) : List (List String) :=
  match r with
  | .ok c => c.paths
  | .error _ => []

def errOf (r : Except Err Cfg) : Option Err :=
  match r with
  | .ok _ => none
  | .error e => some e

/-- F06a: a `%global` rule of B out-ranks A's local rule with children; A's children rules are not taken. -/
theorem C06_merge_monotone_false_global :
    let A : List RawRule := [.mk "~" false false [false] 0 ["g0"] [.mk "vlan ip" false false [false] 0 ["g0"] []]]
    let B : List RawRule := [.mk "description" false true [false] 0 ["g1"] []]
    let t : Cfg := .mk [("description", .mk [("vlan ip", .mk [])])]
    let v : Vendor := { reverse := "undo" }
    ["description", "vlan ip"] ∈ okPaths (applyAcl v false false (compileAcl [A]) [] t) ∧
    ["description", "vlan ip"] ∉ okPaths (applyAcl v false false (compileAcl [A ++ B]) [] t) := by
  decide

/-- F06b: the negated form of a `cant_delete` rule of B out-ranks A's deletable rule: the row is dropped. -/
theorem C06_merge_monotone_false_reverse_cant_delete :
    let A : List RawRule := [.mk "description mtu x" false false [false] 0 ["g0"] []]
    let B : List RawRule := [.mk "description *" false false [true] 2 ["g1"] []]
    let t : Cfg := .mk [("undo description mtu x", .mk [])]
    let v : Vendor := { reverse := "undo" }
    ["undo description mtu x"] ∈ okPaths (applyAcl v false false (compileAcl [A]) [] t) ∧
    ["undo description mtu x"] ∉ okPaths (applyAcl v false false (compileAcl [A ++ B]) [] t) := by
  decide

/-- F06c: a reverse-form first match (B) hides the children rules of A's direct match. -/
theorem C06_merge_monotone_false_reverse_shadows :
    let A : List RawRule := [.mk "no ~" false false [false] 0 ["g0"] [.mk "description port ~" false false [false] 0 ["g0"] []]]
    let B : List RawRule := [.mk "address ~" false false [false] 0 ["g1"] []]
    let t : Cfg := .mk [("no address 10x", .mk [("no description port description", .mk [])])]
    let v : Vendor := { reverse := "no" }
    ["no address 10x", "no description port description"] ∈ okPaths (applyAcl v false false (compileAcl [A]) [] t) ∧
    ["no address 10x", "no description port description"] ∉ okPaths (applyAcl v false false (compileAcl [A ++ B]) [] t) := by
  decide

/-- F06d: one generator declares a rule row `%global`, another declares the SAME row as a local rule with children:
the merged rule is global and A's children rules are gone. -/
theorem C06_merge_monotone_false_same_row_global :
    let A : List RawRule := [.mk "interface" false false [false] 0 ["g0"] [.mk "bgp" false false [false] 0 ["g0"] []]]
    let B : List RawRule := [.mk "interface" false true [false] 0 ["g1"] [], .mk "interface interface" false false [false] 0 ["g2"] []]
    let t : Cfg := .mk [("interface interface", .mk [("bgp", .mk [])])]
    let v : Vendor := { reverse := "undo" }
    ["interface interface", "bgp"] ∈ okPaths (applyAcl v false false (compileAcl [A]) [] t) ∧
    ["interface interface", "bgp"] ∉ okPaths (applyAcl v false false (compileAcl [A ++ B]) [] t) := by
  decide

/-- The third clause, positive part: without `%global` / ignore rules and without negated-form matching (the negation word is
a plain word; no rule row and no configuration row — as the matcher reads it: case-insensitively, any blank after the word,
Juniper `inactive:` stripped — begins with it), everything ACL `A` passes alone is passed by the merged ACL `A ++ B`, as an
order-preserving sub-tree, at every depth.  Each excluded feature breaks the clause: F06a–d above, and the five
kernel-checked counterexamples to weaker hypotheses in `Lemmas/AclMerge.lean` (`MergeDraft`). -/
theorem C06_merge_monotone_partial (v : Vendor) (A B : List RawRule) (t ca cab : Cfg)
    (hw : plainWord v.reverse.toList = true)
    (hA : PlainRawL A = true) (hB : PlainRawL B = true)
    (hnA : NoNegRuleL v A = true) (hnB : NoNegRuleL v B = true) (ht : NoNegRow v t = true)
    (h1 : applyAcl v false false (compileAcl [A]) [] t = .ok ca)
    (h2 : applyAcl v false false (compileAcl [A ++ B]) [] t = .ok cab) :
    Sub ca cab :=
  merge_monotone_partial v A B t ca cab hw hA hB hnA hnB ht h1 h2

/-- Non-vacuity: a nested ACL with a wildcard block, a global rule and an uncovered row. -/
example :
    let A : List RawRule := [.mk "interface *" false false [true] 0 [] [.mk "description ~" false false [false] 0 [] []],
                             .mk "snmp ~" false true [false] 0 [] []]
    let t : Cfg := .mk [("interface Eth1", .mk [("description x y", .mk []), ("mtu 9000", .mk [])]),
                        ("snmp community c", .mk [("anything", .mk [])]), ("vlan 10", .mk [])]
    okPaths (applyAcl { reverse := "undo" } false false (compileAcl [A]) [] t)
      = [["interface Eth1"], ["interface Eth1", "description x y"], ["snmp community c"]] ∧
    errOf (applyAcl { reverse := "undo" } true false (compileAcl [A]) [] t) = some (.aclError ["interface Eth1", "mtu 9000"]) := by
  decide

end Annet.Acl
