/-
C08 — Ordering follows the ordering rulebook and only permutes lines.

Model: `Model/Patch.lean` (`getOrder`, sort keys, `stableSort`, `sortTree`, `orderConfig`).
Python's `list.sort`/`sorted` are modelled by the stable insertion sort `stableSort`; the
correspondence check validates that on every generated patch and config.
Property theorems only; proofs of the lemmas are in `Lemmas/Sort.lean`.
-/
import AnnetModel.Lemmas.Sort
import AnnetModel.Lemmas.Order

/-! OBLIGATIONS
Annet.Patch.C08_sort_perm
Annet.Patch.C08_patch_paths_perm
Annet.Patch.C08_sorted_by_key
Annet.Patch.C08_stable_unmentioned
Annet.Patch.C08_independent_of_unrelated
Annet.Patch.C08_del_before_put
Annet.Patch.C08_patch_sort_idempotent
Annet.Patch.C08_order_config_perm
Annet.Patch.C08_order_config_idempotent
Annet.Patch.C08_keys_strict_weak
Annet.Patch.C08_rank_is_rule_index
Annet.Patch.C08_unmentioned_rank_zero
Annet.Patch.C08_earlier_rule_first_negated_mirrored
-/

namespace Annet.Patch
open Annet.Patch.Spec

/-- Sorting only permutes: nothing lost, nothing duplicated. -/
theorem C08_sort_perm {α : Type} (lt : α → α → Bool) (l : List α) : (stableSort lt l).Perm l :=
  Lemmas.sort_perm lt l

/-- … at every level of a patch: the multiset of command paths is unchanged, children stay in their block. -/
theorem C08_patch_paths_perm (t : PTree) : (ptPaths (sortTree t)).Perm (ptPaths t) :=
  Lemmas.sortTree_paths_perm t

/-- The sort keys of Python's tuple comparison form a strict weak order, for patches and for configs. -/
theorem C08_keys_strict_weak : StrictWeak SortKey.lt ∧ StrictWeak ocLt :=
  ⟨Lemmas.sortKey_strictWeak, Lemmas.ocLt_strictWeak⟩

/-- WHICH KEY A COMMAND GETS (`Orderer.get_order`), for ordering rulebooks without `%order_reverse` / `%scope` / `%global`
whose sibling rules have disjoint languages (the property's quantifier): a command matched — as written or in negated
form — by exactly one rule has that rule's index as its order, keeps the direct flag it came with, and its block is
ordered by that rule's child rules. -/
theorem C08_rank_is_rule_index (v : Rules.Vendor) (rb : List Rules.ORule) (row : String) (cmdDirect : Bool) (scope : Option String)
    (hp : ∀ r ∈ rb, PlainO v r) (hex : v.exit = "" ∨ v.exit ≠ row)
    (i : Nat) (ri : Rules.ORule) (hi : rb[i]? = some ri) (hm : oMatches v ri row = true)
    (hu : ∀ j rj, rb[j]? = some rj → j ≠ i → oMatches v rj row = false) :
    getOrder v rb row cmdDirect scope = some { order := .fin i, direct := cmdDirect, children := dedupLast ri.children } :=
  getOrder_unique v rb row cmdDirect scope hp hex i ri hi hm hu

/-- A command no rule mentions (and that is not the block-exit word) has order 0: it keeps its place among its peers
(`C08_stable_unmentioned`). -/
theorem C08_unmentioned_rank_zero (v : Rules.Vendor) (rb : List Rules.ORule) (row : String) (cmdDirect : Bool) (scope : Option String)
    (hp : ∀ r ∈ rb, PlainO v r) (hex : v.exit = "" ∨ v.exit ≠ row)
    (hu : ∀ r ∈ rb, oMatches v r row = false) :
    getOrder v rb row cmdDirect scope = some { order := .fin 0, direct := cmdDirect, children := [] } :=
  getOrder_none v rb row cmdDirect scope hp hex hu

/-- Hence (with `C08_sorted_by_key`): among direct commands the one matched by the earlier rule has the smaller key; among
commands matched only through the negated form the order is mirrored; and a negated-form command of any rule but the
first precedes every direct command. -/
theorem C08_earlier_rule_first_negated_mirrored (i j : Nat) (h : i < j) :
    (signed (.fin i) true).lt (signed (.fin j) true) = true ∧
    (signed (.fin j) false).lt (signed (.fin i) false) = true ∧
    (0 < i → ∀ k, (signed (.fin i) false).lt (signed (.fin k) true) = true) :=
  ⟨signed_lt_direct i j h, signed_lt_negated i j h, fun hi k => signed_negated_before_direct i k hi⟩

/-- A command with a smaller key (earlier rule; negated-only matches mirrored) comes first. -/
theorem C08_sorted_by_key {α : Type} (lt : α → α → Bool) (h : StrictWeak lt) (l : List α) :
    Sorted lt (stableSort lt l) :=
  Lemmas.sort_sorted lt h l

/-- Commands with equal keys — in particular rows no rule mentions — keep their relative order. -/
theorem C08_stable_unmentioned {α : Type} (lt : α → α → Bool) (h : StrictWeak lt) (l : List α) (p : α → Bool)
    (heq : ∀ a b, p a = true → p b = true → lt a b = false) :
    (stableSort lt l).filter p = l.filter p :=
  Lemmas.sort_stable lt h l p heq

/-- The relative order of the remaining commands does not depend on unrelated ones: sorting commutes
with deleting any set of elements. -/
theorem C08_independent_of_unrelated {α : Type} (lt : α → α → Bool) (h : StrictWeak lt) (l : List α) (p : α → Bool) :
    stableSort lt (l.filter p) = (stableSort lt l).filter p :=
  Lemmas.sort_filter_comm lt h l p

/-- For one rule and key the removal precedes the re-creation: the removal's key (negated match,
`order_direct = false`) is never greater than the creation's, and `undo_redo` yields the removal first,
so the stable sort keeps it first. -/
theorem C08_del_before_put (n1 n2 : Nat) (raw : String) (rest1 rest2 rest3 : List (String × Option PTree × SortKey))
    (rem add : String) (c : Option PTree) :
    let kr : SortKey := ⟨signed (.fin n1) false, raw, false⟩
    let ka : SortKey := ⟨signed (.fin n2) true, raw, true⟩
    List.Sublist [(rem, none, kr), (add, c, ka)]
      (stableSort (fun a b => a.2.2.lt b.2.2) (rest1 ++ (rem, none, kr) :: rest2 ++ (add, c, ka) :: rest3)) := by
  intro kr ka
  have hsw : StrictWeak (fun (a b : String × Option PTree × SortKey) => a.2.2.lt b.2.2) :=
    ⟨fun a => Lemmas.sortKey_strictWeak.irrefl _, fun a b c => Lemmas.sortKey_strictWeak.trans _ _ _,
     fun a b c => Lemmas.sortKey_strictWeak.negTrans _ _ _⟩
  exact Lemmas.sort_keeps_nonlt_order _ hsw rest1 rest2 rest3 _ _
    (Lemmas.removal_key_not_after_creation n1 n2 raw)

/-- Sorting a sorted patch changes nothing. -/
theorem C08_patch_sort_idempotent (t : PTree) : sortTree (sortTree t) = sortTree t :=
  Lemmas.sortTree_idempotent t

/-- `order_config` only permutes lines within their block, at every depth. -/
theorem C08_order_config_perm (v : Rules.Vendor) (rb : List Rules.ORule) (t t' : Cfg)
    (h : orderConfig v rb t = some t') : CfgPerm t t' :=
  Lemmas.orderConfig_perm v rb t t' h

/-- Ordering an already ordered configuration changes nothing. -/
theorem C08_order_config_idempotent (v : Rules.Vendor) (rb : List Rules.ORule) (t t' : Cfg)
    (h : orderConfig v rb t = some t') : orderConfig v rb t' = some t' :=
  Lemmas.orderConfig_idempotent v rb t t' h

/-- Non-vacuity: an ordering rulebook with two rules reorders a config and leaves the unmentioned row in place
(the negated `undo vlan 20` mirrors to the front, `sysname x` keeps its place before `vlan 10`). -/
example :
    let rb : List Rules.ORule := [.mk "vlan *" "vlan *" false false none [], .mk "interface *" "interface *" false false none []]
    let v : Rules.Vendor := { reverse := "undo", exit := "quit" }
    let t : Cfg := .mk [("interface Eth1", .mk []), ("sysname x", .mk []), ("vlan 10", .mk []), ("undo vlan 20", .mk [])]
    (orderConfig v rb t).map (fun c => c.kids.map (·.1)) = some ["undo vlan 20", "sysname x", "vlan 10", "interface Eth1"] := by
  decide +kernel

end Annet.Patch
