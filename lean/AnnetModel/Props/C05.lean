/-
C05 — Indented text is parsed by the offside rule and bad indentation is refused.

Property theorems only; helper lemmas live in `Lemmas/Offside.lean`.
-/
import AnnetModel.Lemmas.Offside

/-! OBLIGATIONS
Annet.Offside.C05_impl_eq_spec
Annet.Offside.C05_spec_chain_nearest
Annet.Offside.C05_width_independent
Annet.Offside.C05_blank_ignored
Annet.Offside.C05_duplicates_merge
Annet.Offside.C05_reject_iff
-/

namespace Annet.Offside
open Spec

/-- The stack machine of `_stripped_indents`/`_stacked` computes, for every
list of lines, exactly what the declarative offside rule prescribes: the same
path for every significant line, and `ParserError` at the same line number
(and only there). -/
theorem C05_impl_eq_spec (items : List Item) : stacks items = Spec.stacks items :=
  Lemmas.impl_eq_spec items

/-- The specification's ancestor chain really is "the nearest preceding line
with strictly smaller indentation", iterated. -/
theorem C05_spec_chain_nearest (prev : List (Nat × String)) (k j : Nat) (t : String)
    (anc : List (Nat × String)) (h : chain prev k = (j, t) :: anc) :
    ∃ pre post, prev = pre ++ (j, t) :: post ∧ (∀ p ∈ pre, k ≤ p.1) ∧ j < k ∧
      anc = chain post j :=
  Lemmas.chain_nearest prev k j t anc h

/-- Indentation widths do not matter: any strictly monotone re-scaling of the
indents gives the same paths and the same error position. -/
theorem C05_width_independent (f : Nat → Nat) (hf : ∀ a b, a < b → f a < f b)
    (items : List Item) :
    stacks (items.map (mapIndent f)) = stacks items := by
  rw [C05_impl_eq_spec, C05_impl_eq_spec]
  exact Lemmas.spec_width_independent f hf items

/-- Blank and comment lines are ignored (they only shift line numbers in errors). -/
theorem C05_blank_ignored (items : List Item) :
    (stacks (items.filter (· ≠ .blank))).toOption = (stacks items).toOption :=
  Lemmas.blank_ignored items

/-- Repeated identical lines at the same place merge: inserting a path twice is
the same as inserting it once. -/
theorem C05_duplicates_merge (p : List String) (t : Cfg) :
    Cfg.insertPath p (Cfg.insertPath p t) = Cfg.insertPath p t :=
  Lemmas.insertPath_idem p t

/-- Rejection, stated outright for a single section of significant lines: the
parser fails on `ls ++ [l]` after accepting `ls` iff the new line is
inconsistent with the open blocks. -/
theorem C05_reject_iff (ls : List (Nat × String)) (k : Nat) (s : String)
    (hok : (stacks (ls.map fun p => Item.text p.1 p.2)).toOption.isSome) :
    (stacks ((ls ++ [(k, s)]).map fun p => Item.text p.1 p.2)).toOption.isNone
      ↔ consistent ls.reverse k = false :=
  Lemmas.reject_iff ls k s hok

/-- Non-vacuity: a three-level text is accepted with the expected paths, and a
dedent to a column no block started at is refused at that line. -/
example : (stacks [.text 0 "a", .text 2 "b", .text 5 "c", .blank, .text 2 "d", .text 0 "e"]).toOption
    = some [["a"], ["a", "b"], ["a", "b", "c"], ["a", "d"], ["e"]] := by decide
example : errLine (stacks [.text 0 "a", .text 4 "b", .text 2 "c"]) = some 3 := by decide
example : errLine (stacks [.text 2 "a", .text 1 "b"]) = some 2 := by decide

end Annet.Offside
