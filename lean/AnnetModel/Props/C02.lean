/-
C02 — A patch never touches configuration outside the generators' ACL.

Model: `Model/AclDiff.lean` (`applyAclDiff` = `apply_acl_diff`, `makeDiffAcl`, `deviceModeAcl` =
`_diff_and_patch` with an ACL) on top of the ACL model (C06), the diff/patch model (C03/C08) and the
device specification (C01).  Clauses of the property:
 (a) provenance form, proved end to end (`C02_device_patch_provenance`): every item of the patch tree, at every
     depth, stems from an entry of the ACL-filtered diff (`Patch.ProvT`: it is the entry's row, the removal
     command of a REMOVED/MOVED entry, or the `commit` of a `%force_commit` rule — nothing else can appear in a
     patch built by the common logics), and every such entry has a row the ACL matches at every level of its
     path and is deletable if REMOVED (`Covered`).
     The *text* reading (the command text itself is matched by the ACL) is false of the code when the
     ACL rule is longer than the removal command: `C02_paths_covered_false` (finding F02a).
 (b) proved at the level of the device specification: commands on other (rule, key) slots leave a line,
     its subtree and its position alone.  That an uncovered row never shares its slot with a command
     is a hypothesis (`AclKeyClosed`); without it the statement is false: finding F02b (decided by the
     oracle on the real code, witness in corpus/C02).
 (c) proved: a REMOVED entry whose selected ACL match only has cant_delete generators is relabelled
     AFFECTED, and no common logic emits a removal unless the REMOVED/MOVED bucket is non-empty.
-/
import AnnetModel.Lemmas.AclDiff
import AnnetModel.Lemmas.Provenance
import AnnetModel.Lemmas.Pipeline
import AnnetModel.Lemmas.OutsideFlat
import AnnetModel.Lemmas.OutsideNested

/-! OBLIGATIONS
Annet.AclDiff.C02_commands_address_covered
Annet.AclDiff.C02_patch_provenance
Annet.AclDiff.C02_device_patch_provenance
Annet.AclDiff.C02_patch_provenance_nonvacuous
Annet.AclDiff.C02_acl_diff_only_drops
Annet.AclDiff.C02_acl_diff_ops
Annet.AclDiff.C02_cant_delete_never_removed
Annet.AclDiff.C02_outside_untouched_level
Annet.AclDiff.C02_paths_covered_false
Annet.AclDiff.C02_no_generator_acl_no_patch
Annet.AclDiff.C02_empty_filter_no_patch
Annet.AclDiff.C02_nothing_in_nothing_out
Annet.AclDiff.C02_uncovered_line_untouched_flat
Annet.AclDiff.C02_uncovered_line_untouched_device
Annet.AclDiff.C02_uncovered_line_untouched_instance
Annet.AclDiff.C02_uncovered_line_untouched_nested
Annet.AclDiff.C02_uncovered_subtree_untouched
Annet.AclDiff.C02_uncovered_subtree_untouched_instance
-/

namespace Annet.AclDiff
open Annet Annet.Diff

/-- (a), provenance form, and the cant_delete part of (c): see `Lemmas.Covered`. -/
theorem C02_commands_address_covered (v : Acl.Vendor) (rules : Acl.Rules) (d d' : List DItem)
    (h : applyAclDiff v rules d = .ok d') : Lemmas.Covered v rules d' :=
  Lemmas.acl_diff_covered v rules d d' h

/-- (a), from the diff to the patch: every item of the patch `make_patch(make_pre(d))` builds with the common logic
functions stems, level by level, from an entry of `d` (`Spec/Provenance.lean`). -/
theorem C02_patch_provenance (v : Rules.Vendor) (ordering : List Rules.ORule) (doCommit : Bool) (d : List DItem)
    (p : Patch.PTree) (h : Patch.makePatch v ordering doCommit (Patch.makePre d) = .ok p) : Patch.ProvT v d p :=
  Patch.patch_provenance v ordering doCommit d p h

/-- (a), end to end over `_diff_and_patch` with an ACL: there is a diff every entry of which is covered level by
level (and deletable if REMOVED) from whose entries every command of the patch stems, at every depth. -/
theorem C02_device_patch_provenance (pv : Rules.Vendor) (av : Acl.Vendor) (acl : Acl.Rules) (rules : Rules.PRules)
    (ordering : List Rules.ORule) (old new : Cfg) (r : Api.Result)
    (h : deviceModeAcl Patch.runLogic pv av acl rules ordering old new = .ok r) :
    ∃ d, Lemmas.Covered av acl d ∧ Patch.ProvT pv d r.patch :=
  device_patch_provenance pv av acl rules ordering old new r h

/-- Non-vacuity: a two-level diff (an affected block with an added and a removed child, a removed top-level row)
whose patch is computed in the kernel and to which the provenance theorem applies. -/
theorem C02_patch_provenance_nonvacuous :
    Patch.makePatch Patch.ProvExample.v [] true (Patch.makePre Patch.ProvExample.d) = .ok Patch.ProvExample.p ∧
    Patch.ProvT Patch.ProvExample.v Patch.ProvExample.d Patch.ProvExample.p :=
  ⟨Patch.ProvExample.patch_eq,
   Patch.patch_provenance Patch.ProvExample.v [] true Patch.ProvExample.d Patch.ProvExample.p Patch.ProvExample.patch_eq⟩

/-- the ACL only drops diff entries: it adds none and keeps their order -/
theorem C02_acl_diff_only_drops (v : Acl.Vendor) (rules : Acl.Rules) (d d' : List DItem)
    (h : applyAclDiff v rules d = .ok d') : List.Sublist (d'.map (·.row)) (d.map (·.row)) :=
  Lemmas.acl_diff_rows_sublist v rules d d' h

/-- … and the only op it changes is REMOVED → AFFECTED -/
theorem C02_acl_diff_ops (v : Acl.Vendor) (rules : Acl.Rules) (d d' : List DItem)
    (h : applyAclDiff v rules d = .ok d') (i' : DItem) (hi : i' ∈ d') :
    ∃ i ∈ d, i.row = i'.row ∧ (i'.op = i.op ∨ (i.op = .removed ∧ i'.op = .affected)) :=
  Lemmas.acl_diff_ops v rules d d' h i' hi

/-- (c): with an empty REMOVED and MOVED bucket — which is what a cant_delete row gets, its REMOVED entry
having been relabelled — no common logic emits a removal command. -/
theorem C02_cant_delete_never_removed (pv : Rules.Vendor) (attrs : Rules.PAttrs) (key : List String)
    (a f u : List Patch.PreEntry) (ys : List Patch.Yield)
    (h : Patch.runLogic pv attrs (.mk key a [] [] f u) = .ok ys) : ∀ y ∈ ys, y.direct = true :=
  Lemmas.no_removal_without_removed_bucket pv attrs key a f u ys h

/-- (b) on the device: a whole list of commands none of which addresses slot `s` leaves the line holding
`s` exactly as it was (text, subtree), at any level. -/
theorem C02_outside_untouched_level (env : Device.Env) (rules : Rules.PRules) (cs : List String)
    (kids : List (String × Cfg)) (s : Device.Abs.Slot) (hwf : Device.Abs.WF rules kids)
    (hother : ∀ c ∈ cs, Device.Abs.slotOf rules c ≠ some s ∧
      ∀ r', Device.stripReverse env c = some r' → Device.Abs.slotOf rules r' ≠ some s) :
    (cs.foldl (fun k c => Device.execLeaf env rules c k) kids).filter (fun e => Device.Abs.slotOf rules e.1 == some s) =
      kids.filter (fun e => Device.Abs.slotOf rules e.1 == some s) :=
  Lemmas.cmds_preserve_other_slot env rules cs kids s hwf hother

/-- F02a: the text reading of (a) is false.  ACL `snmp-agent sys-info contact ~` covers the line
`snmp-agent sys-info contact admin`; the patching rule `snmp-agent sys-info *` removes it with
`undo snmp-agent sys-info contact`, which the ACL matches neither directly nor in reverse form. -/
theorem C02_paths_covered_false :
    let acl := Acl.compileAcl [[.mk "snmp-agent sys-info contact ~" false false [false] 0 [] []]]
    let v : Acl.Vendor := { reverse := "undo" }
    (match Acl.matchRowToAcl v "snmp-agent sys-info contact admin" acl false with
      | .ok (some _) => true | _ => false) = true ∧
    (match Acl.matchRowToAcl v "undo snmp-agent sys-info contact" acl false with
      | .ok none => true | _ => false) = true := by
  decide

/-! ### from the generators to the patch (`_old_new_per_device` ∘ `_diff_and_patch`) -/

/-- NO OWNER, NO COMMAND: when no selected generator provides an ACL rule for the device (and `--no-acl` is off), whatever the
device holds and whatever the generators would yield, no diff entry is shown and the patch is empty — for any ACL object,
rulebook and logic table handed to `_diff_and_patch`. -/
theorem C02_no_generator_acl_no_patch (v : Acl.Vendor) (sp : Gen.Splitter) (gens : List Gen.GenDef) (exclusive : Bool)
    (filter : Option (List Acl.RawRule)) (old : Cfg) (r : Gen.OldNew) (hg : ∀ g ∈ gens, g.acl = [])
    (h : Gen.oldNewFull v sp gens false exclusive filter old = .ok r)
    (lg : Patch.LogicFn) (pv : Rules.Vendor) (acl : Acl.Rules) (rules : Rules.PRules) (ordering : List Rules.ORule)
    (res : Api.Result) (hres : deviceModeAcl lg pv v acl rules ordering r.old r.new = .ok res) :
    res.diff = [] ∧ res.patch.items = [] :=
  Pipeline.no_generator_acl_no_patch v sp gens exclusive filter old r hg h lg pv acl rules ordering res hres

/-- A requested filter that has no rule: nothing is shown, nothing is sent. -/
theorem C02_empty_filter_no_patch (v : Acl.Vendor) (sp : Gen.Splitter) (gens : List Gen.GenDef) (noAcl exclusive : Bool)
    (old : Cfg) (r : Gen.OldNew) (h : Gen.oldNewFull v sp gens noAcl exclusive (some []) old = .ok r)
    (lg : Patch.LogicFn) (pv : Rules.Vendor) (acl : Acl.Rules) (rules : Rules.PRules) (ordering : List Rules.ORule)
    (res : Api.Result) (hres : deviceModeAcl lg pv v acl rules ordering r.old r.new = .ok res) :
    res.diff = [] ∧ res.patch.items = [] :=
  Pipeline.empty_filter_no_patch v sp gens noAcl exclusive old r h lg pv acl rules ordering res hres

/-- `_diff_and_patch` on two empty configurations succeeds with an empty diff and an empty patch (so the two theorems above
are not vacuous: the pipeline does not fail there). -/
theorem C02_nothing_in_nothing_out (lg : Patch.LogicFn) (pv : Rules.Vendor) (av : Acl.Vendor) (acl : Acl.Rules)
    (rules : Rules.PRules) (ordering : List Rules.ORule) :
    ∃ res, deviceModeAcl lg pv av acl rules ordering (.mk []) (.mk []) = .ok res ∧ res.diff = [] ∧ res.patch.items = [] := by
  obtain ⟨res, h⟩ := Pipeline.deviceModeAcl_empty_ok lg pv av acl rules ordering
  exact ⟨res, h, Pipeline.deviceModeAcl_empty lg pv av acl rules ordering res h⟩


/-! ### clause (b), end to end at the top level (`Lemmas/OutsideFlat.lean`) -/

/-- (b), from the two configurations to the device: if no line of `old` or `new` that the ACL covers addresses slot `s`
(as written or through its negated form: `AclSlotClosed`, the hypothesis finding F02b shows to be necessary), then executing
the leaf commands — and also the rows of all top-level items — of the patch `_diff_and_patch` builds leaves the line that
holds `s` exactly as it was, whatever the device holds.  `ReverseInSlot`: the removal command of a rule, read back by the
device, deletes that rule's slot (derived from `Converge.CmdsOK`; proved for the example rulebook). -/
theorem C02_uncovered_line_untouched_flat (pv : Rules.Vendor) (av : Acl.Vendor) (acl : Acl.Rules) (rules : Rules.PRules)
    (ordering : List Rules.ORule) (old new : Cfg) (res : Api.Result) (env : Device.Env) (s : Device.Abs.Slot)
    (h : deviceModeAcl Patch.runLogic pv av acl rules ordering old new = .ok res)
    (hrev : OutsideFlat.ReverseInSlot pv env rules) (hraw : OutsideFlat.RawDetRow rules)
    (hcommit : OutsideFlat.NoForceCommit rules ∨ OutsideFlat.addresses env rules "commit" s = false)
    (hc : OutsideFlat.AclSlotClosed av acl env rules old new s)
    (kids : List (String × Cfg)) :
    ((OutsideFlat.leafCmds res.patch).foldl (fun k c => Device.execLeaf env rules c k) kids).filter
        (fun e => Device.Abs.slotOf rules e.1 == some s) =
      kids.filter (fun e => Device.Abs.slotOf rules e.1 == some s) ∧
    ((OutsideFlat.topCmds res.patch).foldl (fun k c => Device.execLeaf env rules c k) kids).filter
        (fun e => Device.Abs.slotOf rules e.1 == some s) =
      kids.filter (fun e => Device.Abs.slotOf rules e.1 == some s) :=
  OutsideFlat.outside_flat_of_closed pv av acl rules ordering old new res env s h hrev hraw hcommit hc kids

/-- The same for the device executor of C01 (`Device.applyCmds` over the linearised patch), rulebooks without `%rewrite`
rules at this level. -/
theorem C02_uncovered_line_untouched_device (pv : Rules.Vendor) (av : Acl.Vendor) (acl : Acl.Rules) (rules : Rules.PRules)
    (ordering : List Rules.ORule) (old new : Cfg) (res : Api.Result) (env : Device.Env) (s : Device.Abs.Slot)
    (h : deviceModeAcl Patch.runLogic pv av acl rules ordering old new = .ok res)
    (hrev : OutsideFlat.ReverseInSlot pv env rules) (hraw : OutsideFlat.RawDetRow rules) (hrw : OutsideFlat.NoRewrite rules)
    (hcommit : OutsideFlat.NoForceCommit rules ∨ OutsideFlat.addresses env rules "commit" s = false)
    (hs : ∀ e ∈ res.diff, OutsideFlat.addresses env rules e.row s = false) (dev : Cfg) :
    (Device.applyCmds env rules (Device.Abs.flatPaths res.patch) dev).kids.filter
        (fun e => Device.Abs.slotOf rules e.1 == some s) =
      dev.kids.filter (fun e => Device.Abs.slotOf rules e.1 == some s) :=
  OutsideFlat.outside_flat_applyCmds pv av acl rules ordering old new res env s h hrev hraw hrw hcommit hs dev

/-- Non-vacuity: rules `user *`, `ntp *`, ACL `user *` only, old = {user alice, ntp 1.1.1.1}, new = {user bob, ntp 2.2.2.2}:
the pipeline succeeds, and executing its patch leaves `ntp 1.1.1.1` in place although new does not hold it. -/
theorem C02_uncovered_line_untouched_instance :
    ∃ res, deviceModeAcl Patch.runLogic OutsideFlat.Example.v OutsideFlat.Example.av OutsideFlat.Example.acl
        OutsideFlat.Example.rules [] OutsideFlat.Example.old OutsideFlat.Example.new = .ok res ∧
      (((OutsideFlat.leafCmds res.patch).foldl (fun k c => Device.execLeaf OutsideFlat.Example.env OutsideFlat.Example.rules c k)
          OutsideFlat.Example.old.kids).filter
        (fun e => Device.Abs.slotOf OutsideFlat.Example.rules e.1 == some OutsideFlat.Example.s)).map (·.1) = ["ntp 1.1.1.1"] :=
  OutsideFlat.Example.outside_flat_instance


/-! ### clause (b) at every depth (`Lemmas/OutsideNested.lean`) -/

/-- (b), nested: along a path `p` of blocks whose own diff entries (if any) are the block line itself, neither REMOVED nor
MOVED (`OutsideNested.Outside`, decidable, on the shown diff), a slot `s` below `p` that no diff entry of that level
addresses keeps exactly its lines — text, subtrees, order — when the tree of the patch `_diff_and_patch` builds is executed
(`ConvergeNested.applyTree`, the executor of `C01_nested_converges`), whatever the device holds.  If some block on the path
has no diff entry at all nothing is asked below it.  `PathOK`: the rulebook hypotheses of the top-level theorem at the rule
sets reached along `p` (from `NestedRules`, `CmdsOKAll` and `UniquePath` by `OutsideNested.pathOK_of_nested`). -/
theorem C02_uncovered_line_untouched_nested (pv : Rules.Vendor) (av : Acl.Vendor) (acl : Acl.Rules) (rules : Rules.PRules)
    (ordering : List Rules.ORule) (old new : Cfg) (res : Api.Result) (env : Device.Env) (p : List String)
    (s : Device.Abs.Slot)
    (h : deviceModeAcl Patch.runLogic pv av acl rules ordering old new = .ok res)
    (hok : OutsideNested.PathOK pv env rules p s)
    (hs : OutsideNested.Outside env rules res.diff p s)
    (dev : Cfg) (ls : List (String × Cfg)) (hdev : OutsideNested.slotLinesAt rules dev.kids p s = some ls) :
    OutsideNested.slotLinesAt rules (ConvergeNested.applyTree env rules res.patch dev.kids) p s = some ls :=
  OutsideNested.outside_nested pv av acl rules ordering old new res env p s h hok hs dev ls hdev

/-- The property's own wording: the line `r` below the surviving path `p`, with its whole subtree, is unchanged. -/
theorem C02_uncovered_subtree_untouched (pv : Rules.Vendor) (av : Acl.Vendor) (acl : Acl.Rules) (rules : Rules.PRules)
    (ordering : List Rules.ORule) (old new : Cfg) (res : Api.Result) (env : Device.Env) (p : List String) (r : String)
    (s : Device.Abs.Slot)
    (h : deviceModeAcl Patch.runLogic pv av acl rules ordering old new = .ok res)
    (hok : OutsideNested.PathOK pv env rules p s) (hs : OutsideNested.Outside env rules res.diff p s)
    (hr : (OutsideNested.rulesAt rules p).bind (fun cr => Device.Abs.slotOf cr r) = some s)
    (dev c : Cfg) (hdev : OutsideNested.subtreeAt dev.kids (p ++ [r]) = some c) :
    OutsideNested.subtreeAt (ConvergeNested.applyTree env rules res.patch dev.kids) (p ++ [r]) = some c :=
  OutsideNested.outside_subtree pv av acl rules ordering old new res env p r s h hok hs hr dev c hdev

/-- Non-vacuity at depth 2: rulebook `interface * { sub * { ip }, mtu, description }`, `sysname`; ACL `interface * { mtu }`;
old `interface a { mtu 1500; description uplink; sub 1 { ip 1 } }`, new `interface a { mtu 9000; sub 1 { ip 2 } }`: after
the patch `description uplink` is still below `interface a`, although new lacks it. -/
theorem C02_uncovered_subtree_untouched_instance :
    OutsideNested.subtreeAt (ConvergeNested.applyTree ConvergeNested.Example.env ConvergeNested.Example.rules
        OutsideNested.Example.exRes.patch OutsideNested.Example.old.kids) ["interface a", "description uplink"] =
      some (.mk []) :=
  OutsideNested.Example.outside_subtree_instance


end Annet.AclDiff
