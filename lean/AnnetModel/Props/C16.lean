/-
C16 — File mode and device mode compute the same diff and the same patch.

Model: `Model/Api.lean` — `deviceMode` mirrors `_diff_and_patch`, `fileMode` mirrors
`_read_old_new_diff_patch` as it is after the repair (commit 15afe27: the patch is built from the full
diff, only the displayed diff is stripped).  The theorems quantify over *every* table of logic
functions (`lg`), which is how they speak about the vendor `%logic` functions the model does not contain.
-/
import AnnetModel.Model.Api
import AnnetModel.Spec.Diff

/-! OBLIGATIONS
Annet.Api.C16_modes_equal
Annet.Api.C16_diff_equal
Annet.Api.C16_patch_equal
Annet.Api.C16_strip_first_patch_differs
Annet.Api.C16_strip_first_diff_equal
-/

namespace Annet.Api
open Annet Annet.Rules Annet.Diff Annet.Patch

/-- For every logic table, rulebook, ordering and config pair the two front ends compute the same
result (same diff entries, same patch tree, same error). -/
theorem C16_modes_equal (lg : LogicFn) (v : Vendor) (rules : PRules) (ordering : List ORule) (old new : Cfg) :
    fileMode lg v rules ordering old new = deviceMode lg v rules ordering true old new := by
  rfl

theorem C16_diff_equal (lg : LogicFn) (v : Vendor) (rules : PRules) (ordering : List ORule) (old new : Cfg) :
    (fileMode lg v rules ordering old new).map (·.diff) = (deviceMode lg v rules ordering true old new).map (·.diff) := by
  rw [C16_modes_equal]

theorem C16_patch_equal (lg : LogicFn) (v : Vendor) (rules : PRules) (ordering : List ORule) (old new : Cfg) :
    (fileMode lg v rules ordering old new).map (·.patch) = (deviceMode lg v rules ordering true old new).map (·.patch) := by
  rw [C16_modes_equal]

/-- The displayed diff never depended on the order of stripping and patching. -/
theorem C16_strip_first_diff_equal (lg : LogicFn) (v : Vendor) (rules : PRules) (ordering : List ORule) (old new : Cfg)
    (r1 r2 : Result) (h1 : fileModeStripFirst lg v rules ordering old new = .ok r1)
    (h2 : deviceMode lg v rules ordering true old new = .ok r2) : Diff.Spec.erase r1.diff = Diff.Spec.erase r2.diff := by
  unfold fileModeStripFirst at h1
  unfold deviceMode at h2
  cases h : liftD (makeDiff rules old new) with
  | error e => simp [h, bind, Except.bind] at h1
  | ok d =>
    simp only [h, bind, Except.bind] at h1 h2
    cases hp1 : makePatchWith lg v ordering true (makePre (stripUnchanged d)) with
    | error e => simp [hp1] at h1
    | ok p1 =>
      cases hp2 : makePatchWith lg v ordering true (makePre d) with
      | error e => simp [hp2] at h2
      | ok p2 =>
        simp [hp1, pure, Except.pure] at h1
        simp [hp2, pure, Except.pure] at h2
        subst h1; subst h2; rfl

/-! The composition file mode had before the repair (strip first) is *not* equivalent for logic
functions that look at the unchanged siblings of a changed line (huawei prefix lists, vlan lists):
a logic that removes a line with `undo … all` only when no unchanged sibling of the same key remains. -/

private def lgAllIfAlone : LogicFn := fun _ _ it =>
  match it with
  | .mk _ _ r _ _ u =>
    match r with
    | [] => .ok []
    | _ :: _ => if u.isEmpty then .ok [⟨false, "undo vlan all", none⟩]
                else .ok [⟨false, "undo vlan 20", none⟩]

private def rows (r : Except Patch.Err Result) : List String :=
  match r with
  | .ok res => res.patch.items.map (·.1)
  | .error _ => ["<error>"]

theorem C16_strip_first_patch_differs :
    let v : Vendor := { reverse := "undo", exit := "quit" }
    let rules : PRules := ⟨[.mk "vlan" false { row := "vlan", logic := "x.all_if_alone", diffLogic := "common.default_diff",
                                               parent := false, forceCommit := false } (some ([], []))], []⟩
    let old : Cfg := .mk [("vlan 10", .mk []), ("vlan 20", .mk [])]
    let new : Cfg := .mk [("vlan 10", .mk [])]
    rows (deviceMode lgAllIfAlone v rules [] true old new) = ["undo vlan 20"] ∧
    rows (fileModeStripFirst lgAllIfAlone v rules [] old new) = ["undo vlan all"] := by
  decide +kernel

end Annet.Api
