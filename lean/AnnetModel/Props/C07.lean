/-
C07 — Rule patterns mean what the rule language says, in every rulebook kind.

`matchToks` is the model of what the regular expression built by
`compile_row_regexp` does on a row (tied to CPython `re` by the correspondence
check); `refWords` is the rule language's stated meaning over words.
Property theorems only; proofs of the lemmas are in `Lemmas/Pattern.lean`.
-/
import AnnetModel.Lemmas.Pattern

/-! OBLIGATIONS
Annet.Pattern.C07_match_is_word_semantics
Annet.Pattern.C07_key_is_placeholders
Annet.Pattern.C07_star_binds_one_word
Annet.Pattern.C07_prefix_semantics
Annet.Pattern.C07_word_boundary
Annet.Pattern.C07_reverse_format
Annet.Pattern.C07_reverse_roundtrip
Annet.Pattern.C07_negate_involutive
Annet.Pattern.C07_negation_word_is_a_whole_word
Annet.Pattern.C07_ignorecase
-/

namespace Annet.Pattern
open Annet.Offside (pyIsSpace)

/-- A rule line of literal words, `*` and a trailing `~` matches a configuration
line exactly when the line starts with the corresponding words at word
boundaries; the groups are the words bound to the placeholders. -/
theorem C07_match_is_word_semantics (ic : Bool) (toks : List Tok) (ws : List (List Char))
    (hwf : WFToks toks) (hne : toks ≠ []) (hws : ∀ w ∈ ws, cleanWord w) :
    matchToks ic false toks (joinWords ws) = refWords ic toks ws :=
  Lemmas.match_is_word_semantics ic toks ws hwf hne hws

/-- The key has one entry per placeholder. -/
theorem C07_key_is_placeholders (ic ell : Bool) (toks : List Tok) (row : List Char)
    (key : List (List Char)) (hwf : WFToks toks)
    (h : matchToks ic ell toks row = some key) : key.length = holes toks :=
  Lemmas.key_is_placeholders ic ell toks row key hwf h

/-- `*` binds exactly the one word at its position. -/
theorem C07_star_binds_one_word (ic : Bool) (pre post : List Tok) (ws : List (List Char))
    (key : List (List Char)) (h : refWords ic (pre ++ .star :: post) ws = some key) :
    ∃ w, ws[pre.length]? = some w ∧ key[holes pre]? = some w :=
  Lemmas.star_binds_one_word ic pre post ws key h

/-- Prefix semantics: a pattern not ending in `~` matches every row that
starts with the right words, with the same key. -/
theorem C07_prefix_semantics (ic : Bool) (toks : List Tok) (ws more key : List (List Char))
    (hnt : endsWithTilde toks = false)
    (h : refWords ic toks ws = some key) : refWords ic toks (ws ++ more) = some key :=
  Lemmas.prefix_semantics ic toks ws more key hnt h

/-- …but never across a word boundary: `a` does not match `ab`. -/
theorem C07_word_boundary (ic : Bool) (w r : List Char) (c : Char) (hc : pyIsSpace c = false) :
    matchToks ic false [.lit w] (w ++ c :: r) = none :=
  Lemmas.word_boundary ic w r c hc

/-- The removal command is the negation word followed by the rule's words with
the key substituted (or, for a rule that is itself negated, the rule without
its negation word). -/
theorem C07_reverse_format (pre : List Char) (toks : List Tok) (key : List (List Char))
    (hk : holes toks ≤ key.length) :
    format (makeReverse pre toks) key =
      some (if startsWithPrefixTok pre toks then subst (toks.drop 1) key else pre :: subst toks key) :=
  Lemmas.reverse_format pre toks key hk

/-- The body of the removal command is matched by the same rule with the same key. -/
theorem C07_reverse_roundtrip (ic : Bool) (toks : List Tok) (ws key : List (List Char))
    (hwf : WFToks toks) (hne : toks ≠ []) (hws : ∀ w ∈ ws, cleanWord w)
    (h : refWords ic toks ws = some key) :
    matchToks ic false toks (joinWords (subst toks key)) = some key :=
  Lemmas.reverse_roundtrip ic toks ws key hwf hne hws h

/-- Negating a negated rule gives back the plain rule (unless the rule starts
with the negation word twice, where the code strips one each time). -/
theorem C07_negate_involutive (pre : List Char) (ws : List (List Char)) (hne : ws ≠ [])
    (hg : ¬ ∃ w rest, ws = pre :: pre :: w :: rest) :
    negate pre (negate pre ws) = ws :=
  Lemmas.negate_involutive pre ws hne hg

/-- The negation word is recognised as a WHOLE first word (`row.startswith(prefix + " ")`): a row whose first word merely
begins with it (`notify …` for `no`, `undoable …` for `undo`) is an ordinary row, and its negated form is the negation word
put in front of the whole row.  A row that does start with the word loses exactly that word. -/
theorem C07_negation_word_is_a_whole_word (pre w : List Char) (ws : List (List Char)) :
    (w ≠ pre → negate pre (w :: ws) = pre :: w :: ws) ∧
    (ws ≠ [] → negate pre (pre :: ws) = ws) := by
  constructor
  · intro h
    cases ws with
    | nil => simp [negate, startsWithPrefix]
    | cons x xs => simp [negate, startsWithPrefix, h]
  · intro h
    cases ws with
    | nil => exact absurd rfl h
    | cons x xs => simp [negate, startsWithPrefix]

/-- `(?i)`: everything matched case-sensitively is matched, with the same key. -/
theorem C07_ignorecase (ell : Bool) (toks : List Tok) (row : List Char) (key : List (List Char))
    (h : matchToks false ell toks row = some key) : matchToks true ell toks row = some key :=
  Lemmas.ignorecase_extends ell toks row key h

/-- Non-vacuity and sanity on concrete rows. -/
example : (parseRow false "interface * description ~".toList).map (·.match? "interface Eth1 description to  core".toList)
    = some (some ["Eth1".toList, "to  core".toList]) := by decide
example : (parseRow false "interface *".toList).map (·.match? "interfaces Eth1".toList) = some none := by decide
example : (parseRow false "(?i)Vlan *".toList).map (·.match? "vlan 10 x".toList) = some (some ["10".toList]) := by decide
example : (parseRow true "port trunk allow-pass vlan ~".toList).map (fun p => renderTemplate (makeReverse "undo".toList p.toks))
    = some "undo port trunk allow-pass vlan {}".toList := by decide
example : negate "no".toList (negate "no".toList ["no".toList, "no".toList, "x".toList]) ≠ ["no".toList, "no".toList, "x".toList] := by decide
example : WFToks [.lit "a".toList, .star, .tilde] ∧ cleanWord "x".toList := by
  refine ⟨⟨⟨by decide, by decide⟩, trivial⟩, by decide, by decide⟩

end Annet.Pattern
