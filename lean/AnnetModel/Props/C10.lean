/-
C10 — Generators are confined to their ACL, own lines exclusively, and merge by union.

Model: `Model/Gen.lean` (`runGen`, `split`, `runPartial`, `runPartials`, `configTree`, `combineAcl`, `oldNew`) on top of
`Model/Offside.lean`, `Model/Acl.lean`, `Model/Implicit.lean` (`merge`).  Vocabulary: `Spec/Gen.lean`.
Property theorems only; the proofs are in `Lemmas/Gen*.lean`.

Modelled, not verified (parameters / outside the model): ACL texts are parsed by the real `syntax.parse_text` (the
model starts from the parsed rule trees; `_combine_acl_text` is modelled as the `generator_names := [name]` tagging of
those trees and compared with the real parse of the real combined text on every run); rule rows are matched by
`Model/Pattern.lean` (C07); the assertion of `PartialGenerator.__call__` that no row contains the word `None`,
`JuniperList`/`GenStringable` values, RefGenerators, annotations, `acl_safe`, perf measurement, tracing, implicit rules
and filter ACLs are not modelled; `C10_yield_paths` is stated for `CommonFormatter.split` (the Huawei and
remove-spaces splitters of `Model/Gen.lean` are tied by the correspondence only).
-/
import AnnetModel.Lemmas.GenPaths
import AnnetModel.Lemmas.GenRun
import AnnetModel.Lemmas.GenStrip
import AnnetModel.Lemmas.GenAssoc
import AnnetModel.Lemmas.GenFull

/-! OBLIGATIONS
Annet.Gen.C10_yield_paths
Annet.Gen.C10_first_line_at_block_column
Annet.Gen.C10_single_line_yield_wf
Annet.Gen.C10_yield_wf_of_first_text
Annet.Gen.C10_yield_paths_old_rule_false
Annet.Gen.C10_layout_offside
Annet.Gen.C10_tree_lines
Annet.Gen.C10_fatal_iff_uncovered
Annet.Gen.C10_covered_kept_false_negated_cant_delete
Annet.Gen.C10_owners_spec
Annet.Gen.C10_exclusive_iff
Annet.Gen.C10_merge_paths
Annet.Gen.C10_merge_first_seen_order
Annet.Gen.C10_merge_assoc
Annet.Gen.C10_union
Annet.Gen.C10_first_failure_ends_run
Annet.Gen.C10_old_new
Annet.Gen.C10_new_paths
Annet.Gen.C10_new_eq_union_false_merged_acl
Annet.Gen.C10_new_eq_union_partial
Annet.Gen.C10_full_sub
Annet.Gen.C10_full_no_acl_rules_nothing_passes
Annet.Gen.C10_full_empty_filter_nothing_passes
Annet.Gen.C10_full_filter_narrows
Annet.Gen.C10_full_new_paths_covered
Annet.Gen.C10_full_old_paths_covered
Annet.Gen.C10_full_noacl_nofilter_identity
Annet.Gen.C10_run_partials_use_acl
-/

namespace Annet.Gen
open Annet Annet.Offside Annet.Acl Annet.Acl.Spec Annet.Gen.Spec
open Annet.Implicit (merge)
open Annet.Implicit.Spec (NoDupKeys)

/-! ### every yielded line appears under the block path it was yielded in -/

/-- A program whose layout is well formed runs without raising, and its output parses to exactly the tree of the
specified paths: block path, then the line's own path inside its yield.  It is refused (`ParserError`) iff some
yield is inconsistently indented in itself.

Well formed (`WFL`) means: block headers are single significant lines, block indents are non-empty blanks, and every
yield's first significant line starts at the block's column with no `#`-in-column-0 line in it.  Since fix e9aec0a
(`_split_and_strip` strips single-line texts too) the last condition holds for *every* single-line yield, whatever
blanks it starts or ends with (`C10_single_line_yield_wf`), and for every multi-line yield whose first line is
significant (`C10_yield_wf_of_first_text`); it can fail only for a yield that contains a line starting with `#` in
column 0 (a Huawei section end for the parser) or whose first line is a comment followed by an indented line. -/
theorem C10_yield_paths (ops : List Op) (prog : List LOp) (hl : toLayoutL ops = some prog)
    (hw : WFL prog = true) :
    ∃ rows, runGen ops = some rows ∧
      (parseToTree comments (split .common rows)).toOption = (specPathsL [] prog).map treeOfStacks :=
  Lemmas.yield_paths ops prog hl hw

def okPaths (r : Except Nat Cfg) : List (List String) :=
  match r with
  | .ok c => c.paths
  | .error _ => []

/-- What `_split_and_strip` guarantees for every yield: the first row has no leading whitespace, so if the first
line is significant it starts at the block's column. -/
theorem C10_first_line_at_block_column (text : String) :
    ∃ i rest, ownItems text = i :: rest ∧ ∀ k s, i = .text k s → k = 0 :=
  Lemmas.ownItems_first_column text

/-- Every single-line yield — with any leading or trailing blanks — satisfies the yield condition of
`C10_yield_paths`, unless it is a `#`-in-column-0 line. -/
theorem C10_single_line_yield_wf (text : String) (h : text.toList.contains '\n' = false) :
    OwnOk (ownItems text) = true ↔ ownItems text ≠ [.sectionEnd] :=
  Lemmas.ownOk_single text h

/-- Every yield (multi-line included) whose first line is significant and that has no `#`-in-column-0 line
satisfies the yield condition of `C10_yield_paths`. -/
theorem C10_yield_wf_of_first_text (text : String) (hse : (ownItems text).all (· != .sectionEnd) = true)
    (hfirst : (ownItems text).head? ≠ some .blank) : OwnOk (ownItems text) = true :=
  Lemmas.ownOk_of_first_text text hse hfirst

/-- The rule `_split_and_strip` had before fix e9aec0a (`Spec.splitAndStripOld`: a single-line text is one row,
verbatim) made the statement false (F10a): `yield " description x"` after `yield "mtu 9000"` inside
`block("interface Eth1")` was one column right of the block's column — a layout that is not well formed, which the
parser reads as a child of `mtu 9000` instead of the specified `interface Eth1 / description x`.  Under the current
rule the same yield starts at the block's column. -/
theorem C10_yield_paths_old_rule_false :
    ownItemsOld " description x" = [.text 1 "description x"] ∧
    ownItems " description x" = [.text 0 "description x"] ∧
    (let prog : List LOp := [.block "interface Eth1" 2 [.emit (ownItemsOld "mtu 9000"), .emit (ownItemsOld " description x")]]
     WFL prog = false ∧
     specPathsL [] prog = some [["interface Eth1"], ["interface Eth1", "mtu 9000"], ["interface Eth1", "description x"]] ∧
     (stacks (layoutL 0 prog)).toOption =
       some [["interface Eth1"], ["interface Eth1", "mtu 9000"], ["interface Eth1", "mtu 9000", "description x"]]) := by
  decide

/-- The layout theorem on items, for any columns: the stack machine of the offside parser gives every line of a well
formed layout the path `block path ++ own path`. -/
theorem C10_layout_offside (prog : List LOp) (hwf : WFL prog = true) :
    (stacks (layoutL 0 prog)).toOption = specPathsL [] prog :=
  Lemmas.layout_stacks prog hwf

/-- The lines of a parsed tree are exactly the non-empty prefixes of the paths the parser yielded; a path yielded
twice is one line. -/
theorem C10_tree_lines (ss : List (List String)) (q : List String) :
    (q ∈ (treeOfStacks ss).paths ↔ q ≠ [] ∧ ∃ s ∈ ss, q <+: s) ∧ NoDupKeys (treeOfStacks ss) :=
  ⟨Lemmas.mem_paths_treeOfStacks ss q, Lemmas.nodup_treeOfStacks ss⟩

/-! ### a generator is confined to its ACL -/

/-- `_run_partial_generator` fails with the generator error naming the document-order first line that no rule of the
generator's own ACL matches (at a covered parent) iff there is such a line; otherwise it returns what the lenient
filter returns. -/
theorem C10_fatal_iff_uncovered (v : Vendor) (sp : Splitter) (g : GenDef) (rows : List String) (cfg t0 : Cfg)
    (hrun : runGen g.ops = some rows) (hparse : parseToTree comments (split sp rows) = .ok cfg)
    (hlen : applyAcl v false false (compileAcl [g.acl]) [] cfg = .ok t0) :
    runPartial v sp g =
      (match firstUnmatched v (compileAcl [g.acl]) [] cfg with
       | some q => .error (.acl g.name q)
       | none => .ok t0) :=
  Lemmas.runPartial_spec v sp g rows cfg t0 hrun hparse hlen

def partialPaths (r : Except RunErr Cfg) : Option (List (List String)) :=
  match r with
  | .ok c => some c.paths
  | .error _ => none

/-- "Otherwise the generator's result is what it yielded" is false of the code: a yielded line that is the negated
form of a rule whose generators all have `cant_delete` (the default for rules starting with `interface`) is matched,
raises nothing and is dropped. -/
theorem C10_covered_kept_false_negated_cant_delete :
    ¬ ∀ (v : Vendor) (sp : Splitter) (g : GenDef) (rows : List String) (cfg c : Cfg),
        runGen g.ops = some rows → parseToTree comments (split sp rows) = .ok cfg →
        runPartial v sp g = .ok c → c.paths = cfg.paths := by
  intro h
  have := h { reverse := "undo" } .huawei
    ⟨"G0", [.yieldStr "undo interface Eth1", .yieldStr "vlan 10"],
      [.mk "interface *" false false [true] 0 [] [], .mk "vlan *" false false [false] 0 [] []]⟩
    ["undo interface Eth1", "vlan 10"] (.mk [("undo interface Eth1", .mk []), ("vlan 10", .mk [])])
    (.mk [("vlan 10", .mk [])]) (by decide) rfl rfl
  revert this
  decide

/-! ### exclusive ownership -/

/-- The names listed in `AclNotExclusiveError` are exactly the generators that own a deletable matching rule (some
matching rule lists them with `cant_delete` false), each once; more than one is listed iff two different generators
do. -/
theorem C10_owners_spec (ms : List Match) :
    (∀ n, n ∈ canDeleteNames ms ↔ Owns ms n) ∧ (canDeleteNames ms).Nodup ∧
    ((canDeleteNames ms).length > 1 ↔ ∃ n1 n2, n1 ≠ n2 ∧ Owns ms n1 ∧ Owns ms n2) :=
  ⟨Lemmas.mem_canDeleteNames ms, Lemmas.canDeleteNames_nodup ms, Lemmas.conflict_iff ms⟩

/-- The exclusive filter raises `AclNotExclusiveError` iff some row it reaches may be deleted by at least two
generators, names the document-order first such row and those generators, and otherwise returns what the
non-exclusive filter returns. -/
theorem C10_exclusive_iff (v : Vendor) (rules : Rules) (path : List String) (t t0 : Cfg)
    (h : applyAcl v false false rules path t = .ok t0) :
    applyAcl v false true rules path t =
      (match firstConflict v rules path t with
       | some (p, ns) => .error (.notExclusive p ns)
       | none => .ok t0) :=
  Lemmas.excl_cfg v rules path t t0 h

/-! ### merge by union -/

/-- `merge_dicts` on config trees is the union of the lines, and keeps sibling keys unique. -/
theorem C10_merge_paths (a b : Cfg) (ha : NoDupKeys a) (hb : NoDupKeys b) :
    (∀ p, p ∈ (merge a b).paths ↔ p ∈ a.paths ∨ p ∈ b.paths) ∧ NoDupKeys (merge a b) :=
  ⟨Lemmas.paths_merge a b ha hb, Lemmas.nodup_merge a b ha hb⟩

/-- First-seen order: the left tree keeps its place (it is an order-preserving sub-tree of the merge), the keys the
right tree adds at a level come after, in their own order; merging a tree with itself changes nothing. -/
theorem C10_merge_first_seen_order (a b : Cfg) :
    Sub a (merge a b) ∧
    (merge a b).kids.map (·.1) = a.kids.map (·.1) ++ (b.kids.map (·.1)).filter (fun k => !(a.kids.any (·.1 == k))) ∧
    (NoDupKeys a → merge a a = a) := by
  refine ⟨Implicit.Lemmas.merge_keeps_left a b, ?_, Implicit.Lemmas.merge_self a⟩
  cases a with
  | mk ka =>
    cases b with
    | mk kb =>
      rw [Implicit.merge]
      simp only [Cfg.kids, List.map_append]
      congr 1
      · exact Implicit.Lemmas.keys_mergeL ka kb
      · rw [List.filter_map]
        rfl

/-- `merge_dicts` on config trees is associative: the union does not depend on how the fold over the generators
is bracketed. -/
theorem C10_merge_assoc (a b c : Cfg) (ha : NoDupKeys a) (hb : NoDupKeys b) (hc : NoDupKeys c) :
    merge (merge a b) c = merge a (merge b c) :=
  Lemmas.merge_assoc a b c ha hb hc

/-- `config_tree()` of a run in which no generator failed is the union of the generators' results. -/
theorem C10_union (v : Vendor) (sp : Splitter) (gens : List GenDef) (cs : List Cfg) (hok : AllOk v sp gens cs)
    (p : List String) :
    p ∈ (configTree (resultsOf gens cs)).paths ↔ ∃ c ∈ cs, p ∈ c.paths :=
  Lemmas.union_paths v sp gens cs hok p

/-! ### the whole run -/

/-- The first generator (in order) whose own run fails ends `_old_new_per_device` with its error. -/
theorem C10_first_failure_ends_run (v : Vendor) (sp : Splitter) (e : RunErr) (pre : List GenDef) (g : GenDef)
    (post : List GenDef) (hpre : ∀ x ∈ pre, ∃ c, runPartial v sp x = .ok c) (hg : runPartial v sp g = .error e) :
    oldNew v sp (pre ++ g :: post) = .error e :=
  Lemmas.oldNew_failure v sp e pre g post hpre hg

/-- If no generator fails, the run raises `AclNotExclusiveError` for the first line of the union that at least two
generators may delete (by the merged, name-tagged ACL), and otherwise returns the union filtered by the merged ACL. -/
theorem C10_old_new (v : Vendor) (sp : Splitter) (gens : List GenDef) (cs : List Cfg) (t0 : Cfg)
    (hok : AllOk v sp gens cs) (hn : (gens.map (·.name)).Nodup)
    (hlen : applyAcl v false false (compileAcl [combineAcl (resultsOf gens cs)]) []
      (configTree (resultsOf gens cs)) = .ok t0) :
    oldNew v sp gens =
      (match firstConflict v (compileAcl [combineAcl (resultsOf gens cs)]) [] (configTree (resultsOf gens cs)) with
       | some (p, ns) => .error (.notExclusive p ns)
       | none => .ok t0) :=
  Lemmas.oldNew_ok v sp gens cs t0 hok hn hlen

/-- The lines of the result: a line is in `new` iff some generator's result has it and every row along it passes
the merged ACL; nothing else appears, and no line appears twice. -/
theorem C10_new_paths (v : Vendor) (sp : Splitter) (gens : List GenDef) (cs : List Cfg) (t0 : Cfg)
    (hok : AllOk v sp gens cs)
    (hlen : applyAcl v false false (compileAcl [combineAcl (resultsOf gens cs)]) []
      (configTree (resultsOf gens cs)) = .ok t0) :
    (∀ p, p ∈ t0.paths ↔ (∃ c ∈ cs, p ∈ c.paths) ∧
      (walk v (compileAcl [combineAcl (resultsOf gens cs)]) p).isSome) ∧ NoDupKeys t0 :=
  ⟨Lemmas.new_paths v sp gens cs t0 hok hlen, Lemmas.new_nodup v sp gens cs t0 hok hlen⟩

/-- "`new` is the union of the generators' results" is false of the code: the merged ACL can drop a line its own
generator's ACL covers.  Here G1's `%global` rule for `description` (with `cant_delete`, so there is no ownership
conflict) is the more specific first match and hides the children rules of G0's `~` (C06's F06a). -/
theorem C10_new_eq_union_false_merged_acl :
    ¬ ∀ (v : Vendor) (sp : Splitter) (gens : List GenDef) (cs : List Cfg) (t0 : Cfg),
        AllOk v sp gens cs → (gens.map (·.name)).Nodup → oldNew v sp gens = .ok t0 →
        ∀ p, p ∈ t0.paths ↔ ∃ c ∈ cs, p ∈ c.paths := by
  intro h
  have := h { reverse := "undo" } .huawei
    [⟨"G0", [.block [.str "description"] none [.yieldStr "vlan ip"]],
       [.mk "~" false false [false] 0 [] [.mk "vlan ip" false false [false] 0 [] []]]⟩,
     ⟨"G1", [.yieldStr "description"], [.mk "description" false true [true] 0 [] []]⟩]
    [.mk [("description", .mk [("vlan ip", .mk [])])], .mk [("description", .mk [])]]
    (.mk [("description", .mk [])]) ⟨rfl, rfl, trivial⟩ (by decide) rfl ["description", "vlan ip"]
  revert this
  decide

/-- With the hypothesis that the merged ACL lets every line of the union through, `new` is the union. -/
theorem C10_new_eq_union_partial (v : Vendor) (sp : Splitter) (gens : List GenDef) (cs : List Cfg) (t0 : Cfg)
    (hok : AllOk v sp gens cs)
    (hlen : applyAcl v false false (compileAcl [combineAcl (resultsOf gens cs)]) []
      (configTree (resultsOf gens cs)) = .ok t0)
    (hpass : ∀ c ∈ cs, ∀ p ∈ c.paths, (walk v (compileAcl [combineAcl (resultsOf gens cs)]) p).isSome)
    (p : List String) :
    p ∈ t0.paths ↔ ∃ c ∈ cs, p ∈ c.paths := by
  rw [(C10_new_paths v sp gens cs t0 hok hlen).1 p]
  constructor
  · exact fun h => h.1
  · rintro ⟨c, hc, hp⟩
    exact ⟨⟨c, hc, hp⟩, hpass c hc p hp⟩


/-! ### non-vacuity -/

def exOps : List Op :=
  [.block [.str "interface", .str "Eth1"] none
     [.yieldTuple [.str "mtu", .tup [.str "9000"]],
      .yieldStr "\n        ip address 10.0.0.1\n          sub x\n        description a  b\n    ",
      .blockIf [.str "vlan", .none] none [.yieldStr "shutdown"],
      .multiblock [[.str "bgp"], [.str "peer", .str "1"]] [.yieldStr "as 65000 "]],
   .yieldStr "! comment",
   .yieldStr "vlan 10"]

/-- a program with a tuple yield, a multi-line yield, a skipped `block_if`, a `multiblock` and a comment: its layout
exists and is well formed (hypotheses of `C10_yield_paths`), and the specified paths are the expected ones -/
example : (toLayoutL exOps).map WFL = some true ∧
    (toLayoutL exOps).bind (specPathsL []) = some
      [["interface Eth1"], ["interface Eth1", "mtu 9000"], ["interface Eth1", "ip address 10.0.0.1"],
       ["interface Eth1", "ip address 10.0.0.1", "sub x"], ["interface Eth1", "description a  b"],
       ["interface Eth1", "shutdown"], ["interface Eth1", "bgp"], ["interface Eth1", "bgp", "peer 1"],
       ["interface Eth1", "bgp", "peer 1", "as 65000"], ["vlan 10"]] := by decide

/-- trees with unique sibling keys exist (hypothesis of the merge theorems): every parsed tree is one; and a concrete
three-way merge in first-seen order -/
example : NoDupKeys (treeOfStacks [["a"], ["a", "b"], ["c"], ["a", "d"]]) := Lemmas.nodup_treeOfStacks _
example : (merge (merge (treeOfStacks [["a", "x"], ["b"]]) (treeOfStacks [["c"], ["a", "y"]])) (treeOfStacks [["a", "x", "z"]])).paths
    = [["a"], ["a", "x"], ["a", "x", "z"], ["a", "y"], ["b"], ["c"]] := by decide

/-- single-line yields and a block header with leading / trailing blanks and tabs are well formed and land under
their block path (the F10a input of the old rule) -/
example :
    let ops : List Op := [.block [.str " interface", .str "Eth1 "] none
      [.yieldStr "mtu 9000", .yieldStr " description x", .yieldTuple [.str "\tshutdown", .str " "], .yieldStr "   ! c"]]
    (toLayoutL ops).map WFL = some true ∧
    (toLayoutL ops).bind (specPathsL []) = some
      [["interface Eth1"], ["interface Eth1", "mtu 9000"], ["interface Eth1", "description x"],
       ["interface Eth1", "shutdown"]] ∧
    (runGen ops).map (fun rows => okPaths (parseToTree comments (split .common rows))) = some
      [["interface Eth1"], ["interface Eth1", "mtu 9000"], ["interface Eth1", "description x"],
       ["interface Eth1", "shutdown"]] := by decide

/-- a `None` token makes the generator raise; an inconsistently indented multi-line yield is refused by the parser -/
example : runGen [.yieldTuple [.str "mtu", .none]] = none ∧
    (toLayoutL [.yieldStr "a\n    b\n  c"]).bind (specPathsL []) = none ∧
    (runGen [.yieldStr "a\n    b\n  c"]).map (fun rows => okPaths (parseToTree comments (split .common rows))) = some [] := by
  decide

def exAclIf : List RawRule :=
  [.mk "interface *" false false [true] 0 [] [.mk "mtu *" false false [false] 0 [] [], .mk "description ~" false false [false] 0 [] []]]

def showErr (r : Except RunErr Cfg) : Option RunErr :=
  match r with
  | .ok _ => none
  | .error e => some e

/-- an uncovered line fails the run naming the line; the covered program passes; with a second generator owning
`mtu *` below the shared `interface *` the run reports the conflict; with disjoint children the result is the union -/
example :
    let v : Vendor := { reverse := "undo" }
    let g0 : GenDef := ⟨"G0", [.block [.str "interface Eth1"] none [.yieldStr "mtu 9000", .yieldStr "shutdown"]], exAclIf⟩
    let g1 : GenDef := ⟨"G1", [.block [.str "interface Eth1"] none [.yieldStr "mtu 9000", .yieldStr "description x"]], exAclIf⟩
    let g2 : GenDef := ⟨"G2", [.block [.str "interface Eth1"] none [.yieldStr "mtu 1500"]],
      [.mk "interface *" false false [true] 0 [] [.mk "mtu *" false false [false] 0 [] []]]⟩
    let g3 : GenDef := ⟨"G3", [.block [.str "interface Eth1"] none [.yieldStr "ip address 1"], .yieldStr "vlan 10"],
      [.mk "interface *" false false [true] 0 [] [.mk "ip ~" false false [false] 0 [] []],
       .mk "vlan *" false false [false] 0 [] []]⟩
    showErr (oldNew v .huawei [g1, g0]) = some (.acl "G0" ["interface Eth1", "shutdown"]) ∧
    showErr (oldNew v .huawei [g1, g2]) = some (.notExclusive ["interface Eth1", "mtu 9000"] ["G1", "G2"]) ∧
    partialPaths (oldNew v .huawei [g1, g3]) = some [["interface Eth1"], ["interface Eth1", "mtu 9000"],
      ["interface Eth1", "description x"], ["interface Eth1", "ip address 1"], ["vlan 10"]] := by
  decide

/-! ### `_old_new_per_device` with a device configuration and a filter ACL (`Model/Gen.lean`, `aclSteps`, `oldNewFull`) -/

/-- What is passed on is an order-preserving sub-tree of the device configuration, respectively of the merged
generator output. -/
theorem C10_full_sub (v : Vendor) (sp : Splitter) (gens : List GenDef) (noAcl exclusive : Bool)
    (filter : Option (List RawRule)) (old : Cfg) (r : OldNew)
    (h : oldNewFull v sp gens noAcl exclusive filter old = .ok r) :
    Sub r.old old ∧ ∃ rs, runPartialsU (!noAcl) v sp gens [] = .ok rs ∧ Sub r.new (configTree rs) :=
  oldNewFull_sub v sp gens noAcl exclusive filter old r h

/-- AN EMPTY ALLOW-LIST ALLOWS NOTHING: generators none of which provides an ACL rule (unsupported vendor, `acl()` returning
nothing) yield an empty old and an empty new — nothing of the device can be patched. -/
theorem C10_full_no_acl_rules_nothing_passes (v : Vendor) (sp : Splitter) (gens : List GenDef) (exclusive : Bool)
    (filter : Option (List RawRule)) (old : Cfg) (r : OldNew) (hg : ∀ g ∈ gens, g.acl = [])
    (h : oldNewFull v sp gens false exclusive filter old = .ok r) : r.old = .mk [] ∧ r.new = .mk [] :=
  oldNewFull_no_acl_rules v sp gens exclusive filter old r hg h

/-- A REQUESTED FILTER THAT COVERS NOTHING PASSES NOTHING (`-i` naming no port of this device, an empty `--filter-acl`). -/
theorem C10_full_empty_filter_nothing_passes (v : Vendor) (sp : Splitter) (gens : List GenDef) (noAcl exclusive : Bool)
    (old : Cfg) (r : OldNew) (h : oldNewFull v sp gens noAcl exclusive (some []) old = .ok r) :
    r.old = .mk [] ∧ r.new = .mk [] :=
  oldNewFull_empty_filter v sp gens noAcl exclusive old r h

/-- A filter only narrows what the run without a filter passes on. -/
theorem C10_full_filter_narrows (v : Vendor) (noAcl exclusive : Bool) (genAcl f : List RawRule) (old new : Cfg)
    (r : OldNew) (h : aclSteps v noAcl exclusive genAcl (some f) old new = .ok r) :
    ∃ r0, aclSteps v noAcl exclusive genAcl none old new = .ok r0 ∧ Sub r.old r0.old ∧ Sub r.new r0.new :=
  aclSteps_filter_narrows v noAcl exclusive genAcl f old new r h

/-- Every path passed on in `new` is covered level by level by the generators' combined ACL and by the filter ACL … -/
theorem C10_full_new_paths_covered (v : Vendor) (genAcl f : List RawRule) (old new : Cfg)
    (r : OldNew) (h : aclSteps v false false genAcl (some f) old new = .ok r) (p : List String) (hp : p ∈ r.new.paths) :
    p ∈ new.paths ∧ (walk v (compileAcl [genAcl]) p).isSome ∧ (walk v (compileAcl [f]) p).isSome :=
  aclSteps_new_paths_covered v genAcl f old new r h p hp

/-- … and so is every path passed on in `old`. -/
theorem C10_full_old_paths_covered (v : Vendor) (exclusive : Bool) (genAcl f : List RawRule) (old new : Cfg)
    (r : OldNew) (h : aclSteps v false exclusive genAcl (some f) old new = .ok r) (p : List String) (hp : p ∈ r.old.paths) :
    p ∈ old.paths ∧ (walk v (compileAcl [genAcl]) p).isSome ∧ (walk v (compileAcl [f]) p).isSome :=
  aclSteps_old_paths_covered v exclusive genAcl f old new r h p hp


/-- With `--no-acl` and no filter option everything is passed on unchanged: the device configuration as it is, the
generators' rows as parsed and merged. -/
theorem C10_full_noacl_nofilter_identity (v : Vendor) (sp : Splitter) (gens : List GenDef) (exclusive : Bool) (old : Cfg)
    (r : OldNew) (h : oldNewFull v sp gens true exclusive none old = .ok r) :
    r.old = old ∧ ∃ rs, runPartialsU false v sp gens [] = .ok rs ∧ r.new = configTree rs :=
  oldNewFull_noacl_nofilter v sp gens exclusive old r h

/-- `use_acl = True` is the run the other theorems of this file are about. -/
theorem C10_run_partials_use_acl (v : Vendor) (sp : Splitter) (gens : List GenDef) (acc : List Result) :
    runPartialsU true v sp gens acc = runPartials v sp gens acc :=
  runPartialsU_true v sp gens acc

/-- Non-vacuity (`--no-acl`, filter `interface * / description ~`): the filter selects exactly the covered lines of the
device configuration. -/
example :
    (oldNewFull { reverse := "undo" } .common [] true true
      (some [.mk "interface *" false false [false] 0 [] [.mk "description ~" false false [false] 0 [] []]])
      (.mk [("interface Eth1", .mk [("description x", .mk []), ("mtu 9000", .mk [])]), ("snmp-agent", .mk [])])).toOption.map
        (fun r => (r.old.paths, r.new.paths)) =
      some ([["interface Eth1"], ["interface Eth1", "description x"]], []) := by
  decide +kernel

/-- Non-vacuity (no generator supports the device, ACLs on): nothing of the device configuration is passed on. -/
example :
    (oldNewFull { reverse := "undo" } .common [] false true none
      (.mk [("interface Eth1", .mk [("description x", .mk [])]), ("snmp-agent", .mk [])])).toOption.map
        (fun r => (r.old.paths, r.new.paths)) = some ([], []) := by
  decide +kernel

end Annet.Gen
