/-
C11 — VLAN-list commands change exactly the VLANs that differ.

Property theorems only; helper lemmas live in `Lemmas/Vlan.lean`, the device semantics in
`Spec/VlanDev.lean`, the model of annet's code in `Model/Vlan.lean`.

Reading guide.  `old` / `new` are the config lines of one `(rule, key)` (e.g. all
`port trunk allow-pass vlan …` lines of an interface) as token lists; `vl r` is the VLAN set
`_parse_vlancfg` reads from line `r`; `setOf vl old` is the union (`S_old`).  `Disj vl old` says the
lines are a splitting of one range list (pairwise disjoint).  `hLeaf m rev old new` is the real
pipeline for these lines: bucketing (`base_diff`/`mark_unchanged`/`make_pre`) and the logic function.
`EndsIn interp cs S_old S_new`: the device understands every command of `cs`, and executing them in
this order from `S_old` leaves exactly `S_new`.  `KeepsCommon`: every state on the way contains
`S_old ∩ S_new`.  Both are proved for **every permutation** `cs` of the emitted rows, so the final
ordering of the patch (C08) cannot break them.

State of the code (HEAD of /repo): the three defects this check found are repaired — 679839a
(`multi_all`: `undo … all` with unchanged sibling lines), 7d0d905 (`single`: whole-key reverse command
with unchanged sibling lines), 7afbb71 (huawei.rul: pool lines keyed by their first id).  The Huawei
theorems therefore hold for all three modes and any number of lines per key; the two `…_old_rule_false`
theorems are about the *former* rule / keying (explicitly named variants), kept to document what the
repairs changed.  The one statement that is still false is "`single` always emits"
(`C11_huawei_always_emits_false`): it refuses, by its own assertion, more than one changed line per side.
-/
import AnnetModel.Lemmas.Vlan
import AnnetModel.Lemmas.VlanIface
import AnnetModel.Gen.IfaceLists

/-! OBLIGATIONS
Annet.Vlan.C11_expand_collapse_huawei
Annet.Vlan.C11_expand_collapse_cisco
Annet.Vlan.C11_changed_lines_suffice
Annet.Vlan.C11_written_lines_parse_huawei
Annet.Vlan.C11_written_lines_parse_cisco
Annet.Vlan.C11_huawei_exact
Annet.Vlan.C11_huawei_never_removes_common
Annet.Vlan.C11_huawei_multi_exact
Annet.Vlan.C11_huawei_multi_never_removes_common
Annet.Vlan.C11_huawei_single_refuses_many
Annet.Vlan.C11_huawei_always_emits_false
Annet.Vlan.C11_huawei_always_emits_partial
Annet.Vlan.C11_huawei_single_old_rule_false
Annet.Vlan.C11_cisco_exact
Annet.Vlan.C11_cisco_never_removes_common
Annet.Vlan.C11_pool_one_list
Annet.Vlan.C11_pool_keyed_by_first_id_old_rule_false
Annet.Vlan.C11_vlan_diff_keeps_batch_rows
Annet.Vlan.C11_vlan_diff_never_removes_batched_vlan
Annet.Vlan.C11_nexus_port_channel_member_exact
Annet.Vlan.C11_not_member_is_plain_logic
Annet.Vlan.C11_cisco_leaves_port_channel_false
Annet.Vlan.C11_member_lists_as_modelled
-/

namespace Annet.Vlan
open Spec Lemmas

/-! ## expand ∘ collapse -/

/-- `huawei_expand_vlandb(" ".join(chunk))` over the chunks of
`collapse_vlandb(S, " to ", tiny_ranges, chunk_len)` gives back exactly `S`: every chunk expands
(no exception) to ids of `S`, and every id of `S` is in the expansion of some chunk.  Any non-empty
`S` (any order, duplicates allowed), both `tiny_ranges`, every `chunk_len` (0 = one flat list). -/
theorem C11_expand_collapse_huawei (tiny : Bool) (chunkLen : Nat) (S : List Nat) (hS : S ≠ []) :
    ∃ chunks, collapseChunks tiny chunkLen S = .ok chunks ∧
      (∀ c ∈ chunks, ∃ out, huaweiExpand (renderHs c) = .ok out ∧ ∀ v ∈ out, v ∈ S) ∧
      (∀ v ∈ S, ∃ c ∈ chunks, ∃ out, huaweiExpand (renderHs c) = .ok out ∧ v ∈ out) := by
  obtain ⟨rs, hc, h1, h2⟩ := chunks_spec
    (fun c => match huaweiExpand (renderHs c) with | .ok o => some o | .error _ => none)
    (fun c hwf => by
      obtain ⟨out, ho, hm⟩ := hExpandGo_render (renderHs c) none c hwf
      exact ⟨out, by simp only [huaweiExpand, ho], hm⟩)
    (fun l => if chunkLen = 0 then [l] else chunked chunkLen l)
    (fun l hl => by
      by_cases h0 : chunkLen = 0
      · simp only [h0, if_true]; exact split_one l hl
      · simp only [h0, if_false]; exact split_chunked chunkLen (by omega) l hl)
    tiny S hS
  have conv : ∀ c out, (match huaweiExpand (renderHs c) with | .ok o => some o | .error _ => none) = some out →
      huaweiExpand (renderHs c) = .ok out := fun c out h => by
    cases hh : huaweiExpand (renderHs c) with
    | ok o => rw [hh] at h; simp at h; rw [h]
    | error e => rw [hh] at h; simp at h
  refine ⟨(if chunkLen = 0 then [rs] else chunked chunkLen rs), by simp only [collapseChunks, hc, except_map'_ok], ?_, ?_⟩
  · intro c hcm
    obtain ⟨_, out, ho, hs⟩ := h1 c hcm
    exact ⟨out, conv c out ho, hs⟩
  · intro v hv
    obtain ⟨c, hcm, out, ho, hvo⟩ := h2 v hv
    exact ⟨c, hcm, out, conv c out ho, hvo⟩

/-- The same for `cisco_expand_vlandb(",".join(chunk))` and `range_sep = "-"`. -/
theorem C11_expand_collapse_cisco (tiny : Bool) (chunkLen : Nat) (S : List Nat) (hS : S ≠ []) :
    ∃ chunks, collapseChunks tiny chunkLen S = .ok chunks ∧
      (∀ c ∈ chunks, ∃ out, ciscoExpand (c.map renderC) = .ok out ∧ ∀ v ∈ out, v ∈ S) ∧
      (∀ v ∈ S, ∃ c ∈ chunks, ∃ out, ciscoExpand (c.map renderC) = .ok out ∧ v ∈ out) := by
  obtain ⟨rs, hc, h1, h2⟩ := chunks_spec
    (fun (c : List (Nat × Nat)) => match ciscoExpand (c.map renderC) with | .ok o => some o | .error _ => none)
    (fun c hwf => by
      obtain ⟨out, ho, hm⟩ := ciscoExpand_render c hwf
      exact ⟨out, by simp only [ho], hm⟩)
    (fun l => if chunkLen = 0 then [l] else chunked chunkLen l)
    (fun l hl => by
      by_cases h0 : chunkLen = 0
      · simp only [h0, if_true]; exact split_one l hl
      · simp only [h0, if_false]; exact split_chunked chunkLen (by omega) l hl)
    tiny S hS
  have conv : ∀ (c : List (Nat × Nat)) out, (match ciscoExpand (c.map renderC) with | .ok o => some o | .error _ => none) = some out →
      ciscoExpand (c.map renderC) = .ok out := fun c out h => by
    cases hh : ciscoExpand (c.map renderC) with
    | ok o => rw [hh] at h; simp at h; rw [h]
    | error e => rw [hh] at h; simp at h
  refine ⟨(if chunkLen = 0 then [rs] else chunked chunkLen rs), by simp only [collapseChunks, hc, except_map'_ok], ?_, ?_⟩
  · intro c hcm
    obtain ⟨_, out, ho, hs⟩ := h1 c hcm
    exact ⟨out, conv c out ho, hs⟩
  · intro v hv
    obtain ⟨c, hcm, out, ho, hvo⟩ := h2 v hv
    exact ⟨c, hcm, out, conv c out ho, hvo⟩

/-! ## the key lemma -/

/-- `_process_vlandb` only looks at the *changed* lines (`diff[Op.REMOVED]`, `diff[Op.ADDED]`).
When the old lines are pairwise disjoint that is enough: the difference of the changed lines' sets
is the difference of the whole sets (and symmetrically with `old`/`new` swapped). -/
theorem C11_changed_lines_suffice {ρ : Type} [BEq ρ] [LawfulBEq ρ] (vl : ρ → List Nat) (old new : List ρ)
    (hold : Disj vl old) (v : Nat) :
    v ∈ sdiff (setOf vl (leafBuckets old new).removed) (setOf vl (leafBuckets old new).added)
      ↔ v ∈ setOf vl old ∧ v ∉ setOf vl new :=
  diff_rows vl old new hold v

/-! ## every splitting of a collapsed range list is a list of lines the theorems speak about -/

/-- A Huawei line made of a prefix ending in a word and any piece `c` of a collapsed range list
(`collapseGo` output: `lo ≤ hi`) is parsed by `_parse_vlancfg` into that prefix and exactly the ids
of the piece.  So for every set and every splitting of its range list over lines, the hypothesis
`hparse` of the theorems below holds (with `vl` = the ids of the piece). -/
theorem C11_written_lines_parse_huawei (p0 : HRow) (s : String) (c : List (Nat × Nat))
    (hwf : ∀ r ∈ c, r.1 ≤ r.2) :
    ∃ out, hParseVlancfg (p0 ++ [.w s] ++ renderHs c) = .ok (p0 ++ [.w s], out) ∧
      ∀ x, x ∈ out ↔ Covers c x :=
  hParse_written p0 s c hwf

/-- Cisco: `<pfx> a-b,c`, `<pfx> add a-b,c` and `<pfx> none` all parse to `<pfx>` and the ids. -/
theorem C11_written_lines_parse_cisco (p : CRow) (hp0 : p ≠ []) (hlast : p.getLast? ≠ some (.w "add"))
    (c : List (Nat × Nat)) (hwf : ∀ r ∈ c, r.1 ≤ r.2) :
    (∃ out, cParseVlancfg (p ++ [.spec (c.map renderC)]) = .ok (p, out) ∧ ∀ x, x ∈ out ↔ Covers c x) ∧
    (∃ out, cParseVlancfg (p ++ [.w "add", .spec (c.map renderC)]) = .ok (p, out) ∧ ∀ x, x ∈ out ↔ Covers c x) ∧
    cParseVlancfg (p ++ [.w "none"]) = .ok (p, []) :=
  cParse_written p hp0 hlast c hwf

/-! ## Huawei -/

/-- **All three modes** — `single` (`instance N vlan`), `multi` (`vlan batch`, `vlan` of a pool) and
`multi_all` (`port trunk allow-pass vlan`, `port hybrid tagged/untagged vlan`) — any number of lines
on each side, any sets, full strength.  Either the logic emits commands that, in every order, leave
exactly `S_new`; or — only in mode `single`, and exactly when more than one line of the key changed
on one side — it raises its own AssertionError ("Too many actions", huawei/vlandb.py:54-56) and emits
nothing at all.  No "at most one line per key" restriction: unchanged sibling lines are fine in all
modes (repairs 679839a for `multi_all`, 7d0d905 for `single`). -/
theorem C11_huawei_exact (m : HMode) (p rev : HRow) (old new : List HRow) (vl : HRow → List Nat)
    (hp : p.head? ≠ some (.w "undo"))
    (hparse : ∀ r, r ∈ old ∨ r ∈ new → hParseVlancfg r = .ok (p, vl r))
    (hold : Disj vl old) (hnew : Disj vl new)
    (hrevAll : m = .multiAll → rev = .w "undo" :: p)
    (hrevSingle : m = .single → ∀ t, rev ≠ p ++ t ∧ rev ≠ .w "undo" :: (p ++ t)) :
    (∃ ys, hLeaf m rev old new = .ok ys ∧
      ∀ cs, cs.Perm (ys.map (·.row)) →
        EndsIn (interpH (hDevice m p rev)) cs (setOf vl old) (setOf vl new)) ∨
    (m = .single ∧
      (1 < (leafBuckets old new).removed.length ∨ 1 < (leafBuckets old new).added.length) ∧
      hLeaf m rev old new = .error .assertion) := by
  rcases huawei_total m p rev old new vl hp hparse hold hnew hrevAll hrevSingle with ⟨ys, h1, h2⟩ | h
  · exact .inl ⟨ys, h1, fun cs hc => (h2 cs hc).1⟩
  · exact .inr h

/-- … and on the way no VLAN that is in both sets ever disappears (same generality). -/
theorem C11_huawei_never_removes_common (m : HMode) (p rev : HRow) (old new : List HRow)
    (vl : HRow → List Nat)
    (hp : p.head? ≠ some (.w "undo"))
    (hparse : ∀ r, r ∈ old ∨ r ∈ new → hParseVlancfg r = .ok (p, vl r))
    (hold : Disj vl old) (hnew : Disj vl new)
    (hrevAll : m = .multiAll → rev = .w "undo" :: p)
    (hrevSingle : m = .single → ∀ t, rev ≠ p ++ t ∧ rev ≠ .w "undo" :: (p ++ t)) :
    (∃ ys, hLeaf m rev old new = .ok ys ∧
      ∀ cs, cs.Perm (ys.map (·.row)) →
        KeepsCommon (interpH (hDevice m p rev)) cs (setOf vl old) (setOf vl new)) ∨
    (m = .single ∧
      (1 < (leafBuckets old new).removed.length ∨ 1 < (leafBuckets old new).added.length) ∧
      hLeaf m rev old new = .error .assertion) := by
  rcases huawei_total m p rev old new vl hp hparse hold hnew hrevAll hrevSingle with ⟨ys, h1, h2⟩ | h
  · exact .inl ⟨ys, h1, fun cs hc => (h2 cs hc).2⟩
  · exact .inr h

/-- `multi` and `multi_all` never raise: commands are always emitted, and they are exact. -/
theorem C11_huawei_multi_exact (m : HMode) (hm : m ≠ .single) (p rev : HRow) (old new : List HRow)
    (vl : HRow → List Nat)
    (hp : p.head? ≠ some (.w "undo"))
    (hparse : ∀ r, r ∈ old ∨ r ∈ new → hParseVlancfg r = .ok (p, vl r))
    (hold : Disj vl old) (hnew : Disj vl new)
    (hrev : m = .multiAll → rev = .w "undo" :: p) :
    ∃ ys, hLeaf m rev old new = .ok ys ∧
      ∀ cs, cs.Perm (ys.map (·.row)) →
        EndsIn (interpH (hDevice m p rev)) cs (setOf vl old) (setOf vl new) := by
  obtain ⟨ys, h1, h2⟩ := huawei_core m p rev old new vl hp hparse hold hnew (fun h => absurd h hm) hrev
    (fun h => absurd h hm)
  exact ⟨ys, h1, fun cs hc => (h2 cs hc).1⟩

theorem C11_huawei_multi_never_removes_common (m : HMode) (hm : m ≠ .single) (p rev : HRow)
    (old new : List HRow) (vl : HRow → List Nat)
    (hp : p.head? ≠ some (.w "undo"))
    (hparse : ∀ r, r ∈ old ∨ r ∈ new → hParseVlancfg r = .ok (p, vl r))
    (hold : Disj vl old) (hnew : Disj vl new)
    (hrev : m = .multiAll → rev = .w "undo" :: p) :
    ∃ ys, hLeaf m rev old new = .ok ys ∧
      ∀ cs, cs.Perm (ys.map (·.row)) →
        KeepsCommon (interpH (hDevice m p rev)) cs (setOf vl old) (setOf vl new) := by
  obtain ⟨ys, h1, h2⟩ := huawei_core m p rev old new vl hp hparse hold hnew (fun h => absurd h hm) hrev
    (fun h => absurd h hm)
  exact ⟨ys, h1, fun cs hc => (h2 cs hc).2⟩

/-- `single` refuses — AssertionError, no command — as soon as more than one line of the key changed
on one side, whatever the lines are (the code's own assertion, lines 54-56; by design). -/
theorem C11_huawei_single_refuses_many (rev : HRow) (old new : List HRow)
    (hlen : 1 < (leafBuckets old new).removed.length ∨ 1 < (leafBuckets old new).added.length) :
    hLeaf .single rev old new = .error .assertion :=
  huawei_single_refuses rev old new hlen

/-- "commands are always emitted", for all three modes (the statement of `C11_huawei_multi_exact`
without `m ≠ .single`) -/
def HuaweiAlwaysEmits : Prop :=
  ∀ (m : HMode) (p rev : HRow) (old new : List HRow) (vl : HRow → List Nat),
    p.head? ≠ some (.w "undo") →
    (∀ r, r ∈ old ∨ r ∈ new → hParseVlancfg r = .ok (p, vl r)) →
    Disj vl old → Disj vl new →
    (m = .multiAll → rev = .w "undo" :: p) →
    (m = .single → ∀ t, rev ≠ p ++ t ∧ rev ≠ .w "undo" :: (p ++ t)) →
    ∃ ys, hLeaf m rev old new = .ok ys ∧
      ∀ cs, cs.Perm (ys.map (·.row)) →
        EndsIn (interpH (hDevice m p rev)) cs (setOf vl old) (setOf vl new)

/-- witness lines: `instance 1 vlan 2` + `instance 1 vlan 7` (key `1` of `instance * vlan`) -/
def wP : HRow := [.w "instance", .n 1, .w "vlan"]
def wRev : HRow := [.w "undo", .w "instance", .n 1]
def wOld : List HRow := [wP ++ [.n 2], wP ++ [.n 7]]
def wNew : List HRow := [wP ++ [.n 2]]

theorem wit_hyps :
    wP.head? ≠ some (.w "undo") ∧
    (∀ r, r ∈ wOld ∨ r ∈ wNew → hParseVlancfg r = .ok (wP, idsOf r)) ∧
    Disj idsOf wOld ∧ Disj idsOf wNew ∧
    (∀ t, wRev ≠ wP ++ t ∧ wRev ≠ .w "undo" :: (wP ++ t)) := by
  refine ⟨by decide, ?_, ?_, ?_, ?_⟩
  · intro r hr
    simp only [wOld, wNew, List.mem_cons, List.not_mem_nil, or_false] at hr
    rcases hr with (rfl | rfl) | rfl <;> rfl
  · intro a ha b hb hab v hv
    simp only [wOld, List.mem_cons, List.not_mem_nil, or_false] at ha hb
    rcases ha with rfl | rfl <;> rcases hb with rfl | rfl
    · exact absurd rfl hab
    · have : idsOf (wP ++ [.n 2]) = [2] := rfl
      have h2 : idsOf (wP ++ [.n 7]) = [7] := rfl
      rw [this] at hv; rw [h2]; simp at hv ⊢; omega
    · have : idsOf (wP ++ [.n 2]) = [2] := rfl
      have h2 : idsOf (wP ++ [.n 7]) = [7] := rfl
      rw [h2] at hv; rw [this]; simp at hv ⊢; omega
    · exact absurd rfl hab
  · intro a ha b hb hab
    simp only [wNew, List.mem_cons, List.not_mem_nil, or_false] at ha hb
    subst ha hb; exact absurd rfl hab
  · intro t
    constructor <;> intro h <;> simp [wRev, wP] at h

/-- **Still false**: `single` does not always emit.  Both lines of the key removed at once
(`instance 1 vlan 2` + `instance 1 vlan 7` → nothing): AssertionError "Too many actions".  This is a
refusal, not a wrong patch (no command is produced); `C11_huawei_exact` states exactly when it happens. -/
theorem C11_huawei_always_emits_false : ¬ HuaweiAlwaysEmits := by
  intro h
  obtain ⟨h1, h2, h3, _, h5⟩ := wit_hyps
  obtain ⟨ys, hys, _⟩ := h .single wP wRev wOld [] idsOf h1
    (fun r hr => h2 r (hr.elim .inl (fun h => by simp at h))) h3
    (fun a ha => by simp at ha) (fun e => by cases e) (fun _ => h5)
  have he : hLeaf .single wRev wOld [] = .error .assertion :=
    C11_huawei_single_refuses_many wRev wOld [] (.inl (by decide))
  rw [he] at hys
  cases hys

/-- What does hold for all three modes about emission: `single` needs at most one *changed* line of
the key on each side (`hsingle`; unchanged lines do not count) — then commands are emitted, exact and
keeping the common VLANs. -/
theorem C11_huawei_always_emits_partial (m : HMode) (p rev : HRow) (old new : List HRow)
    (vl : HRow → List Nat)
    (hp : p.head? ≠ some (.w "undo"))
    (hparse : ∀ r, r ∈ old ∨ r ∈ new → hParseVlancfg r = .ok (p, vl r))
    (hold : Disj vl old) (hnew : Disj vl new)
    (hsingle : m = .single →
      (leafBuckets old new).removed.length ≤ 1 ∧ (leafBuckets old new).added.length ≤ 1)
    (hrevAll : m = .multiAll → rev = .w "undo" :: p)
    (hrevSingle : m = .single → ∀ t, rev ≠ p ++ t ∧ rev ≠ .w "undo" :: (p ++ t)) :
    ∃ ys, hLeaf m rev old new = .ok ys ∧
      ∀ cs, cs.Perm (ys.map (·.row)) →
        EndsIn (interpH (hDevice m p rev)) cs (setOf vl old) (setOf vl new) ∧
        KeepsCommon (interpH (hDevice m p rev)) cs (setOf vl old) (setOf vl new) :=
  huawei_core m p rev old new vl hp hparse hold hnew hsingle hrevAll hrevSingle

/-- Why the repair 7d0d905 matters (a statement about the **old rule** `hLeafSingleOldRule`, not
about the shipped code): with one of two lines of the key removed and none added, the old rule
emitted the whole-key reverse command `undo instance 1`, which also deletes the unchanged line's
VLAN 2 — the final set is wrong and a common VLAN is lost; the repaired `single` emits
`undo instance 1 vlan 7` (and `C11_huawei_exact` applies to it).  Former finding
`huawei:single:whole-key-undo-with-unchanged-lines`; the harness keeps the input as a regression. -/
theorem C11_huawei_single_old_rule_false :
    hLeafSingleOldRule wRev wOld wNew = .ok [⟨false, wRev, none⟩] ∧
    ¬ EndsIn (interpH (hDevice .single wP wRev)) [wRev] (setOf idsOf wOld) (setOf idsOf wNew) ∧
    ¬ KeepsCommon (interpH (hDevice .single wP wRev)) [wRev] (setOf idsOf wOld) (setOf idsOf wNew) ∧
    hLeaf .single wRev wOld wNew = .ok [⟨false, .w "undo" :: (wP ++ [.n 7]), none⟩] := by
  refine ⟨rfl, ?_, ?_, rfl⟩
  · rintro ⟨S', hr, hm⟩
    have hrun : runDev (interpH (hDevice .single wP wRev)) [wRev] (setOf idsOf wOld) = some [] := rfl
    rw [hrun] at hr
    cases hr
    have : (2 : Nat) ∈ setOf idsOf wNew := by decide
    exact absurd ((hm 2).mpr this) (by simp)
  · rintro ⟨T, ht, hk⟩
    have htr : traceDev (interpH (hDevice .single wP wRev)) [wRev] (setOf idsOf wOld) = some [[2, 7], []] := rfl
    rw [htr] at ht
    cases ht
    exact absurd (hk [] (by simp) 2 (by decide) (by decide)) (by simp)

/-! ## Cisco -/

/-- `simple` (`vlan`, `vlan group … vlan-list`) and `swtrunk` (`switchport trunk allowed vlan`),
Catalyst or not, leaf lines, any number of lines; the empty set may be written `<pfx> none`
(`hnone`: such a line stands alone). -/
theorem C11_cisco_exact {χ : Type} (m : CMode) (catalyst : Bool) (p : CRow) (old new : List CRow)
    (vl : CRow → List Nat)
    (hp0 : p ≠ []) (hp : p.head? ≠ some (.w "no"))
    (hparse : ∀ r, r ∈ old ∨ r ∈ new → cParseVlancfg r = .ok (p, vl r))
    (hold : Disj vl old) (hnew : Disj vl new)
    (hnone : ∀ r ∈ new, vl r = [] → new = [r]) :
    ∃ ys, cLeaf (χ := χ) m catalyst old new = .ok ys ∧
      ∀ cs, cs.Perm (ys.map (·.row)) →
        EndsIn (interpC (cDevice m p)) cs (setOf vl old) (setOf vl new) := by
  obtain ⟨ys, h1, h2⟩ := cisco_core (χ := χ) m catalyst p old new vl hp0 hp hparse hold hnew hnone
  exact ⟨ys, h1, fun cs hc => (h2 cs hc).1⟩

theorem C11_cisco_never_removes_common {χ : Type} (m : CMode) (catalyst : Bool) (p : CRow)
    (old new : List CRow) (vl : CRow → List Nat)
    (hp0 : p ≠ []) (hp : p.head? ≠ some (.w "no"))
    (hparse : ∀ r, r ∈ old ∨ r ∈ new → cParseVlancfg r = .ok (p, vl r))
    (hold : Disj vl old) (hnew : Disj vl new)
    (hnone : ∀ r ∈ new, vl r = [] → new = [r]) :
    ∃ ys, cLeaf (χ := χ) m catalyst old new = .ok ys ∧
      ∀ cs, cs.Perm (ys.map (·.row)) →
        KeepsCommon (interpC (cDevice m p)) cs (setOf vl old) (setOf vl new) := by
  obtain ⟨ys, h1, h2⟩ := cisco_core (χ := χ) m catalyst p old new vl hp0 hp hparse hold hnew hnone
  exact ⟨ys, h1, fun cs hc => (h2 cs hc).2⟩

/-! ## `vlan pool`: one list, one key -/

/-- The shipped rule under `vlan pool *` is `vlan %logic=huawei.vlandb.multi` (huawei.rul, since
7afbb71): all `vlan …` lines of a pool form **one** `(rule, key)` group with prefix `vlan`, so the
`multi` theorems apply to the pool's VLAN set as a whole: exact and never dropping a common VLAN, any
number of lines, every order of the commands.  (`rev` is not used by `multi`.) -/
theorem C11_pool_one_list (rev : HRow) (old new : List HRow) (vl : HRow → List Nat)
    (hparse : ∀ r, r ∈ old ∨ r ∈ new → hParseVlancfg r = .ok ([.w "vlan"], vl r))
    (hold : Disj vl old) (hnew : Disj vl new) :
    ∃ ys, hLeaf .multi rev old new = .ok ys ∧
      ∀ cs, cs.Perm (ys.map (·.row)) →
        EndsIn (interpH (hDevice .multi [.w "vlan"] rev)) cs (setOf vl old) (setOf vl new) ∧
        KeepsCommon (interpH (hDevice .multi [.w "vlan"] rev)) cs (setOf vl old) (setOf vl new) :=
  huawei_core .multi [.w "vlan"] rev old new vl (by decide) hparse hold hnew (fun h => by cases h)
    (fun h => by cases h) (fun h => by cases h)

/-- Why the repair 7afbb71 matters (a statement about the **old rulebook keying**, not about the
shipped one): the former rule `vlan * %logic=huawei.vlandb.multi` keyed the lines of a pool by their
**first id**, so `vlan 2 to 5` → `vlan 3 to 5` was processed as two independent lists: key `2` loses
its line (`undo vlan 2 to 5`), key `3` gains one (`vlan 3 to 5`).  Executed on the one VLAN set the
pool has, VLANs 3-5 (in both sets) disappear in between.  Former finding
`huawei:pool:list-keyed-by-first-id:common-vlan-removed-transiently`; the harness keeps the input as
a regression.  With one key the same change yields `undo vlan 2` only (example below). -/
theorem C11_pool_keyed_by_first_id_old_rule_false :
    ∃ ys2 ys3,
      hLeaf .multi [.w "undo", .w "vlan", .n 2] [[.w "vlan", .n 2, .to, .n 5]] [] = .ok ys2 ∧
      hLeaf .multi [.w "undo", .w "vlan", .n 3] [] [[.w "vlan", .n 3, .to, .n 5]] = .ok ys3 ∧
      EndsIn (interpH (hDevice .multi [.w "vlan"] [])) ((ys2 ++ ys3).map (·.row)) [2, 3, 4, 5] [3, 4, 5] ∧
      ¬ KeepsCommon (interpH (hDevice .multi [.w "vlan"] [])) ((ys2 ++ ys3).map (·.row)) [2, 3, 4, 5] [3, 4, 5] := by
  refine ⟨_, _, rfl, rfl, ⟨[3, 4, 5], rfl, fun v => Iff.rfl⟩, ?_⟩
  rintro ⟨T, ht, hk⟩
  have htr : traceDev (interpH (hDevice .multi [.w "vlan"] []))
      ([[HTok.w "undo", .w "vlan", .n 2, .to, .n 5], [.w "vlan", .n 3, .to, .n 5]]) [2, 3, 4, 5]
      = some [[2, 3, 4, 5], [], [3, 4, 5]] := rfl
  have ht' : some [[2, 3, 4, 5], [], [3, 4, 5]] = some T := htr.symm.trans ht
  cases ht'
  exact absurd (hk [] (by simp) 3 (by decide) (by decide)) (by simp)

/-! ## `vlan_diff` -/

/-- `vlan_diff` never touches `vlan batch …` rows: they reach `_process_vlandb` exactly as
`default_diff` produced them (same rows, same ops, same order), so the theorems above apply to the
batch list through this diff logic. -/
theorem C11_vlan_diff_keeps_batch_rows (newRows : List HRow) (items out : List DItem)
    (h : hVlanDiff newRows items = .ok out) :
    out.filter isBatchRow = items.filter isBatchRow := by
  simp only [hVlanDiff] at h
  cases hb : batchNew newRows with
  | error e => rw [hb] at h; cases h
  | ok batch => rw [hb] at h; exact vlanDiff_keeps_batch batch items out h

/-- … and a `vlan N` block that disappears while `N` stays in the new `vlan batch` is never passed
on as REMOVED (no `undo vlan N` for a VLAN that remains declared). -/
theorem C11_vlan_diff_never_removes_batched_vlan (newRows : List HRow) (items out : List DItem) (batch : List Nat)
    (hb : batchNew newRows = .ok batch) (h : hVlanDiff newRows items = .ok out) :
    ∀ it ∈ out, it.op = .removed → pfxOf it.row = some [.w "vlan"] →
      ∀ v, v ∈ idsOf it.row → v ∉ batch := by
  simp only [hVlanDiff, hb] at h
  exact vlanDiff_protects batch items out h

/-! ## non-vacuity -/

def exP : HRow := [.w "port", .w "trunk", .w "allow-pass", .w "vlan"]
def exOld : List HRow := [exP ++ [.n 2, .to, .n 5, .n 10], exP ++ [.n 20, .to, .n 30]]
def exNew : List HRow := [exP ++ [.n 2, .to, .n 4, .n 10, .n 12], exP ++ [.n 20, .to, .n 25, .n 31]]

/-- the rows parse with the common prefix, and the model emits the two commands the real code emits -/
example : hParseVlancfg (exP ++ [.n 2, .to, .n 5, .n 10]) = .ok (exP, [2, 3, 4, 5, 10]) := rfl
example : hLeaf .multiAll (.w "undo" :: exP) exOld exNew
    = .ok [⟨false, .w "undo" :: (exP ++ [.n 5, .n 26, .to, .n 30]), none⟩, ⟨true, exP ++ [.n 12, .n 31], none⟩] := rfl
/-- one removed line of two, nothing added: no `undo … all` any more (the repaired defect) -/
example : hLeaf .multiAll (.w "undo" :: exP) exOld [exP ++ [.n 2, .to, .n 5, .n 10]]
    = .ok [⟨false, .w "undo" :: (exP ++ [.n 20, .to, .n 30]), none⟩] := rfl
example : hLeaf .multiAll (.w "undo" :: exP) exOld [] = .ok [⟨false, .w "undo" :: (exP ++ [.w "all"]), none⟩] := rfl
/-- the device really executes them -/
example : runDev (interpH (hDevice .multiAll exP (.w "undo" :: exP)))
    [.w "undo" :: (exP ++ [.n 5, .n 26, .to, .n 30]), exP ++ [.n 12, .n 31]] (setOf idsOf exOld)
    = some ([2, 3, 4, 10] ++ [20, 21, 22, 23, 24, 25] ++ [12, 31]) := rfl
/-- the hypotheses of the Huawei theorems hold for these lines … -/
theorem ex_hyps : (∀ r, r ∈ exOld ∨ r ∈ exNew → hParseVlancfg r = .ok (exP, idsOf r)) ∧
    Disj idsOf exOld ∧ Disj idsOf exNew := by
  refine ⟨?_, by unfold Disj; decide, by unfold Disj; decide⟩
  intro r hr
  simp only [exOld, exNew, List.mem_cons, List.not_mem_nil, or_false] at hr
  rcases hr with (rfl | rfl) | (rfl | rfl) <;> rfl
/-- … so the theorem applies to them -/
example : ∃ ys, hLeaf .multiAll (.w "undo" :: exP) exOld exNew = .ok ys ∧
    ∀ cs, cs.Perm (ys.map (·.row)) →
      EndsIn (interpH (hDevice .multiAll exP (.w "undo" :: exP))) cs (setOf idsOf exOld) (setOf idsOf exNew) :=
  C11_huawei_multi_exact .multiAll (by decide) exP (.w "undo" :: exP) exOld exNew idsOf (by decide)
    ex_hyps.1 ex_hyps.2.1 ex_hyps.2.2 (fun _ => rfl)
/-- `single` with an unchanged sibling line: the shipped rule emits the partial undo, and
`C11_huawei_exact` applies to these lines (first disjunct; the hypotheses are `wit_hyps`) -/
example : hLeaf .single wRev wOld wNew = .ok [⟨false, .w "undo" :: (wP ++ [.n 7]), none⟩] := rfl
example : runDev (interpH (hDevice .single wP wRev)) [.w "undo" :: (wP ++ [.n 7])] (setOf idsOf wOld)
    = some [2] := rfl
example : ∃ ys, hLeaf .single wRev wOld wNew = .ok ys ∧
    ∀ cs, cs.Perm (ys.map (·.row)) →
      EndsIn (interpH (hDevice .single wP wRev)) cs (setOf idsOf wOld) (setOf idsOf wNew) ∧
      KeepsCommon (interpH (hDevice .single wP wRev)) cs (setOf idsOf wOld) (setOf idsOf wNew) :=
  C11_huawei_always_emits_partial .single wP wRev wOld wNew idsOf wit_hyps.1 wit_hyps.2.1 wit_hyps.2.2.1
    wit_hyps.2.2.2.1 (fun _ => by decide) (fun e => by cases e) (fun _ => wit_hyps.2.2.2.2)
/-- `single`: the only line of the key goes away → whole-key reverse command, still taken -/
example : hLeaf .single wRev [wP ++ [.n 2]] [] = .ok [⟨false, wRev, none⟩] := rfl
/-- `single`: two changed lines on one side → refusal -/
example : hLeaf .single wRev wOld [] = .error .assertion := rfl
/-- the pool as one list: `vlan 2 to 5` → `vlan 3 to 5` is just `undo vlan 2` -/
example : hLeaf .multi [.w "undo", .w "vlan"] [[.w "vlan", .n 2, .to, .n 5]] [[.w "vlan", .n 3, .to, .n 5]]
    = .ok [⟨false, [.w "undo", .w "vlan", .n 2], none⟩] := rfl
example : traceDev (interpH (hDevice .multi [.w "vlan"] [.w "undo", .w "vlan"]))
    [[.w "undo", .w "vlan", .n 2]] [2, 3, 4, 5] = some [[2, 3, 4, 5], [3, 4, 5]] := rfl
example : hParseVlancfg [.w "vlan", .n 2, .to, .n 5] = .ok ([.w "vlan"], [2, 3, 4, 5]) := rfl
/-- an unknown command is refused by the device model -/
example : runDev (interpH (hDevice .multiAll exP (.w "undo" :: exP))) [[.w "shutdown"]] [1] = none := rfl
/-- collapse / expand on a concrete set, both `tiny_ranges` -/
example : collapse true [5, 2, 3, 4, 10, 11, 13] = .ok [(2, 5), (10, 11), (13, 13)] := rfl
example : collapse false [2, 3, 5, 10, 11, 12] = .ok [(2, 2), (3, 3), (5, 5), (10, 12)] := rfl
example : huaweiExpand [.n 2, .to, .n 5, .n 10] = .ok [2, 3, 4, 5, 10] := rfl
example : huaweiExpand [.n 3, .to] = .error .index := rfl
example : ciscoExpand [[2, 5], [10]] = .ok [2, 3, 4, 5, 10] := rfl
/-- Cisco: `none`, `remove`/`add`, Catalyst flag passed as `tiny_ranges` -/
def exC : CRow := [.w "switchport", .w "trunk", .w "allowed", .w "vlan"]
example : cLeaf (χ := Unit) .swtrunk false [exC ++ [.spec [[2, 5], [10]]], exC ++ [.w "add", .spec [[20, 30]]]]
      [exC ++ [.spec [[2, 4], [10], [12]]], exC ++ [.w "add", .spec [[20, 25], [31]]]]
    = .ok [⟨false, [.w "no"] ++ exC ++ [.w "remove", .spec [[5], [26, 30]]], none⟩,
           ⟨true, exC ++ [.w "add", .spec [[12], [31]]], none⟩] := rfl
example : cLeaf (χ := Unit) .swtrunk false [exC ++ [.spec [[2, 5]]]] [exC ++ [.w "none"]]
    = .ok [⟨true, exC ++ [.w "none"], none⟩] := rfl
def exCOld : List CRow := [exC ++ [.spec [[2, 5], [10]]], exC ++ [.w "add", .spec [[20, 30]]]]
def exCNew : List CRow := [exC ++ [.w "none"]]
example : ∃ ys, cLeaf (χ := Unit) .swtrunk true exCOld exCNew = .ok ys ∧
    ∀ cs, cs.Perm (ys.map (·.row)) →
      EndsIn (interpC (cDevice .swtrunk exC)) cs (setOf idsOfC exCOld) (setOf idsOfC exCNew) :=
  C11_cisco_exact .swtrunk true exC exCOld exCNew idsOfC (by decide) (by decide)
    (by
      intro r hr
      simp only [exCOld, exCNew, List.mem_cons, List.not_mem_nil, or_false] at hr
      rcases hr with (rfl | rfl) | rfl <;> rfl)
    (by unfold Disj; decide) (by unfold Disj; decide)
    (by
      intro r hr _
      simp only [exCNew, List.mem_cons, List.not_mem_nil, or_false] at hr
      subst hr; rfl)
example : (interpC (cDevice .swtrunk exC) ([.w "no"] ++ exC ++ [.w "remove", .spec [[5], [26, 30]]]))
    = some (.rem [5, 26, 27, 28, 29, 30]) := rfl

/-! ## port-channel members (`cLeafIface`: cisco/iface.py and nexus/iface.py filter a member's rows before the VLAN logic) -/

/-- NX-OS, whichever side is a port-channel member — in particular a port that leaves its port-channel: the commands end
in exactly the new set and never remove a common VLAN. -/
theorem C11_nexus_port_channel_member_exact {χ : Type} (m : CMode) (catalyst oldMember newMember : Bool) (p : CRow)
    (old new : List CRow) (vl : CRow → List Nat)
    (hp0 : p ≠ []) (hp : p.head? ≠ some (.w "no"))
    (hparse : ∀ r, r ∈ old ∨ r ∈ new → cParseVlancfg r = .ok (p, vl r))
    (hold : Disj vl old) (hnew : Disj vl new)
    (hnone : ∀ r ∈ new, vl r = [] → new = [r]) :
    ∃ ys, cLeafIface (χ := χ) .nexus m catalyst oldMember newMember old new = .ok ys ∧
      ∀ cs, cs.Perm (ys.map (·.row)) →
        EndsIn (interpC (cDevice m p)) cs (setOf vl old) (setOf vl new) ∧
        KeepsCommon (interpC (cDevice m p)) cs (setOf vl old) (setOf vl new) :=
  nexus_member_exact m catalyst oldMember newMember p old new vl hp0 hp hparse hold hnew hnone

/-- Ports that are no port-channel members on either side: both vendors are the plain logic (`C11_cisco_exact` applies). -/
theorem C11_not_member_is_plain_logic {χ : Type} (d : IfaceDiff) (m : CMode) (catalyst : Bool) (old new : List CRow) :
    cLeafIface (χ := χ) d m catalyst false false old new = cLeaf m catalyst old new :=
  cLeafIface_not_member d m catalyst old new

/-- F11d — the exactness statement is FALSE for a Cisco IOS port that leaves its port-channel: old `channel-group 1 …` +
`switchport trunk allowed vlan 10,20`, new `switchport trunk allowed vlan 10`.  The member's rows are hidden from the old
side, `switchport trunk allowed vlan add 10` is all that is sent, and executed on {10, 20} it leaves {10, 20}.  NX-OS sends
`no switchport trunk allowed vlan remove 20`.  Replayed on the real code (corpus/C11/cisco-port-leaves-port-channel.json). -/
theorem C11_cisco_leaves_port_channel_false :
    cLeafIface (χ := Unit) .cisco .swtrunk false true false swOld swNew = .ok [⟨true, swP ++ [.w "add", .spec [[10]]], none⟩] ∧
    ¬ EndsIn (interpC (cDevice .swtrunk swP)) [swP ++ [.w "add", .spec [[10]]]] (setOf swIds swOld) (setOf swIds swNew) ∧
    cLeafIface (χ := Unit) .nexus .swtrunk false true false swOld swNew =
      .ok [⟨false, .w "no" :: (swP ++ [.w "remove", .spec [[20]]]), none⟩] :=
  cisco_leaves_port_channel_false


/-- THE MODEL'S CONSTANTS ARE WHAT THE SOURCE DOES (`Gen/IfaceLists.lean` is regenerated on every run by calling the real
predicates on a `switchport trunk allowed vlan` row): Cisco IOS does not keep such a row of a port-channel member, NX-OS does
(`switchportAllowedOnMember`), and NX-OS does not hide it from the old side when the port leaves its port-channel (so
`cLeafIface .nexus` sees the old rows, as `C11_nexus_port_channel_member_exact` assumes). -/
theorem C11_member_lists_as_modelled :
    Annet.Gen.IfaceLists.ciscoKeepsSwitchportRows = switchportAllowedOnMember .cisco ∧
    Annet.Gen.IfaceLists.nexusKeepsSwitchportRows = switchportAllowedOnMember .nexus ∧
    Annet.Gen.IfaceLists.nexusHidesSwitchportRowsOnLeave = false := by
  decide


end Annet.Vlan
