/-
C11 — VLAN-list commands change exactly the VLANs that differ.

Property theorems only; helper lemmas live in `Lemmas/Vlan.lean`, the device semantics in
`Spec/VlanDev.lean`, the model of annet's code in `Model/Vlan.lean`.

Reading guide.  `old` / `new` are the config lines of one `(rule, key)` (e.g. all
`port trunk allow-pass vlan …` lines of an interface) as token lists; `vl r` is the VLAN set
`_parse_vlancfg` reads from line `r`; `setOf vl old` is the union (`S_old`).  `Disj vl old` says the
lines are a splitting of one range list (pairwise disjoint).  `hLeaf m rev old new` is the real
pipeline for these lines: bucketing (`base_diff`/`mark_unchanged`/`make_pre`) and the logic function.
`EndsIn interp cs S_old S_new`: the device understands every command of `cs`, and executing them in
this order from `S_old` leaves exactly `S_new`.  `KeepsCommon`: every state on the way contains
`S_old ∩ S_new`.  Both are proved for **every permutation** `cs` of the emitted rows, so the final
ordering of the patch (C08) cannot break them.
-/
import AnnetModel.Lemmas.Vlan

/-! OBLIGATIONS
Annet.Vlan.C11_expand_collapse_huawei
Annet.Vlan.C11_expand_collapse_cisco
Annet.Vlan.C11_changed_lines_suffice
Annet.Vlan.C11_written_lines_parse_huawei
Annet.Vlan.C11_written_lines_parse_cisco
Annet.Vlan.C11_huawei_multi_exact
Annet.Vlan.C11_huawei_multi_never_removes_common
Annet.Vlan.C11_huawei_exact_false
Annet.Vlan.C11_huawei_never_removes_common_false
Annet.Vlan.C11_huawei_exact_partial
Annet.Vlan.C11_huawei_never_removes_common_partial
Annet.Vlan.C11_cisco_exact
Annet.Vlan.C11_cisco_never_removes_common
Annet.Vlan.C11_pool_keyed_by_first_id_false
Annet.Vlan.C11_vlan_diff_keeps_batch_rows
Annet.Vlan.C11_vlan_diff_never_removes_batched_vlan
-/

namespace Annet.Vlan
open Spec Lemmas

/-! ## expand ∘ collapse -/

/-- `huawei_expand_vlandb(" ".join(chunk))` over the chunks of
`collapse_vlandb(S, " to ", tiny_ranges, chunk_len)` gives back exactly `S`: every chunk expands
(no exception) to ids of `S`, and every id of `S` is in the expansion of some chunk.  Any non-empty
`S` (any order, duplicates allowed), both `tiny_ranges`, every `chunk_len` (0 = one flat list). -/
theorem C11_expand_collapse_huawei (tiny : Bool) (chunkLen : Nat) (S : List Nat) (hS : S ≠ []) :
    ∃ chunks, collapseChunks tiny chunkLen S = .ok chunks ∧
      (∀ c ∈ chunks, ∃ out, huaweiExpand (renderHs c) = .ok out ∧ ∀ v ∈ out, v ∈ S) ∧
      (∀ v ∈ S, ∃ c ∈ chunks, ∃ out, huaweiExpand (renderHs c) = .ok out ∧ v ∈ out) := by
  obtain ⟨rs, hc, h1, h2⟩ := chunks_spec
    (fun c => match huaweiExpand (renderHs c) with | .ok o => some o | .error _ => none)
    (fun c hwf => by
      obtain ⟨out, ho, hm⟩ := hExpandGo_render (renderHs c) none c hwf
      exact ⟨out, by simp only [huaweiExpand, ho], hm⟩)
    (fun l => if chunkLen = 0 then [l] else chunked chunkLen l)
    (fun l hl => by
      by_cases h0 : chunkLen = 0
      · simp only [h0, if_true]; exact split_one l hl
      · simp only [h0, if_false]; exact split_chunked chunkLen (by omega) l hl)
    tiny S hS
  have conv : ∀ c out, (match huaweiExpand (renderHs c) with | .ok o => some o | .error _ => none) = some out →
      huaweiExpand (renderHs c) = .ok out := fun c out h => by
    cases hh : huaweiExpand (renderHs c) with
    | ok o => rw [hh] at h; simp at h; rw [h]
    | error e => rw [hh] at h; simp at h
  refine ⟨(if chunkLen = 0 then [rs] else chunked chunkLen rs), by simp only [collapseChunks, hc, except_map'_ok], ?_, ?_⟩
  · intro c hcm
    obtain ⟨_, out, ho, hs⟩ := h1 c hcm
    exact ⟨out, conv c out ho, hs⟩
  · intro v hv
    obtain ⟨c, hcm, out, ho, hvo⟩ := h2 v hv
    exact ⟨c, hcm, out, conv c out ho, hvo⟩

/-- The same for `cisco_expand_vlandb(",".join(chunk))` and `range_sep = "-"`. -/
theorem C11_expand_collapse_cisco (tiny : Bool) (chunkLen : Nat) (S : List Nat) (hS : S ≠ []) :
    ∃ chunks, collapseChunks tiny chunkLen S = .ok chunks ∧
      (∀ c ∈ chunks, ∃ out, ciscoExpand (c.map renderC) = .ok out ∧ ∀ v ∈ out, v ∈ S) ∧
      (∀ v ∈ S, ∃ c ∈ chunks, ∃ out, ciscoExpand (c.map renderC) = .ok out ∧ v ∈ out) := by
  obtain ⟨rs, hc, h1, h2⟩ := chunks_spec
    (fun (c : List (Nat × Nat)) => match ciscoExpand (c.map renderC) with | .ok o => some o | .error _ => none)
    (fun c hwf => by
      obtain ⟨out, ho, hm⟩ := ciscoExpand_render c hwf
      exact ⟨out, by simp only [ho], hm⟩)
    (fun l => if chunkLen = 0 then [l] else chunked chunkLen l)
    (fun l hl => by
      by_cases h0 : chunkLen = 0
      · simp only [h0, if_true]; exact split_one l hl
      · simp only [h0, if_false]; exact split_chunked chunkLen (by omega) l hl)
    tiny S hS
  have conv : ∀ (c : List (Nat × Nat)) out, (match ciscoExpand (c.map renderC) with | .ok o => some o | .error _ => none) = some out →
      ciscoExpand (c.map renderC) = .ok out := fun c out h => by
    cases hh : ciscoExpand (c.map renderC) with
    | ok o => rw [hh] at h; simp at h; rw [h]
    | error e => rw [hh] at h; simp at h
  refine ⟨(if chunkLen = 0 then [rs] else chunked chunkLen rs), by simp only [collapseChunks, hc, except_map'_ok], ?_, ?_⟩
  · intro c hcm
    obtain ⟨_, out, ho, hs⟩ := h1 c hcm
    exact ⟨out, conv c out ho, hs⟩
  · intro v hv
    obtain ⟨c, hcm, out, ho, hvo⟩ := h2 v hv
    exact ⟨c, hcm, out, conv c out ho, hvo⟩

/-! ## the key lemma -/

/-- `_process_vlandb` only looks at the *changed* lines (`diff[Op.REMOVED]`, `diff[Op.ADDED]`).
When the old lines are pairwise disjoint that is enough: the difference of the changed lines' sets
is the difference of the whole sets (and symmetrically with `old`/`new` swapped). -/
theorem C11_changed_lines_suffice {ρ : Type} [BEq ρ] [LawfulBEq ρ] (vl : ρ → List Nat) (old new : List ρ)
    (hold : Disj vl old) (v : Nat) :
    v ∈ sdiff (setOf vl (leafBuckets old new).removed) (setOf vl (leafBuckets old new).added)
      ↔ v ∈ setOf vl old ∧ v ∉ setOf vl new :=
  diff_rows vl old new hold v

/-! ## every splitting of a collapsed range list is a list of lines the theorems speak about -/

/-- A Huawei line made of a prefix ending in a word and any piece `c` of a collapsed range list
(`collapseGo` output: `lo ≤ hi`) is parsed by `_parse_vlancfg` into that prefix and exactly the ids
of the piece.  So for every set and every splitting of its range list over lines, the hypothesis
`hparse` of the theorems below holds (with `vl` = the ids of the piece). -/
theorem C11_written_lines_parse_huawei (p0 : HRow) (s : String) (c : List (Nat × Nat))
    (hwf : ∀ r ∈ c, r.1 ≤ r.2) :
    ∃ out, hParseVlancfg (p0 ++ [.w s] ++ renderHs c) = .ok (p0 ++ [.w s], out) ∧
      ∀ x, x ∈ out ↔ Covers c x :=
  hParse_written p0 s c hwf

/-- Cisco: `<pfx> a-b,c`, `<pfx> add a-b,c` and `<pfx> none` all parse to `<pfx>` and the ids. -/
theorem C11_written_lines_parse_cisco (p : CRow) (hp0 : p ≠ []) (hlast : p.getLast? ≠ some (.w "add"))
    (c : List (Nat × Nat)) (hwf : ∀ r ∈ c, r.1 ≤ r.2) :
    (∃ out, cParseVlancfg (p ++ [.spec (c.map renderC)]) = .ok (p, out) ∧ ∀ x, x ∈ out ↔ Covers c x) ∧
    (∃ out, cParseVlancfg (p ++ [.w "add", .spec (c.map renderC)]) = .ok (p, out) ∧ ∀ x, x ∈ out ↔ Covers c x) ∧
    cParseVlancfg (p ++ [.w "none"]) = .ok (p, []) :=
  cParse_written p hp0 hlast c hwf

/-! ## Huawei -/

/-- `multi` (`vlan batch`, …) and `multi_all` (`port trunk allow-pass vlan`, `port hybrid
tagged/untagged vlan`), full strength: any number of lines on each side, any sets. -/
theorem C11_huawei_multi_exact (m : HMode) (hm : m ≠ .single) (p rev : HRow) (old new : List HRow)
    (vl : HRow → List Nat)
    (hp : p.head? ≠ some (.w "undo"))
    (hparse : ∀ r, r ∈ old ∨ r ∈ new → hParseVlancfg r = .ok (p, vl r))
    (hold : Disj vl old) (hnew : Disj vl new)
    (hrev : m = .multiAll → rev = .w "undo" :: p) :
    ∃ ys, hLeaf m rev old new = .ok ys ∧
      ∀ cs, cs.Perm (ys.map (·.row)) →
        EndsIn (interpH (hDevice m p rev)) cs (setOf vl old) (setOf vl new) := by
  obtain ⟨ys, h1, h2⟩ := huawei_core m p rev old new vl hp hparse hold hnew (fun h => absurd h hm) hrev
    (fun h => absurd h hm)
  exact ⟨ys, h1, fun cs hc => (h2 cs hc).1⟩

theorem C11_huawei_multi_never_removes_common (m : HMode) (hm : m ≠ .single) (p rev : HRow)
    (old new : List HRow) (vl : HRow → List Nat)
    (hp : p.head? ≠ some (.w "undo"))
    (hparse : ∀ r, r ∈ old ∨ r ∈ new → hParseVlancfg r = .ok (p, vl r))
    (hold : Disj vl old) (hnew : Disj vl new)
    (hrev : m = .multiAll → rev = .w "undo" :: p) :
    ∃ ys, hLeaf m rev old new = .ok ys ∧
      ∀ cs, cs.Perm (ys.map (·.row)) →
        KeepsCommon (interpH (hDevice m p rev)) cs (setOf vl old) (setOf vl new) := by
  obtain ⟨ys, h1, h2⟩ := huawei_core m p rev old new vl hp hparse hold hnew (fun h => absurd h hm) hrev
    (fun h => absurd h hm)
  exact ⟨ys, h1, fun cs hc => (h2 cs hc).2⟩

/-- the statement of `C11_huawei_multi_exact` for all three modes -/
def HuaweiExactFull : Prop :=
  ∀ (m : HMode) (p rev : HRow) (old new : List HRow) (vl : HRow → List Nat),
    p.head? ≠ some (.w "undo") →
    (∀ r, r ∈ old ∨ r ∈ new → hParseVlancfg r = .ok (p, vl r)) →
    Disj vl old → Disj vl new →
    (m = .multiAll → rev = .w "undo" :: p) →
    (m = .single → ∀ t, rev ≠ p ++ t ∧ rev ≠ .w "undo" :: (p ++ t)) →
    ∃ ys, hLeaf m rev old new = .ok ys ∧
      ∀ cs, cs.Perm (ys.map (·.row)) →
        EndsIn (interpH (hDevice m p rev)) cs (setOf vl old) (setOf vl new)

def HuaweiKeepsFull : Prop :=
  ∀ (m : HMode) (p rev : HRow) (old new : List HRow) (vl : HRow → List Nat),
    p.head? ≠ some (.w "undo") →
    (∀ r, r ∈ old ∨ r ∈ new → hParseVlancfg r = .ok (p, vl r)) →
    Disj vl old → Disj vl new →
    (m = .multiAll → rev = .w "undo" :: p) →
    (m = .single → ∀ t, rev ≠ p ++ t ∧ rev ≠ .w "undo" :: (p ++ t)) →
    ∃ ys, hLeaf m rev old new = .ok ys ∧
      ∀ cs, cs.Perm (ys.map (·.row)) →
        KeepsCommon (interpH (hDevice m p rev)) cs (setOf vl old) (setOf vl new)

/-- witness: `instance 1 vlan 2` + `instance 1 vlan 7` → `instance 1 vlan 2` under `single` -/
def wP : HRow := [.w "instance", .n 1, .w "vlan"]
def wRev : HRow := [.w "undo", .w "instance", .n 1]
def wOld : List HRow := [wP ++ [.n 2], wP ++ [.n 7]]
def wNew : List HRow := [wP ++ [.n 2]]

theorem wit_hyps :
    wP.head? ≠ some (.w "undo") ∧
    (∀ r, r ∈ wOld ∨ r ∈ wNew → hParseVlancfg r = .ok (wP, idsOf r)) ∧
    Disj idsOf wOld ∧ Disj idsOf wNew ∧
    (∀ t, wRev ≠ wP ++ t ∧ wRev ≠ .w "undo" :: (wP ++ t)) := by
  refine ⟨by decide, ?_, ?_, ?_, ?_⟩
  · intro r hr
    simp only [wOld, wNew, List.mem_cons, List.not_mem_nil, or_false] at hr
    rcases hr with (rfl | rfl) | rfl <;> rfl
  · intro a ha b hb hab v hv
    simp only [wOld, List.mem_cons, List.not_mem_nil, or_false] at ha hb
    rcases ha with rfl | rfl <;> rcases hb with rfl | rfl
    · exact absurd rfl hab
    · have : idsOf (wP ++ [.n 2]) = [2] := rfl
      have h2 : idsOf (wP ++ [.n 7]) = [7] := rfl
      rw [this] at hv; rw [h2]; simp at hv ⊢; omega
    · have : idsOf (wP ++ [.n 2]) = [2] := rfl
      have h2 : idsOf (wP ++ [.n 7]) = [7] := rfl
      rw [h2] at hv; rw [this]; simp at hv ⊢; omega
    · exact absurd rfl hab
  · intro a ha b hb hab
    simp only [wNew, List.mem_cons, List.not_mem_nil, or_false] at ha hb
    subst ha hb; exact absurd rfl hab
  · intro t
    constructor <;> intro h <;> simp [wRev, wP] at h

/-- **False at full strength** (this is the recorded finding
`huawei:single:whole-key-undo-with-unchanged-lines`): with `single` and one of two lines of the same
key removed, the code emits `undo instance 1`, which deletes the unchanged line's VLANs too
(huawei/vlandb.py:63-65 does not look at `diff[Op.UNCHANGED]`). -/
theorem C11_huawei_exact_false : ¬ HuaweiExactFull := by
  intro h
  obtain ⟨h1, h2, h3, h4, h5⟩ := wit_hyps
  obtain ⟨ys, hys, hall⟩ := h .single wP wRev wOld wNew idsOf h1 h2 h3 h4 (fun e => by cases e) (fun _ => h5)
  have hy : hLeaf .single wRev wOld wNew = .ok [⟨false, wRev, none⟩] := rfl
  rw [hy] at hys
  cases hys
  obtain ⟨S', hr, hm⟩ := hall [wRev] (List.Perm.refl _)
  have hrun : runDev (interpH (hDevice .single wP wRev)) [wRev] (setOf idsOf wOld) = some [] := rfl
  rw [hrun] at hr
  cases hr
  have : (2 : Nat) ∈ setOf idsOf wNew := by decide
  exact absurd ((hm 2).mpr this) (by simp)

theorem C11_huawei_never_removes_common_false : ¬ HuaweiKeepsFull := by
  intro h
  obtain ⟨h1, h2, h3, h4, h5⟩ := wit_hyps
  obtain ⟨ys, hys, hall⟩ := h .single wP wRev wOld wNew idsOf h1 h2 h3 h4 (fun e => by cases e) (fun _ => h5)
  have hy : hLeaf .single wRev wOld wNew = .ok [⟨false, wRev, none⟩] := rfl
  rw [hy] at hys
  cases hys
  obtain ⟨T, ht, hk⟩ := hall [wRev] (List.Perm.refl _)
  have htr : traceDev (interpH (hDevice .single wP wRev)) [wRev] (setOf idsOf wOld) = some [[2, 7], []] := rfl
  rw [htr] at ht
  cases ht
  exact absurd (hk [] (by simp) 2 (by decide) (by decide)) (by simp)

/-- What does hold for all three modes: `single` needs at most one line per key on each side
(`hsingle`), which is what its own assertion "Too many actions" presupposes. -/
theorem C11_huawei_exact_partial (m : HMode) (p rev : HRow) (old new : List HRow) (vl : HRow → List Nat)
    (hp : p.head? ≠ some (.w "undo"))
    (hparse : ∀ r, r ∈ old ∨ r ∈ new → hParseVlancfg r = .ok (p, vl r))
    (hold : Disj vl old) (hnew : Disj vl new)
    (hsingle : m = .single → old.length ≤ 1 ∧ new.length ≤ 1)
    (hrevAll : m = .multiAll → rev = .w "undo" :: p)
    (hrevSingle : m = .single → ∀ t, rev ≠ p ++ t ∧ rev ≠ .w "undo" :: (p ++ t)) :
    ∃ ys, hLeaf m rev old new = .ok ys ∧
      ∀ cs, cs.Perm (ys.map (·.row)) →
        EndsIn (interpH (hDevice m p rev)) cs (setOf vl old) (setOf vl new) := by
  obtain ⟨ys, h1, h2⟩ := huawei_core m p rev old new vl hp hparse hold hnew hsingle hrevAll hrevSingle
  exact ⟨ys, h1, fun cs hc => (h2 cs hc).1⟩

theorem C11_huawei_never_removes_common_partial (m : HMode) (p rev : HRow) (old new : List HRow)
    (vl : HRow → List Nat)
    (hp : p.head? ≠ some (.w "undo"))
    (hparse : ∀ r, r ∈ old ∨ r ∈ new → hParseVlancfg r = .ok (p, vl r))
    (hold : Disj vl old) (hnew : Disj vl new)
    (hsingle : m = .single → old.length ≤ 1 ∧ new.length ≤ 1)
    (hrevAll : m = .multiAll → rev = .w "undo" :: p)
    (hrevSingle : m = .single → ∀ t, rev ≠ p ++ t ∧ rev ≠ .w "undo" :: (p ++ t)) :
    ∃ ys, hLeaf m rev old new = .ok ys ∧
      ∀ cs, cs.Perm (ys.map (·.row)) →
        KeepsCommon (interpH (hDevice m p rev)) cs (setOf vl old) (setOf vl new) := by
  obtain ⟨ys, h1, h2⟩ := huawei_core m p rev old new vl hp hparse hold hnew hsingle hrevAll hrevSingle
  exact ⟨ys, h1, fun cs hc => (h2 cs hc).2⟩

/-! ## Cisco -/

/-- `simple` (`vlan`, `vlan group … vlan-list`) and `swtrunk` (`switchport trunk allowed vlan`),
Catalyst or not, leaf lines, any number of lines; the empty set may be written `<pfx> none`
(`hnone`: such a line stands alone). -/
theorem C11_cisco_exact {χ : Type} (m : CMode) (catalyst : Bool) (p : CRow) (old new : List CRow)
    (vl : CRow → List Nat)
    (hp0 : p ≠ []) (hp : p.head? ≠ some (.w "no"))
    (hparse : ∀ r, r ∈ old ∨ r ∈ new → cParseVlancfg r = .ok (p, vl r))
    (hold : Disj vl old) (hnew : Disj vl new)
    (hnone : ∀ r ∈ new, vl r = [] → new = [r]) :
    ∃ ys, cLeaf (χ := χ) m catalyst old new = .ok ys ∧
      ∀ cs, cs.Perm (ys.map (·.row)) →
        EndsIn (interpC (cDevice m p)) cs (setOf vl old) (setOf vl new) := by
  obtain ⟨ys, h1, h2⟩ := cisco_core (χ := χ) m catalyst p old new vl hp0 hp hparse hold hnew hnone
  exact ⟨ys, h1, fun cs hc => (h2 cs hc).1⟩

theorem C11_cisco_never_removes_common {χ : Type} (m : CMode) (catalyst : Bool) (p : CRow)
    (old new : List CRow) (vl : CRow → List Nat)
    (hp0 : p ≠ []) (hp : p.head? ≠ some (.w "no"))
    (hparse : ∀ r, r ∈ old ∨ r ∈ new → cParseVlancfg r = .ok (p, vl r))
    (hold : Disj vl old) (hnew : Disj vl new)
    (hnone : ∀ r ∈ new, vl r = [] → new = [r]) :
    ∃ ys, cLeaf (χ := χ) m catalyst old new = .ok ys ∧
      ∀ cs, cs.Perm (ys.map (·.row)) →
        KeepsCommon (interpC (cDevice m p)) cs (setOf vl old) (setOf vl new) := by
  obtain ⟨ys, h1, h2⟩ := cisco_core (χ := χ) m catalyst p old new vl hp0 hp hparse hold hnew hnone
  exact ⟨ys, h1, fun cs hc => (h2 cs hc).2⟩

/-! ## `vlan pool`: one list, several keys -/

/-- The shipped rule `vlan * %logic=huawei.vlandb.multi` (under `vlan pool *`) keys the lines of a
pool by their **first id**, so `vlan 2 to 5` → `vlan 3 to 5` is processed as two independent
lists: key `2` loses its line (`undo vlan 2 to 5`), key `3` gains one (`vlan 3 to 5`).  Executed on
the one VLAN set the pool has, VLANs 3-5 (in both sets) disappear in between (recorded finding
`huawei:pool:list-keyed-by-first-id:common-vlan-removed-transiently`). -/
theorem C11_pool_keyed_by_first_id_false :
    ∃ ys2 ys3,
      hLeaf .multi [.w "undo", .w "vlan", .n 2] [[.w "vlan", .n 2, .to, .n 5]] [] = .ok ys2 ∧
      hLeaf .multi [.w "undo", .w "vlan", .n 3] [] [[.w "vlan", .n 3, .to, .n 5]] = .ok ys3 ∧
      EndsIn (interpH (hDevice .multi [.w "vlan"] [])) ((ys2 ++ ys3).map (·.row)) [2, 3, 4, 5] [3, 4, 5] ∧
      ¬ KeepsCommon (interpH (hDevice .multi [.w "vlan"] [])) ((ys2 ++ ys3).map (·.row)) [2, 3, 4, 5] [3, 4, 5] := by
  refine ⟨_, _, rfl, rfl, ⟨[3, 4, 5], rfl, fun v => Iff.rfl⟩, ?_⟩
  rintro ⟨T, ht, hk⟩
  have htr : traceDev (interpH (hDevice .multi [.w "vlan"] []))
      ([[HTok.w "undo", .w "vlan", .n 2, .to, .n 5], [.w "vlan", .n 3, .to, .n 5]]) [2, 3, 4, 5]
      = some [[2, 3, 4, 5], [], [3, 4, 5]] := rfl
  have ht' : some [[2, 3, 4, 5], [], [3, 4, 5]] = some T := htr.symm.trans ht
  cases ht'
  exact absurd (hk [] (by simp) 3 (by decide) (by decide)) (by simp)

/-! ## `vlan_diff` -/

/-- `vlan_diff` never touches `vlan batch …` rows: they reach `_process_vlandb` exactly as
`default_diff` produced them (same rows, same ops, same order), so the theorems above apply to the
batch list through this diff logic. -/
theorem C11_vlan_diff_keeps_batch_rows (newRows : List HRow) (items out : List DItem)
    (h : hVlanDiff newRows items = .ok out) :
    out.filter isBatchRow = items.filter isBatchRow := by
  simp only [hVlanDiff] at h
  cases hb : batchNew newRows with
  | error e => rw [hb] at h; cases h
  | ok batch => rw [hb] at h; exact vlanDiff_keeps_batch batch items out h

/-- … and a `vlan N` block that disappears while `N` stays in the new `vlan batch` is never passed
on as REMOVED (no `undo vlan N` for a VLAN that remains declared). -/
theorem C11_vlan_diff_never_removes_batched_vlan (newRows : List HRow) (items out : List DItem) (batch : List Nat)
    (hb : batchNew newRows = .ok batch) (h : hVlanDiff newRows items = .ok out) :
    ∀ it ∈ out, it.op = .removed → pfxOf it.row = some [.w "vlan"] →
      ∀ v, v ∈ idsOf it.row → v ∉ batch := by
  simp only [hVlanDiff, hb] at h
  exact vlanDiff_protects batch items out h

/-! ## non-vacuity -/

def exP : HRow := [.w "port", .w "trunk", .w "allow-pass", .w "vlan"]
def exOld : List HRow := [exP ++ [.n 2, .to, .n 5, .n 10], exP ++ [.n 20, .to, .n 30]]
def exNew : List HRow := [exP ++ [.n 2, .to, .n 4, .n 10, .n 12], exP ++ [.n 20, .to, .n 25, .n 31]]

/-- the rows parse with the common prefix, and the model emits the two commands the real code emits -/
example : hParseVlancfg (exP ++ [.n 2, .to, .n 5, .n 10]) = .ok (exP, [2, 3, 4, 5, 10]) := rfl
example : hLeaf .multiAll (.w "undo" :: exP) exOld exNew
    = .ok [⟨false, .w "undo" :: (exP ++ [.n 5, .n 26, .to, .n 30]), none⟩, ⟨true, exP ++ [.n 12, .n 31], none⟩] := rfl
/-- one removed line of two, nothing added: no `undo … all` any more (the repaired defect) -/
example : hLeaf .multiAll (.w "undo" :: exP) exOld [exP ++ [.n 2, .to, .n 5, .n 10]]
    = .ok [⟨false, .w "undo" :: (exP ++ [.n 20, .to, .n 30]), none⟩] := rfl
example : hLeaf .multiAll (.w "undo" :: exP) exOld [] = .ok [⟨false, .w "undo" :: (exP ++ [.w "all"]), none⟩] := rfl
/-- the device really executes them -/
example : runDev (interpH (hDevice .multiAll exP (.w "undo" :: exP)))
    [.w "undo" :: (exP ++ [.n 5, .n 26, .to, .n 30]), exP ++ [.n 12, .n 31]] (setOf idsOf exOld)
    = some ([2, 3, 4, 10] ++ [20, 21, 22, 23, 24, 25] ++ [12, 31]) := rfl
/-- the hypotheses of the Huawei theorems hold for these lines … -/
theorem ex_hyps : (∀ r, r ∈ exOld ∨ r ∈ exNew → hParseVlancfg r = .ok (exP, idsOf r)) ∧
    Disj idsOf exOld ∧ Disj idsOf exNew := by
  refine ⟨?_, by unfold Disj; decide, by unfold Disj; decide⟩
  intro r hr
  simp only [exOld, exNew, List.mem_cons, List.not_mem_nil, or_false] at hr
  rcases hr with (rfl | rfl) | (rfl | rfl) <;> rfl
/-- … so the theorem applies to them -/
example : ∃ ys, hLeaf .multiAll (.w "undo" :: exP) exOld exNew = .ok ys ∧
    ∀ cs, cs.Perm (ys.map (·.row)) →
      EndsIn (interpH (hDevice .multiAll exP (.w "undo" :: exP))) cs (setOf idsOf exOld) (setOf idsOf exNew) :=
  C11_huawei_multi_exact .multiAll (by decide) exP (.w "undo" :: exP) exOld exNew idsOf (by decide)
    ex_hyps.1 ex_hyps.2.1 ex_hyps.2.2 (fun _ => rfl)
/-- an unknown command is refused by the device model -/
example : runDev (interpH (hDevice .multiAll exP (.w "undo" :: exP))) [[.w "shutdown"]] [1] = none := rfl
/-- collapse / expand on a concrete set, both `tiny_ranges` -/
example : collapse true [5, 2, 3, 4, 10, 11, 13] = .ok [(2, 5), (10, 11), (13, 13)] := rfl
example : collapse false [2, 3, 5, 10, 11, 12] = .ok [(2, 2), (3, 3), (5, 5), (10, 12)] := rfl
example : huaweiExpand [.n 2, .to, .n 5, .n 10] = .ok [2, 3, 4, 5, 10] := rfl
example : huaweiExpand [.n 3, .to] = .error .index := rfl
example : ciscoExpand [[2, 5], [10]] = .ok [2, 3, 4, 5, 10] := rfl
/-- Cisco: `none`, `remove`/`add`, Catalyst flag passed as `tiny_ranges` -/
def exC : CRow := [.w "switchport", .w "trunk", .w "allowed", .w "vlan"]
example : cLeaf (χ := Unit) .swtrunk false [exC ++ [.spec [[2, 5], [10]]], exC ++ [.w "add", .spec [[20, 30]]]]
      [exC ++ [.spec [[2, 4], [10], [12]]], exC ++ [.w "add", .spec [[20, 25], [31]]]]
    = .ok [⟨false, [.w "no"] ++ exC ++ [.w "remove", .spec [[5], [26, 30]]], none⟩,
           ⟨true, exC ++ [.w "add", .spec [[12], [31]]], none⟩] := rfl
example : cLeaf (χ := Unit) .swtrunk false [exC ++ [.spec [[2, 5]]]] [exC ++ [.w "none"]]
    = .ok [⟨true, exC ++ [.w "none"], none⟩] := rfl
def exCOld : List CRow := [exC ++ [.spec [[2, 5], [10]]], exC ++ [.w "add", .spec [[20, 30]]]]
def exCNew : List CRow := [exC ++ [.w "none"]]
example : ∃ ys, cLeaf (χ := Unit) .swtrunk true exCOld exCNew = .ok ys ∧
    ∀ cs, cs.Perm (ys.map (·.row)) →
      EndsIn (interpC (cDevice .swtrunk exC)) cs (setOf idsOfC exCOld) (setOf idsOfC exCNew) :=
  C11_cisco_exact .swtrunk true exC exCOld exCNew idsOfC (by decide) (by decide)
    (by
      intro r hr
      simp only [exCOld, exCNew, List.mem_cons, List.not_mem_nil, or_false] at hr
      rcases hr with (rfl | rfl) | rfl <;> rfl)
    (by unfold Disj; decide) (by unfold Disj; decide)
    (by
      intro r hr _
      simp only [exCNew, List.mem_cons, List.not_mem_nil, or_false] at hr
      subst hr; rfl)
example : (interpC (cDevice .swtrunk exC) ([.w "no"] ++ exC ++ [.w "remove", .spec [[5], [26, 30]]]))
    = some (.rem [5, 26, 27, 28, 29, 30]) := rfl

end Annet.Vlan
