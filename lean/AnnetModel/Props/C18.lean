/-
C18 — Every known hardware model resolves to one vendor and a loadable rulebook.

Property theorems only; helper lemmas live in `Lemmas/Hw.lean`, the model in `Model/Hw.lean`, the tables
(`devdb`, `vendors`, `hwRefs`, `logicUsed`, `logicImportable`, `vendorRulExists`) in `Gen/DevDb.lean`, which is
regenerated from the annet working tree before every build.

Theorems whose name ends in `_anydb…` / `_partial` / `_false` follow BUILDING.md rule 3: the statement for
*every* database / *every* registry is false, the witness is proved, and the version with the needed
hypothesis is kept; the hypothesis is then discharged for the shipped tables by kernel evaluation.
-/
import AnnetModel.Lemmas.Hw
import AnnetModel.Gen.DevDb

/-! OBLIGATIONS
Annet.Hw.C18_devdb_wellformed
Annet.Hw.C18_devdb_loads
Annet.Hw.C18_hierarchical
Annet.Hw.C18_hierarchical_anydb_partial
Annet.Hw.C18_hierarchical_anydb_false
Annet.Hw.C18_no_attribute_error
Annet.Hw.C18_logic_resolves
Annet.Hw.C18_rul_exists
Annet.Hw.C18_most_specific
Annet.Hw.C18_match_order_independent_partial
Annet.Hw.C18_match_order_independent_false
Annet.Hw.C18_vendors_evaluable
Annet.Hw.C18_unique_best
Annet.Hw.C18_vendor_order_independent
Annet.Hw.C18_deterministic_partial
Annet.Hw.C18_deterministic_false
Annet.Hw.C18_templates_ignore_soft
Annet.Hw.C18_escape_protects
-/

namespace Annet.Hw
open Lemmas Annet.Gen.DevDb

set_option maxRecDepth 100000

/-! ### the device database -/

/-- Table check (kernel evaluation over the regenerated `devdb`): `_build_tree` raises no `KeyError` (every
prefix of every sequence is itself an entry), no two sibling entries carry the same regexp (so no two
sequences share a tree node), and the database is not empty. -/
theorem C18_devdb_wellformed :
    (buildTree devdb (allowed devdb)).isSome = true ∧ sibDistinctB devdb = true ∧ devdb ≠ [] := by
  decide +kernel

/-- `parse_hw_model` succeeds for every model string (every outcome `m` of the regexp searches). -/
theorem C18_devdb_loads (m : Nat → Bool) : ∃ h, parseHw devdb m = .ok h :=
  parseHw_total C18_devdb_wellformed.1 C18_devdb_wellformed.2.2 m

/-- **Hierarchy.**  For every model string — every truth assignment `m` of the 168 regexps, not only the
synthesised ones — if `hw.A.….Y.Z` is true then every `hw.A.….Y` is true (and raises nothing). -/
theorem C18_hierarchical (m : Nat → Bool) (h : HwSets Nat) (hp : parseHw devdb m = .ok h)
    (p q : List Nat) (hm : hwMatchPath h p = some true) (hq : q <+: p) (hne : q ≠ []) :
    hwMatchPath h q = some true :=
  hierarchy_attr (injPaths_of_sibDistinct C18_devdb_wellformed.2.1) hp hm hq hne

/-- The same for an arbitrary database (any component and regexp types), provided no two entries with the
same parent have the same regexp. -/
theorem C18_hierarchical_anydb_partial {α ρ : Type} [DecidableEq α] [DecidableEq ρ]
    (P : List (List α × ρ)) (hd : sibDistinctB P = true) (m : ρ → Bool) (h : HwSets α)
    (hp : parseHw P m = .ok h) (p q : List α) (hm : hwMatchPath h p = some true) (hq : q <+: p)
    (hne : q ≠ []) : hwMatchPath h q = some true :=
  hierarchy_attr (injPaths_of_sibDistinct hd) hp hm hq hne

/-- Without that proviso the hierarchy fails: `_build_tree` keys each level by regexp, so with
`{"A": "x", "B": "x", "B.C": "y"}` the entry `B` never gets a node of its own; on a model string matching
`x` and `y`, `hw.B.C` is true while `hw.B` is false. -/
theorem C18_hierarchical_anydb_false :
    ¬ ∀ (P : List (List Nat × Nat)) (m : Nat → Bool) (h : HwSets Nat), parseHw P m = .ok h →
      ∀ p q, hwMatchPath h p = some true → q <+: p → q ≠ [] → hwMatchPath h q = some true := by
  intro hall
  have := hall [([0], 0), ([1], 0), ([1, 2], 1)] (fun _ => true) _ rfl [1, 2] [1] (by decide)
    (by decide) (by decide)
  exact absurd this (by decide)

/-- **No `AttributeError`.**  Every `hw.<path>` written in a rule template or in annet's python sources can be
evaluated on the hardware view of every model string. -/
theorem C18_no_attribute_error (m : Nat → Bool) (h : HwSets Nat) (hp : parseHw devdb m = .ok h) :
    ∀ r ∈ hwRefs, hwMatchPath h r ≠ none := by
  have table : hwRefs.all (knownPathFastB devdb) = true := by decide +kernel
  rw [show knownPathFastB devdb = knownPathB devdb from funext (knownPathFastB_eq devdb)] at table
  intro r hr
  have hk := List.all_eq_true.mp table r hr
  simp only [knownPathB, Bool.and_eq_true, List.all_eq_true, beq_iff_eq] at hk
  exact (no_attribute_error hp r).mpr hk.2

/-! ### rule files -/

/-- Every logic function named by a rule file (in any Mako branch), by the built-in defaults or by a vendor's
`diff()` is one `import_rulebook_function` can import. -/
theorem C18_logic_resolves : ∀ n ∈ logicUsed, n ∈ logicImportable := by
  have table : logicUsed.all (fun n => logicImportable.contains n) = true := by decide +kernel
  intro n hn
  simpa using List.all_eq_true.mp table n hn

/-- Every registered vendor has its patching rule file (`get_rulebook` cannot raise `FileNotFoundError`). -/
theorem C18_rul_exists : ∀ v ∈ vendorRulExists, v.2 = true := by
  have table : vendorRulExists.all (·.2) = true := by decide +kernel
  intro v hv
  exact List.all_eq_true.mp table v hv

/-! ### the vendor registry -/

/-- **Most specific.**  Whatever `Registry.match` returns owns a `match()` expression that holds of the
hardware and has the largest dot count among all expressions of all vendors that hold. -/
theorem C18_most_specific {α ν : Type} [DecidableEq α] (h : HwSets α)
    (vs : List (ν × List (List α × Nat))) (v : ν) (hm : registryMatch h vs = some (some v)) :
    ∃ items p d, (v, items) ∈ vs ∧ (p, d) ∈ items ∧ hwMatchPath h p = some true ∧
      ∀ v' items' p' d', (v', items') ∈ vs → (p', d') ∈ items' → hwMatchPath h p' = some true → d' ≤ d := by
  obtain ⟨ms, d, hml, hmem, hmax⟩ := registryMatch_most_specific h hm
  obtain ⟨items, p, hv, hi, ht⟩ := (mem_matchedList hml).mp hmem
  refine ⟨items, p, d, hv, hi, ht, fun v' items' p' d' hv' hi' ht' => ?_⟩
  exact hmax (v', d') ((mem_matchedList hml).mpr ⟨items', p', hv', hi', ht'⟩)

/-- **Order independence**, for every hardware view and every registry: if the largest dot count among the
matched expressions is reached by one vendor only, every order of registration gives the same result. -/
theorem C18_match_order_independent_partial {α ν : Type} [DecidableEq α] (h : HwSets α)
    (vs vs' : List (ν × List (List α × Nat))) (hp : vs.Perm vs')
    (hu : ∀ ms, matchedList h vs = some ms → UniqueBest ms) :
    registryMatch h vs' = registryMatch h vs :=
  registryMatch_perm h hp hu

/-- Without a unique best the registration order decides (this was the `OptiXtrans` defect: `"OptiXtrans"`
and `"Huawei"` both have no dot). -/
theorem C18_match_order_independent_false :
    ¬ ∀ (h : HwSets Nat) (vs vs' : List (Nat × List (List Nat × Nat))), vs.Perm vs' →
      registryMatch h vs' = registryMatch h vs := by
  intro hall
  have := hall ⟨[[0], [1]], []⟩ [(7, [([0], 0)]), (8, [([1], 0)])] [(8, [([1], 0)]), (7, [([0], 0)])]
    (List.Perm.swap _ _ _)
  exact absurd this (by decide)

/-- Table check: every `match()` expression of every registered vendor, and every prefix of it, is a known
sequence. -/
theorem vendors_known : vendorsKnownB devdb vendors = true := by
  have table : vendorsKnownFastB devdb vendors = true := by decide +kernel
  rwa [vendorsKnownFastB_eq] at table

/-- Table check + lemma: no `match()` expression of a registered vendor can raise `AttributeError`, for any
model string; `Registry.match` therefore always returns. -/
theorem C18_vendors_evaluable (m : Nat → Bool) (h : HwSets Nat) (hp : parseHw devdb m = .ok h) :
    ∃ ms, matchedList h vendors = some ms := by
  have table := vendors_known
  unfold matchedList
  rw [matchedItems_eq]
  have hno : ¬ ∃ it ∈ vendorItems vendors, hwMatchPath h it.2.1 = none := by
    rintro ⟨it, hi, hn⟩
    have hk := List.all_eq_true.mp table it hi
    simp only [knownPathB, Bool.and_eq_true, List.all_eq_true, beq_iff_eq] at hk
    exact (no_attribute_error hp it.2.1).mpr hk.2 hn
  simp [hno]

/-- Table check: on the chain of every one of the devdb sequences some vendor matches, and the best dot count
is reached by one vendor only.  (With `OptixTransVendor.match() == ["OptiXtrans"]` this does not build.) -/
theorem C18_unique_best :
    ∀ e ∈ devdb, uniqueBestB (chainMatched vendors e.1) = true ∧ chainMatched vendors e.1 ≠ [] := by
  have table : devdb.all (fun e => uniqueBestB (chainMatched vendors e.1) &&
      !(chainMatched vendors e.1).isEmpty) = true := by decide +kernel
  intro e he
  have := List.all_eq_true.mp table e he
  simp only [Bool.and_eq_true, Bool.not_eq_true', List.isEmpty_eq_false_iff] at this
  exact this

/-- **One vendor, whatever the registration order.**  For every devdb sequence and every hardware view on
which exactly the nodes of its regexp chain are reached: `Registry.match` returns a registered vendor, and
returns the same one for every permutation of the registration order. -/
theorem C18_vendor_order_independent (e : List Nat × Nat) (he : e ∈ devdb) (h : HwSets Nat)
    (hc : ChainTrue devdb e.1 h) :
    (∃ v, registryMatch h vendors = some (some v) ∧ ∃ items, (v, items) ∈ vendors) ∧
    ∀ vs', vendors.Perm vs' → registryMatch h vs' = registryMatch h vendors := by
  have table := vendors_known
  have hml := matchedList_chain hc table
  obtain ⟨hub, hne⟩ := C18_unique_best e he
  constructor
  · unfold registryMatch
    rw [hml]
    cases hh : (sortDesc (chainMatched vendors e.1)).head? with
    | none => exact absurd (sortDesc_head_none.mp hh) hne
    | some a =>
      refine ⟨a.1, by simp [hh], ?_⟩
      obtain ⟨ha, _⟩ := sortDesc_head hh
      obtain ⟨items, _, hv, _, _⟩ := (mem_matchedList (v := a.1) (d := a.2) hml).mp ha
      exact ⟨items, hv⟩
  · intro vs' hp
    refine registryMatch_perm h hp (fun ms hms => ?_)
    rw [hml] at hms
    simp only [Option.some.injEq] at hms
    subst hms
    exact uniqueBest_of_B hub

/-! ### the rulebook provider -/

/-- **Loading is deterministic.**  Whatever `get_rulebook` calls a provider has served before (any history,
any software versions), its answer for a model is the answer of a fresh provider, which is the cache-free
function `Spec.pureGet` of the model alone — provided Mako output does not depend on `hw.soft`
(`_rulebook_cache` and `_render_rul_cache` are keyed by `hw`, whose `__eq__` compares `hw.model` only). -/
theorem C18_deterministic_partial {μ σ ν κ τ β : Type} [DecidableEq μ] [DecidableEq κ]
    (E : Env μ σ ν κ τ β) (hs : SoftIndependent E) (hist : List (μ × σ)) (m : μ) (s s' : σ) :
    (getRulebook E (runHistory E Provider.fresh hist) m s).2 = (getRulebook E Provider.fresh m s').2 ∧
    (getRulebook E Provider.fresh m s').2 = Spec.pureGet E m s' := by
  have h1 := (getRulebook_spec hs (runHistory_coherent hs hist _ (coherent_fresh E)) m s).1
  have h2 := (getRulebook_spec hs (coherent_fresh E) m s').1
  exact ⟨by rw [h1, h2, pureGet_soft hs m s s'], h2⟩

/-- Without that proviso it is false: with a template that reads `hw.soft`, a provider that has served the
model under one software version keeps answering with that rulebook. -/
theorem C18_deterministic_false :
    ¬ ∀ (E : Env Nat Nat Nat Nat Nat Nat) (hist : List (Nat × Nat)) (m s : Nat),
      (getRulebook E (runHistory E Provider.fresh hist) m s).2.toOption =
      (getRulebook E Provider.fresh m s).2.toOption := by
  intro hall
  have := hall { vendorOf := fun _ => some 0, registered := fun _ => true, alias := id,
                 fileName := fun _ i => i, readEscaped := fun n => if n = 0 then some 0 else none,
                 render := fun _ _ s => some s, compile := fun _ t _ => some t, emptyText := 99 }
    [(0, 1)] 0 2
  exact absurd this (by decide)

/-- Table check: no shipped rule template reads `hw.soft` (the textual counterpart of `SoftIndependent`). -/
theorem C18_templates_ignore_soft : templateSoftRefs = [] := by decide +kernel

/-- **`_escape_mako`, first pass.**  For every rule text: in the escaped text every `%` in column 0 is doubled
or begins one of Mako's control words `if elif else endif for endfor`; no `%logic=…`/`%comment…` line is
handed to Mako as a control line. -/
theorem C18_escape_protects (text : List Char) : PercentSafe true (escapePercent true true text) :=
  escapePercent_safe text true true

/-! ### non-vacuity -/

/-- `%c` at the start of the text and `%logic` in column 0 are escaped, `%if` and an indented `%x` are not;
the comment line goes away with the blank line before it -/
example : dropComments (.pending []) (escapePercent true true
      ['%', 'c', '\n', '%', 'i', 'f', '\n', ' ', '%', 'x', '\n', '\n', ' ', '#', 'k', '\n', '%', 'l'])
    = ['\n', '%', '%', 'c', '\n', '%', 'i', 'f', '\n', ' ', '%', 'x', '\n', '%', '%', 'l'] := by decide


/-- a four-entry database: the true set of a model string matching `Huawei`, ` CE` and ` CE68` -/
example : (parseHw [(["Huawei"], "h"), (["Huawei", "CE"], "ce"), (["Huawei", "CE", "CE6800"], "ce68"),
      (["Huawei", "NE"], "ne")] (fun r => r ≠ "ne")).toOption.map (·.trueS)
    = some [["Huawei"], ["CE"], ["Huawei", "CE"], ["CE6800"], ["Huawei", "CE6800"],
            ["Huawei", "CE", "CE6800"], ["CE", "CE6800"]] := by decide

/-- the same database meets the proviso of `C18_hierarchical_anydb_partial`, and its conclusion is not empty:
`hw.Huawei.CE.CE6800` is true and so are `hw.Huawei.CE` and `hw.Huawei`; `hw.Huawei.NE` is false, `hw.Huawei.XX` raises -/
def exampleDb : List (List String × String) :=
  [(["Huawei"], "h"), (["Huawei", "CE"], "ce"), (["Huawei", "CE", "CE6800"], "ce68"), (["Huawei", "NE"], "ne")]

example : sibDistinctB exampleDb = true := by decide
example : ((parseHw exampleDb (fun r => r ≠ "ne")).toOption.map fun h =>
      [hwMatchPath h ["Huawei", "CE", "CE6800"], hwMatchPath h ["Huawei", "CE"], hwMatchPath h ["Huawei"],
       hwMatchPath h ["Huawei", "NE"], hwMatchPath h ["Huawei", "XX"], hwMatchPath h ["CE6800"]])
    = some [some true, some true, some true, some false, none, some true] := by decide

/-- a unique best: one vendor at one dot, others at none -/
example : UniqueBest [("huawei", 0), ("optixtrans", 1), ("cisco", 0)] :=
  uniqueBest_of_B (by decide)

/-- the hypotheses of `C18_vendor_order_independent` are met: the sets built from the chain are `ChainTrue` -/
example (e : List Nat × Nat) :
    ChainTrue devdb e.1 ⟨(seqSubs e.1).flatMap (allowed devdb),
      (allSequences devdb).filter fun v => decide (v ∉ (seqSubs e.1).flatMap (allowed devdb))⟩ :=
  ⟨fun p => by simp [List.mem_flatMap], fun p => by simp⟩

/-- somewhere in devdb two vendors compete (so `C18_unique_best` is not about singletons only) -/
example : devdb.any (fun e => decide ((chainMatched vendors e.1).length ≥ 2)) = true := by decide +kernel

/-- a small soft-independent environment -/
def exampleEnv : Env Nat Nat Nat Nat Nat Nat :=
  { vendorOf := fun _ => some 0, registered := fun _ => true, alias := id, fileName := fun _ i => i,
    readEscaped := fun n => if n = 0 then some 7 else none, render := fun t m _ => some (t + m),
    compile := fun i t _ => some (10 * i + t), emptyText := 0 }

example : SoftIndependent exampleEnv := fun _ _ _ _ => rfl

/-- the provider really caches: third call, other software version, same answer -/
example : (getRulebook exampleEnv (runHistory exampleEnv Provider.fresh [(1, 5), (2, 6)]) 1 9).2.toOption
    = some (8, 10, 20) := by decide

/-- `Registry.match` prefers the expression with more dots and otherwise the first registered -/
example : registryMatch (ν := String) ⟨[["Huawei"], ["Huawei", "OptiXtrans"]], [["Cisco"]]⟩
    [("huawei", [(["Huawei"], 0)]), ("optixtrans", [(["Huawei", "OptiXtrans"], 1)]), ("cisco", [(["Cisco"], 0)])]
    = some (some "optixtrans") := by decide

/-- an expression that is not a devdb sequence makes `Registry.match` raise -/
example : registryMatch (ν := String) ⟨[["Huawei"]], []⟩ [("x", [(["Nope"], 0)])] = none := by decide

end Annet.Hw
