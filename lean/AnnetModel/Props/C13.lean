/-
C13 — JSON fragments stay inside their pointers and JSON patches reproduce the target.

Property theorems only; helper lemmas live in `Lemmas/Json*.lean`, the reading of
`d|acl` in `Spec/Json.lean`, the model of the code in `Model/Json.lean`.

Naming: `X_false` refutes the full-strength statement `X` with a concrete witness
(replayed on the real code by the harness, see corpus/C13), `X_partial` is the
statement with the hypothesis that makes it true, `X_old_rule_false` refutes `X` for
the resolver rule of before commit 33969c0 (`Spec.childrenOfOld`: a glob pattern
descended into the characters of a string value) on an input on which `X` holds now.
-/
import AnnetModel.Lemmas.JsonFragment
import AnnetModel.Lemmas.JsonFilter

/-! OBLIGATIONS
Annet.Json.C13_fragment_inside_partial
Annet.Json.C13_fragment_outside_partial
Annet.Json.C13_fragment_idempotent_partial
Annet.Json.C13_fragment_inside_false
Annet.Json.C13_fragment_total_false
Annet.Json.C13_fragment_idempotent_false
Annet.Json.C13_fragment_inside_old_rule_false
Annet.Json.C13_fragment_idempotent_old_rule_false
Annet.Json.C13_chain_partial
Annet.Json.C13_resolve_sound_complete
Annet.Json.C13_resolve_old_rule_false
Annet.Json.C13_resolve_escapes_partial
Annet.Json.C13_resolve_escapes_false
Annet.Json.C13_filters_subdocument_partial
Annet.Json.C13_filters_subdocument_false
Annet.Json.C13_filters_subdocument_old_rule_false
Annet.Json.C13_patch_roundtrip
Annet.Json.C13_patch_append
Annet.Json.C13_sorted_patch_false
-/

namespace Annet.Json
open Lemmas

/-! ## fragments -/

/-- `r|acl == f|acl`, full strength: for all documents with unique keys and all
lists of non-root glob pointers the merge succeeds and, wherever a pattern selects,
the result has exactly what the fragment has. -/
def FragmentInside : Prop :=
  ∀ (old f : J) (acl : List String) (ps : List (List String)),
    ParsedAcl acl ps → (∀ p ∈ ps, p ≠ []) → old.wf = true → f.wf = true →
    ∃ r, applyFragment old f acl = .ok r ∧ InsideEq ps r f

/-- The full statement is false of the code: array elements the fragment lacks are
not removed (jsontools.py:41 only pops from dicts). -/
theorem C13_fragment_inside_false : ¬ FragmentInside := by
  intro h
  obtain ⟨r, hr, hin⟩ := h (.obj [("a", .arr [.num 1, .num 2])]) (.obj [("a", .arr [.num 9])]) ["/a/*"]
    [["a", "*"]] ⟨rfl, trivial⟩ (by simp) rfl rfl
  have hr' : applyFragment (.obj [("a", .arr [.num 1, .num 2])]) (.obj [("a", .arr [.num 9])]) ["/a/*"]
      = .ok (.obj [("a", .arr [.num 9, .num 2])]) := by rfl
  rw [hr'] at hr
  cases hr
  have := hin ["a", "*"] (by simp) ["a", "1"] (by decide)
  have h1 : getP ["a", "1"] (.obj [("a", .arr [.num 9, .num 2])]) = some (.num 2) := rfl
  have h2 : getP ["a", "1"] (.obj [("a", .arr [.num 9])]) = none := rfl
  rw [h1, h2] at this
  cases this

/-- …and the merge is not even total: a fragment array longer than the device's
raises `IndexError` (jsonpointer `parent[part] = value`). -/
theorem C13_fragment_total_false :
    ¬ ∀ (old f : J) (acl : List String), old.wf = true → f.wf = true →
        (∀ pat ∈ acl, ∃ p, parsePointer pat = .ok p ∧ p ≠ []) → ∃ r, applyFragment old f acl = .ok r := by
  intro h
  obtain ⟨r, hr⟩ := h (.obj [("a", .arr [])]) (.obj [("a", .arr [.num 1])]) ["/a/*"] rfl rfl
    (by intro pat hp; simp at hp; subst hp; exact ⟨["a", "*"], rfl, by simp⟩)
  have : applyFragment (.obj [("a", .arr [])]) (.obj [("a", .arr [.num 1])]) ["/a/*"] = .error .index := by rfl
  rw [this] at hr
  cases hr

/-- Idempotence at full strength is false as well, for documents that are NOT of one
schema: where the device has an array and the fragment an object with the key `-`, the
selected pointer (last part `-`) means "append" to `jsonpointer` (`parent.append(value)`,
jsonpointer.py:209), so every further merge appends once more.  (The witness recorded
before commit 33969c0 was a string descent: `C13_fragment_idempotent_old_rule_false`.) -/
theorem C13_fragment_idempotent_false :
    ¬ ∀ (old f : J) (acl : List String) (r : J), old.wf = true → f.wf = true →
        (∀ pat ∈ acl, ∃ p, parsePointer pat = .ok p ∧ p ≠ []) →
        applyFragment old f acl = .ok r → applyFragment r f acl = .ok r := by
  intro h
  have := h (.obj [("a", .arr [])]) (.obj [("a", .obj [("-", .num 1)])]) ["/a/-"] (.obj [("a", .arr [.num 1])]) rfl rfl
    (by
      intro pat hp
      simp at hp
      subst hp
      exact ⟨["a", "-"], rfl, by simp⟩)
    (by rfl)
  have h2 : applyFragment (.obj [("a", .arr [.num 1])]) (.obj [("a", .obj [("-", .num 1)])]) ["/a/-"]
      = .ok (.obj [("a", .arr [.num 1, .num 1])]) := by rfl
  rw [h2] at this
  cases this

/-! ### why commit 33969c0 matters: the same laws over the old resolver rule

The two inputs below satisfy the hypotheses of the `_partial` theorems that follow (the
device document is `{}`, the fragment has a string where the pattern continues), so the
laws hold on them now; with the old rule both fail. -/

/-- Old rule: the pattern `/b/0` selected the first character of the fragment's string
`"1"` and the merge wrote the bogus object `{"b": {"0": "1"}}` — the result has a pointer
`/b/0` that the fragment does not have. -/
theorem C13_fragment_inside_old_rule_false :
    ¬ ∀ (old f : J) (acl : List String) (ps : List (List String)),
        ParsedAcl acl ps → (∀ p ∈ ps, p ≠ []) → old.wf = true → f.wf = true →
        SpineObj ps old → SpineNoArr ps f →
        ∃ r, applyFragmentOld old f acl = .ok r ∧ InsideEq ps r f := by
  intro h
  obtain ⟨r, hr, hin⟩ := h (.obj []) (.obj [("b", .str "1")]) ["/b/0"] [["b", "0"]] ⟨rfl, trivial⟩ (by simp) rfl rfl
    (spineObj_of_check _ _ (by decide)) (spineNoArr_of_check _ _ (by decide))
  have hr' : applyFragmentOld (.obj []) (.obj [("b", .str "1")]) ["/b/0"]
      = .ok (.obj [("b", .obj [("0", .str "1")])]) := by rfl
  rw [hr'] at hr
  cases hr
  have := hin ["b", "0"] (by simp) ["b", "0"] (by decide)
  have h1 : getP ["b", "0"] (.obj [("b", .obj [("0", .str "1")])]) = some (.str "1") := rfl
  have h2 : getP ["b", "0"] (.obj [("b", .str "1")]) = none := rfl
  rw [h1, h2] at this
  cases this

/-- Old rule: the first merge happened to succeed, the second raised `TypeError`
(`'str' object does not support item assignment`). -/
theorem C13_fragment_idempotent_old_rule_false :
    ¬ ∀ (old f : J) (acl : List String) (ps : List (List String)),
        ParsedAcl acl ps → (∀ p ∈ ps, p ≠ []) → old.wf = true → f.wf = true →
        SpineObj ps old → SpineNoArr ps f →
        ∃ r, applyFragmentOld old f acl = .ok r ∧ applyFragmentOld r f acl = .ok r := by
  intro h
  obtain ⟨r, hr, hagain⟩ := h (.obj []) (.obj [("k", .str "0")]) ["/k/0", "/k"] [["k", "0"], ["k"]]
    ⟨rfl, rfl, trivial⟩ (by simp) rfl rfl
    (spineObj_of_check _ _ (by decide)) (spineNoArr_of_check _ _ (by decide))
  have hr' : applyFragmentOld (.obj []) (.obj [("k", .str "0")]) ["/k/0", "/k"] = .ok (.obj [("k", .str "0")]) := by rfl
  rw [hr'] at hr
  cases hr
  have h2 : applyFragmentOld (.obj [("k", .str "0")]) (.obj [("k", .str "0")]) ["/k/0", "/k"] = .error .type := by rfl
  rw [h2] at hagain
  cases hagain

/-- Inside law.  Hypotheses: whatever the device document has above a selectable pointer
is an object (`SpineObj`), and the fragment has no array there (`SpineNoArr`: an object
or a scalar — since commit 33969c0 a string where a pattern continues is as harmless as a
number; before, this needed `SpineObj` of the fragment as well).  Then the merge succeeds
and at every pointer covered by a pattern — the selected pointer itself and everything
below it — the result reads exactly as the fragment does; in particular keys the
fragment lacks are gone.  Any number of patterns, nested or overlapping. -/
theorem C13_fragment_inside_partial (old f : J) (acl : List String) (ps : List (List String))
    (hparse : ParsedAcl acl ps) (hne : ∀ p ∈ ps, p ≠ [])
    (hwo : old.wf = true) (hwf : f.wf = true) (hso : SpineObj ps old) (hsf : SpineNoArr ps f) :
    ∃ r, applyFragment old f acl = .ok r ∧ InsideEq ps r f := by
  obtain ⟨r, h1, h2, _, _, _⟩ := fragment_laws old f acl ps hparse hne hwo hwf hso hsf
  exact ⟨r, h1, h2⟩

/-- Outside law: every pointer that leaves all patterns (it is neither covered by a
pattern nor an ancestor of a selectable pointer) reads as in the old document — its
whole subtree, present or absent — and every object of the old document that no
pattern covers (the ancestors of selected pointers included) is still an object. -/
theorem C13_fragment_outside_partial (old f : J) (acl : List String) (ps : List (List String))
    (hparse : ParsedAcl acl ps) (hne : ∀ p ∈ ps, p ≠ [])
    (hwo : old.wf = true) (hwf : f.wf = true) (hso : SpineObj ps old) (hsf : SpineNoArr ps f) :
    ∃ r, applyFragment old f acl = .ok r ∧ OutsideEq ps r old ∧
      (∀ a : Ptr, (∀ p ∈ ps, covers p a = false) → ObjAt a old → ObjAt a r) := by
  obtain ⟨r, h1, _, h3, _, h5⟩ := fragment_laws old f acl ps hparse hne hwo hwf hso hsf
  exact ⟨r, h1, h3, h5⟩

/-- Merging again changes nothing — equality of documents, key order included. -/
theorem C13_fragment_idempotent_partial (old f : J) (acl : List String) (ps : List (List String))
    (hparse : ParsedAcl acl ps) (hne : ∀ p ∈ ps, p ≠ [])
    (hwo : old.wf = true) (hwf : f.wf = true) (hso : SpineObj ps old) (hsf : SpineNoArr ps f) :
    ∃ r, applyFragment old f acl = .ok r ∧ applyFragment r f acl = .ok r := by
  obtain ⟨r, h1, _, _, h4, _⟩ := fragment_laws old f acl ps hparse hne hwo hwf hso hsf
  exact ⟨r, h1, h4⟩

/-- Several generators over one file (`new_json_fragment_files`): if all fragments and
the device document are of one schema with respect to all patterns of all
generators, the chain succeeds, the last generator's region equals its fragment and
nothing outside all regions differs from the device document. -/
theorem C13_chain_partial (old : J) (gens : List (J × List String)) (f : J) (acl : List String)
    (pss : List (List (List String))) (ps : List (List String))
    (hparse : ParsedGens (gens ++ [(f, acl)]) (pss ++ [ps]))
    (hne : ∀ p ∈ (pss ++ [ps]).flatten, p ≠ [])
    (hwo : old.wf = true) (hso : SpineObj (pss ++ [ps]).flatten old)
    (hg : ∀ g ∈ gens ++ [(f, acl)], g.1.wf = true ∧ SpineObj (pss ++ [ps]).flatten g.1) :
    ∃ r, applyChain old (gens ++ [(f, acl)]) = .ok r ∧ InsideEq ps r f ∧
      OutsideEq (pss ++ [ps]).flatten r old :=
  chain_laws old gens f acl pss ps hparse hne hwo hso hg

/-! ## pointer resolution -/

/-- `_resolve_json_pointers(pattern, d)` returns exactly the pointers of `d` selected by
the pattern — full strength since commit 33969c0: EVERY document with unique keys
(objects, arrays by canonical index `str(i)`, nothing below strings and other scalars),
every non-root pattern. -/
theorem C13_resolve_sound_complete (pat : String) (p : List String) (d : J) (q : Ptr)
    (hp : parsePointer pat = .ok p) (hne : p ≠ []) (hw : d.wf = true) :
    ∃ qs, resolve pat d = .ok qs ∧ (q ∈ qs ↔ (matchPtr p q = true ∧ getP q d ≠ none)) :=
  ⟨resolveRec p d, resolve_eq pat p d hp hne, mem_resolveRec p d q hw⟩

/-- The same statement over the old rule is false: `/c/0` resolved to the pointer `/c/0`
in `{"c": "y"}`, which has nothing there (RFC 6901: a string has no children). -/
theorem C13_resolve_old_rule_false :
    ¬ ∀ (pat : String) (p : List String) (d : J) (q : Ptr),
        parsePointer pat = .ok p → p ≠ [] → d.wf = true →
        ∃ qs, resolveOld pat d = .ok qs ∧ (q ∈ qs ↔ (matchPtr p q = true ∧ getP q d ≠ none)) := by
  intro h
  obtain ⟨qs, hq, hiff⟩ := h "/c/0" ["c", "0"] (.obj [("c", .str "y")]) ["c", "0"] rfl (by simp) rfl
  have hq' : resolveOld "/c/0" (.obj [("c", .str "y")]) = .ok [["c", "0"]] := by rfl
  rw [hq'] at hq
  cases hq
  have := (hiff.1 (by simp)).2
  exact this rfl

/-- The pointer rebuilt from matched keys denotes those keys, whatever characters
(`/`, `~`, …) they contain — true since commit 18103e9 (`jsonpointer.escape`). -/
theorem C13_resolve_escapes_partial (mp : Ptr) (h : mp ≠ []) : rebuild mp = .ok mp :=
  rebuild_eq mp h

/-- …except for the empty list of parts (the root pointer `""`): the text `"/"` is
built, which denotes the key `""` and not the document. -/
theorem C13_resolve_escapes_false : ¬ ∀ mp : Ptr, rebuild mp = .ok mp := by
  intro h
  have := h []
  rw [rebuild_nil] at this
  cases this

/-! ## filters -/

/-- Full strength: whatever the filters, the result is a sub-document (objects with a
subset of the keys, everything else copied unchanged).  False of the code: a selected
array element is rendered as an object keyed by its index.  (The harness tolerates
exactly this rendering; the witness recorded before commit 33969c0 was a string descent:
`C13_filters_subdocument_old_rule_false`.) -/
theorem C13_filters_subdocument_false :
    ¬ ∀ (d : J) (F : List String) (r : J), d.wf = true → applyAclFilters d F = .ok r → isSub r d = true := by
  intro h
  have := h (.obj [("a", .arr [.str "x"])]) ["/a/0"] (.obj [("a", .obj [("0", .str "x")])]) rfl (by rfl)
  revert this
  decide

/-- Old rule: a filter continuing below a string value returned an object keyed by
character positions, on a document that meets the hypotheses of
`C13_filters_subdocument_partial`. -/
theorem C13_filters_subdocument_old_rule_false :
    ¬ ∀ (d : J) (F : List String) (ps : List (List String)),
        (∀ t ∈ F, pyStrip t = "" ∨ ∃ p ∈ ps, p ≠ [] ∧ parsePointer (pyStrip t) = .ok p) →
        d.wf = true → SpineNoArr ps d → d.isObj = true →
        ∃ r, applyAclFiltersOld d F = .ok r ∧ isSub r d = true := by
  intro h
  obtain ⟨r, hr, hsub⟩ := h (.obj [("c", .str "y")]) ["/c/0"] [["c", "0"]]
    (by
      intro t ht
      simp at ht
      subst ht
      exact Or.inr ⟨["c", "0"], by simp, by simp, by rfl⟩)
    rfl (spineNoArr_of_check _ _ (by decide)) rfl
  have hr' : applyAclFiltersOld (.obj [("c", .str "y")]) ["/c/0"] = .ok (.obj [("c", .obj [("0", .str "y")])]) := by rfl
  rw [hr'] at hr
  cases hr
  revert hsub
  decide

/-- For a document without an array above a selectable pointer (objects and scalars —
strings included since commit 33969c0), `apply_acl_filters` succeeds and returns a
sub-document: objects with a subset of the keys, everything else copied unchanged. -/
theorem C13_filters_subdocument_partial (d : J) (F : List String) (ps : List (List String))
    (hF : ∀ t ∈ F, pyStrip t = "" ∨ ∃ p ∈ ps, p ≠ [] ∧ parsePointer (pyStrip t) = .ok p)
    (hw : d.wf = true) (hs : SpineNoArr ps d) (hobj : d.isObj = true) :
    ∃ r, applyAclFilters d F = .ok r ∧ isSub r d = true :=
  filters_sub d F ps hF hw hs hobj

/-! ## patches -/

/-- `apply_patch(old, make_patch(old, new)) == new`, for every diff library that is
correct.  Since commit 18103e9 `make_patch` hands the library's operations through
unchanged, so this is exactly the library's contract (`LibCorrect`), which the
harness checks on every generated pair. -/
theorem C13_patch_roundtrip (lib : J → J → List Op) (h : LibCorrect lib) (old new : J) :
    applyPatch old (makePatch lib old new) = .ok new := h old new

/-- RFC 6902 patches compose: applying `p ++ q` is applying `p`, then `q` (this is what
makes the order of operations matter, and what the upload of a patch relies on). -/
theorem C13_patch_append (d : J) (p q : List Op) (hq : q.forM validOp = .ok ()) :
    applyPatch d (p ++ q) = (applyPatch d p).bind (fun d1 => applyPatch d1 q) :=
  patch_append d p q hq

/-- Why the order must be kept (the defect repaired by 18103e9): sorting a correct
patch by path breaks it. -/
theorem C13_sorted_patch_false :
    ¬ ∀ (old new : J) (ops : List Op), applyPatch old ops = .ok new → applyPatch old (sortByPath ops) = .ok new := by
  intro h
  have := h (.obj [("a", .arr [.num 1, .num 2, .num 3])]) (.obj [("a", .arr [.num 1])])
    [{ op := "remove", path := "/a/2" }, { op := "remove", path := "/a/1" }] (by rfl)
  have h2 : applyPatch (.obj [("a", .arr [.num 1, .num 2, .num 3])])
      (sortByPath [{ op := "remove", path := "/a/2" }, { op := "remove", path := "/a/1" }]) = .error .conflict := by rfl
  rw [h2] at this
  cases this

/-! ## non-vacuity -/

/-- A SONiC-like instance (keys containing `|`, `/`, `~`; arrays as values; two nested patterns,
one of them a glob) meets every hypothesis of the fragment theorems … -/
def exOld : J := .obj [("ACL", .obj [("T|a/b", .obj [("P", .str "1"), ("X", .arr [.num 1])]), ("keep~", .str "k")]),
                       ("BGP", .obj [("asn", .num 1)])]
def exF : J := .obj [("ACL", .obj [("T|a/b", .obj [("P", .str "2")]), ("T|c", .obj [("P", .str "3")])])]
def exAcl : List String := ["/ACL/T|*", "/ACL/T|a~1b/P"]
def exPs : List (List String) := [["ACL", "T|*"], ["ACL", "T|a/b", "P"]]

example : ParsedAcl exAcl exPs := ⟨rfl, rfl, trivial⟩
example : ∀ p ∈ exPs, p ≠ [] := by decide
example : exOld.wf = true ∧ exF.wf = true := by decide
example : SpineObj exPs exOld := spineObj_of_check exPs exOld (by decide)
example : SpineNoArr exPs exF := spineNoArr_of_check exPs exF (by decide)

/-- the regression input of commit 33969c0 (corpus/C13/frag.string-below-pattern.json) meets the
hypotheses as well — the fragment has a string where `/b/0` continues — and nothing is selected -/
example : SpineObj [["b", "0"]] (.obj []) ∧ SpineNoArr [["b", "0"]] (.obj [("b", .str "1")]) :=
  ⟨spineObj_of_check _ _ (by decide), spineNoArr_of_check _ _ (by decide)⟩
example : ¬ SpineObj [["b", "0"]] (.obj [("b", .str "1")]) := by
  intro h
  have := h ["b", "0"] (by simp) ["b"] (by simp) (by decide) (.str "1") rfl
  cases this
example : applyFragment (.obj []) (.obj [("b", .str "1")]) ["/b/0"] = .ok (.obj []) := by rfl
example : applyAclFilters (.obj [("c", .str "xy")]) ["/c/0"] = .ok (.obj []) := by rfl
example : resolve "/c/*" (.obj [("c", .str "xy")]) = .ok [] ∧
    resolve "/c/*" (.obj [("c", .arr [.str "x", .str "y"])]) = .ok [["c", "0"], ["c", "1"]] := ⟨by rfl, by rfl⟩

/-- … and the merge replaces `T|a/b` by the fragment's (dropping `X`), adds `T|c`, keeps `keep~` and `BGP`. -/
example : applyFragment exOld exF exAcl =
    .ok (.obj [("ACL", .obj [("T|a/b", .obj [("P", .str "2")]), ("keep~", .str "k"), ("T|c", .obj [("P", .str "3")])]),
               ("BGP", .obj [("asn", .num 1)])]) := by rfl

/-- a pointer outside both patterns, one inside the first -/
example : (exPs.all fun p => outsideOf p ["BGP", "asn"]) = true := by decide
example : covers ["ACL", "T|*"] ["ACL", "T|a/b", "X", "0"] = true := by decide

/-- filters: hypotheses met, result is a proper sub-document -/
example : applyAclFilters exOld [" /ACL/T|*/P ", "", "/BGP"] =
    .ok (.obj [("ACL", .obj [("T|a/b", .obj [("P", .str "1")])]), ("BGP", .obj [("asn", .num 1)])]) := by rfl
example : SpineNoArr [["ACL", "T|*", "P"], ["BGP"]] exOld := spineNoArr_of_check _ exOld (by decide)
example : pyStrip " /ACL/T|*/P " = "/ACL/T|*/P" ∧ pyStrip "" = "" := by decide

/-- chain of two generators -/
example : ParsedGens [(exF, ["/ACL/T|c"]), (exF, exAcl)] [[["ACL", "T|c"]], exPs] := ⟨⟨rfl, trivial⟩, ⟨rfl, rfl, trivial⟩, trivial⟩

/-- `LibCorrect` is satisfiable: replacing the whole document is a correct (if useless) diff -/
example : LibCorrect (fun _ b => [{ op := "replace", path := "", value := some b }]) := by
  intro a b
  rfl

/-- escaping: the key `a/b~` round-trips through the pointer text `/a~1b~0` -/
example : path ["a/b~"] = "/a~1b~0" ∧ parsePointer "/a~1b~0" = .ok ["a/b~"] := ⟨by decide, by rfl⟩

end Annet.Json
