/-
C14 — running a shipped PARTIAL generator under its own ACL:
`annet.generators._run_partial_generator(gen, GeneratorPartialRunArgs(device, use_acl=True))`
(annet/generators/__init__.py:160-249) for the five routing-policy generators on Huawei and Arista:

  output = gen(device)                      PartialGenerator.__call__  (generators/partial.py:205-232)
  config = parse_to_tree(output, fmtr.split)   HuaweiFormatter.split / AristaFormatter.split (tabparser.py:191-195,
                                               237-243, 363-364) then the offside parser (Model/Offside.lean)
  config = apply_acl(config, compile_acl_text(gen.acl(device)), fatal_acl=True)      (Model/Acl.lean)

The ACL texts `acl_<vendor>` (policy.py:83-87, 414-418; prefix_lists.py:23-27, 69-75; community.py:118-124, 172-176;
aspath.py:39-42, 49-52; rd.py:31-34) are given as the rule trees `syntax.parse_text` makes of them; the harness
re-extracts them from the real methods on every run and compares.

Core Lean only.
-/
import AnnetModel.Model.Rpl
import AnnetModel.Model.Acl

namespace Annet.Rpl
open Annet Annet.Acl Annet.Offside

inductive Vend where
  | huawei | arista
  deriving Repr, DecidableEq, Inhabited

inductive GenKind where
  | policy | prefix | community | aspath | rd
  deriving Repr, DecidableEq, Inhabited

def aclVendor : Vend → Acl.Vendor
  | .huawei => { reverse := "undo" }
  | .arista => { reverse := "no" }

/-- a rule line without parameters -/
def plainRule (row : String) (children : List RawRule := []) : RawRule :=
  .mk row false false [false] 0 [] children

/-- `~ %global=1` -/
def globalTilde : RawRule := .mk "~" false true [false] 0 [] []

/-- `acl_<vendor>` of each generator; `none` = the generator has no `run_<vendor>` (not supported) -/
def genAcl : Vend → GenKind → Option (List RawRule)
  | .huawei, .policy => some [plainRule "route-policy *" [globalTilde]]
  | .huawei, .prefix => some [plainRule "ip ip-prefix", plainRule "ip ipv6-prefix"]
  | .huawei, .community => some [plainRule "ip community-filter", plainRule "ip extcommunity-filter",
                                 plainRule "ip extcommunity-list", plainRule "ip large-community-filter"]
  | .huawei, .aspath => some [plainRule "ip as-path-filter"]
  | .huawei, .rd => some [plainRule "ip rd-filter"]
  | .arista, .policy => some [plainRule "route-map" [globalTilde]]
  | .arista, .prefix => some [plainRule "ip prefix-list" [plainRule "seq"], plainRule "ipv6 prefix-list" [plainRule "seq"]]
  | .arista, .community => some [plainRule "ip community-list", plainRule "ip extcommunity-list",
                                 plainRule "ip large-community-list"]
  | .arista, .aspath => some [plainRule "ip as-path access-list"]
  | .arista, .rd => none

/-- `gen.run(device)` -/
def runGen (inp : Input) : Vend → GenKind → Out Line
  | .huawei, .policy => runPolicyH inp
  | .huawei, .prefix => runPrefixH inp
  | .huawei, .community => runCommunityH inp
  | .huawei, .aspath => runAsPathH inp
  | .huawei, .rd => runRdH inp
  | .arista, .policy => runPolicyA inp
  | .arista, .prefix => runPrefixA inp
  | .arista, .community => runCommunityA inp
  | .arista, .aspath => runAsPathA inp
  | .arista, .rd => emit []

/-- the row text `PartialGenerator._append_text` stores: the indents of the open blocks, then the row -/
def rowText (l : Line) : Str := List.replicate (2 * l.path.length) ' ' ++ l.text

/-- `re.sub(r"(?<=\S)\ {2,}(?=\S)", " ", text)` on one line (`BlockExitFormatter.split_remove_spaces`,
tabparser.py:191-195): a maximal run of two or more blanks between two non-whitespace characters becomes one blank.
`prevNS` = the character before the pending run is `\S`; `pending` = length of the pending run of blanks. -/
def collapseAux : Bool → Nat → List Char → List Char
  | _, pending, [] => List.replicate pending ' '
  | prevNS, pending, c :: cs =>
    if c == ' ' then collapseAux prevNS (pending + 1) cs
    else
      let ns := !pyIsSpace c
      let run := if pending ≥ 2 && prevNS && ns then [' '] else List.replicate pending ' '
      run ++ c :: collapseAux ns 0 cs

def collapseSpaces (row : Str) : Str := collapseAux false 0 row

/-- `str.startswith(prefix)` -/
def startsWithStr (row pre : Str) : Bool := pre.isPrefixOf row

/-- `fmtr.split(text)`: lines of the text, non-empty ones, blanks collapsed; Huawei drops policy end markers -/
def vendorSplit (v : Vend) (rows : List Str) : List Str :=
  let ls := (rows.map collapseSpaces).filter (!·.isEmpty)
  match v with
  | .arista => ls
  | .huawei => ls.filter fun l =>
      let st := Offside.strip l
      !(startsWithStr st (s "end-list") || startsWithStr st (s "endif") || startsWithStr st (s "end-filter"))

inductive RunErr where
  | gen (e : Err)          -- `GeneratorError` caused by an exception of `run`
  | parser                 -- `GeneratorError` caused by `ParserError`
  | acl (path : List String)   -- `GeneratorError` caused by `AclError`
  | grammar                -- outside the pattern grammar of Model/Pattern.lean (not an annet error)
  deriving Repr, Inhabited

/-- `parse_to_tree(output, fmtr.split)` with the default comment marks -/
def parseRows (v : Vend) (rows : List Str) : Except Nat Cfg :=
  parseToTree ["!", "#"] ((vendorSplit v rows).map String.ofList)

/-- `_run_partial_generator(gen, run_args)`: `none` = generator does not support the device -/
def runPartial (inp : Input) (v : Vend) (k : GenKind) : Option (Except RunErr Cfg) :=
  match genAcl v k with
  | none => none
  | some acl =>
    let out := runGen inp v k
    match out.2 with
    | some e => some (.error (.gen e))
    | none =>
      match parseRows v (out.1.map rowText) with
      | .error _ => some (.error .parser)
      | .ok cfg =>
        match applyAcl (aclVendor v) true false (compileAcl [acl]) [] cfg with
        | .ok c => some (.ok c)
        | .error (.aclError p) => some (.error (.acl p))
        | .error _ => some (.error .grammar)

/-! ### single elements in isolation (what the harness observes per condition / action) -/

/-- the one-statement, one-element policies of a program, in the order: policies, statements, conditions, actions -/
def elementInputs (inp : Input) : List Input :=
  inp.policies.flatMap fun p => p.stmts.flatMap fun st =>
    let base (conds : List Cond) (acts : List Action) : Input :=
      { inp with policies := [{ name := p.name, stmts := [{ name := st.name, number := some (st.number.getD ['1']),
                                                            result := .allow, conds := conds, acts := acts }] }] }
    st.conds.map (fun c => base [c] []) ++ st.acts.map (fun a => base [] [a])

end Annet.Rpl
