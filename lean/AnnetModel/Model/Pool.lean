/-
The worker pool of `annet/parallel.py` as an explicit transition system.

Mirrors, function by function:
* `invoke_retry`                      parallel.py:455-468   → `invokeRetry`
* `_pool_worker`                      parallel.py:104-202   → worker events `take / finish / flush / feederDie / exit`
* `Parallel.irun`, single process     parallel.py:305-337   → `single`
* `Parallel.irun`, process pool       parallel.py:338-431   → `init` and the parent event (`stepParent`)
* `Parallel._check_children`          parallel.py:433-452   → the `PC.check` scan
* `Parallel.run`                      parallel.py:284-294   → `run`

`multiprocessing` is not modelled by code but by three stated rules (DESIGN §5 C12,
"modelled, not verified"):
* `task_queue` is FIFO (`take` removes the head);
* what a worker `put`s first sits in the worker's own feeder buffer (`Worker.buf`);
  the feeder thread moves it to the pipe (`doneQ`, FIFO) at any later moment
  (`flush`); an object that cannot be pickled is dropped by the feeder thread
  (`State.dropped`; CPython `multiprocessing/queues.py` `_feed`: it calls
  `_on_queue_feeder_error` and goes on - but `if is_exiting(): return`: when the process
  is already running its exit handlers the feeder thread ends and everything still
  buffered behind the bad object is lost as well, event `feederDie`);
* a worker's exit code becomes visible (`exit`) only after its feeder buffer is
  empty (the feeder thread is joined by the exit finalizer).
`done_queue.get(True, 1)` times out only when the pipe is empty.  `task_timeout`
(1800 s) never fires, workers are not killed from outside (exit codes other than 0
and 9 do not occur, so `failed_workers` of `_check_children` is always empty).
Callbacks are identities (they return the `TaskResult` they were given).

Core Lean only.
-/

namespace Annet.Pool

abbrev Id := Nat

/-- What one call `func(device_id, …)` does.  `netErr` is an exception with
`BrokenPipeError`/`ConnectionResetError` in its stack (`find_exc_in_stack`). -/
inductive Att where
  | val (v : Int)
  | netErr
  | err (e : Nat) (sendable : Bool)
  deriving DecidableEq, Repr, Hashable

/-- Outcome of a task: a value, or an exception (tag `e`).  `sendable = false`: the
`PickleSafeException` built from it cannot be pickled (parallel.py:78-84 stores
`orig_exc.__class__`; a class that is not importable by name does not pickle). -/
inductive Out where
  | ok (v : Int)
  | exc (e : Nat) (sendable : Bool)
  deriving DecidableEq, Repr, Hashable

def Out.isExc : Out → Bool
  | .ok _ => false
  | .exc _ _ => true

def Out.sendable : Out → Bool
  | .ok _ => true          -- parallel.py:183 `pickle.dumps(task_result.result)` is checked in the worker
  | .exc _ s => s

/-- Tag of the exception that is re-raised when the retries are used up. -/
def netTag : Nat := 0

def Att.final : Att → Out
  | .val v => .ok v
  | .netErr => .exc netTag true
  | .err e s => .exc e s

/-- `invoke_retry` (parallel.py:455-468): `call a` is what the `a`-th call of the task
function does; `left = net_retry - attempt`. -/
def invokeRetry (call : Nat → Att) : (left : Nat) → (attempt : Nat) → Out
  | 0, a => (call a).final                       -- `if attempt >= net_retry: raise`
  | k + 1, a =>
    match call a with
    | .netErr => invokeRetry call k (a + 1)      -- `attempt += 1`
    | x => x.final

/-- `TaskResult(worker_name, device_id, result, exc)` reduced to what the property
talks about. -/
structure Res where
  id : Id
  out : Out
  deriving DecidableEq, Repr, Hashable

/-- `PoolWorkerTask` (parallel.py:31-39). -/
inductive Task where
  | invoke (id : Id)
  | stop
  deriving DecidableEq, Repr, Hashable

/-- Exit codes that occur without outside kills: `return` (0), `sys.exit(9)`. -/
inductive Code where
  | zero
  | nine
  deriving DecidableEq, Repr, Hashable

/-- Where a worker process is inside `_pool_worker`. -/
inductive W where
  | idle (done : Nat)             -- at `task_queue.get()` (l.123), `tasks_done = done`
  | busy (done : Nat) (id : Id)   -- between l.123 and l.196
  | retiring                      -- after l.196-199, quota reached: on its way to `sys.exit(9)`
  | stopping                      -- got STOP (l.124-126): returning
  | exited (code : Code)          -- exit code visible to the parent
  deriving DecidableEq, Repr, Hashable

structure Worker where
  st : W
  buf : List Res                  -- put (l.196) but not yet written to the pipe
  deriving DecidableEq, Repr, Hashable

/-- The loop-exit test of `irun` (parallel.py:422).
`old`     : `if not pool: break`                                   (before commit a315bab)
`head`    : `if not pool and (queue_empty or tasks_done >= n)`      (HEAD)
`drained` : `if not pool: if tasks_done >= n or (queue_empty and drained): break; drained = True`
            (the repair proposed by this check). -/
inductive ExitRule where
  | old
  | head
  | drained
  deriving DecidableEq, Repr, Hashable

structure Cfg where
  ids : List Id
  out : Id → Out            -- `invoke_retry(func, net_retry, device_id, …)` as a function of the id
  parallel : Nat            -- `Parallel.parallel`
  maxTasks : Nat            -- `Parallel.max_tasks` (0 = no quota, python falsy)
  tolerate : Bool           -- `tolerate_fails`
  rule : ExitRule

def Cfg.res (c : Cfg) (id : Id) : Res := ⟨id, c.out id⟩

/-- What the caller must end up with (as a multiset). -/
def Cfg.submitted (c : Cfg) : List Res := c.ids.map c.res

/-- parallel.py:299 -/
def Cfg.poolSize (c : Cfg) : Nat :=
  if c.ids.length > c.parallel then c.parallel else c.ids.length

/-- parallel.py:199 `if pool.max_tasks and tasks_done >= pool.max_tasks` -/
def Cfg.quotaReached (c : Cfg) (done : Nat) : Bool :=
  c.maxTasks != 0 && decide (done ≥ c.maxTasks)

/-- Program counter of the parent inside the `while True` of `irun`. -/
inductive PC where
  | get                                                   -- l.372 `done_queue.get(True, 1)`
  | check (got : Option Res) (todo retired : List Nat)    -- l.377, inside `_check_children`: slots still to read
  | post (got : Option Res) (retired : List Nat)          -- l.379-424: abort?, yield, loop-exit test
  | restart (todo : List Nat)                             -- l.426-429
  | done                                                  -- left the loop (l.424/430)
  | aborted (r : Res)                                     -- l.387-404: workers terminated, `raise terminate_exc` (the exception of `r`)
  deriving DecidableEq, Repr, Hashable

structure State where
  taskQ : List Task
  doneQ : List Res
  ws : List Worker          -- index = slot ("Worker-i")
  pool : List Nat           -- keys of the `pool` dict, in insertion order
  delivered : List Res      -- yielded to the caller, in order
  tasksDone : Nat           -- `self.tasks_done`
  dropped : List Res        -- discarded by a feeder thread (pickling error)
  drained : Bool            -- only read by `ExitRule.drained`
  pc : PC
  deriving DecidableEq, Repr, Hashable

/-- parallel.py:341-362: both queues created, ids then one STOP per worker queued,
workers started. -/
def init (c : Cfg) : State :=
  { taskQ := c.ids.map Task.invoke ++ List.replicate c.poolSize Task.stop
    doneQ := []
    ws := List.replicate c.poolSize ⟨.idle 0, []⟩
    pool := List.range c.poolSize
    delivered := []
    tasksDone := 0
    dropped := []
    drained := false
    pc := .get }

inductive Ev where
  | take (w : Nat)      -- `task_queue.get()` returns
  | finish (w : Nat)    -- task done (or raised), callbacks run, `done_queue.put`, quota test
  | flush (w : Nat)     -- feeder thread writes the oldest buffered result to the pipe (or drops it: unpicklable)
  | feederDie (w : Nat) -- feeder thread hits an unpicklable result while the process is exiting, and ends
  | exit (w : Nat)      -- process ends, exit code visible
  | parent              -- next step of the parent
  deriving DecidableEq, Repr, Hashable

/-- The worker's main thread has left `_pool_worker` (`return` or `sys.exit(9)`): the exit
handlers may be running (`multiprocessing.util.is_exiting()`). -/
def W.exiting : W → Bool
  | .retiring => true
  | .stopping => true
  | _ => false

def State.setW (s : State) (i : Nat) (w : Worker) : State := { s with ws := s.ws.set i w }

/-- Worker events; `_pool_worker`, parallel.py:122-202. -/
def stepWorker (c : Cfg) (s : State) : Ev → Option State
  | .take i =>
    match s.ws[i]?, s.taskQ with
    | some ⟨.idle _, b⟩, .stop :: q => some { s.setW i ⟨.stopping, b⟩ with taskQ := q }
    | some ⟨.idle d, b⟩, .invoke id :: q => some { s.setW i ⟨.busy d id, b⟩ with taskQ := q }
    | _, _ => none
  | .finish i =>
    match s.ws[i]? with
    | some ⟨.busy d id, b⟩ =>
      some (s.setW i ⟨if c.quotaReached (d + 1) then .retiring else .idle (d + 1), b ++ [c.res id]⟩)
    | _ => none
  | .flush i =>
    match s.ws[i]? with
    | some ⟨st, r :: b⟩ =>
      if r.out.sendable then some { s.setW i ⟨st, b⟩ with doneQ := s.doneQ ++ [r] }
      else some { s.setW i ⟨st, b⟩ with dropped := s.dropped ++ [r] }
    | _ => none
  | .feederDie i =>
    match s.ws[i]? with
    | some ⟨st, r :: b⟩ =>
      if !r.out.sendable && st.exiting then some { s.setW i ⟨st, []⟩ with dropped := s.dropped ++ r :: b }
      else none
    | _ => none
  | .exit i =>
    match s.ws[i]? with
    | some ⟨.retiring, []⟩ => some (s.setW i ⟨.exited .nine, []⟩)
    | some ⟨.stopping, []⟩ => some (s.setW i ⟨.exited .zero, []⟩)
    | _ => none
  | .parent => none

def PC.isAborted : PC → Bool
  | .aborted _ => true
  | _ => false

/-- parallel.py:422 and its two variants. -/
def breakNow (c : Cfg) (poolEmpty : Bool) (queueEmpty : Bool) (tasksDone : Nat) (drained : Bool) : Bool :=
  match c.rule with
  | .old => poolEmpty
  | .head => poolEmpty && (queueEmpty || decide (tasksDone ≥ c.ids.length))
  | .drained => poolEmpty && (decide (tasksDone ≥ c.ids.length) || (queueEmpty && drained))

/-- l.387-404: `terminate_exc = exc` when a worker returned an exception and
`tolerate_fails` is false (the timeout and `failed_workers` branches cannot fire, see
the header). -/
def abortsOn (c : Cfg) : Option Res → Option Res
  | some r => if !c.tolerate && r.out.isExc then some r else none
  | none => none

/-- l.406-424 and the `drained` bookkeeping of the proposed rule: count and yield the
result, then the loop-exit test. -/
def postStep (c : Cfg) (s : State) (got : Option Res) (ret : List Nat) : State :=
  let delivered := s.delivered ++ got.toList
  let tasksDone := s.tasksDone + got.toList.length
  if breakNow c s.pool.isEmpty got.isNone tasksDone s.drained then
    { s with delivered := delivered, tasksDone := tasksDone, pc := .done }
  else
    { s with delivered := delivered, tasksDone := tasksDone,
             drained := s.drained || s.pool.isEmpty, pc := .restart ret }

/-- One step of the parent: `irun` parallel.py:365-429 with `_check_children`
(433-452) unfolded into one read of an exit code per step. -/
def stepParent (c : Cfg) (s : State) : Option State :=
  match s.pc with
  | .get =>
    match s.doneQ with
    | r :: q => some { s with doneQ := q, pc := .check (some r) s.pool [] }
    | [] => some { s with pc := .check none s.pool [] }          -- `queue.Empty`
  | .check got (i :: todo) ret =>
    match s.ws[i]? with
    | some ⟨.exited .nine, _⟩ => some { s with pc := .check got todo (ret ++ [i]) }   -- retired, stays in pool
    | some ⟨.exited .zero, _⟩ => some { s with pool := s.pool.erase i, pc := .check got todo ret }
    | _ => some { s with pc := .check got todo ret }                                 -- `exitcode is None`
  | .check got [] ret => some { s with pc := .post got ret }
  | .post got ret =>
    match abortsOn c got with
    | some r => some { s with pc := .aborted r }     -- l.387-404: nothing is yielded for `got`
    | none => some (postStep c s got ret)
  | .restart (i :: todo) => some { s.setW i ⟨.idle 0, []⟩ with pc := .restart todo }
  | .restart [] => some { s with pc := .get }
  | .done => none
  | .aborted _ => none

def step (c : Cfg) (s : State) (e : Ev) : Option State :=
  match e with
  | .parent => stepParent c s
  | e => if s.pc.isAborted then none else stepWorker c s e     -- l.396-403 `worker.terminate()`

def State.terminal (s : State) : Bool := s.pc == .done || s.pc.isAborted

/-- Run a schedule; `none` when some event is not enabled. -/
def runSched (c : Cfg) (s : State) : List Ev → Option State
  | [] => some s
  | e :: es =>
    match step c s e with
    | some s' => runSched c s' es
    | none => none

/-- `irun` with `pool_size == 1` (parallel.py:305-337): results in order; `true` when
the exception of a failed task was raised (`tolerate_fails` false). -/
def single (c : Cfg) : List Id → List Res × Bool
  | [] => ([], false)
  | id :: rest =>
    if (c.out id).isExc && !c.tolerate then ([], true)
    else
      let (rs, raised) := single c rest
      (c.res id :: rs, raised)

/-- `d[k] = v` on an insertion-ordered dict. -/
def dictSet {α : Type} (d : List (Id × α)) (k : Id) (v : α) : List (Id × α) :=
  match d with
  | [] => [(k, v)]
  | (k', v') :: rest => if k' = k then (k, v) :: rest else (k', v') :: dictSet rest k v

/-- `Parallel.run` (parallel.py:284-294) applied to what `irun` yielded. -/
def runSplit : List Res → List (Id × Int) × List (Id × Nat) → List (Id × Int) × List (Id × Nat)
  | [], acc => acc
  | r :: rs, (succ, fail) =>
    match r.out with
    | .ok v => runSplit rs (dictSet succ r.id v, fail)
    | .exc e _ => runSplit rs (succ, dictSet fail r.id e)

inductive RunResult where
  | ok (success : List (Id × Int)) (fail : List (Id × Nat))
  | runtimeError (nfail : Nat)            -- l.292-293 `strict_error_code and fail`
  deriving DecidableEq, Repr

def run (delivered : List Res) (strict : Bool) : RunResult :=
  let (succ, fail) := runSplit delivered ([], [])
  if strict && !fail.isEmpty then .runtimeError fail.length else .ok succ fail

end Annet.Pool
