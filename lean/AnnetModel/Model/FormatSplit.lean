/-
L6, the text side of the formatters (C04): `join` (what `annet gen` prints, `is_patch=False`) and every
vendor's `split`, function by function, from `annet/annlib/tabparser.py` (line numbers below are of
that file, at the commit that contains fixes c926070 and 13137d1) and the vendor table of `annet/vendors/library/*.py`.

Texts and lines are `List Char` (`Str`); `String` only appears as the row type of `Cfg` and of the
offside parser's `Item.text`.  The patch side (`is_patch=True`, `cmd_paths`, block exits) is the
subject of C09 and lives elsewhere.

Core Lean only.
-/
import AnnetModel.Model.Offside

namespace Annet.FormatSplit
open Annet Annet.Offside

abbrev Str := List Char

/-! ## Python string helpers -/

/-- `"\n".join(lines)` -/
def joinNl : List Str → Str
  | [] => []
  | [l] => l
  | l :: l' :: ls => l ++ '\n' :: joinNl (l' :: ls)

/-- `text.split("\n")` (never empty) -/
def splitNl : Str → List Str
  | [] => [[]]
  | c :: cs =>
    if c == '\n' then [] :: splitNl cs
    else match splitNl cs with
      | l :: ls => (c :: l) :: ls
      | [] => [[c]]

/-- `filter(None, lines)` -/
def nonEmpty (ls : List Str) : List Str := ls.filter (fun l => !l.isEmpty)

/-- `s * n` -/
def strMul (s : Str) (n : Nat) : Str := (List.replicate n s).flatten

/-- `pat in s` -/
def hasInfix (pat : Str) : Str → Bool
  | [] => pat.isEmpty
  | c :: cs => pat.isPrefixOf (c :: cs) || hasInfix pat cs

/-- `s.replace(old_char, new)` for a one-character `old` -/
def replaceChar (old : Char) (new : Str) (s : Str) : Str :=
  (s.map fun c => if c == old then new else [c]).flatten

/-- `s.split()`: split on runs of whitespace; `cur` is the current word, reversed -/
def splitWsAux : Str → Str → List Str
  | cur, [] => if cur.isEmpty then [] else [cur.reverse]
  | cur, c :: cs =>
    if pyIsSpace c then (if cur.isEmpty then splitWsAux [] cs else cur.reverse :: splitWsAux [] cs)
    else splitWsAux (c :: cur) cs

def splitWs (s : Str) : List Str := splitWsAux [] s

/-- `re.sub(P + "$", "", line)` for a pattern that can only match up to the end of the line: the
leftmost position at which the rest of the line matches is where the line is cut.  `m rest` says
whether the whole `rest` matches `P`.  (Lines never contain `"\n"`: they come from `split("\n")`.) -/
def cutAtFirst (m : Str → Bool) : Str → Str
  | [] => []
  | c :: cs => if m (c :: cs) then [] else c :: cutAtFirst m cs

/-! ## The token stream of `blocks_and_context` -/

inductive Tok where
  | row (s : Str)
  | bb                  -- `BlockBegin`
  | be                  -- `BlockEnd`
  deriving Repr, DecidableEq, Inhabited

mutual
  /-- `CommonFormatter.blocks_and_context(tree, is_patch=False)` + `_blocks` (147-183): a row, then
  its children between `BlockBegin`/`BlockEnd` when `sub_config` is non-empty.  The
  `BlockExitFormatter` override (202-222) adds exit statements only when `is_patch`. -/
  def blocks : Cfg → List Tok
    | .mk ks => blocksL ks
  def blocksL : List (String × Cfg) → List Tok
    | [] => []
    | (k, c) :: rest =>
      (.row k.toList :: (if c.kids.isEmpty then [] else .bb :: blocks c ++ [.be])) ++ blocksL rest
end

/-- `_indent_blocks` (136-145); `indent * level` is empty for a negative level -/
def indentBlocks (indent : Str) : Int → List Tok → List Tok
  | _, [] => []
  | lvl, .bb :: r => .bb :: indentBlocks indent (lvl + 1) r
  | lvl, .be :: r => .be :: indentBlocks indent (lvl - 1) r
  | lvl, .row s :: r => .row (strMul indent lvl.toNat ++ s) :: indentBlocks indent lvl r

/-- `_filtered_block_marks` (918-919) -/
def rowsOf : List Tok → List Str
  | [] => []
  | .row s :: r => s :: rowsOf r
  | _ :: r => rowsOf r

/-- `CommonFormatter.join` (78-83) -/
def commonJoin (indent : Str) (t : Cfg) : Str :=
  joinNl (rowsOf (indentBlocks indent 0 (blocks t)))

/-! ## `split` of the indentation vendors -/

/-- `CommonFormatter.split` (75-76) -/
def commonSplit (text : Str) : List Str := nonEmpty (splitNl text)

/-- `re.sub(r"(?<=\S)\ {2,}(?=\S)", " ", text)` (193): a run of two or more blanks directly between
two non-whitespace characters becomes one blank.  `prevNS`: the previous character exists and is
not whitespace; `n`: blanks seen since. -/
def removeSpacesGo : Bool → Nat → Str → Str
  | _, n, [] => List.replicate n ' '
  | prevNS, n, c :: cs =>
    if c == ' ' then removeSpacesGo prevNS (n + 1) cs
    else
      (if prevNS && decide (2 ≤ n) && !pyIsSpace c then [' '] else List.replicate n ' ')
        ++ c :: removeSpacesGo (!pyIsSpace c) 0 cs

def removeSpaces (text : Str) : Str := removeSpacesGo false 0 text

/-- `BlockExitFormatter.split_remove_spaces` (191-195) -/
def splitRemoveSpaces (text : Str) : List Str := commonSplit (removeSpaces text)

def huaweiEndBlocks : List Str := ["end-list".toList, "endif".toList, "end-filter".toList]

/-- `HuaweiFormatter.split` (237-243) -/
def huaweiSplit (text : Str) : List Str :=
  (splitRemoveSpaces text).filter fun x => !(huaweiEndBlocks.any fun p => p.isPrefixOf (strip x))

def asrEndBlocks : List Str := ["end-set".toList, "endif".toList, "end-policy".toList]

/-- `AsrFormatter.split` (391-395) -/
def asrSplit (text : Str) : List Str :=
  (splitRemoveSpaces text).filter fun x => !(asrEndBlocks.any fun p => p.isSuffixOf x)

def addressFamily : Str := "address-family".toList
def exitAddressFamily : Str := "exit-address-family".toList

/-- the loop of `CiscoFormatter._closed_at_same_indent` (276-292): `first` = `i == 0` -/
def closedAtSameIndentGo (level : Nat) (blockExit : Str) : Bool → List Str → Bool
  | _, [] => false
  | first, nextLine :: rest =>
    let nextLevel := parseIndent nextLine
    if decide (nextLevel < level) || (first && decide (nextLevel > level)) then false
    else if nextLevel == level && strip nextLine == blockExit then true
    else closedAtSameIndentGo level blockExit false rest

/-- `CiscoFormatter._closed_at_same_indent(line, block_exit, following)` (276-292): the section opened
by `line` is printed device-style — its first following line is not deeper and it is closed by its own
exit string at the indent of `line` before any shallower line. -/
def closedAtSameIndent (line : Str) (blockExit : Str) (following : List Str) : Bool :=
  closedAtSameIndentGo (parseIndent line) blockExit true following

/-- `CiscoFormatter._split_indent(line, indent, block_exit_strings, following)` (294-332).
`self.block_exit(FormatterContext(current=(line.strip(), {})))` (346-352) is
`[BlockBegin, "exit-address-family", BlockEnd]` for a row starting with `address-family`, and otherwise
either `[BlockBegin, "exit", BlockEnd]` or nothing — both leave the state unchanged. -/
def ciscoSplitIndent (line : Str) (indent : Int) (exits : List Str) (following : List Str) :
    List Str × Int :=
  let s := strip line
  if exits.contains s then (exits.erase s, indent - 1)
  else if addressFamily.isPrefixOf s then
    (if closedAtSameIndent line exitAddressFamily following then (exits ++ [exitAddressFamily], indent + 1)
     else (exits, indent))
  else (exits, indent)

/-- the loop of `CiscoFormatter.split` (338-343); `following` is `tree[i + 1:]`, not yet shifted -/
def ciscoLoop : List Str → Int → List Str → List Str
  | [], _, _ => []
  | item :: rest, indent, exits =>
    let (exits', indent') := ciscoSplitIndent item indent exits rest
    (List.replicate indent.toNat ' ' ++ item) :: ciscoLoop rest indent' exits'

/-- `CiscoFormatter.split` (334-344) -/
def ciscoSplit (text : Str) : List Str :=
  ciscoLoop (splitRemoveSpaces text) 0 ["exit".toList]

/-! ## Juniper family -/

def blockBegin : Str := " {".toList
def blockEnd : Str := "}".toList
def commentBegin : Str := "/*".toList
def commentEnd : Str := "*/".toList

/-- The class attributes of `JuniperFormatter` (459-472), `RibbonFormatter` (579-582) and
`NokiaFormatter` (604-607).  `_sub_regexs` is compiled inside `JuniperFormatter.__init__`, BEFORE the
subclasses assign `_statement_end = ""` (Nokia) and `_endofline_comment = "; # SECRET-DATA"` / `" ##"`
(Ribbon / Nokia); so for all three classes regex 3 is `;$` and regex 5 is `; ##.*$`, and only
`_formatted_blocks` sees Nokia's empty statement end. -/
structure JunFmt where
  statementEnd : Str        -- what `_formatted_blocks` appends
  reStatementEnd : Str      -- what `_sub_regexs[2]` was compiled with
  reEolComment : Str        -- what `_sub_regexs[4]` was compiled with
  deriving Repr

def juniperFmt : JunFmt := ⟨";".toList, ";".toList, "; ##".toList⟩
def ribbonFmt : JunFmt := ⟨";".toList, ";".toList, "; ##".toList⟩
def nokiaFmt : JunFmt := ⟨[], ";".toList, "; ##".toList⟩

/-- `(\t# .+)?$` at the end of regexes 2 and 4 -/
def optTabComment (u : Str) : Bool :=
  u.isEmpty || match u with
    | '\t' :: '#' :: ' ' :: v => !v.isEmpty
    | _ => false

/-- regex 1: `" {" \s* "}" $` -/
def reEmptyBlock (x : Str) : Bool :=
  match x with
  | ' ' :: '{' :: u =>
    (match u.reverse with
      | '}' :: v => v.all pyIsSpace
      | _ => false)
  | _ => false

/-- regex 2: `" {" (\t# .+)? $` -/
def reBlockBegin (x : Str) : Bool :=
  match x with
  | ' ' :: '{' :: u => optTabComment u
  | _ => false

/-- regex 3: `<statement_end> $` (with an empty statement end the substitution is the identity) -/
def reStatementEnd (e : Str) (x : Str) : Bool := !e.isEmpty && x == e

/-- regex 4: `\s* "}" (\t# .+)? $` -/
def reBlockEnd (x : Str) : Bool :=
  match x.dropWhile pyIsSpace with
  | '}' :: u => optTabComment u
  | _ => false

/-- regex 5: `<endofline_comment> .* $` -/
def reEolComment (e : Str) (x : Str) : Bool := e.isPrefixOf x

/-- `JuniperFormatter.sub_regexs` (474-477): the five substitutions in order -/
def subRegexs (f : JunFmt) (line : Str) : Str :=
  cutAtFirst (reEolComment f.reEolComment)
    (cutAtFirst reBlockEnd
      (cutAtFirst (reStatementEnd f.reStatementEnd)
        (cutAtFirst reBlockBegin
          (cutAtFirst reEmptyBlock line))))

/-- `comment_regexp.match(line)` (481, 487): `\s+ "/*" ((?!"*/").)* "*/"` at the start of the line -/
def commentMatch (line : Str) : Bool :=
  let t := line.dropWhile pyIsSpace
  decide (t.length < line.length) && commentBegin.isPrefixOf t && hasInfix commentEnd (t.drop 2)

/-- the loop of `JuniperFormatter.split` (483-489).  A comment line followed by another line is
rewritten through `json.dumps`; that branch is not modelled: `none`. -/
def junSplitLoop (f : JunFmt) : List Str → Option (List Str)
  | [] => some []
  | l :: rest =>
    let l' := subRegexs f l
    if !rest.isEmpty && commentMatch l' then none
    else (junSplitLoop f rest).map (l' :: ·)

/-- `JuniperFormatter.split` (479-491) -/
def junSplit (f : JunFmt) (text : Str) : Option (List Str) :=
  (junSplitLoop f (splitNl text)).map nonEmpty

/-- `JuniperFormatter._formatted_blocks` (509-526).  `pend = some s` iff `isinstance(line, str)`. -/
def junFormatted (f : JunFmt) (indent : Str) : Int → Option Str → List Tok → List Str
  | _, pend, [] =>
    match pend with
    | some s => [s ++ f.statementEnd]
    | none => []
  | lvl, pend, .bb :: r =>
    (match pend with
      | some s => [s ++ blockBegin]
      | none => []) ++ junFormatted f indent (lvl + 1) none r
  | lvl, pend, .be :: r =>
    (match pend with
      | some s => [s ++ (if commentEnd.isSuffixOf s then [] else f.statementEnd)]
      | none => []) ++ (strMul indent (lvl - 1).toNat ++ blockEnd) :: junFormatted f indent (lvl - 1) none r
  | lvl, pend, .row n :: r =>
    (match pend with
      | some s => [s ++ (if commentEnd.isSuffixOf s then [] else f.statementEnd)]
      | none => []) ++ junFormatted f indent lvl (some n) r

mutual
  /-- some row starts with `/*` (then `JuniperFormatter._blocks` (502-507) goes through
  `Comment.loads`/`json.loads`, which is not modelled) -/
  def hasCommentRow : Cfg → Bool
    | .mk ks => hasCommentRowL ks
  def hasCommentRowL : List (String × Cfg) → Bool
    | [] => false
    | (k, c) :: rest => commentBegin.isPrefixOf k.toList || hasCommentRow c || hasCommentRowL rest
end

/-- `JuniperFormatter.join` (493-494); `none` = a comment row (not modelled) -/
def junJoin (f : JunFmt) (indent : Str) (t : Cfg) : Option Str :=
  if hasCommentRow t then none
  else some (joinNl (junFormatted f indent 0 none (indentBlocks indent 0 (blocks t))))

/-- the `start`/`finish` loop of `NokiaFormatter.split` (613-623) -/
def nokiaBounds : List Str → Nat → Option Nat → Option Nat → Option Nat × Option Nat
  | [], _, start, finish => (start, finish)
  | line :: rest, i, start, finish =>
    if ['#'].isPrefixOf line then nokiaBounds rest (i + 1) start finish
    else if line == "configure".toList then nokiaBounds rest (i + 1) (some (i + 1)) finish
    else if line.length == (lstrip line).length then
      (if start.isSome && finish.isNone then nokiaBounds rest (i + 1) start (some i)
       else nokiaBounds rest (i + 1) start finish)
    else nokiaBounds rest (i + 1) start finish

/-- `NokiaFormatter.split` (609-627): `ret[start:finish]` -/
def nokiaSplit (f : JunFmt) (text : Str) : Option (List Str) :=
  (junSplit f text).map fun ret =>
    let (start, finish) := nokiaBounds ret 0 none none
    (ret.take (finish.getD ret.length)).drop (start.getD 0)

/-! ## RouterOS -/

mutual
  /-- `RosFormatter.blocks_and_context(tree, is_patch=False, context)` (669-714).
  `ctx` lists the `current` rows of the `FormatterContext` chain, innermost first (`[]` = `None`);
  so `context.row` is `ctx[0]`: the printed path of the enclosing section.  `itertools.groupby` on the
  sub-config only matters for runs of leaves (`sub_config is None`): `inLeaf` says that the previous
  item was a leaf of the same run.  Consecutive sections with equal sub-configs fall into one group,
  whose members are then treated one by one with that same sub-config, so they need no special case. -/
  def rosBlocks (ctx : List Str) : Cfg → List Tok
    | .mk ks => rosBlocksL ctx none false ks
  def rosBlocksL (ctx : List Str) (prevProw : Option Str) (inLeaf : Bool) :
      List (String × Cfg) → List Tok
    | [] => if inLeaf && (prevProw.any (!·.isEmpty)) then [.be] else []
    | (k, c) :: rest =>
      if c.kids.isEmpty then
        (if !inLeaf && (prevProw.any (!·.isEmpty)) then [.row (prevProw.getD []), .bb] else [])
          ++ .row k.toList :: rosBlocksL ctx prevProw true rest
      else
        (if inLeaf && (prevProw.any (!·.isEmpty)) then [.be] else []) ++
        (match ctx with
          | p :: _ =>
            if !p.isEmpty then
              let prow := p ++ ' ' :: k.toList
              .row prow :: .bb :: rosBlocks (prow :: ctx) c ++ .be :: rosBlocksL ctx (some p) false rest
            else
              .row k.toList :: .bb :: rosBlocks (k.toList :: ctx) c ++ .be :: rosBlocksL ctx prevProw false rest
          | [] =>
            .row k.toList :: .bb :: rosBlocks (k.toList :: ctx) c ++ .be :: rosBlocksL ctx prevProw false rest)
end

/-- `RosFormatter._formatted_blocks` (716-724).  `line = some t` is the previous token. -/
def rosFormatted : Option Tok → List Tok → List Str
  | _, [] => []
  | line, .bb :: r =>
    (match line with
      | some (.row s) => [('/' :: strip s)]
      | _ => []) ++ rosFormatted (some .bb) r
  | line, t :: r =>
    (match line with
      | some (.row s) => [s]
      | _ => []) ++ rosFormatted (some t) r

/-- `RosFormatter.join` (660-661) -/
def rosJoin (indent : Str) (t : Cfg) : Str :=
  joinNl (rosFormatted none (indentBlocks indent 0 (rosBlocks [] t)))

/-- `gpath` (778) and `hasattr(self, gpath)`: the two device-listing post-processors
`_splitter_file`, `_splitter_user_ssh_keys` (726-758), which are not modelled -/
def rosHasSplitter (line : Str) : Bool :=
  let g := replaceChar '-' ['_'] (replaceChar ' ' ['_'] (replaceChar '/' "_splitter_".toList line))
  g == "_splitter_file".toList || g == "_splitter_user_ssh_keys".toList

/-- the words of a `/path words` line (774-776) -/
def rosGroups (indent : Str) : Nat → List Str → List Str
  | _, [] => []
  | level, g :: gs => (strMul indent level ++ replaceChar '/' [] g) :: rosGroups indent (level + 1) gs

/-- the loop of `RosFormatter.split` (765-791); `none` = a section with a post-processor -/
def rosSplitLoop (indent : Str) : Nat → List Str → Option (List Str)
  | _, [] => some []
  | level, line :: rest =>
    if ['/'].isPrefixOf line then
      if rosHasSplitter line then none
      else
        let gs := splitWs line
        (rosSplitLoop indent gs.length rest).map (rosGroups indent 0 gs ++ ·)
    else
      let row := if level > 0 then strip line else line
      (rosSplitLoop indent level rest).map ((strMul indent level ++ row) :: ·)

/-- `RosFormatter.split` (760-797) -/
def rosSplit (indent : Str) (text : Str) : Option (List Str) :=
  (rosSplitLoop indent 0 (splitNl text)).map nonEmpty

/-! ## The registry: vendor → formatter class and constructor arguments -/

inductive Kind where
  | common | huawei | cisco | nexusLike | asr | juniper | ribbon | nokia | ros
  deriving Repr, DecidableEq, Inhabited

/-- `annet/vendors/library/*.py`: `make_formatter` of the 14 registered vendors.
Nexus, Arista, Aruba and B4com have four textually identical classes (355-384). -/
def kindOf : String → Option Kind
  | "huawei" => some .huawei
  | "h3c" => some .huawei
  | "optixtrans" => some .common
  | "pc" => some .common
  | "cisco" => some .cisco
  | "nexus" => some .nexusLike
  | "arista" => some .nexusLike
  | "aruba" => some .nexusLike
  | "b4com" => some .nexusLike
  | "iosxr" => some .asr
  | "juniper" => some .juniper
  | "ribbon" => some .ribbon
  | "nokia" => some .nokia
  | "routeros" => some .ros
  | _ => none

structure Fmt where
  kind : Kind
  indent : Str
  deriving Repr

/-- `make_formatter(**kwargs)` → `__init__`: which indent the object ends up with.
Cisco, Nexus-like and Asr call `super().__init__("exit", indent)`, which binds `indent` to the
`no_block_exit` parameter of `BlockExitFormatter.__init__` (186, 273-274, 356-357, 388-389): their
indent is always two blanks.  The Juniper family defaults to four blanks (459). -/
def mkFormatter (kind : Kind) (indentKw : Option Str) : Fmt :=
  match kind with
  | .cisco | .nexusLike | .asr => ⟨kind, [' ', ' ']⟩
  | .juniper | .ribbon | .nokia => ⟨kind, indentKw.getD [' ', ' ', ' ', ' ']⟩
  | _ => ⟨kind, indentKw.getD [' ', ' ']⟩

def junFmtOf : Kind → JunFmt
  | .nokia => nokiaFmt
  | .ribbon => ribbonFmt
  | _ => juniperFmt

/-- `formatter.join(tree)`; `none` = outside the modelled domain (Juniper comment rows) -/
def join (f : Fmt) (t : Cfg) : Option Str :=
  match f.kind with
  | .juniper | .ribbon | .nokia => junJoin (junFmtOf f.kind) f.indent t
  | .ros => some (rosJoin f.indent t)
  | _ => some (commonJoin f.indent t)

/-- `formatter.split(text)`; `none` = outside the modelled domain -/
def split (f : Fmt) (text : Str) : Option (List Str) :=
  match f.kind with
  | .common => some (commonSplit text)
  | .huawei => some (huaweiSplit text)
  | .cisco => some (ciscoSplit text)
  | .nexusLike => some (splitRemoveSpaces text)
  | .asr => some (asrSplit text)
  | .juniper | .ribbon => junSplit (junFmtOf f.kind) text
  | .nokia => nokiaSplit nokiaFmt text
  | .ros => rosSplit f.indent text

/-- the default `comments` of `parse_to_tree` (843) -/
def comments : List String := ["!", "#"]

/-- `parse_to_tree(text, formatter.split)` (843-851): `none` = not modelled, `error n` = `ParserError`
at line `n` -/
def parse (f : Fmt) (text : Str) : Option (Except Nat Cfg) :=
  (split f text).map fun ls => parseToTree comments (ls.map String.ofList)

end Annet.FormatSplit
