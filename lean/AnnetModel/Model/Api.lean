/-
The two front ends of annet/api/__init__.py:
  * `_diff_and_patch` (device mode, lines 70-87; no ACL here)
  * `_read_old_new_diff_patch` (file mode, lines 90-99)
as compositions of L4/L5, parametrised by the table of logic functions.

Core Lean only.
-/
import AnnetModel.Model.Patch

namespace Annet.Api
open Annet Annet.Rules Annet.Diff Annet.Patch

structure Result where
  diff : List DItem      -- what is shown (unchanged entries stripped)
  patch : PTree

def liftD {α : Type} : Except Diff.Err α → Except Patch.Err α
  | .ok a => .ok a
  | .error e => .error (.diff e)

/-- `_diff_and_patch(device, old, new, None, None, add_comments=False)`:
```
diff_tree = make_diff(old, new, rb, [None, None]); pre = make_pre(diff_tree)
patch_tree = patch_from_pre(pre, …); diff_tree = strip_unchanged(diff_tree)
``` -/
def deviceMode (lg : LogicFn) (v : Vendor) (rules : PRules) (ordering : List ORule) (doCommit : Bool)
    (old new : Cfg) : Except Patch.Err Result := do
  let d ← liftD (makeDiff rules old new)
  let pre := makePre d
  let patch ← makePatchWith lg v ordering doCommit pre
  pure { diff := stripUnchanged d, patch := patch }

/-- `_read_old_new_diff_patch(old, new, hw, add_comments=False)` as it is now:
```
diff_obj = make_diff(old, new, rb, [])
patchtree = patch_from_pre(make_pre(diff_obj), …)
diff_obj = strip_unchanged(diff_obj); pre = make_pre(diff_obj)   # pre only for display
``` -/
def fileMode (lg : LogicFn) (v : Vendor) (rules : PRules) (ordering : List ORule)
    (old new : Cfg) : Except Patch.Err Result := do
  let d ← liftD (makeDiff rules old new)
  let patch ← makePatchWith lg v ordering true (makePre d)
  let shown := stripUnchanged d
  pure { diff := shown, patch := patch }

/-- the composition file mode had before the repair (strip first, then build the patch) -/
def fileModeStripFirst (lg : LogicFn) (v : Vendor) (rules : PRules) (ordering : List ORule)
    (old new : Cfg) : Except Patch.Err Result := do
  let d ← liftD (makeDiff rules old new)
  let shown := stripUnchanged d
  let patch ← makePatchWith lg v ordering true (makePre shown)
  pure { diff := shown, patch := patch }

end Annet.Api
