/-
L5 — from diff to patch: `make_pre`, the common logic functions, `Orderer.get_order`,
`make_patch`, `PatchTree.sort`, `Orderer.order_config`
(annet/annlib/patching.py:139-255, 352-472; annet/annlib/rulebook/common.py:11-127).

Not modelled: comments (`add_comments=False`), `%multiline`, RefTracker-derived ordering rules
(`ref_insert` with an empty tracker is the identity), vendor `%logic` functions (a rulebook naming
one makes the model return `unmodelledLogic`).

Core Lean only.
-/
import AnnetModel.Model.Diff

namespace Annet.Patch
open Annet.Rules Annet.Diff Annet.Pattern

/-! ### make_pre -/

mutual
  inductive Pre where
    | mk (rules : List PreRule)
  inductive PreRule where
    | mk (raw : String) (attrs : PAttrs) (items : List PreItem)
  inductive PreItem where
    | mk (key : List String) (added removed moved affected unchanged : List PreEntry)
  inductive PreEntry where
    | mk (row : String) (children : Pre)
end

instance : Inhabited Pre := ⟨.mk []⟩

def Pre.rules : Pre → List PreRule | .mk r => r
def Pre.isEmpty (p : Pre) : Bool := p.rules.isEmpty
def PreEntry.row : PreEntry → String | .mk r _ => r
def PreEntry.children : PreEntry → Pre | .mk _ c => c

def PreItem.push (op : Op) (e : PreEntry) : PreItem → PreItem
  | .mk k a r m f u =>
    match op with
    | .added => .mk k (a ++ [e]) r m f u
    | .removed => .mk k a (r ++ [e]) m f u
    | .moved => .mk k a r (m ++ [e]) f u
    | .affected => .mk k a r m (f ++ [e]) u
    | .unchanged => .mk k a r m f (u ++ [e])

def PreItem.key : PreItem → List String | .mk k _ _ _ _ _ => k
def PreRule.raw : PreRule → String | .mk r _ _ => r

def pushItem (key : List String) (op : Op) (e : PreEntry) (items : List PreItem) : List PreItem :=
  if items.any (·.key == key) then items.map fun it => if it.key == key then it.push op e else it
  else items ++ [(PreItem.mk key [] [] [] [] []).push op e]

def pushRule (m : PMatch) (op : Op) (e : PreEntry) (rules : List PreRule) : List PreRule :=
  if rules.any (·.raw == m.rawRule) then
    rules.map fun
      | .mk raw attrs items => if raw == m.rawRule then .mk raw attrs (pushItem m.key op e items) else .mk raw attrs items
  else rules ++ [.mk m.rawRule m.attrs (pushItem m.key op e [])]

mutual
  /-- the loop of `make_pre(diff)` (patching.py:352-393), without the multiline branch -/
  def makePreAcc : List DItem → List PreRule → List PreRule
    | [], acc => acc
    | i :: rest, acc => makePreAcc rest (pushRule i.m i.op (entryOf i) acc)
  /-- `{"row": row, "children": make_pre(children)}` -/
  def entryOf : DItem → PreEntry
    | .mk _ row ch _ => .mk row (.mk (makePreAcc ch []))
end

/-- `make_pre(diff)` -/
def makePre (ds : List DItem) : Pre := .mk (makePreAcc ds [])

/-! ### logic functions (rulebook/common.py:11-127) -/

inductive Err where
  | diff (e : Diff.Err)
  | assertion (what : String)
  | unmodelledLogic (name : String)
  | grammar
  deriving Repr, DecidableEq, Inhabited

/-- what a logic function yields: `(direct, row, sub_pre)` -/
structure Yield where
  direct : Bool
  row : String
  sub : Option Pre
  deriving Inhabited

/-- `rule["reverse"].format(*key)` for a grammar rule row; `none` = outside grammar / IndexError -/
def reverseCmd (v : Vendor) (attrs : PAttrs) (key : List String) : Option String := do
  let p ← parseRow true attrs.row.toList
  if p.ellipsis then none
  let ws ← format (makeReverse v.reverse.toList p.toks) (key.map String.toList)
  pure (String.ofList (joinWords ws))

def logicDefault (v : Vendor) (attrs : PAttrs) (it : PreItem) : Except Err (List Yield) :=
  match it with
  | .mk key a r m f _ =>
    if a.length > 1 || r.length > 1 || f.length > 1 || m.length > 1 then .error (.assertion "Too many actions")
    else
      match f, a, m, r with
      | e :: _, _, _, _ => .ok [⟨true, e.row, some e.children⟩]
      | [], e :: _, _, _ => .ok [⟨true, e.row, some e.children⟩]
      | [], [], e :: _, _ => .ok [⟨true, e.row, some e.children⟩]
      | [], [], [], _ :: _ =>
        match reverseCmd v attrs key with
        | some c => .ok [⟨false, c, none⟩]
        | none => .error .grammar
      | [], [], [], [] => .ok []

def logicOrdered (v : Vendor) (attrs : PAttrs) (it : PreItem) : Except Err (List Yield) :=
  match it with
  | .mk key _ _ m _ _ =>
    let pre : Except Err (List Yield) :=
      if m.isEmpty then .ok [] else
        match reverseCmd v attrs key with
        | some c => .ok [⟨false, c, none⟩]
        | none => .error .grammar
    match pre, logicDefault v attrs it with
    | .error e, _ => .error e
    | _, .error e => .error e
    | .ok a, .ok b => .ok (a ++ b)

def logicRewrite (v : Vendor) (attrs : PAttrs) (it : PreItem) : Except Err (List Yield) :=
  match it with
  | .mk _ _ r _ _ _ => if r.isEmpty then logicDefault v attrs it else .ok []

def logicPermanent (v : Vendor) (attrs : PAttrs) (it : PreItem) : Except Err (List Yield) :=
  match it with
  | .mk key a r m f u =>
    match r with
    | [] => logicDefault v attrs it
    | e :: _ =>
      if e.children.isEmpty then .ok []
      else logicDefault v attrs (.mk key a [] m (f ++ r) u)

def logicIgnoreChanges (v : Vendor) (attrs : PAttrs) (it : PreItem) : Except Err (List Yield) :=
  match it with
  | .mk _ a r _ _ _ => if !a.isEmpty && !r.isEmpty then .ok [] else logicDefault v attrs it

def logicUndoRedo (v : Vendor) (attrs : PAttrs) (it : PreItem) : Except Err (List Yield) :=
  match it with
  | .mk key a r _ f _ =>
    if !(!a.isEmpty && !r.isEmpty && f.isEmpty) then logicDefault v attrs it
    else
      match logicDefault v attrs (.mk key [] r [] [] []), logicDefault v attrs (.mk key a [] [] [] []) with
      | .error e, _ => .error e
      | _, .error e => .error e
      | .ok x, .ok y => .ok (x ++ y)

def runLogic (v : Vendor) (attrs : PAttrs) (it : PreItem) : Except Err (List Yield) :=
  if attrs.logic == "common.default" then logicDefault v attrs it
  else if attrs.logic == "common.ordered" then logicOrdered v attrs it
  else if attrs.logic == "common.rewrite" then logicRewrite v attrs it
  else if attrs.logic == "common.permanent" then logicPermanent v attrs it
  else if attrs.logic == "common.ignore_changes" then logicIgnoreChanges v attrs it
  else if attrs.logic == "common.undo_redo" then logicUndoRedo v attrs it
  else .error (.unmodelledLogic attrs.logic)

/-! ### Orderer.get_order (patching.py:181-226) -/

/-- `f_order`: a rule index, or `float("inf")` for the block-exit word -/
inductive Ord where
  | fin (n : Nat)
  | inf
  deriving Repr, DecidableEq, Inhabited

structure OrderRes where
  order : Ord
  direct : Bool
  children : List ORule
  deriving Inhabited

def oDirectPat (r : ORule) : Option Pat := parseRow false r.row.toList
def oReversePat (v : Vendor) (r : ORule) : Option Pat :=
  parseRow false (joinWords (negate v.reverse.toList (splitBlank r.row.toList)))

/-- `rule_weight` numerator: `len(set(row) ∩ set(pattern))` (all weights of one row share `len(row)`) -/
def weight (row : String) (p : Pat) : Nat :=
  (row.toList.eraseDups.filter ((patternSource p).contains ·)).length

/-- `odict(children)`: first position of each raw rule, last value -/
def dedupLast (l : List ORule) : List ORule :=
  l.foldl (fun acc r =>
    if acc.any (·.rawRule == r.rawRule) then acc.map (fun x => if x.rawRule == r.rawRule then r else x)
    else acc ++ [r]) []

structure OState where
  fOrder : Option Ord := none
  fWeight : Nat := 0
  direct : Bool
  children : List ORule := []

def getOrderStep (v : Vendor) (row : String) (scope : Option String) (st : OState) (order : Nat) (rule : ORule) :
    Option OState := do
  let skip := match rule.scope with
    | some sc => match scope with
      | some s => !sc.contains s
      | none => true          -- `None not in rule_scope`
    | none => false
  if skip then return st
  let st := if rule.isGlobal then { st with children := st.children ++ [rule] } else st
  let dp ← oDirectPat rule
  let rp ← oReversePat v rule
  let dm := (dp.match? row.toList).isSome
  let rm := (rp.match? row.toList).isSome
  if !rule.orderReverse && (dm || rm) then
    let w := weight row (if dm then dp else rp)
    let st := if st.fOrder.isNone || st.fWeight < w then { st with fOrder := some (.fin order), fWeight := w } else st
    return { st with children := st.children ++ rule.children }
  else if rule.orderReverse && !st.direct && dm then
    let w := weight row dp
    -- `f_order is None or f_weight < weight or (f_weight == weight and not cmd_direct)`; cmd_direct is false here
    let st := if st.fOrder.isNone || st.fWeight < w || st.fWeight == w
      then { st with fOrder := some (.fin order), fWeight := w, direct := true } else st
    return { st with children := [] }
  else if v.exit != "" && v.exit == row then
    return { st with fOrder := some .inf, direct := true, children := [] }
  else return st

def getOrder (v : Vendor) (rb : List ORule) (row : String) (cmdDirect : Bool) (scope : Option String) :
    Option OrderRes :=
  let rec go : List ORule → Nat → OState → Option OState
    | [], _, st => some st
    | r :: rs, i, st =>
      match getOrderStep v row scope st i r with
      | none => none
      | some st' => go rs (i + 1) st'
  match go rb 0 { direct := cmdDirect } with
  | none => none
  | some st =>
    -- `(f_order or 0)`
    some { order := st.fOrder.getD (.fin 0), direct := st.direct, children := dedupLast st.children }

/-! ### sort keys and stable sort -/

/-- `(order if order_direct else -order)`: a signed index or `+inf` -/
inductive SOrd where
  | fin (i : Int)
  | inf
  deriving Repr, DecidableEq, Inhabited

def SOrd.lt : SOrd → SOrd → Bool
  | .fin a, .fin b => a < b
  | .fin _, .inf => true
  | .inf, _ => false

def signed (o : Ord) (direct : Bool) : SOrd :=
  match o with
  | .fin n => .fin (if direct then (n : Int) else -(n : Int))
  | .inf => .inf      -- only produced together with direct = true

structure SortKey where
  ord : SOrd
  rawRule : String
  direct : Bool
  deriving Repr, DecidableEq, Inhabited

/-- Python tuple comparison of `(±order, raw_rule, order_direct)` -/
def SortKey.lt (a b : SortKey) : Bool :=
  a.ord.lt b.ord || (a.ord == b.ord && (a.rawRule < b.rawRule || (a.rawRule == b.rawRule && (!a.direct && b.direct))))

/-- insert after every element that is not greater (`list.sort` is stable) -/
def insertBy {α : Type} (lt : α → α → Bool) (x : α) : List α → List α
  | [] => [x]
  | y :: ys => if lt x y then x :: y :: ys else y :: insertBy lt x ys

def stableSort {α : Type} (lt : α → α → Bool) (l : List α) : List α :=
  l.foldl (fun acc x => insertBy lt x acc) []

/-! ### PatchTree, make_patch -/

inductive PTree where
  | mk (items : List (String × Option PTree × SortKey))
  deriving Inhabited

def PTree.items : PTree → List (String × Option PTree × SortKey) | .mk l => l

mutual
  /-- `PatchTree.sort()` -/
  def sortTree : PTree → PTree
    | .mk items => .mk (stableSort (fun a b => a.2.2.lt b.2.2) (sortItems items))
  def sortItems : List (String × Option PTree × SortKey) → List (String × Option PTree × SortKey)
    | [] => []
    | (row, none, k) :: rest => (row, none, k) :: sortItems rest
    | (row, some c, k) :: rest => (row, some (sortTree c), k) :: sortItems rest
end

/-- recursion of `make_patch` into `sub_pre`, abstracted (fuel bounds nesting) -/
abbrev PRec := List ORule → Pre → Except Err PTree

structure RawItem where
  row : String
  children : PTree
  rawRule : String
  direct : Bool
  order : Ord
  orderDirect : Bool
  parent : Bool
  forceCommit : Bool

def yieldsToItems (rec : PRec) (v : Vendor) (ordering : List ORule) (doCommit : Bool) (raw : String) (attrs : PAttrs) :
    List Yield → Except Err (List RawItem)
  | [] => .ok []
  | y :: ys =>
    match getOrder v ordering y.row y.direct (some "patch") with
    | none => .error .grammar
    | some o =>
      if !doCommit && attrs.forceCommit then yieldsToItems rec v ordering doCommit raw attrs ys
      else
        let sub : Except Err PTree := match y.sub with
          | none => .ok (.mk [])
          | some p => if p.isEmpty then .ok (.mk []) else rec o.children p
        match sub with
        | .error e => .error e
        | .ok ch =>
          match yieldsToItems rec v ordering doCommit raw attrs ys with
          | .error e => .error e
          | .ok more =>
            .ok ({ row := y.row, children := ch, rawRule := raw, direct := y.direct, order := o.order,
                   orderDirect := o.direct, parent := attrs.parent, forceCommit := attrs.forceCommit } :: more)

/-- a table of logic functions: what `attrs["logic"](rule=attrs, key=key, diff=diff, …)` yields -/
abbrev LogicFn := Vendor → PAttrs → PreItem → Except Err (List Yield)

def itemsOfRule (lg : LogicFn) (rec : PRec) (v : Vendor) (ordering : List ORule) (doCommit : Bool) (raw : String) (attrs : PAttrs) :
    List PreItem → Except Err (List RawItem)
  | [] => .ok []
  | it :: rest =>
    match lg v attrs it with
    | .error e => .error e
    | .ok ys =>
      match yieldsToItems rec v ordering doCommit raw attrs ys with
      | .error e => .error e
      | .ok a =>
        match itemsOfRule lg rec v ordering doCommit raw attrs rest with
        | .error e => .error e
        | .ok b => .ok (a ++ b)

def itemsOfPre (lg : LogicFn) (rec : PRec) (v : Vendor) (ordering : List ORule) (doCommit : Bool) :
    List PreRule → Except Err (List RawItem)
  | [] => .ok []
  | .mk raw attrs items :: rest =>
    match itemsOfRule lg rec v ordering doCommit raw attrs items with
    | .error e => .error e
    | .ok a =>
      match itemsOfPre lg rec v ordering doCommit rest with
      | .error e => .error e
      | .ok b => .ok (a ++ b)

/-- the second half of `make_patch`: build the PatchTree from the collected items, unsorted -/
def buildTree (items : List RawItem) : PTree :=
  .mk (items.flatMap fun it =>
    let key : SortKey := { ord := signed it.order it.orderDirect, rawRule := it.rawRule, direct := it.orderDirect }
    let main : String × Option PTree × SortKey :=
      if (it.children.items.isEmpty && !it.parent) || !it.direct then (it.row, none, key)
      else (it.row, some it.children, key)
    if it.forceCommit then [main, ("commit", none, key)] else [main])

/-- `make_patch` without the final `tree.sort()` (children are built, not yet sorted) -/
def makePatchUnsorted (lg : LogicFn) : Nat → Vendor → Bool → PRec
  | 0, _, _, _, _ => .ok (.mk [])
  | fuel + 1, v, doCommit, ordering, pre =>
    match itemsOfPre lg (makePatchUnsorted lg fuel v doCommit) v ordering doCommit pre.rules with
    | .error e => .error e
    | .ok items => .ok (buildTree items)

mutual
  def preDepth : Pre → Nat
    | .mk rs => preDepthR rs
  def preDepthR : List PreRule → Nat
    | [] => 0
    | .mk _ _ items :: rest => max (preDepthI items) (preDepthR rest)
  def preDepthI : List PreItem → Nat
    | [] => 0
    | .mk _ a r m f u :: rest =>
      max (max (max (preDepthE a) (preDepthE r)) (max (preDepthE m) (max (preDepthE f) (preDepthE u)))) (preDepthI rest)
  def preDepthE : List PreEntry → Nat
    | [] => 0
    | .mk _ c :: rest => max (1 + preDepth c) (preDepthE rest)
end

/-- `make_patch(pre, rb, hw, add_comments=False, orderer, do_commit)`: nested `tree.sort()` calls on
already sorted children are the identity, so sorting once at the end is the same computation
(each nested `make_patch` sorts its own tree; `sortTree` sorts every level). -/
def makePatchWith (lg : LogicFn) (v : Vendor) (ordering : List ORule) (doCommit : Bool) (pre : Pre) : Except Err PTree :=
  (makePatchUnsorted lg (preDepth pre + 2) v doCommit ordering pre).map sortTree

/-- `make_patch` with the common logic functions of `annet.rulebook.common` -/
def makePatch (v : Vendor) (ordering : List ORule) (doCommit : Bool) (pre : Pre) : Except Err PTree :=
  makePatchWith runLogic v ordering doCommit pre

/-! ### Orderer.order_config (patching.py:228-255) -/

structure OCItem where
  row : String
  children : Cfg
  direct : Bool
  order : Ord

def ocLt (a b : OCItem) : Bool :=
  let ka := signed a.order a.direct
  let kb := signed b.order b.direct
  ka.lt kb || (ka == kb && (!a.direct && b.direct))

mutual
  def orderConfig (v : Vendor) (rb : List ORule) : Cfg → Option Cfg
    | .mk ks => (orderConfigL v rb ks).map fun items =>
        .mk ((stableSort ocLt items).map fun it => (it.row, it.children))
  def orderConfigL (v : Vendor) (rb : List ORule) : List (String × Cfg) → Option (List OCItem)
    | [] => some []
    | (row, ch) :: rest =>
      let cmdDirect := !(v.reverse.toList.isPrefixOf row.toList)
      match getOrder v rb row cmdDirect none with
      | none => none
      | some o =>
        match orderConfig v o.children ch, orderConfigL v rb rest with
        | some ch', some rest' => some ({ row := row, children := ch', direct := o.direct, order := o.order } :: rest')
        | _, _ => none
end

end Annet.Patch
