/-
C11 — VLAN-list logic, function by function.

Mirrors (HEAD of /repo):
* `annet/annlib/lib.py:58-68`    `huawei_expand_vlandb`
* `annet/annlib/lib.py:71-82`    `cisco_expand_vlandb`
* `annet/annlib/lib.py:85-90`    `huawei_collapse_vlandb`, `cisco_collapse_vlandb`
* `annet/annlib/lib.py:114-137`  `collapse_vlandb`
* `annet/rulebook/huawei/vlandb.py:10-19`   `single`, `multi`, `multi_all`
* `annet/rulebook/huawei/vlandb.py:22-48`   `vlan_diff`
* `annet/rulebook/huawei/vlandb.py:52-106`  `_process_vlandb`, `_chunked`, `_parse_vlancfg_actions`, `_parse_vlancfg`
* `annet/rulebook/cisco/vlandb.py:13-90`    `simple`, `swtrunk`, `_process_vlandb`, `_chunked`,
                                            `_parse_vlancfg_actions`, `_parse_vlancfg`
* the bucketing of the leaf rows of one `(rule, key)`:
  `annet/annlib/rulebook/common.py:195-234` (`base_diff`, `moved_to_affected=True`),
  `annet/annlib/patching.py:298-306` (`mark_unchanged`), `352-393` (`make_pre`).

Representation.  A config row is a list of *tokens* (what `str.split()` yields,
classified); decimal rendering / parsing of the numbers and the joining with
blanks and commas happen at the JSON glue boundary (`Glue/C11.lean`).
A Python `set` of ints is a `List Nat` whose order and multiplicity are
irrelevant: the only consumers are `difference`, truthiness and
`sorted(set(·))` inside `collapse_vlandb` (`norm` below).

Core Lean only.
-/
namespace Annet.Vlan

/-- The Python exceptions these functions can raise. -/
inductive Err where
  | value       -- ValueError   (`int("to")`, `int("abc")`)
  | index       -- IndexError   (`row_parts[index + 1]` past the end, `words[-2]`)
  | assertion   -- AssertionError
  deriving Repr, DecidableEq, Inhabited

/-! ### Python sets of ints -/

/-- insert into a strictly increasing list, keeping it strictly increasing -/
def insertU (v : Nat) : List Nat → List Nat
  | [] => [v]
  | x :: xs => if v < x then v :: x :: xs else if v = x then x :: xs else x :: insertU v xs

/-- `sorted(set(vlans))` -/
def norm (l : List Nat) : List Nat := l.foldr insertU []

/-- `a.difference(b)` / `a - b` -/
def sdiff (a b : List Nat) : List Nat := a.filter (fun v => !b.contains v)

/-- `a & b` -/
def sinter (a b : List Nat) : List Nat := a.filter (fun v => b.contains v)

/-! ### `_chunked(items, size)` / `res[i:i + chunk_len] for i in range(0, len(res), chunk_len)` -/

def chunkedAux {α : Type} (size : Nat) : Nat → List α → List (List α)
  | 0, _ => []
  | fuel + 1, l => if l.isEmpty then [] else l.take size :: chunkedAux size fuel (l.drop size)

/-- `size > 0` in every call of the code (10, 15, 5, or guarded by `if chunk_len`). -/
def chunked {α : Type} (size : Nat) (l : List α) : List (List α) := chunkedAux size l.length l

/-! ### `collapse_vlandb` (lib.py:114-137) -/

/-- the loop `for vlan in vlans[1::]` with `row = [lo, hi]`; returns `res` (with the final
`res.append(row)`) as `(x[0], x[1])` pairs -/
def collapseGo (tiny : Bool) : Nat → Nat → List Nat → List (Nat × Nat)
  | lo, hi, [] => [(lo, hi)]
  | lo, hi, v :: vs =>
    if hi + 1 = v then collapseGo tiny lo v vs                           -- row[1] == vlan - 1
    else if !tiny && hi = lo + 1 then                                     -- not tiny_ranges and row[1] - row[0] == 1
      (lo, lo) :: (hi, hi) :: collapseGo tiny v v vs
    else (lo, hi) :: collapseGo tiny v v vs

/-- `collapse_vlandb(vlans, sep, tiny_ranges)` before the string formatting of line 130:
`assert len(vlans) != 0`, `sorted(set(vlans))`, the loop. -/
def collapse (tiny : Bool) (vlans : List Nat) : Except Err (List (Nat × Nat)) :=
  if vlans.isEmpty then .error .assertion
  else match norm vlans with
    | [] => .error .assertion          -- unreachable: norm of a non-empty list is non-empty
    | v :: vs => .ok (collapseGo tiny v v vs)

/-- `collapse_vlandb(..., chunk_len)` : `chunk_len = 0` returns the flat list (one chunk here),
otherwise the chunks of line 134. -/
def collapseChunks (tiny : Bool) (chunkLen : Nat) (vlans : List Nat) : Except Err (List (List (Nat × Nat))) :=
  (collapse tiny vlans).map fun res => if chunkLen = 0 then [res] else chunked chunkLen res

/-! ### Huawei rows -/

/-- one blank-separated part of a Huawei row: a word, a decimal number (`str.isdigit()`), `to` -/
inductive HTok where
  | w (s : String)
  | n (v : Nat)
  | to
  deriving Repr, DecidableEq, Inhabited

abbrev HRow := List HTok

/-- `int(part)` -/
def HTok.int : HTok → Except Err Nat
  | .n v => .ok v
  | _ => .error .value

/-- line 130 with `range_sep = " to "`: `"%s to %s"` splits into three parts -/
def renderH (r : Nat × Nat) : HRow :=
  if r.1 ≠ r.2 then [.n r.1, .to, .n r.2] else [.n r.1]

/-- `" ".join(chunk)` of rendered items, as parts -/
def renderHs (rs : List (Nat × Nat)) : HRow := rs.flatMap renderH

/-- `huawei_expand_vlandb` (lib.py:58-68): the loop over `enumerate(row_parts)`.
`all` is the whole list (for Python's `row_parts[-1]` when `to` is the first part),
`prev` is `row_parts[index - 1]` when `index > 0`. -/
def hExpandGo (all : HRow) : Option HTok → HRow → Except Err (List Nat)
  | _, [] => .ok []
  | prev, .to :: rest => do
    let left ← match prev with
      | some p => p.int
      | none => match all.getLast? with
        | some p => p.int
        | none => .error .index
    let right ← match rest.head? with
      | some p => p.int
      | none => .error .index
    let more ← hExpandGo all (some .to) rest
    pure (List.range' (left + 1) (right - (left + 1)) ++ more)       -- range(left + 1, right)
  | _, .n v :: rest => do
    let more ← hExpandGo all (some (.n v)) rest
    pure (v :: more)
  | _, .w _ :: _ => .error .value

def huaweiExpand (parts : HRow) : Except Err (List Nat) := hExpandGo parts none parts

/-- `item.isdigit() or item == "to"` -/
def HTok.isNumTo : HTok → Bool
  | .w _ => false
  | _ => true

/-- `_parse_vlancfg` (huawei/vlandb.py:97-106): scan from the right for the first part that
is neither a number nor `to`; if there is none `index` ends at 0. -/
def hSplitAt (parts : HRow) : Nat :=
  let tail := (parts.reverse.takeWhile HTok.isNumTo).length
  if tail = parts.length then 1 else parts.length - tail

def hParseVlancfg (parts : HRow) : Except Err (HRow × List Nat) :=
  if parts.isEmpty then .error .assertion
  else
    let k := hSplitAt parts
    (huaweiExpand (parts.drop k)).map fun vl => (parts.take k, vl)

/-- `_parse_vlancfg_actions` (huawei/vlandb.py:88-94): last prefix, union of the parts -/
def hParseActions : List HRow → Except Err (Option HRow × List Nat)
  | [] => .ok (none, [])
  | r :: rs => do
    let (p, part) ← hParseVlancfg r
    let (p', more) ← hParseActions rs
    pure (match p' with | some q => some q | none => some p, part ++ more)

/-- `diff` of `make_pre` for one `(rule, key)`: `diff[Op.ADDED]` … (`Op.MOVED` is never read) -/
structure Buckets (ρ : Type) where
  added : List ρ
  removed : List ρ
  affected : List ρ
  unchanged : List ρ
  deriving Repr

/-- what a logic function yields: `(direct, row, children)` -/
structure Yield (ρ χ : Type) where
  direct : Bool
  row : ρ
  children : Option χ
  deriving Repr

/-- `"%s"` of a prefix that may be Python `None` -/
def pfxH : Option HRow → HRow
  | some p => p
  | none => [.w "None"]

/-- one of the two blocks `if removed: …` (lines 72-75) / `if added: …` (lines 77-80):
`collapse_vlandb(X)`, chunking when `multi`, one yield `(direct, mk(" ".join(chunk)), None)` per chunk -/
def hPart (multi : Bool) (chunk : Nat) (direct : Bool) (mk : HRow → HRow) (X : List Nat) :
    Except Err (List (Yield HRow Unit)) :=
  if X.isEmpty then .ok []
  else (collapse true X).map fun collapsed =>
    (if multi then chunked chunk collapsed else [collapsed]).map fun c =>
      (⟨direct, mk (renderHs c), none⟩ : Yield HRow Unit)

/-- `_process_vlandb` (huawei/vlandb.py:52-80).  `rev` = `rule["reverse"].format(*key)` as parts. -/
def hProcess (rev : HRow) (d : Buckets HRow) (multi multiAll : Bool) (chunk : Nat) :
    Except Err (List (Yield HRow Unit)) :=
  if !d.affected.isEmpty then .error .assertion                                    -- line 53
  else if !multi && (d.added.length > 1 || d.removed.length > 1) then .error .assertion  -- 54-56
  else if !d.removed.isEmpty && d.added.isEmpty && multi && multiAll && d.unchanged.isEmpty then
    .ok [⟨false, rev ++ [.w "all"], none⟩]                                          -- 58-62
  else if !d.removed.isEmpty && d.added.isEmpty && !(multi && multiAll) && !multi && !multiAll
      && d.unchanged.isEmpty then                                                   -- 63 (since 7d0d905: `and not diff[Op.UNCHANGED]`)
    .ok [⟨false, rev, none⟩]                                                        -- 64-65
  else do
    let (pa, new) ← hParseActions d.added                                           -- 67
    let (pd, old) ← hParseActions d.removed                                         -- 68
    let removed := sdiff old new                                                    -- 69
    let added := sdiff new old                                                      -- 70
    let ys1 ← hPart multi chunk false (fun t => [.w "undo"] ++ pfxH pd ++ t) removed  -- 72-75 "undo %s %s"
    let ys2 ← hPart multi chunk true (fun t => pfxH pa ++ t) added                    -- 77-80 "%s %s"
    pure (ys1 ++ ys2)

inductive HMode where
  | single | multi | multiAll
  deriving Repr, DecidableEq

/-- `single`, `multi`, `multi_all` (huawei/vlandb.py:10-19) -/
def hLogic (m : HMode) (rev : HRow) (d : Buckets HRow) : Except Err (List (Yield HRow Unit)) :=
  match m with
  | .single => hProcess rev d false false 0
  | .multi => hProcess rev d true false 10
  | .multiAll => hProcess rev d true true 10

/-! ### `vlan_diff` (huawei/vlandb.py:22-48) -/

inductive Op where
  | added | removed | affected | moved | unchanged
  deriving Repr, DecidableEq

/-- a `DiffItem` as far as `vlan_diff` looks at it: `op`, `row`, `bool(children)` -/
structure DItem where
  op : Op
  row : HRow
  hasChildren : Bool
  deriving Repr, DecidableEq

/-- lines 23-27: ids of all `vlan batch …` rows of `new` -/
def batchNew : List HRow → Except Err (List Nat)
  | [] => .ok []
  | r :: rs => do
    let (p, vl) ← hParseVlancfg r
    let more ← batchNew rs
    pure (if p = [.w "vlan", .w "batch"] then vl ++ more else more)

/-- lines 29-47, with the items `common.default_diff(old, new, …)` returned as a parameter -/
def vlanDiffItems (batch : List Nat) : List DItem → Except Err (List DItem)
  | [] => .ok []
  | it :: rest => do
    let (p, ids) ← hParseVlancfg it.row
    let more ← vlanDiffItems batch rest
    let hit := !(sinter batch ids).isEmpty
    if p = [.w "vlan"] && it.op = .removed && hit then
      pure ({ it with op := .affected } :: more)
    else if p = [.w "vlan"] && hit && !it.hasChildren then
      pure more
    else
      pure (it :: more)

def hVlanDiff (newRows : List HRow) (items : List DItem) : Except Err (List DItem) := do
  let batch ← batchNew newRows
  vlanDiffItems batch items

/-! ### Cisco rows -/

/-- one word of a Cisco row after `re.sub(r",\s+", ",", row).split()`: a plain word
(`none` and `add` are plain words) or a VLAN spec `[\d,-]+`, given as its comma separated
parts, each part as its dash separated ints. -/
inductive CTok where
  | w (s : String)
  | spec (parts : List (List Nat))
  deriving Repr, DecidableEq, Inhabited

abbrev CRow := List CTok

/-- `cisco_expand_vlandb` (lib.py:71-82) -/
def ciscoExpand : List (List Nat) → Except Err (List Nat)
  | [] => .ok []
  | [a] :: rest => do
    let more ← ciscoExpand rest
    pure (a :: more)
  | [a, b] :: rest => do
    let more ← ciscoExpand rest
    pure (List.range' a (b + 1 - a) ++ more)          -- range(left, right + 1)
  | _ :: _ => .error .assertion                       -- assert len(range_parts) in (1, 2)

/-- line 130 with `range_sep = "-"` -/
def renderC (r : Nat × Nat) : List Nat :=
  if r.1 ≠ r.2 then [r.1, r.2] else [r.1]

/-- `",".join(chunk)` is one word -/
def renderCs (rs : List (Nat × Nat)) : CTok := .spec (rs.map renderC)

/-- `_parse_vlancfg` (cisco/vlandb.py:79-90) -/
def cParseVlancfg (words : CRow) : Except Err (CRow × List Nat) :=
  match words.reverse with
  | [] => .error .index                                                  -- words[-1]
  | .w s :: revInit =>
    if s = "none" then .ok (revInit.reverse, []) else .error .assertion  -- 83-86
  | .spec parts :: revInit =>
    match revInit with
    | [] => .error .index                                                -- words[-2]
    | t :: revInit2 =>
      let pfx := if t = .w "add" then revInit2.reverse else revInit.reverse
      (ciscoExpand parts).map fun vl => (pfx, vl)

/-- `{"row": …, "children": …}` ; `children = none` is the empty (falsy) dict -/
structure CAction (χ : Type) where
  row : CRow
  children : Option χ
  deriving Repr

/-- `blocks[k] = v` on an insertion-ordered dict -/
def assocSet {χ : Type} (k : Nat) (v : χ) : List (Nat × χ) → List (Nat × χ)
  | [] => [(k, v)]
  | (k', v') :: rest => if k' = k then (k, v) :: rest else (k', v') :: assocSet k v rest

structure CParsed (χ : Type) where
  pfx : Option CRow
  vl : List Nat
  blocks : List (Nat × χ)

/-- `_parse_vlancfg_actions` (cisco/vlandb.py:66-76), as a left fold over the actions -/
def cParseActionsGo {χ : Type} : List (CAction χ) → CParsed χ → Except Err (CParsed χ)
  | [], acc => .ok acc
  | a :: rest, acc => do
    let (p, part) ← cParseVlancfg a.row
    let blocks ← match a.children with
      | none => pure acc.blocks
      | some ch =>
        match norm part with
        | [v] => pure (assocSet v ch acc.blocks)
        | _ => .error .assertion                     -- vlandb block must contain one and only one vlanid
    cParseActionsGo rest ⟨some p, acc.vl ++ part, blocks⟩

def cParseActions {χ : Type} (as : List (CAction χ)) : Except Err (CParsed χ) :=
  cParseActionsGo as ⟨none, [], []⟩

def pfxC : Option CRow → CRow
  | some p => p
  | none => [.w "None"]

/-- lines 30-31: `if not prefix: prefix = prefix2` (`None` and `""` are falsy) -/
def pickPfx (p1 p2 : Option CRow) : Option CRow :=
  match p1 with
  | some [] => p2
  | some p => some p
  | none => p2

/-- one of the two blocks `if removed: …` (lines 47-50) / `if added: …` (lines 52-55) -/
def cPart {χ : Type} (tiny : Bool) (chunk : Nat) (direct : Bool) (mk : CTok → CRow) (X : List Nat) :
    Except Err (List (Yield CRow χ)) :=
  if X.isEmpty then .ok []
  else (collapse tiny X).map fun collapsed =>
    (chunked chunk collapsed).map fun c => (⟨direct, mk (renderCs c), none⟩ : Yield CRow χ)

/-- `_process_vlandb` (cisco/vlandb.py:22-58).  `catalyst` = truthiness of `hw.Catalyst`; note that
the code passes it as `tiny_ranges` (`collapse_vlandb(removed, hw.Catalyst)`).
The `for vlan_id in (set …)` of line 37 iterates a Python set; the model emits ascending ids and the
comparison canonicalises the order inside runs of block yields. -/
def cProcess {χ : Type} (d : Buckets (CAction χ)) (catalyst explicit : Bool) (chunk : Nat) :
    Except Err (List (Yield CRow χ)) := do
  let ys0 : List (Yield CRow χ) := d.affected.map fun a => ⟨true, a.row, a.children⟩   -- 24-26
  let pn ← cParseActions d.added                                                        -- 28
  let po ← cParseActions d.removed                                                      -- 29
  let pfx := pickPfx pn.pfx po.pfx                                                      -- 30-31
  if d.added.length = 1 && pn.vl.isEmpty then                                           -- 33-36 (`len(new) == 0`)
    pure (ys0 ++ [⟨true, pfxC pfx ++ [.w "none"], none⟩])
  else
    let gone := (norm (po.blocks.map (·.1))).filter fun v =>                            -- 37-39
      !(pn.blocks.map (·.1)).contains v && pn.vl.contains v
    let ys1 : List (Yield CRow χ) := gone.filterMap fun v =>
      (po.blocks.lookup v).map fun ch => ⟨true, pfxC pfx ++ [.spec [[v]]], some ch⟩
    let removed := sdiff po.vl pn.vl
    let added0 := sdiff pn.vl po.vl
    let added := if catalyst then sdiff added0 (pn.blocks.map (·.1)) else added0        -- 43-45
    let ys2 ← cPart catalyst chunk false                                                -- 47-50
      (fun t => [.w "no"] ++ pfxC pfx ++ (if explicit then [.w "remove"] else []) ++ [t]) removed
    let ys3 ← cPart catalyst chunk true                                                 -- 52-55
      (fun t => pfxC pfx ++ (if explicit then [.w "add"] else []) ++ [t]) added
    let ys4 : List (Yield CRow χ) := pn.blocks.map fun (v, ch) =>                       -- 56-58
      ⟨true, pfxC pfx ++ [.spec [[v]]], some ch⟩
    pure (ys0 ++ ys1 ++ ys2 ++ ys3 ++ ys4)

inductive CMode where
  | simple | swtrunk
  deriving Repr, DecidableEq

/-- `simple`, `swtrunk` (cisco/vlandb.py:13-18); `VLANDB_CHUNK = 15`, `SWTRUNK_CHUNK = 5` -/
def cLogic {χ : Type} (m : CMode) (catalyst : Bool) (d : Buckets (CAction χ)) :
    Except Err (List (Yield CRow χ)) :=
  match m with
  | .simple => cProcess d catalyst false 15
  | .swtrunk => cProcess d catalyst true 5

/-! ### bucketing of the leaf rows of one `(rule, key)` group

`base_diff` with `moved_to_affected=True` inside an unchanged (AFFECTED) parent gives
`REMOVED` to the old rows that are not in `new` (old order), `ADDED` to the new rows that are not
in `old`, and the parent's op (`AFFECTED`) to the rest; `mark_unchanged` turns a childless
`AFFECTED` into `UNCHANGED`; `make_pre` appends each row to the bucket of its op. -/
def leafBuckets {ρ : Type} [BEq ρ] (old new : List ρ) : Buckets ρ :=
  { removed := old.filter fun r => !new.contains r
    added := new.filter fun r => !old.contains r
    affected := []
    unchanged := new.filter fun r => old.contains r }

def Buckets.map {ρ σ : Type} (f : ρ → σ) (b : Buckets ρ) : Buckets σ :=
  { added := b.added.map f, removed := b.removed.map f, affected := b.affected.map f,
    unchanged := b.unchanged.map f }

/-- a leaf row as the `{"row": …, "children": odict()}` entry `make_pre` builds -/
def leafAction {χ : Type} (r : CRow) : CAction χ := { row := r, children := none }

/-- the two vendors' logics applied to the leaf rows `old`/`new` of one `(rule, key)` -/
def hLeaf (m : HMode) (rev : HRow) (old new : List HRow) : Except Err (List (Yield HRow Unit)) :=
  hLogic m rev (leafBuckets old new)

def cLeaf {χ : Type} (m : CMode) (catalyst : Bool) (old new : List CRow) : Except Err (List (Yield CRow χ)) :=
  cLogic m catalyst ((leafBuckets old new).map leafAction)

/-! ### port-channel members (cisco/iface.py:5-10, 39-66; nexus/iface.py:8-12, 45-66)

Before the rows of an interface block reach the VLAN logic, the interface diff logic of the vendor deletes, from each side
that has a `channel-group` row, every command that is not allowed on a port-channel member (they are taken to be inherited
from the port-channel).  Cisco IOS's list has `switchport host` only — a member's `switchport trunk allowed vlan …` rows are
deleted; NX-OS's list has `switchport`. -/
inductive IfaceDiff where
  | cisco | nexus
  deriving Repr, DecidableEq

/-- is a `switchport trunk allowed vlan …` row kept by `_is_allowed_on_channel`? -/
def switchportAllowedOnMember : IfaceDiff → Bool
  | .cisco => false
  | .nexus => true

/-- `_filter_channel_members` seen from the VLAN rows of one side -/
def memberRows (d : IfaceDiff) (member : Bool) (rows : List CRow) : List CRow :=
  if member && !switchportAllowedOnMember d then [] else rows

/-- the VLAN logic of an interface block whose sides may be port-channel members -/
def cLeafIface {χ : Type} (d : IfaceDiff) (m : CMode) (catalyst oldMember newMember : Bool) (old new : List CRow) :
    Except Err (List (Yield CRow χ)) :=
  cLeaf m catalyst (memberRows d oldMember old) (memberRows d newMember new)

end Annet.Vlan
