/-
L4 — the diff: `apply_diff_rb`, `call_diff_logic`, `base_diff`, `default_diff`,
`ordered_diff`, `rewrite_diff`, `mark_unchanged`, `strip_unchanged`, `make_diff`
(annet/annlib/patching.py:298-349, annet/annlib/rulebook/common.py:128-253).

Data-flow note.  `apply_diff_rb(old, new, rb)` walks `uniq(old, new)`, matches every
row against the rules reached along its path, records the match in `diff_pre` and pops
unknown rows from (copies of) `old` and `new`.  The match of a row depends only on the
row and those rules, never on the side it came from, so the model *annotates each side
separately* (`annotate`): an `ACfg` is a config restricted to known rows, each row
carrying its match — exactly `old`/`new` after the pops, with `diff_pre[row]["match"]`
attached.  `diff_pre[row]["subtree"]` is then implicit.

Nested recursion goes through `old[row]` and `new[row]` at once, so the recursive
functions take a fuel argument (any fuel ≥ depth old + depth new + 1 gives the same
result; `makeDiff` passes exactly that).

Core Lean only.
-/
import AnnetModel.Model.Rules

namespace Annet.Diff
open Annet.Rules

inductive Op where
  | added | removed | affected | moved | unchanged
  deriving Repr, DecidableEq, Inhabited

/-- the Python string constants; `diff_indexed.sort()` falls back to comparing them -/
def Op.name : Op → String
  | .added => "added" | .removed => "removed" | .affected => "affected"
  | .moved => "moved" | .unchanged => "unchanged"

/-- rank of `Op.name` in string order: added < affected < moved < removed < unchanged -/
def Op.rank : Op → Nat
  | .added => 0 | .affected => 1 | .moved => 2 | .removed => 3 | .unchanged => 4

/-- config restricted to rows some non-ignore rule knows, each row with its match -/
inductive ACfg where
  | mk : List (String × PMatch × ACfg) → ACfg
  deriving Repr, Inhabited

def ACfg.kids : ACfg → List (String × PMatch × ACfg) | .mk ks => ks

inductive DItem where
  | mk (op : Op) (row : String) (children : List DItem) (m : PMatch)
  deriving Repr, Inhabited

namespace DItem
def op : DItem → Op | mk o _ _ _ => o
def row : DItem → String | mk _ r _ _ => r
def children : DItem → List DItem | mk _ _ c _ => c
def m : DItem → PMatch | mk _ _ _ m => m
end DItem

inductive Err where
  | grammar            -- a rule row outside the modelled grammar
  | unmodelledLogic (name : String)
  | assertion (what : String)
  deriving Repr, DecidableEq, Inhabited

mutual
  /-- one side of `apply_diff_rb` -/
  def annotate (rules : PRules) : Cfg → Except Err ACfg
    | .mk ks => (annotateList rules ks).map ACfg.mk
  def annotateList (rules : PRules) : List (String × Cfg) → Except Err (List (String × PMatch × ACfg))
    | [] => .ok []
    | (row, ch) :: rest =>
      match matchRow row rules with
      | .grammar => .error .grammar
      | .nomatch => annotateList rules rest
      | .found m cr =>
        match annotate cr ch with
        | .error e => .error e
        | .ok ch' =>
          match annotateList rules rest with
          | .error e => .error e
          | .ok rest' => .ok ((row, m, ch') :: rest')
end

/-- an element of the `_pops` tuple -/
inductive Pop where
  | op (o : Op)
  | rewriteMarker
  deriving Repr, DecidableEq, Inhabited

def lastOp (pops : List Pop) : Op :=
  match pops.getLast? with
  | some (.op o) => o
  | _ => .affected

def lookupA (l : List (String × PMatch × ACfg)) (row : String) : Option (PMatch × ACfg) :=
  (l.find? (·.1 == row)).map (·.2)

def hasRow (l : List (String × PMatch × ACfg)) (row : String) : Bool := l.any (·.1 == row)

def indexOf (l : List (String × PMatch × ACfg)) (row : String) : Nat :=
  (l.takeWhile (·.1 != row)).length

/-- `diff_indexed.sort()` key: `(index, op string, row)` — insertion into a sorted list, after equals -/
def insertIdx (x : Nat × DItem) : List (Nat × DItem) → List (Nat × DItem)
  | [] => [x]
  | y :: ys =>
    let lt := x.1 < y.1 || (x.1 == y.1 && (x.2.op.rank < y.2.op.rank ||
                (x.2.op.rank == y.2.op.rank && x.2.row < y.2.row)))
    if lt then x :: y :: ys else y :: insertIdx x ys

def sortIdx (l : List (Nat × DItem)) : List (Nat × DItem) := l.foldl (fun acc x => insertIdx x acc) []

/-- distinct diff-logic names in order of first appearance (old rows, then new rows) -/
def logicsOf (old new : List (String × PMatch × ACfg)) : List String :=
  ((old ++ new).map (·.2.1.attrs.diffLogic)).eraseDups

mutual
  /-- all items at every depth are AFFECTED (`rewrite_diff`'s "nothing changed" test) -/
  def allAffected : List DItem → Bool
    | [] => true
    | i :: rest => allAffectedItem i && allAffected rest
  def allAffectedItem : DItem → Bool
    | .mk o _ ch _ => o == .affected && allAffected ch
end

mutual
  /-- AFFECTED → MOVED at every depth -/
  def affectedToMoved : List DItem → List DItem
    | [] => []
    | i :: rest => affectedToMovedItem i :: affectedToMoved rest
  def affectedToMovedItem : DItem → DItem
    | .mk o r ch m => .mk (if o == .affected then .moved else o) r (affectedToMoved ch) m
end

/-- the recursive call `call_diff_logic(subtree, old[row], new[row], pops + (op,))`, abstracted -/
abbrev Rec := List Pop → List (String × PMatch × ACfg) → List (String × PMatch × ACfg) → Except Err (List DItem)

/-- first loop of `base_diff`: rows of `old` absent from `new`, with their old index -/
def removedItems (rec : Rec) (pops : List Pop) (new : List (String × PMatch × ACfg)) :
    Nat → List (String × PMatch × ACfg) → Except Err (List (Nat × DItem))
  | _, [] => .ok []
  | idx, (row, m, ch) :: rest =>
    if hasRow new row then removedItems rec pops new (idx + 1) rest
    else
      match rec (pops ++ [.op .removed]) ch.kids [] with
      | .error e => .error e
      | .ok cs =>
        match removedItems rec pops new (idx + 1) rest with
        | .error e => .error e
        | .ok more => .ok ((idx, .mk .removed row cs m) :: more)

/-- second loop of `base_diff`: every row of `new`, with `block_in_disorder` threaded through -/
def newItems (rec : Rec) (pops : List Pop) (m2a : Bool) (old : List (String × PMatch × ACfg)) :
    Nat → Bool → List (String × PMatch × ACfg) → Except Err (List (Nat × DItem))
  | _, _, [] => .ok []
  | idx, disorder, (row, m, ch) :: rest =>
    let parentOp := lastOp pops
    let (op, disorder') :=
      if !hasRow old row then (Op.added, true)
      else if disorder || idx != indexOf old row then ((if m2a then parentOp else Op.moved), true)
      else (parentOp, disorder)
    let oldCh := match lookupA old row with
      | some (_, c) => c.kids
      | none => []
    match rec (pops ++ [.op op]) oldCh ch.kids with
    | .error e => .error e
    | .ok cs =>
      match newItems rec pops m2a old (idx + 1) disorder' rest with
      | .error e => .error e
      | .ok more => .ok ((idx, .mk op row cs m) :: more)

/-- `base_diff(old, new, diff_pre, pops, moved_to_affected)` (common.py:197-233) -/
def baseDiff (rec : Rec) (pops : List Pop) (m2a : Bool) (old new : List (String × PMatch × ACfg)) :
    Except Err (List DItem) :=
  match removedItems rec pops new 0 old, newItems rec pops m2a old 0 false new with
  | .error e, _ => .error e
  | _, .error e => .error e
  | .ok rs, .ok ns => .ok ((sortIdx (rs ++ ns)).map (·.2))

/-- one diff logic applied to its group of rows -/
def runLogic (rec : Rec) (pops : List Pop) (l : String) (o n : List (String × PMatch × ACfg)) :
    Except Err (List DItem) :=
  if l == "common.default_diff" then baseDiff rec pops true o n
  else if l == "common.ordered_diff" then baseDiff rec pops false o n
  else if l == "common.rewrite_diff" then
    -- rewrite_diff (common.py:147-172)
    let tail : List Pop := [.rewriteMarker, .op (lastOp pops)]
    match baseDiff rec (pops ++ tail) false o n with
    | .error e => .error e
    | .ok d =>
      if pops.contains .rewriteMarker then .ok d
      else if allAffected d then .ok []
      else .ok (affectedToMoved d)
  else .error (.unmodelledLogic l)

/-- the loop `for logic, (old, new) in diff_logics.items()` of `call_diff_logic` -/
def runLogics (rec : Rec) (pops : List Pop) (old new : List (String × PMatch × ACfg)) :
    List String → Except Err (List DItem)
  | [] => .ok []
  | l :: ls =>
    match runLogic rec pops l (old.filter (·.2.1.attrs.diffLogic == l)) (new.filter (·.2.1.attrs.diffLogic == l)) with
    | .error e => .error e
    | .ok d =>
      match runLogics rec pops old new ls with
      | .error e => .error e
      | .ok ds => .ok (d ++ ds)

/-- `call_diff_logic(diff_pre, old, new, pops)`; fuel bounds the nesting depth -/
def callDiffLogic : Nat → Rec
  | 0, _, _, _ => .ok []
  | fuel + 1, pops, old, new => runLogics (callDiffLogic fuel) pops old new (logicsOf old new)

mutual
  /-- `mark_unchanged` (patching.py:298-306) -/
  def markUnchanged : List DItem → List DItem
    | [] => []
    | i :: rest => markItem i :: markUnchanged rest
  def markItem : DItem → DItem
    | .mk o r ch m =>
      if o == .affected then
        .mk (if (markUnchanged ch).all (·.op == .unchanged) then .unchanged else .affected) r (markUnchanged ch) m
      else .mk o r ch m
end

mutual
  /-- `strip_unchanged` (patching.py:309-316) -/
  def stripUnchanged : List DItem → List DItem
    | [] => []
    | i :: rest => if i.op == .unchanged then stripUnchanged rest else stripItem i :: stripUnchanged rest
  def stripItem : DItem → DItem
    | .mk o r ch m => .mk o r (stripUnchanged ch) m
end

mutual
  def adepth : ACfg → Nat
    | .mk ks => adepthL ks
  def adepthL : List (String × PMatch × ACfg) → Nat
    | [] => 0
    | (_, _, c) :: rest => max (1 + adepth c) (adepthL rest)
end

/-- `make_diff(old, new, rb, [])` (no ACL): annotate both sides, run the diff logics, mark unchanged -/
def makeDiff (rules : PRules) (old new : Cfg) : Except Err (List DItem) :=
  match annotate rules old, annotate rules new with
  | .error e, _ => .error e
  | _, .error e => .error e
  | .ok o, .ok n =>
    match callDiffLogic (adepth o + adepth n + 2) [.op .affected] o.kids n.kids with
    | .error e => .error e
    | .ok d => .ok (markUnchanged d)

end Annet.Diff
