/-
C15 — mesh model, part 1: the merge algebra of `annet/mesh/basemodel.py`.

Mirrors, function by function:
* `Merger.__call__` with `Special.NOT_SET`            basemodel.py:20-29   → `mergeOpt`
* `UseFirst/UseLast/Forbid/ForbidChange/Concat/Unite` basemodel.py:32-66   → `mergeVal` (leaf cases)
* `Merge._merge` = `merge(x, y)`                      basemodel.py:68-70   → `mergeVal (.merge t)`
* `DictMerge._merge`                                  basemodel.py:73-84   → `dictMergeWith`
* `_merge(a, b)` (loop over `a._field_mergers`)       basemodel.py:139-150 → `mergeFields`
* `merge(first, *others)`                             basemodel.py:168-175 → `mergeMany`

Representation.  A model instance (`BaseMeshModel`) is the association list of
its *set* attributes (`vars(self)`); an unset attribute (`Special.NOT_SET`) is an
absent key.  `_field_mergers` of a class is a `Table`; for a field annotated
`Merge()` the table of the nested class is carried by the merger itself
(`Merger.merge t`): Python finds it at run time as `x._field_mergers`.
Scalars (int, str, bool, None, frozen dataclasses such as `BFDTimers`,
`Redistribute`) are atoms compared by `==`; the harness encodes them as tagged
strings.  Python sets are lists read as sets; tuples/lists of scalars are `seq`.

Not modelled: `ApplyFunc` (an arbitrary callable; no declared field uses it);
`ForbidChange` on a `BaseMeshModel` or `dict` value (Python would compare object
identity / dict equality; no declared field does this): `MergeErr.unsupported`.
An operand of the wrong shape (e.g. `Unite` on an int) is `MergeErr.typeError`
(Python raises `TypeError` or computes something on ints; out of the domain).

Core Lean only.
-/
namespace Annet.Mesh

/-- `basemodel.py:20-84`: the merger classes. `merge t` = `Merge()` on a field whose
class has `_field_mergers = t`; `dictMerge vm` = `DictMerge(vm)`. -/
inductive Merger where
  | forbidChange
  | useFirst
  | useLast
  | forbid
  | unite
  | concat
  | merge (table : List (String × Merger))
  | dictMerge (vm : Merger)
  deriving Repr, Inhabited

abbrev Table := List (String × Merger)

/-- Values of model attributes. -/
inductive Val where
  | atom (s : String)
  | set (xs : List String)
  | seq (xs : List String)
  | model (fs : List (String × Val))
  | dict (kvs : List (String × Val))
  deriving Repr, Inhabited

abbrev Fields := List (String × Val)

/-- `MergeForbiddenError` is `forbidden`; the other two are out-of-domain markers (see header). -/
inductive MergeErr where
  | forbidden
  | typeError
  | unsupported
  deriving Repr, DecidableEq, Inhabited

/-- `getattr(obj, name, Special.NOT_SET)` / `d.get(k)` : first binding. -/
def lookup {κ α : Type} [DecidableEq κ] (k : κ) : List (κ × α) → Option α
  | [] => none
  | (k', v) :: rest => if k' = k then some v else lookup k rest

def hasKey {κ α : Type} [DecidableEq κ] (k : κ) (l : List (κ × α)) : Bool := (lookup k l).isSome

/-- Python `set.__eq__`. -/
def setEq (a b : List String) : Bool := a.all (b.contains ·) && b.all (a.contains ·)

/-- Python `x == y` for the value shapes a `ForbidChange` field can hold. -/
def leafEq : Val → Val → Option Bool
  | .atom a, .atom b => some (a == b)
  | .set a, .set b => some (setEq a b)
  | .seq a, .seq b => some (a == b)
  | .atom _, .set _ => some false
  | .atom _, .seq _ => some false
  | .set _, .atom _ => some false
  | .set _, .seq _ => some false
  | .seq _, .atom _ => some false
  | .seq _, .set _ => some false
  | _, _ => none

/-- `x | y` on sets (`Unite._merge`, basemodel.py:63-65); the result lists `x` first, then the new
members of `y` (any enumeration of the union is the same Python set). -/
def setUnion (a b : List String) : List String := a ++ b.filter (fun s => !a.contains s)

/-- `if key in d: d[key] = f(d[key], value) else: d[key] = value` on an insertion-ordered dict:
replace in place when present, append otherwise.  Used for `DictMerge._merge` (basemodel.py:79-83)
and for the `peers[peer_key]` dicts of the executor (executor.py:172-189, 286-301). -/
def upsertWith {κ α ε : Type} [DecidableEq κ] (f : α → α → Except ε α) (k : κ) (v : α) :
    List (κ × α) → Except ε (List (κ × α))
  | [] => .ok [(k, v)]
  | (k', w) :: rest =>
    if k' = k then (f w v).map fun r => (k', r) :: rest
    else (upsertWith f k v rest).map fun rest' => (k', w) :: rest'

/-- the loop body of `DictMerge._merge` for one `(key, value)` of `y` -/
abbrev dictUpsert (f : Val → Val → Except MergeErr Val) (k : String) (v : Val) :
    List (String × Val) → Except MergeErr (List (String × Val)) := upsertWith f k v

/-- `DictMerge._merge` (basemodel.py:77-84): `result = copy(x); for key, value in y.items(): …`. -/
def dictMergeWith (f : Val → Val → Except MergeErr Val) (x : List (String × Val)) :
    List (String × Val) → Except MergeErr (List (String × Val))
  | [] => .ok x
  | (k, v) :: rest => do
    let x' ← dictUpsert f k v x
    dictMergeWith f x' rest

/-- `Merger.__call__` (basemodel.py:21-26) given the `_merge` of the concrete class. -/
def mergeOptWith (f : Val → Val → Except MergeErr Val) : Option Val → Option Val → Except MergeErr (Option Val)
  | none, y => .ok y
  | some x, none => .ok (some x)
  | some x, some y => (f x y).map some

mutual
  /-- `Merger._merge(name, x, y)` for each merger class, both operands set. -/
  def mergeVal : Merger → Val → Val → Except MergeErr Val
    | .forbidChange, x, y =>
      match leafEq x y with
      | some true => .ok x
      | some false => .error .forbidden
      | none => .error .unsupported
    | .useFirst, x, _ => .ok x
    | .useLast, _, y => .ok y
    | .forbid, _, _ => .error .forbidden
    | .unite, .set a, .set b => .ok (.set (setUnion a b))
    | .unite, _, _ => .error .typeError
    | .concat, .seq a, .seq b => .ok (.seq (a ++ b))
    | .concat, _, _ => .error .typeError
    | .merge t, .model a, .model b => (mergeFields t a b).map .model
    | .merge _, _, _ => .error .typeError
    | .dictMerge vm, .dict a, .dict b => (dictMergeWith (mergeVal vm) a b).map .dict
    | .dictMerge _, _, _ => .error .typeError
  /-- `_merge(a, b)` (basemodel.py:139-150): one pass over `a._field_mergers`; every field is merged
  with `merger(name, getattr(a,…,NOT_SET), getattr(b,…,NOT_SET))` and set on the result unless
  `NOT_SET`.  Attributes of `b` outside the table are ignored; the result lists the set attributes
  in table order (attribute order is not observable in Python). -/
  def mergeFields : Table → Fields → Fields → Except MergeErr Fields
    | [], _, _ => .ok []
    | (f, m) :: t, a, b => do
      let r ← mergeOptWith (mergeVal m) (lookup f a) (lookup f b)
      let rest ← mergeFields t a b
      match r with
      | none => pure rest
      | some v => pure ((f, v) :: rest)
end

/-- `merger(name, x, y)` with `NOT_SET` handling. -/
def mergeOpt (m : Merger) : Option Val → Option Val → Except MergeErr (Option Val) :=
  mergeOptWith (mergeVal m)

/-- `merge(first, *others)` (basemodel.py:168-175) for a set `first`: left fold of `_merge`. -/
def mergeMany (t : Table) (first : Fields) : List Fields → Except MergeErr Fields
  | [] => .ok first
  | second :: others => do
    let r ← mergeFields t first second
    mergeMany t r others

end Annet.Mesh
