/-
C14 — the shipped routing-policy generators, Huawei and Arista back-ends.

Mirrors, function by function (file:lines of /repo at HEAD):
  * annet/rpl/condition.py, action.py, policy.py, result.py, match_builder.py, statement_builder.py
      — the *built* objects (`RoutingPolicy`, `RoutingPolicyStatement`, `SingleCondition`, `SingleAction`,
        `CommunityActionValue`, `AsPathActionValue`, `NextHopActionValue`, `PrefixMatchValue`); the builder
        itself (`RouteMap.apply`, `merge_conditions`, `StatementBuilder`) is executed by the harness, not modelled
  * annet/rpl_generators/entities.py:27-137  (`CommunityList`, `RDFilter`, `AsPathFilter`, `IpPrefixList`,
        `arista_well_known_community`, `mangle_united_community_list_name`, `PrefixListNameGenerator`,
        `group_community_members`)
  * annet/rpl_generators/policy.py:19-791     (`RoutingPolicyGenerator`: `_huawei_*`, `_arista_*`, `run_*`)
  * annet/rpl_generators/prefix_lists.py:23-122, community.py:12-241, aspath.py:10-57, rd.py:11-40

Every generator is a *stream with a possible error*: `Out α = List α × Option Err` — the rows yielded before the
exception are kept, which is what makes "an error before any line" expressible.

Strings are `List Char` (`Str`); a yielded tuple is the list of its flattened items (`List Str`) — the row text is
`" ".join(items)` (`joinSp`).  Integers arrive as their `str()` (statement numbers, metric values, ...).

Core Lean only.
-/
namespace Annet.Rpl

abbrev Str := List Char

/-- exception classes raised by the generators -/
inductive Err where
  | notImplemented | runtime | value | key | index | attribute | invalidYield
  | unmodelled          -- a value shape the builder API cannot produce (not an annet error)
  deriving Repr, DecidableEq, Inhabited

/-- a generator run: rows yielded so far, and the exception that ended it (if any) -/
abbrev Out (α : Type) := List α × Option Err

def emit {α : Type} (ls : List α) : Out α := (ls, none)
def fail {α : Type} (e : Err) : Out α := ([], some e)

/-- run `a`, then (only if it did not raise) `b` -/
def Out.seq {α : Type} (a b : Out α) : Out α :=
  match a.2 with
  | some _ => a
  | none => (a.1 ++ b.1, b.2)

def seqAll {α : Type} : List (Out α) → Out α
  | [] => ([], none)
  | o :: os => o.seq (seqAll os)

def Out.mapRows {α β : Type} (f : α → β) (o : Out α) : Out β := (o.1.map f, o.2)

/-- `raise e` if `c` -/
def raiseIf {α : Type} (c : Bool) (e : Err) : Out α := if c then fail e else emit []

def ofExcept {α : Type} (x : Except Err (List α)) : Out α :=
  match x with
  | .ok l => emit l
  | .error e => fail e

/-- rows collected in a list and yielded only at the end (`rows.append(...)`, then `yield from rows`): an exception
anywhere means no row at all -/
def allOrNothing {α : Type} (o : Out α) : Out α :=
  match o.2 with
  | some e => fail e
  | none => o

/-! ### strings -/

def s (x : String) : Str := x.toList

/-- `" ".join(items)` -/
def joinSp : List Str → Str
  | [] => []
  | [w] => w
  | w :: ws => w ++ ' ' :: joinSp ws

/-- `sep.join(items)` -/
def joinWith (sep : Str) : List Str → Str
  | [] => []
  | [w] => w
  | w :: ws => w ++ sep ++ joinWith sep ws

/-- `str(n)` for a natural number -/
def natStr (n : Nat) : Str := Nat.toDigits 10 n

/-- code point order on strings (Python `<` on `str`) -/
def strLt : Str → Str → Bool
  | [], [] => false
  | [], _ :: _ => true
  | _ :: _, [] => false
  | a :: as, b :: bs => a.toNat < b.toNat || (a == b && strLt as bs)

/-- insert into a strictly sorted list (no duplicates) -/
def insertSorted (x : Str) : List Str → List Str
  | [] => [x]
  | y :: ys => if x == y then y :: ys else if strLt x y then x :: y :: ys else y :: insertSorted x ys

/-- `sorted(set(names))` -/
def sortedSet (names : List Str) : List Str := names.foldl (fun acc n => insertSorted n acc) []

/-! ### entities (entities.py:27-70) -/

inductive CType where
  | basic | rt | soo | cost | large
  deriving Repr, DecidableEq, Inhabited

inductive Logic where
  | and | or
  deriving Repr, DecidableEq, Inhabited

structure CommList where
  name : Str
  members : List Str
  type : CType := .basic
  logic : Logic := .or
  useRegex : Bool := false
  deriving Repr, DecidableEq, Inhabited

structure RdFilter where
  name : Str
  number : Str          -- `str(number)`
  members : List Str
  deriving Repr, DecidableEq, Inhabited

structure AsPathFilter where
  name : Str
  filters : List Str
  deriving Repr, DecidableEq, Inhabited

/-- `IpPrefixListMember`: `net = str(prefix)`, `addr = str(prefix.network_address).upper()`,
`len = str(prefix.prefixlen)`, `ge, le = or_longer` (as `str`) -/
structure PlMember where
  net : Str
  addr : Str
  len : Str
  ge : Option Str
  le : Option Str
  deriving Repr, DecidableEq, Inhabited

structure PrefixList where
  name : Str
  members : List PlMember
  deriving Repr, DecidableEq, Inhabited

/-! ### built policies (rpl/*.py) -/

inductive MField where
  | community | largeCommunity | extcommunityRt | extcommunitySoo | rd | interface | protocol | netLen
  | localPref | metric | family | asPathLength | asPathFilter | ipv6Prefix | ipPrefix
  deriving Repr, DecidableEq, Inhabited

inductive Op where
  | eq | ge | gt | le | lt | betweenIncluded | has | hasAny | custom
  deriving Repr, DecidableEq, Inhabited

/-- `SingleCondition.value` as the builder produces it -/
inductive CVal where
  | names (l : List Str)                            -- `has(*values)` / `has_any(*values)`
  | pfx (names : List Str) (a b : Option Str)       -- `PrefixMatchValue(names, or_longer=(a, b))`
  | pair (a b : Str)                                -- BETWEEN_INCLUDED
  | scalar (v : Str)                                -- `str(value)`
  deriving Repr, DecidableEq, Inhabited

structure Cond where
  field : MField
  op : Op
  val : CVal
  deriving Repr, DecidableEq, Inhabited

inductive TField where
  | community | largeCommunity | extcommunityRt | extcommunitySoo | extcommunity | asPath | localPref | metric
  | rpkiValidState | resolution | mplsLabel | metricType | origin | tag | nextHop
  deriving Repr, DecidableEq, Inhabited

inductive AType where
  | set | add | remove | custom
  deriving Repr, DecidableEq, Inhabited

/-- `CommunityActionValue` (statement_builder.py:37-44) -/
structure CommAct where
  replaced : Option (List Str)
  added : List Str
  removed : List Str
  deriving Repr, DecidableEq, Inhabited

/-- `AsPathActionValue` (statement_builder.py:67-79) -/
structure AsPathAct where
  set : Option (List Str)
  prepend : List Str
  expand : List Str
  expandLastAs : Str
  delete : List Str
  deriving Repr, DecidableEq, Inhabited

/-- `NextHopActionValue` (statement_builder.py:108-114) -/
structure NextHop where
  target : Str
  addr : Str
  deriving Repr, DecidableEq, Inhabited

inductive AVal where
  | comm (c : CommAct)
  | asPath (a : AsPathAct)
  | nextHop (n : NextHop)
  | scalar (v : Str)            -- `str(value)` of an int / str / bool value
  deriving Repr, DecidableEq, Inhabited

structure Action where
  field : TField
  type : AType
  val : AVal
  deriving Repr, DecidableEq, Inhabited

inductive Result where
  | allow | deny | next | nextPolicy
  deriving Repr, DecidableEq, Inhabited

structure Stmt where
  name : Option Str
  number : Option Str           -- `None` or `str(number)`
  result : Result
  conds : List Cond
  acts : List Action
  deriving Repr, DecidableEq, Inhabited

structure Policy where
  name : Str
  stmts : List Stmt
  deriving Repr, DecidableEq, Inhabited

structure Input where
  policies : List Policy
  clists : List CommList
  plists : List PrefixList
  aspaths : List AsPathFilter
  rds : List RdFilter
  deriving Repr, DecidableEq, Inhabited

/-- a row: the rows of the blocks it was yielded in (outermost first) and the flattened tuple -/
structure Line where
  path : List Str
  toks : List Str
  deriving Repr, DecidableEq, Inhabited

def Line.text (l : Line) : Str := joinSp l.toks

/-! ### dictionaries built by comprehension: the last binding of a name wins -/

def findLast {α : Type} (p : α → Bool) : List α → Option α
  | [] => none
  | x :: xs =>
    match findLast p xs with
    | some y => some y
    | none => if p x then some x else none

/-- `{c.name: c for c in lists}[name]` -/
def getComm (cl : List CommList) (n : Str) : Option CommList := findLast (·.name == n) cl
def getRd (l : List RdFilter) (n : Str) : Option RdFilter := findLast (·.name == n) l
def getAsPath (l : List AsPathFilter) (n : Str) : Option AsPathFilter := findLast (·.name == n) l
def getPl (l : List PrefixList) (n : Str) : Option PrefixList := findLast (·.name == n) l

/-- `[m for name in names for m in communities[name].members]` -/
def membersOf (cl : List CommList) : List Str → Except Err (List Str)
  | [] => .ok []
  | n :: ns =>
    match getComm cl n with
    | none => .error .key
    | some c =>
      match membersOf cl ns with
      | .error e => .error e
      | .ok ms => .ok (c.members ++ ms)

/-- `mangle_united_community_list_name` (entities.py:96-98) -/
def mangle (names : List Str) : Str := joinWith (s "_OR_") names

/-- `arista_well_known_community` (entities.py:90-93) -/
def aristaWellKnown (c : Str) : Str := if c == s "65535:0" then s "GSHUT" else c

/-- Python truthiness of an `Optional[int]` given as `str()` -/
def truthy : Option Str → Bool
  | none => false
  | some v => v != ['0']

/-- `PrefixListNameGenerator.get_prefix` (entities.py:106-127) -/
def getPrefix (pls : List PrefixList) (name : Str) (a b : Option Str) : Except Err PrefixList :=
  match getPl pls name with
  | none => .error .key
  | some orig =>
    if truthy a || truthy b then
      let ge := match a with | none => s "unset" | some v => v
      let le := match b with | none => s "unset" | some v => v
      .ok { name := orig.name ++ '_' :: ge ++ '_' :: le,
            members := orig.members.map fun m => { m with ge := a, le := b } }
    else .ok { name := name, members := orig.members }

/-- `group_community_members` (entities.py:130-137): a `defaultdict(list)` keyed by type, insertion ordered -/
def groupAdd (acc : List (CType × List Str)) (t : CType) (ms : List Str) : List (CType × List Str) :=
  if acc.any (·.1 == t) then acc.map fun e => if e.1 == t then (e.1, e.2 ++ ms) else e
  else acc ++ [(t, ms)]

def groupMembers (cl : List CommList) : List Str → List (CType × List Str) → Except Err (List (CType × List Str))
  | [], acc => .ok acc
  | n :: ns, acc =>
    match getComm cl n with
    | none => .error .key
    | some c => groupMembers cl ns (groupAdd acc c.type c.members)

/-! ## RoutingPolicyGenerator — Huawei (policy.py:83-411) -/

def condNames (c : Cond) : Option (List Str) :=
  match c.val with
  | .names l => some l
  | _ => none

/-- rows `(head, name)` for every name -/
def rowsFor (head : Str) (names : List Str) : List (List Str) := names.map fun n => [head, n]

/-- `HUAWEI_MATCH_COMMAND_MAP` (policy.py:19-24) -/
def huaweiMatchCmd : MField → Option Str
  | .asPathFilter => some (s "as-path-filter ")
  | .metric => some (s "cost ")
  | .protocol => some (s "protocol ")
  | .interface => some (s "interface ")
  | _ => none

/-- prefix-list rows of `_huawei_match` / `_arista_match` / cumulus: one per name, raising `KeyError` at the first
unknown name (after the rows of the names before it) -/
def pfxRows (pls : List PrefixList) (mk : Str → List Str) (a b : Option Str) : List Str → Out (List Str)
  | [] => emit []
  | n :: ns =>
    match getPrefix pls n a b with
    | .error e => fail e
    | .ok pl => (emit [mk pl.name]).seq (pfxRows pls mk a b ns)

/-- `as_path_length` rows (policy.py:152-165 / 495-509) -/
def asPathLenH (c : Cond) : Out (List Str) :=
  match c.op, c.val with
  | .eq, .scalar v => emit [[s "if-match", s "as-path length", v]]
  | .le, .scalar v => emit [[s "if-match", s "as-path length less-equal", v]]
  | .ge, .scalar v => emit [[s "if-match", s "as-path length greater-equal", v]]
  | .betweenIncluded, .pair a b => emit [[s "if-match", s "as-path length greater-equal", a, s "less-equal", b]]
  | .eq, _ => fail .unmodelled
  | .le, _ => fail .unmodelled
  | .ge, _ => fail .unmodelled
  | .betweenIncluded, _ => fail .unmodelled
  | _, _ => fail .notImplemented

/-- one iteration of the `extcommunity_rt` loop of `_huawei_match` (policy.py:121-125) -/
def extRtRowH (cl : List CommList) (n : Str) : Out (List Str) :=
  match getComm cl n with
  | none => fail .key
  | some c =>
    if c.logic == .and then emit [[s "if-match extcommunity-filter", n, s "matches-all"]]
    else emit [[s "if-match extcommunity-filter", n]]

/-- `_huawei_match` (policy.py:89-173) -/
def matchH (inp : Input) (c : Cond) : Out (List Str) :=
  match c.field with
  | .community =>
    match c.val with
    | .names l =>
      if c.op == .has then
        if l.length > 1 then fail .notImplemented else emit (rowsFor (s "if-match community-filter") l)
      else if c.op != .hasAny then fail .notImplemented
      else emit (rowsFor (s "if-match community-filter") l)
    | _ => fail .unmodelled
  | .largeCommunity =>
    match c.val with
    | .names l =>
      if c.op == .hasAny then
        if l.length > 1 then fail .notImplemented else emit (rowsFor (s "if-match large-community-filter") l)
      else if c.op != .has then fail .notImplemented
      else emit (rowsFor (s "if-match large-community-filter") l)
    | _ => fail .unmodelled
  | .extcommunityRt =>
    match c.val with
    | .names l =>
      if c.op == .has && l.length > 1 then fail .notImplemented
      else if c.op != .has && c.op != .hasAny then fail .notImplemented
      else seqAll (l.map (extRtRowH inp.clists))
    | _ => fail .unmodelled
  | .extcommunitySoo =>
    match c.val with
    | .names l =>
      if c.op == .hasAny then
        if l.length > 1 then fail .notImplemented else emit (rowsFor (s "if-match extcommunity-list soo") l)
      else if c.op != .has then fail .notImplemented
      else emit (rowsFor (s "if-match extcommunity-list soo") l)
    | _ => fail .unmodelled
  | .rd =>
    match c.val with
    | .names l =>
      if l.length > 1 then fail .notImplemented
      else match l with
        | [] => fail .index
        | n :: _ =>
          match getRd inp.rds n with
          | none => fail .key
          | some f => emit [[s "if-match rd-filter", f.number]]
    | _ => fail .unmodelled
  | .ipPrefix =>
    match c.val with
    | .pfx names a b => pfxRows inp.plists (fun n => [s "if-match", s "ip-prefix", n]) a b names
    | _ => fail .unmodelled
  | .ipv6Prefix =>
    match c.val with
    | .pfx names a b => pfxRows inp.plists (fun n => [s "if-match", s "ipv6 address prefix-list", n]) a b names
    | _ => fail .unmodelled
  | .asPathLength => asPathLenH c
  | f =>
    if c.op != .eq then fail .notImplemented
    else match huaweiMatchCmd f with
      | none => fail .notImplemented
      | some cmd =>
        match c.val with
        | .scalar v => emit [[s "if-match", cmd ++ v]]
        | _ => fail .unmodelled

/-- `_huawei_then_community` (policy.py:175-195) -/
def thenCommunityH (cl : List CommList) (a : CommAct) : Out (List Str) :=
  let part1 : Out (List Str) :=
    match a.replaced with
    | some r =>
      if !a.added.isEmpty || !a.removed.isEmpty then fail .notImplemented
      else match membersOf cl r with
        | .error e => fail e
        | .ok ms => if !ms.isEmpty then emit [[s "apply", s "community"] ++ ms]
                    else emit [[s "apply", s "community", s "none"]]
    | none => emit []
  let part2 : Out (List Str) :=
    if !a.added.isEmpty then
      match membersOf cl a.added with
      | .error e => fail e
      | .ok ms => emit [[s "apply", s "community"] ++ ms ++ [s "additive"]]
    else emit []
  let part3 : Out (List Str) := emit (a.removed.map fun n => [s "apply comm-filter", n, s "delete"])
  part1.seq (part2.seq part3)

/-- `_huawei_then_large_community` (policy.py:197-218) -/
def thenLargeH (cl : List CommList) (a : CommAct) : Out (List Str) :=
  let part1 : Out (List Str) :=
    match a.replaced with
    | some r =>
      if !a.added.isEmpty || !a.removed.isEmpty then fail .notImplemented
      else match membersOf cl r with
        | .error e => fail e
        | .ok ms => if !ms.isEmpty then emit [[s "apply", s "large-community"] ++ ms ++ [s "overwrite"]]
                    else emit [[s "apply", s "large-community", s "none"]]
    | none => emit []
  let part2 : Out (List Str) :=
    if !a.added.isEmpty then
      match membersOf cl a.added with
      | .error e => fail e
      | .ok ms => emit [[s "apply", s "large-community"] ++ ms ++ [s "additive"]]
    else emit []
  let part3 : Out (List Str) :=
    if !a.removed.isEmpty then
      match membersOf cl a.removed with
      | .error e => fail e
      | .ok ms => emit [[s "apply large-community"] ++ ms ++ [s "delete"]]
    else emit []
  part1.seq (part2.seq part3)

/-- `_huawei_then_extcommunity_rt` (policy.py:220-232) -/
def thenExtRtH (cl : List CommList) (a : CommAct) : Out (List Str) :=
  if a.replaced.isSome then fail .notImplemented else
  let part2 : Out (List Str) :=
    if !a.added.isEmpty then
      match membersOf cl a.added with
      | .error e => fail e
      | .ok ms => emit [[s "apply", s "extcommunity"] ++ ms.map (s "rt " ++ ·) ++ [s "additive"]]
    else emit []
  part2.seq (emit (a.removed.map fun n => [s "apply extcommunity-filter rt", n, s "delete"]))

/-- `_huawei_then_extcommunity_soo` (policy.py:234-246): `replaced` and `removed` are refused first -/
def thenExtSooH (cl : List CommList) (a : CommAct) : Out (List Str) :=
  if a.replaced.isSome then fail .notImplemented else
  let part2 : Out (List Str) :=
    if !a.added.isEmpty then
      match membersOf cl a.added with
      | .error e => fail e
      | .ok ms => emit [[s "apply", s "extcommunity"] ++ ms.map (s "rt " ++ ·) ++ [s "additive"]]
    else emit []
  (raiseIf (!a.removed.isEmpty) .notImplemented).seq part2

/-- `_huawei_render_ext_community_members` (policy.py:248-260) -/
def renderExtH (t : CType) (ms : List Str) : Except Err (List Str) :=
  match t with
  | .soo => .ok (s "soo" :: ms)
  | .rt => .ok (ms.map (s "rt " ++ ·))
  | .large => .error .value
  | .basic => .error .value
  | .cost => .error .notImplemented

/-- one iteration of `for community_type, replaced_members in members.items()` (policy.py:279-285) -/
def extReplacedGroupH (g : CType × List Str) : Out (List Str) :=
  if g.1 == .soo then fail .notImplemented
  else match renderExtH g.1 g.2 with
    | .error e => fail e
    | .ok rendered => emit [[s "apply", s "extcommunity"] ++ rendered]

/-- one iteration of `for community_type, added_members in members.items()` (policy.py:288-290) -/
def extAddedGroupH (g : CType × List Str) : Out (List Str) :=
  match renderExtH g.1 g.2 with
  | .error e => fail e
  | .ok rendered => emit [[s "apply", s "extcommunity"] ++ rendered ++ [s "additive"]]

/-- `_huawei_then_extcommunity` (policy.py:262-296): everything is validated and the rows are collected in a list
before the first of them is yielded -/
def thenExtH (cl : List CommList) (a : CommAct) : Out (List Str) :=
  if !a.removed.isEmpty && a.replaced.isNone then fail .notImplemented else
  let part1 : Out (List Str) :=
    match a.replaced with
    | some r =>
      if !a.added.isEmpty || !a.removed.isEmpty then fail .notImplemented
      else if r.isEmpty then fail .notImplemented
      else match groupMembers cl r [] with
        | .error e => fail e
        | .ok groups => seqAll (groups.map extReplacedGroupH)
    | none => emit []
  let part2 : Out (List Str) :=
    if !a.added.isEmpty then
      match groupMembers cl a.added [] with
      | .error e => fail e
      | .ok groups => seqAll (groups.map extAddedGroupH)
    else emit []
  allOrNothing (part1.seq part2)

/-- `_huawei_then_as_path` (policy.py:298-319): `expand` / `expand_last_as` are refused first -/
def thenAsPathH (a : AsPathAct) : Out (List Str) :=
  let part1 : Out (List Str) :=
    match a.set with
    | some st =>
      if !a.prepend.isEmpty then fail .notImplemented
      else if !st.isEmpty then emit [[s "apply", s "as-path"] ++ st ++ [s "overwrite"]]
      else emit [[s "apply", s "as-path", s "none overwrite"]]
    | none => emit []
  let part2 : Out (List Str) :=
    if !a.prepend.isEmpty then emit [[s "apply as-path"] ++ a.prepend ++ [s "additive"]] else emit []
  let part4 : Out (List Str) := emit (a.delete.map fun p => [s "apply as-path", p, s "delete"])
  (raiseIf (!a.expand.isEmpty) .runtime).seq ((raiseIf (!a.expandLastAs.isEmpty) .runtime).seq
    (part1.seq (part2.seq part4)))

/-- `HUAWEI_THEN_COMMAND_MAP` (policy.py:26-34): the text before `{option_value}` and whether it has the placeholder -/
def huaweiThenCmd : TField → Option (Str × Bool)
  | .localPref => some (s "local-preference ", true)
  | .metricType => some (s "cost-type ", true)
  | .mplsLabel => some (s "mpls-label", false)
  | .origin => some (s "origin ", true)
  | .tag => some (s "tag ", true)
  | _ => none

def scalarOf (v : AVal) : Option Str :=
  match v with
  | .scalar x => some x
  | _ => none

/-- the tail of `_huawei_then` (policy.py:372-377) -/
def thenGenericH (a : Action) : Out (List Str) :=
  if a.type != .set then fail .notImplemented
  else match huaweiThenCmd a.field with
    | none => fail .notImplemented
    | some (cmd, hole) =>
      if hole then
        match scalarOf a.val with
        | some v => emit [[s "apply", cmd ++ v]]
        | none => fail .unmodelled
      else emit [[s "apply", cmd]]

/-- the `next_hop` branch of `_huawei_then` (policy.py:358-374) -/
def thenNextHopRowsH (n : NextHop) : Out (List Str) :=
  if n.target == s "self" then emit [[s "apply", s "cost 1"]]
  else if n.target == s "discard" then emit []
  else if n.target == s "peer" then emit []
  else if n.target == s "ipv4_addr" then emit [[s "apply", s "ip-address next-hop " ++ n.addr]]
  else if n.target == s "ipv6_addr" then emit [[s "apply", s "ipv6 next-hop " ++ n.addr]]
  else if n.target == s "mapped_ipv4" then emit [[s "apply", s "ipv6 next-hop ::FFFF:" ++ n.addr]]
  else fail .runtime

/-- `_huawei_then` (policy.py:318-377) -/
def thenH (cl : List CommList) (a : Action) : Out (List Str) :=
  match a.field with
  | .community => match a.val with | .comm c => thenCommunityH cl c | _ => fail .attribute
  | .largeCommunity => match a.val with | .comm c => thenLargeH cl c | _ => fail .attribute
  | .extcommunity => match a.val with | .comm c => thenExtH cl c | _ => fail .attribute
  | .extcommunityRt => match a.val with | .comm c => thenExtRtH cl c | _ => fail .attribute
  | .extcommunitySoo => match a.val with | .comm c => thenExtSooH cl c | _ => fail .attribute
  | .metric =>
    match scalarOf a.val with
    | none => fail .unmodelled
    | some v =>
      if a.type == .add then emit [[s "apply", s "cost + " ++ v]]
      else if a.type == .set then emit [[s "apply", s "cost " ++ v]]
      else fail .notImplemented
  | .asPath => match a.val with | .asPath p => thenAsPathH p | _ => fail .attribute
  | .nextHop =>
    match a.val with
    | .nextHop n => thenNextHopRowsH n
    | _ => fail .attribute
  | _ => thenGenericH a

/-- `HUAWEI_RESULT_MAP` / `ARISTA_RESULT_MAP` / `FRR_RESULT_MAP` (policy.py:35-44): `KeyError` for NEXT_POLICY -/
def resultWord : Result → Option Str
  | .allow => some (s "permit")
  | .deny => some (s "deny")
  | .next => some (s "permit")
  | .nextPolicy => none

/-- rows yielded inside `with self.block(header)`: the header row is appended when the block is entered -/
def inBlock (header : List Str) (body : Out (List Str)) : Out Line :=
  (emit [Line.mk [] header]).seq (body.mapRows fun toks => Line.mk [joinSp header] toks)

/-- `_huawei_statement` (policy.py:379-400) -/
def statementH (inp : Input) (p : Policy) (st : Stmt) : Out Line :=
  match st.number with
  | none => fail .runtime
  | some num =>
    match resultWord st.result with
    | none => fail .key
    | some res =>
      inBlock [s "route-policy", p.name, res, s "node", num]
        ((seqAll (st.conds.map (matchH inp))).seq
          ((seqAll (st.acts.map (thenH inp.clists))).seq
            (if st.result == .next then emit [[s "goto next-node"]] else emit [])))

/-- `RoutingPolicyGenerator.run_huawei` (policy.py:402-411) -/
def runPolicyH (inp : Input) : Out Line :=
  seqAll (inp.policies.flatMap fun p => p.stmts.map (statementH inp p))

/-! ## RoutingPolicyGenerator — Arista (policy.py:413-791) -/

/-- `ARISTA_MATCH_COMMAND_MAP` (policy.py:45-51) -/
def aristaMatchCmd : MField → Option Str
  | .interface => some (s "interface ")
  | .metric => some (s "metric ")
  | .asPathFilter => some (s "as-path ")
  | .protocol => some (s "source-protocol ")
  | _ => none

/-- the four community-like branches of `_arista_match` (policy.py:436-484) -/
def matchCommA (kind : Str) (c : Cond) : Out (List Str) :=
  match c.val with
  | .names l =>
    if c.op == .hasAny then emit [[s "match", kind, mangle l]]
    else if c.op == .has then emit [[s "match", kind] ++ l]
    else fail .notImplemented
  | _ => fail .unmodelled

def asPathLenA (c : Cond) : Out (List Str) :=
  match c.op, c.val with
  | .eq, .scalar v => emit [[s "match", s "as-path length =", v]]
  | .le, .scalar v => emit [[s "match", s "as-path length <=", v]]
  | .ge, .scalar v => emit [[s "match", s "as-path length >=", v]]
  | .betweenIncluded, .pair a b => emit [[s "match", s "as-path length >=", a], [s "match", s "as-path length <=", b]]
  | .eq, _ => fail .unmodelled
  | .le, _ => fail .unmodelled
  | .ge, _ => fail .unmodelled
  | .betweenIncluded, _ => fail .unmodelled
  | _, _ => fail .notImplemented

/-- `_arista_match` (policy.py:428-517) -/
def matchA (inp : Input) (c : Cond) : Out (List Str) :=
  match c.field with
  | .community => matchCommA (s "community") c
  | .largeCommunity => matchCommA (s "large-community") c
  | .extcommunityRt => matchCommA (s "extcommunity") c
  | .extcommunitySoo => matchCommA (s "extcommunity") c
  | .ipPrefix =>
    match c.val with
    | .pfx names a b => pfxRows inp.plists (fun n => [s "match", s "ip address prefix-list", n]) a b names
    | _ => fail .unmodelled
  | .ipv6Prefix =>
    match c.val with
    | .pfx names a b => pfxRows inp.plists (fun n => [s "match", s "ipv6 address prefix-list", n]) a b names
    | _ => fail .unmodelled
  | .asPathLength => asPathLenA c
  | f =>
    if c.op != .eq then fail .notImplemented
    else match aristaMatchCmd f with
      | none => fail .notImplemented
      | some cmd =>
        match c.val with
        | .scalar v => emit [[s "match", cmd ++ v]]
        | _ => fail .unmodelled

/-- `_arista_then_community` (policy.py:519-543) -/
def thenCommunityA (cl : List CommList) (a : CommAct) : Out (List Str) :=
  let part1 : Out (List Str) :=
    match a.replaced with
    | some r =>
      if !a.added.isEmpty || !a.removed.isEmpty then fail .notImplemented
      else if !r.isEmpty then emit [[s "set", s "community community-list"] ++ r]
      else emit [[s "set", s "community", s "none"]]
    | none => emit []
  let part2 : Out (List Str) :=
    if !a.added.isEmpty then emit [[s "set", s "community community-list"] ++ a.added ++ [s "additive"]] else emit []
  let part3 : Out (List Str) :=
    if !a.removed.isEmpty then
      match membersOf cl a.removed with
      | .error e => fail e
      | .ok ms => emit [[s "set community"] ++ ms.map aristaWellKnown ++ [s "delete"]]
    else emit []
  part1.seq (part2.seq part3)

/-- rows of the `for community_name in action.value.replaced` loop (policy.py:559-565) -/
def largeReplacedRowsA : List Str → Bool → List (List Str)
  | [], _ => []
  | n :: ns, first =>
    (if first then [s "set", s "large-community large-community-list", n]
     else [s "set", s "large-community large-community-list", n, s "additive"]) :: largeReplacedRowsA ns false

/-- `_arista_then_large_community` (policy.py:545-569) -/
def thenLargeA (a : CommAct) : Out (List Str) :=
  let part1 : Out (List Str) :=
    match a.replaced with
    | some r =>
      if !a.added.isEmpty || !a.removed.isEmpty then fail .notImplemented
      else emit ((if r.isEmpty then [[s "set", s "large-community", s "none"]] else []) ++ largeReplacedRowsA r true)
    | none => emit []
  let part2 : Out (List Str) :=
    if !a.added.isEmpty then emit [[s "set", s "large-community large-community-list"] ++ a.added ++ [s "additive"]]
    else emit []
  let part3 : Out (List Str) :=
    if !a.removed.isEmpty then emit [[s "set large-community large-community-list"] ++ a.removed ++ [s "delete"]]
    else emit []
  part1.seq (part2.seq part3)

/-- `_arista_then_extcommunity_rt` / `_soo` (policy.py:571-615): both the added and the removed row are built from
`action.value.removed` -/
def thenExtRtSooA (cl : List CommList) (pre : Str) (delHead : List Str) (a : CommAct) : Out (List Str) :=
  if a.replaced.isSome then fail .notImplemented else
  let part2 : Out (List Str) :=
    if !a.added.isEmpty then
      match membersOf cl a.removed with
      | .error e => fail e
      | .ok ms => emit [[s "set", s "extcommunity"] ++ ms.map (pre ++ ·) ++ [s "additive"]]
    else emit []
  let part3 : Out (List Str) :=
    if !a.removed.isEmpty then
      match membersOf cl a.removed with
      | .error e => fail e
      | .ok ms => emit [delHead ++ ms.map (pre ++ ·) ++ [s "delete"]]
    else emit []
  part2.seq part3

/-- `_arista_extcommunity_type_str` (policy.py:617-627) -/
def extTypeStr : CType → Except Err Str
  | .soo => .ok (s "soo")
  | .rt => .ok (s "rt")
  | .large => .error .value
  | .basic => .error .value
  | .cost => .error .notImplemented

/-- `_arista_render_ext_community_members` (policy.py:629-636), fully evaluated by `list(...)` -/
def renderExtA (cl : List CommList) : List Str → Except Err (List Str)
  | [] => .ok []
  | n :: ns =>
    match getComm cl n with
    | none => .error .key
    | some c =>
      match extTypeStr c.type with
      | .error e => .error e
      | .ok t =>
        match renderExtA cl ns with
        | .error e => .error e
        | .ok rest => .ok (c.members.map (fun m => t ++ ' ' :: m) ++ rest)

/-- `_arista_then_extcommunity` (policy.py:638-660) -/
def thenExtA (cl : List CommList) (a : CommAct) : Out (List Str) :=
  match a.replaced with
  | some r =>
    if !a.added.isEmpty || !a.removed.isEmpty then fail .notImplemented
    else if r.isEmpty then emit [[s "set", s "extcommunity", s "none"]]
    else match renderExtA cl r with
      | .error e => fail e
      | .ok ms => emit [[s "set extcommunity"] ++ ms]
  | none =>
    let part2 : Out (List Str) :=
      if !a.added.isEmpty then
        match renderExtA cl a.added with
        | .error e => fail e
        | .ok ms => emit [[s "set extcommunity"] ++ ms ++ [s "additive"]]
      else emit []
    let part3 : Out (List Str) :=
      if !a.removed.isEmpty then
        match renderExtA cl a.removed with
        | .error e => fail e
        | .ok ms => emit [[s "set extcommunity"] ++ ms ++ [s "delete"]]
      else emit []
    part2.seq part3

/-- `_arista_then_as_path` (policy.py:666-694): `expand` / `delete` are refused first -/
def thenAsPathA (a : AsPathAct) : Out (List Str) :=
  let part1 : Out (List Str) :=
    match a.set with
    | some st =>
      if !a.prepend.isEmpty then fail .notImplemented
      else if st.isEmpty then emit [[s "set", s "as-path match all replacement", s "none"]]
      else emit [[s "set", s "as-path match all replacement"] ++ st]
    | none => emit []
  let suffix : List Str := if !a.expandLastAs.isEmpty then [s "last-as", a.expandLastAs] else []
  let part2 : Out (List Str) :=
    if !a.prepend.isEmpty then emit (a.prepend.map fun p => [s "set", s "as-path prepend", p] ++ suffix)
    else emit [[s "set", s "as-path prepend"] ++ suffix]
  (raiseIf (!a.expand.isEmpty) .runtime).seq ((raiseIf (!a.delete.isEmpty) .runtime).seq (part1.seq part2))

/-- `ARISTA_THEN_COMMAND_MAP` (policy.py:52-60) -/
def aristaThenCmd : TField → Option Str
  | .localPref => some (s "local-preference ")
  | .origin => some (s "origin ")
  | .tag => some (s "tag ")
  | .metricType => some (s "metric-type ")
  | _ => none

def thenNextHopRowsA (n : NextHop) : Out (List Str) :=
  if n.target == s "self" then emit [[s "set", s "cost 1"]]
  else if n.target == s "discard" then emit []
  else if n.target == s "peer" then emit []
  else if n.target == s "ipv4_addr" then emit [[s "set", s "ip next-hop " ++ n.addr]]
  else if n.target == s "ipv6_addr" then emit [[s "set", s "ipv6 next-hop " ++ n.addr]]
  else if n.target == s "mapped_ipv4" then emit [[s "set", s "ipv6 next-hop ::FFFF:" ++ n.addr]]
  else fail .runtime

/-- `_arista_then` (policy.py:692-756) -/
def thenA (cl : List CommList) (a : Action) : Out (List Str) :=
  match a.field with
  | .community => match a.val with | .comm c => thenCommunityA cl c | _ => fail .attribute
  | .largeCommunity => match a.val with | .comm c => thenLargeA c | _ => fail .attribute
  | .extcommunity => match a.val with | .comm c => thenExtA cl c | _ => fail .attribute
  | .extcommunityRt =>
    match a.val with
    | .comm c => thenExtRtSooA cl (s "rt ") [s "set extcommunity"] c
    | _ => fail .attribute
  | .extcommunitySoo =>
    match a.val with
    | .comm c => thenExtRtSooA cl (s "soo ") [s "set", s "extcommunity"] c
    | _ => fail .attribute
  | .metric =>
    match scalarOf a.val with
    | none => fail .unmodelled
    | some v =>
      if a.type == .add then emit [[s "set", s "metric + " ++ v]]
      else if a.type == .remove then emit [[s "set", s "metric - " ++ v]]
      else if a.type == .set then emit [[s "set", s "metric " ++ v]]
      else fail .notImplemented
  | .asPath => match a.val with | .asPath p => thenAsPathA p | _ => fail .attribute
  | .nextHop => match a.val with | .nextHop n => thenNextHopRowsA n | _ => fail .attribute
  | f =>
    if a.type != .set then fail .notImplemented
    else match aristaThenCmd f with
      | none => fail .notImplemented
      | some cmd =>
        match scalarOf a.val with
        | some v => emit [[s "set", cmd ++ v]]
        | none => fail .unmodelled

/-- `_arista_statement` (policy.py:758-778): `ARISTA_RESULT_MAP[...]` is evaluated before `self.block`, which then
raises `InvalidValueFromGenerator` on a `None` number -/
def statementA (inp : Input) (p : Policy) (st : Stmt) : Out Line :=
  match resultWord st.result with
  | none => fail .key
  | some res =>
    match st.number with
    | none => fail .invalidYield
    | some num =>
      inBlock [s "route-map", p.name, res, num]
        ((seqAll (st.conds.map (matchA inp))).seq
          ((seqAll (st.acts.map (thenA inp.clists))).seq
            (if st.result == .next then emit [[s "continue"]] else emit [])))

/-- `RoutingPolicyGenerator.run_arista` (policy.py:780-791) -/
def runPolicyA (inp : Input) : Out Line :=
  seqAll (inp.policies.flatMap fun p => p.stmts.map (statementA inp p))

/-! ## PrefixListFilterGenerator (prefix_lists.py:23-122) -/

def optRows (kw : Str) : Option Str → List Str
  | none => []
  | some v => [kw, v]

/-- `_huawei_prefix_list` (prefix_lists.py:30-49) -/
def prefixRowsH (ptype : Str) (pl : PrefixList) : List Line :=
  (List.range pl.members.length).zip pl.members |>.map fun (i, m) =>
    Line.mk [] ([s "ip", ptype, pl.name, s "index " ++ natStr (i * 5 + 5), s "permit", m.addr, m.len]
      ++ optRows (s "greater-equal") m.ge ++ optRows (s "less-equal") m.le)

/-- `_arista_prefix_list` (prefix_lists.py:76-93) -/
def prefixRowsA (ptype : Str) (pl : PrefixList) : List Line :=
  let header := [ptype, s "prefix-list", pl.name]
  Line.mk [] header :: ((List.range pl.members.length).zip pl.members |>.map fun (i, m) =>
    Line.mk [joinSp header] ([s "seq " ++ natStr (i * 10 + 10), s "permit", m.net]
      ++ optRows (s "ge") m.ge ++ optRows (s "le") m.le))

/-- `for name in cond.value.names:` with the shared `processed_names` set (prefix_lists.py:60-66) -/
def prefixNames (pls : List PrefixList) (rows : PrefixList → List Line) (a b : Option Str) :
    List Str → List Str → Out Line × List Str
  | [], seen => (emit [], seen)
  | n :: ns, seen =>
    match getPrefix pls n a b with
    | .error e => (fail e, seen)
    | .ok pl =>
      if seen.contains pl.name then prefixNames pls rows a b ns seen
      else
        let r := prefixNames pls rows a b ns (pl.name :: seen)
        ((emit (rows pl)).seq r.1, r.2)

/-- all conditions of one field of one statement (`statement.match.find_all(field)`) -/
def prefixConds (pls : List PrefixList) (rows : PrefixList → List Line) (f : MField) :
    List Cond → List Str → Out Line × List Str
  | [], seen => (emit [], seen)
  | c :: cs, seen =>
    if c.field == f then
      match c.val with
      | .pfx names a b =>
        let r := prefixNames pls rows a b names seen
        match r.1.2 with
        | some _ => r
        | none =>
          let r2 := prefixConds pls rows f cs r.2
          (r.1.seq r2.1, r2.2)
      | _ => (fail .unmodelled, seen)
    else prefixConds pls rows f cs seen

def prefixStmts (pls : List PrefixList) (rows4 rows6 : PrefixList → List Line) :
    List Stmt → List Str → Out Line × List Str
  | [], seen => (emit [], seen)
  | st :: sts, seen =>
    let r4 := prefixConds pls rows4 .ipPrefix st.conds seen
    match r4.1.2 with
    | some _ => r4
    | none =>
      let r6 := prefixConds pls rows6 .ipv6Prefix st.conds r4.2
      match r6.1.2 with
      | some _ => (r4.1.seq r6.1, r6.2)
      | none =>
        let r := prefixStmts pls rows4 rows6 sts r6.2
        ((r4.1.seq r6.1).seq r.1, r.2)

/-- `run_huawei` / `run_arista` of the prefix-list generator (prefix_lists.py:51-72, 95-122) -/
def runPrefix (inp : Input) (rows4 rows6 : PrefixList → List Line) : Out Line :=
  (prefixStmts inp.plists rows4 rows6 (inp.policies.flatMap (·.stmts)) []).1

def runPrefixH (inp : Input) : Out Line := runPrefix inp (prefixRowsH (s "ip-prefix")) (prefixRowsH (s "ipv6-prefix"))
def runPrefixA (inp : Input) : Out Line := runPrefix inp (prefixRowsA (s "ip")) (prefixRowsA (s "ipv6"))

/-! ## CommunityListGenerator (community.py:12-241) -/

def commMatchFields : List MField := [.community, .largeCommunity, .extcommunityRt, .extcommunitySoo]
def commThenFields : List TField := [.community, .largeCommunity, .extcommunityRt, .extcommunitySoo]

/-- the names of a community-like condition (`condition.value`); `none` = a value that is not a tuple of names -/
def condNameRefs (c : Cond) : Option (List Str) :=
  match c.val with
  | .names l => some l
  | _ => none

/-- the names of a community-like action (`replaced`, `added`, `removed`); `none` = not a `CommunityActionValue` -/
def actNameRefs (a : Action) : Option (List Str) :=
  match a.val with
  | .comm c => some (c.replaced.getD [] ++ c.added ++ c.removed)
  | _ => none

/-- the conditions / actions of a statement that `for match_field in (...)` / `for then_field in (...)` visit
(community.py:20-36) -/
def commConds (st : Stmt) : List Cond := commMatchFields.flatMap fun f => st.conds.filter (·.field == f)
def commActs (st : Stmt) : List Action := commThenFields.flatMap fun f => st.acts.filter (·.field == f)

/-- names one statement adds to `used_communities` -/
def stmtCommNames (st : Stmt) : Option (List Str) :=
  match (commConds st).mapM condNameRefs, (commActs st).mapM actNameRefs with
  | some m, some t => some (m.flatten ++ t.flatten)
  | _, _ => none

/-- `[d[name] for name in names]`: `KeyError` at a missing name -/
def lookupNames {α : Type} (get : Str → Option α) : List Str → Except Err (List α)
  | [] => .ok []
  | n :: ns =>
    match get n with
    | none => .error .key
    | some c =>
      match lookupNames get ns with
      | .error e => .error e
      | .ok l => .ok (c :: l)

/-- `get_used_community_lists` (community.py:12-39) -/
def usedCommunityLists (inp : Input) : Except Err (List CommList) :=
  match (inp.policies.flatMap (·.stmts)).mapM stmtCommNames with
  | none => .error .unmodelled
  | some nss => lookupNames (getComm inp.clists) (sortedSet nss.flatten)

/-- `_huawei_community_filter` (community.py:133-146) -/
def commFilterRowH (index : Nat) (c : CommList) (members : Str) : Except Err Line :=
  let mt := if c.useRegex then s "advanced" else s "basic"
  let mk (cmd : String) : Line := Line.mk [] [s cmd, mt, c.name, s "index " ++ natStr index, s "permit", members]
  match c.type with
  | .basic => .ok (mk "ip community-filter")
  | .rt => .ok (mk "ip extcommunity-filter")
  | .soo => .ok (mk "ip extcommunity-list soo")
  | .large => .ok (mk "ip large-community-filter")
  | .cost => .error .notImplemented

/-- one iteration of `for i, member in enumerate(members)` (community.py:162-164) -/
def commMemberRowH (c : CommList) (im : Nat × Str) : Out Line :=
  ofExcept ((commFilterRowH ((im.1 + 1) * 10) c im.2).map ([·]))

/-- the body of the `for community_list in ...` loop of `run_huawei` (community.py:148-166) -/
def commListH (c : CommList) : Out Line :=
  if c.useRegex && c.members.length > 1 then fail .notImplemented else
  let members := if c.type == .rt then c.members.map (s "rt " ++ ·) else c.members
  match c.logic with
  | .and => ofExcept ((commFilterRowH 10 c (joinSp members)).map ([·]))
  | .or => seqAll (((List.range members.length).zip members).map (commMemberRowH c))

def runCommunityH (inp : Input) : Out Line :=
  match usedCommunityLists inp with
  | .error e => fail e
  | .ok ls => seqAll (ls.map commListH)

/-- dictionary assignment `d[k] = v` on an association list -/
def assocSet {α : Type} (d : List (Str × α)) (k : Str) (v : α) : List (Str × α) :=
  if d.any (·.1 == k) then d.map fun e => if e.1 == k then (k, v) else e else d ++ [(k, v)]

/-- `[communities_dict[name] for name in names]` -/
def lookupAll (cl : List CommList) : List Str → Except Err (List CommList)
  | [] => .ok []
  | n :: ns =>
    match getComm cl n with
    | none => .error .key
    | some c =>
      match lookupAll cl ns with
      | .error e => .error e
      | .ok l => .ok (c :: l)

abbrev UnitedDict := List (Str × List CommList)

def setSingles (cl : List CommList) : List Str → UnitedDict → Except Err UnitedDict
  | [], d => .ok d
  | n :: ns, d =>
    match getComm cl n with
    | none => .error .key
    | some c => setSingles cl ns (assocSet d n [c])

/-- one matching condition of `get_used_united_community_lists` (community.py:56-79) -/
def unitedCond (cl : List CommList) (c : Cond) (d : UnitedDict) : Except Err UnitedDict :=
  match c.val with
  | .names ns =>
    if c.op == .hasAny && ns.length > 1 then
      match lookupAll cl ns with
      | .error e => .error e
      | .ok [] => .error .index
      | .ok (u :: us) =>
        if !(u :: us).all (fun x => x.type == u.type) then .error .value
        else if !(u :: us).all (fun x => x.useRegex == u.useRegex) then .error .value
        else .ok (assocSet d (mangle ns) (u :: us))
    else setSingles cl ns d
  | _ => .error .unmodelled

def unitedAct (cl : List CommList) (a : Action) (d : UnitedDict) : Except Err UnitedDict :=
  match a.val with
  | .comm c =>
    match setSingles cl (c.replaced.getD []) d with
    | .error e => .error e
    | .ok d1 =>
      match setSingles cl c.added d1 with
      | .error e => .error e
      | .ok d2 => setSingles cl c.removed d2
  | _ => .error .attribute

def foldExcept {α β : Type} (f : α → β → Except Err β) : List α → β → Except Err β
  | [], b => .ok b
  | x :: xs, b =>
    match f x b with
    | .error e => .error e
    | .ok b' => foldExcept f xs b'

def unitedStmt (cl : List CommList) (st : Stmt) (d : UnitedDict) : Except Err UnitedDict :=
  match foldExcept (fun f d => foldExcept (unitedCond cl) (st.conds.filter (·.field == f)) d) commMatchFields d with
  | .error e => .error e
  | .ok d1 => foldExcept (fun f d => foldExcept (unitedAct cl) (st.acts.filter (·.field == f)) d) commThenFields d1

/-- insert into a list sorted by key (keys are unique) -/
def insertByKey {α : Type} (x : Str × α) : List (Str × α) → List (Str × α)
  | [] => [x]
  | y :: ys => if strLt x.1 y.1 then x :: y :: ys else y :: insertByKey x ys

/-- `get_used_united_community_lists` (community.py:42-92): `[used[name] for name in sorted(used)]`, with names -/
def usedUnited (inp : Input) : Except Err UnitedDict :=
  match foldExcept (unitedStmt inp.clists) (inp.policies.flatMap (·.stmts)) [] with
  | .error e => .error e
  | .ok d => .ok (d.foldl (fun acc e => insertByKey e acc) [])

/-- `_arista_community_list` (community.py:178-194) -/
def commListRowA (name : Str) (useRegex : Bool) (t : CType) (members : Str) : Except Err Line :=
  let mt := if useRegex then s "regexp" else []
  let mk (cmd : String) : Line := Line.mk [] [s cmd, mt, name, s "permit", members]
  match t with
  | .basic => .ok (mk "ip community-list")
  | .rt => .ok (mk "ip extcommunity-list")
  | .soo => .ok (mk "ip extcommunity-list")
  | .large => .ok (mk "ip large-community-list")
  | .cost => .error .notImplemented

/-- `_arista_community_prefix` (community.py:196-212) -/
def commPrefixA (c : CommList) : Except Err Str :=
  match c.type with
  | .basic => .ok []
  | .rt => .ok (if c.useRegex then s "RT:" else s "rt ")
  | .soo => .ok (if c.useRegex then s "SoO:" else s "soo ")
  | .large => .ok []
  | .cost => .error .notImplemented

/-- one iteration of `for member in community_list.members` (community.py:233-239) -/
def commMemberRowA (name : Str) (c : CommList) (pre : Str) (m : Str) : Out Line :=
  ofExcept ((commListRowA name c.useRegex c.type (pre ++ m)).map ([·]))

/-- the body of the inner loop of `run_arista` (community.py:217-241) -/
def commListA (name : Str) (c : CommList) : Out Line :=
  if c.useRegex && c.members.length > 1 then fail .notImplemented else
  match commPrefixA c with
  | .error e => fail e
  | .ok pre =>
    match c.logic with
    | .and => ofExcept ((commListRowA name c.useRegex c.type
        (joinSp (c.members.map fun m => pre ++ aristaWellKnown m))).map ([·]))
    | .or => seqAll (c.members.map (commMemberRowA name c pre))

/-- one union of `run_arista` (community.py:215-216) -/
def commUnionA (u : Str × List CommList) : Out Line :=
  seqAll (u.2.map (commListA (mangle (u.2.map (·.name)))))

def runCommunityA (inp : Input) : Out Line :=
  match usedUnited inp with
  | .error e => fail e
  | .ok unions => seqAll (unions.map commUnionA)

/-! ## AsPathFilterGenerator (aspath.py:10-57), RDFilterFilterGenerator (rd.py:11-40) -/

/-- the name an `as_path_filter` condition refers to (`condition.value`) -/
def asPathCondName (c : Cond) : Option Str :=
  match c.val with
  | .scalar v => some v
  | _ => none

/-- `get_used_as_path_filters` (aspath.py:10-20): the condition value is used as the name -/
def usedAsPath (inp : Input) : Except Err (List AsPathFilter) :=
  match ((inp.policies.flatMap (·.stmts)).flatMap fun st => st.conds.filter (·.field == .asPathFilter)).mapM asPathCondName with
  | none => .error .unmodelled
  | some ns => lookupNames (getAsPath inp.aspaths) (sortedSet ns)

/-- `f"_{values}_"` with `values = "_".join(x for x in filters if x != ".*")` -/
def asPathValue (f : AsPathFilter) : Str :=
  '_' :: joinWith ['_'] (f.filters.filter (· != s ".*")) ++ ['_']

def runAsPathH (inp : Input) : Out Line :=
  match usedAsPath inp with
  | .error e => fail e
  | .ok fs => emit (fs.map fun f => Line.mk [] [s "ip as-path-filter", f.name, s "index 10 permit", asPathValue f])

def runAsPathA (inp : Input) : Out Line :=
  match usedAsPath inp with
  | .error e => fail e
  | .ok fs => emit (fs.map fun f => Line.mk [] [s "ip as-path access-list", f.name, s "permit", asPathValue f])

/-- `get_used_rd_filters` (rd.py:21-29) -/
def usedRd (inp : Input) : Except Err (List RdFilter) :=
  match ((inp.policies.flatMap (·.stmts)).flatMap fun st => st.conds.filter (·.field == .rd)).mapM condNameRefs with
  | none => .error .unmodelled
  | some nss => lookupNames (getRd inp.rds) (sortedSet nss.flatten)

/-- `run_huawei` of the RD generator (rd.py:36-40) -/
def runRdH (inp : Input) : Out Line :=
  match usedRd inp with
  | .error e => fail e
  | .ok fs => emit (fs.flatMap fun f =>
      ((List.range f.members.length).zip f.members).map fun (i, m) =>
        Line.mk [] [s "ip rd-filter", f.number, s "index " ++ natStr ((i + 1) * 10 + 5), s "permit", m])

end Annet.Rpl
