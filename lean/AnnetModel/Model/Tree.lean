/-
L0 — configuration trees.

Mirrors the `OrderedDict[str, OrderedDict[...]]` trees annet uses everywhere
(`annet/annlib/tabparser.py:823-831`, `annet/annlib/lib.py:185-205`).
A Python ordered dict is an association list; the "keys are unique" invariant
is the separate predicate `Cfg.NoDupKeys`, never a subtype.
Core Lean only (no Mathlib): this file is linked into the driver.
-/
namespace Annet

inductive Cfg where
  | mk : List (String × Cfg) → Cfg
  deriving Repr, Inhabited

namespace Cfg

def kids : Cfg → List (String × Cfg)
  | mk ks => ks

def empty : Cfg := mk []

/-- `key in d` -/
def hasKey (ks : List (String × Cfg)) (k : String) : Bool :=
  ks.any (fun p => p.1 == k)

/-- `d[key]` (first binding). -/
def lookup (ks : List (String × Cfg)) (k : String) : Option Cfg :=
  (ks.find? (fun p => p.1 == k)).map (·.2)

/-- The loop body of `parse_to_tree`:
```
local_tree = tree
for key in stack:
    if key not in local_tree: local_tree[key] = odict()
    local_tree = local_tree[key]
```
as a function returning the new tree. -/
def insertPath : List String → Cfg → Cfg
  | [], t => t
  | k :: rest, mk ks =>
    if hasKey ks k then
      mk (ks.map fun p => if p.1 == k then (p.1, insertPath rest p.2) else p)
    else
      mk (ks ++ [(k, insertPath rest empty)])

mutual
  /-- structural equality (ordered) -/
  def beq : Cfg → Cfg → Bool
    | mk a, mk b => beqList a b
  def beqList : List (String × Cfg) → List (String × Cfg) → Bool
    | [], [] => true
    | (k, c) :: as, (k', c') :: bs => k == k' && beq c c' && beqList as bs
    | _, _ => false
end

mutual
  /-- all root-to-node paths, in document order -/
  def paths : Cfg → List (List String)
    | mk ks => pathsList ks
  def pathsList : List (String × Cfg) → List (List String)
    | [] => []
    | (k, c) :: rest => ([k] :: (paths c).map (k :: ·)) ++ pathsList rest
end

mutual
  def size : Cfg → Nat
    | mk ks => sizeList ks
  def sizeList : List (String × Cfg) → Nat
    | [] => 0
    | (_, c) :: rest => 1 + size c + sizeList rest
end

end Cfg
end Annet
