/-
`collapse_diffs` (annet/diff.py:166-181): what `annet diff` (without `--no-collapse`) and the deploy confirmation
show for SEVERAL devices.  Every device's diff is rendered (`formatter.diff`, see `Model/DiffText.lean`), the text is
passed through `_transform_text_diff_for_collapsing` (masks `snmp-agent … cipher <secret>`), the devices are sorted by
`(vendor, text)` (Python's stable `sorted`) and consecutive devices with equal text (`itertools.groupby`) form one group
which is shown ONCE, with the diff of the first device of the group.

The rendering and the masking are inputs here (`Entry.key` is the text used for comparison); `Lemmas/Collapse.lean`
connects the key with the diff through the text round trip of `Spec/DiffText.lean`.

Core Lean only.
-/
namespace Annet.Collapse

abbrev Txt := List Char

/-- Python `str.__lt__`: lexicographic by code point -/
def ltTxt : Txt → Txt → Bool
  | [], [] => false
  | [], _ :: _ => true
  | _ :: _, [] => false
  | a :: as, b :: bs => if a.val < b.val then true else if b.val < a.val then false else ltTxt as bs

/-- Python `list.__lt__` on lists of strings -/
def ltKey : List Txt → List Txt → Bool
  | [], [] => false
  | [], _ :: _ => true
  | _ :: _, [] => false
  | a :: as, b :: bs => if ltTxt a b then true else if ltTxt b a then false else ltKey as bs

/-- one device: its name, `hw.vendor`, its diff and the (transformed) text of the diff -/
structure Entry (δ : Type) where
  dev : Txt
  vendor : Txt
  diff : δ
  key : List Txt

/-- `(x.vendor, x.key) < (y.vendor, y.key)` — tuple comparison -/
def ltEntry {δ : Type} (x y : Entry δ) : Bool :=
  if ltTxt x.vendor y.vendor then true else if ltTxt y.vendor x.vendor then false else ltKey x.key y.key

/-- stable insertion: `x` goes before the first element that is not smaller than it … -/
def insertSorted {δ : Type} (x : Entry δ) : List (Entry δ) → List (Entry δ)
  | [] => [x]
  | y :: ys => if ltEntry y x then y :: insertSorted x ys else x :: y :: ys

/-- … so that folding from the right is a stable sort (`sorted(..., key=...)`) -/
def sortEntries {δ : Type} (es : List (Entry δ)) : List (Entry δ) := es.foldr insertSorted []

/-- `itertools.groupby(..., key=text)`: maximal runs of consecutive entries with equal text -/
def groupRuns {δ : Type} : List (Entry δ) → List (List (Entry δ))
  | [] => []
  | x :: xs =>
    match groupRuns xs with
    | (y :: g) :: gs => if x.key == y.key then (x :: y :: g) :: gs else [x] :: (y :: g) :: gs
    | _ => [[x]]

/-- the groups of `collapse_diffs`, as entries -/
def groups {δ : Type} (es : List (Entry δ)) : List (List (Entry δ)) := groupRuns (sortEntries es)

/-- `res[tuple(devices of the group)] = diff of the first device of the group` -/
def collapse {δ : Type} (es : List (Entry δ)) : List (List Txt × δ) :=
  (groups es).filterMap fun g => match g with
    | [] => none
    | x :: _ => some (g.map (·.dev), x.diff)

end Annet.Collapse
