/-
C14 — `CumulusPolicyGenerator.generate_cumulus_rpl` (annet/rpl_generators/cumulus_frr.py:20-489), line-exact as a
stream of flattened tuples (`Out (List Str)`); the text of a row is `" ".join(tuple)`.

Core Lean only.
-/
import AnnetModel.Model.Rpl

namespace Annet.Rpl

/-- `_cumulus_as_path_filters` (cumulus_frr.py:74-84) -/
def cumAsPath (inp : Input) : Out (List Str) :=
  match usedAsPath inp with
  | .error e => fail e
  | .ok fs => emit (fs.map fun f => [s "ip as-path access-list", f.name, s "permit", asPathValue f])

/-- `_cumulus_community` (cumulus_frr.py:135-155) -/
def cumCommunityRow (name cmd member : Str) (useRegex : Bool) (seq : Nat) : List Str :=
  [cmd, if useRegex then s "expanded" else s "standard", name, s "seq " ++ natStr seq, s "permit", member]

/-- the `for clist in community_list_union` loop (cumulus_frr.py:171-203); `n` is `comm_number` -/
def cumUnion (name : Str) : List CommList → Nat → Out (List Str)
  | [], _ => emit []
  | c :: cs, n =>
    let hdr : Except Err (Str × Str) :=
      match c.type with
      | .basic => .ok ([], s "bgp community-list")
      | .rt => .ok (s "rt ", s "bgp extcommunity")
      | .soo => .ok (s "soo ", s "bgp extcommunity")
      | .large => .ok ([], s "bgp large-community-list")
      | .cost => .error .notImplemented
    match hdr with
    | .error e => fail e
    | .ok (pre, cmd) =>
      match c.logic with
      | .and =>
        let member : Except Err Str :=
          if c.useRegex then
            if c.members.length > 1 then .error .notImplemented
            else match c.members with
              | [] => .error .index
              | m :: _ => .ok (pre ++ m)
          else .ok (joinSp (c.members.map (pre ++ ·)))
        match member with
        | .error e => fail e
        | .ok m => (emit [cumCommunityRow name cmd m c.useRegex ((n + 1) * 10)]).seq (cumUnion name cs (n + 1))
      | .or =>
        let rows := ((List.range c.members.length).zip c.members).map fun (i, m) =>
          cumCommunityRow name cmd (pre ++ m) c.useRegex ((n + i + 1) * 10)
        -- `comm_number` ends at the last enumerated index (unchanged for an empty list), then `+= 1`
        let n' := if c.members.isEmpty then n + 1 else n + c.members.length
        (emit rows).seq (cumUnion name cs n')

/-- `_cumulus_communities` (cumulus_frr.py:157-204) -/
def cumCommunities (inp : Input) : Out (List Str) :=
  match usedUnited inp with
  | .error e => fail e
  | .ok unions =>
    if unions.isEmpty then emit []
    else (seqAll (unions.map fun u => cumUnion (mangle (u.2.map (·.name))) u.2 0)).seq (emit [[s "!"]])

/-- `_cumulus_prefix_list` (cumulus_frr.py:86-103) -/
def cumPrefixRows (ptype : Str) (pl : PrefixList) : List Line :=
  (List.range pl.members.length).zip pl.members |>.map fun (i, m) =>
    Line.mk [] ([ptype, s "prefix-list", pl.name, s "seq " ++ natStr (i * 5 + 5), s "permit", m.net]
      ++ optRows (s "ge") m.ge ++ optRows (s "le") m.le)

/-- `_cumulus_prefix_lists` (cumulus_frr.py:105-128) -/
def cumPrefixLists (inp : Input) : Out (List Str) :=
  ((runPrefix inp (cumPrefixRows (s "ip")) (cumPrefixRows (s "ipv6"))).mapRows (·.toks)).seq (emit [[s "!"]])

/-- `FRR_MATCH_COMMAND_MAP` (cumulus_frr.py:25-32) -/
def frrMatchCmd : MField → Option Str
  | .asPathFilter => some (s "as-path ")
  | .metric => some (s "metric ")
  | .protocol => some (s "source-protocol ")
  | .interface => some (s "interface ")
  | _ => none

/-- `_get_match_community_names` + the four community branches (cumulus_frr.py:206-233) -/
def cumMatchComm (head : Str) (c : Cond) : Out (List Str) :=
  match c.val with
  | .names l => emit (rowsFor head (if c.op == .hasAny then [mangle l] else l))
  | _ => fail .unmodelled

/-- `_cumulus_policy_match` (cumulus_frr.py:212-251) -/
def cumMatch (inp : Input) (c : Cond) : Out (List Str) :=
  match c.field with
  | .community => cumMatchComm (s "match community") c
  | .largeCommunity => cumMatchComm (s "match large-community-list") c
  | .extcommunityRt => cumMatchComm (s "match extcommunity") c
  | .extcommunitySoo => cumMatchComm (s "match extcommunity") c
  | .ipPrefix =>
    match c.val with
    | .pfx names a b => pfxRows inp.plists (fun n => [s "match", s "ip address prefix-list", n]) a b names
    | _ => fail .unmodelled
  | .ipv6Prefix =>
    match c.val with
    | .pfx names a b => pfxRows inp.plists (fun n => [s "match", s "ipv6 address prefix-list", n]) a b names
    | _ => fail .unmodelled
  | f =>
    if c.op != .eq then fail .notImplemented
    else match frrMatchCmd f with
      | none => fail .notImplemented
      | some cmd =>
        match c.val with
        | .scalar v => emit [[s "match", cmd ++ v]]
        | _ => fail .unmodelled

/-- `_cumulus_then_community` (cumulus_frr.py:253-273) -/
def cumThenCommunity (cl : List CommList) (a : CommAct) : Out (List Str) :=
  let part1 : Out (List Str) :=
    match a.replaced with
    | some r =>
      if !a.added.isEmpty || !a.removed.isEmpty then fail .notImplemented
      else match membersOf cl r with
        | .error e => fail e
        | .ok ms => if !ms.isEmpty then emit [[s "set", s "community"] ++ ms]
                    else emit [[s "set", s "community", s "none"]]
    | none => emit []
  let part2 : Out (List Str) :=
    if !a.added.isEmpty then
      match membersOf cl a.added with
      | .error e => fail e
      | .ok ms => emit [[s "set", s "community"] ++ ms ++ [s "additive"]]
    else emit []
  part1.seq (part2.seq (emit (a.removed.map fun n => [s "set comm-list", n, s "delete"])))

/-- `_cumulus_then_large_community`, `_rt_community`, `_soo_community` (cumulus_frr.py:275-312) -/
def cumThenAddOnly (kind : Str) (a : CommAct) : Out (List Str) :=
  if a.replaced.isSome then fail .notImplemented
  else (raiseIf (!a.removed.isEmpty) .notImplemented).seq (emit (a.added.map fun n => [s "set", kind, n, s "additive"]))

/-- one iteration of `for community_type, replaced_members in members.items()` (cumulus_frr.py:341-343) -/
def cumExtGroup (g : CType × List Str) : Out (List Str) :=
  match extTypeStr g.1 with
  | .error e => fail e
  | .ok ts => emit [[s "set", s "extcommunity", ts] ++ g.2]

/-- `_cumulus_then_extcommunity` (cumulus_frr.py:326-347) -/
def cumThenExt (cl : List CommList) (a : CommAct) : Out (List Str) :=
  let tail : Out (List Str) := (raiseIf (!a.added.isEmpty) .notImplemented).seq (raiseIf (!a.removed.isEmpty) .notImplemented)
  match a.replaced with
  | some r =>
    if !a.added.isEmpty || !a.removed.isEmpty then fail .notImplemented
    else if r.isEmpty then emit [[s "set", s "extcommunity", s "none"]]
    else match groupMembers cl r [] with
      | .error e => fail e
      | .ok groups => (seqAll (groups.map cumExtGroup)).seq tail
  | none => tail

/-- `_cumulus_then_as_path` (cumulus_frr.py:349-367) -/
def cumThenAsPath (a : AsPathAct) : Out (List Str) :=
  let part1 : Out (List Str) := emit (a.prepend.map fun p => [s "set", s "as-path prepend", p])
  let part2 : Out (List Str) := raiseIf (!a.expand.isEmpty) .notImplemented
  let part3 : Out (List Str) := emit (a.delete.map fun p => [s "set", s "as-path exclude", p])
  let part4 : Out (List Str) :=
    match a.set with
    | some st => emit ([s "set", s "as-path exclude", s "all"] :: st.map fun p => [s "set", s "as-path prepend", p])
    | none => emit []
  let part5 : Out (List Str) :=
    if !a.expandLastAs.isEmpty then emit [[s "set", s "as-path prepend last-as", a.expandLastAs]] else emit []
  part2.seq (part1.seq (part3.seq (part4.seq part5)))

/-- `FRR_THEN_COMMAND_MAP` (cumulus_frr.py:33-41) -/
def frrThenCmd : TField → Option Str
  | .localPref => some (s "local-preference ")
  | .metricType => some (s "metric-type ")
  | .origin => some (s "origin ")
  | .tag => some (s "tag ")
  | _ => none

/-- the `next_hop` branch (cumulus_frr.py:419-436); the `mapped_ipv4` row is a plain string, not an f-string -/
def cumThenNextHop (n : NextHop) : Out (List Str) :=
  if n.target == s "self" then emit [[s "set", s "metric 1"]]
  else if n.target == s "discard" then emit []
  else if n.target == s "peer" then emit []
  else if n.target == s "ipv4_addr" then emit [[s "set", s "ip next-hop " ++ n.addr]]
  else if n.target == s "ipv6_addr" then emit [[s "set", s "ipv6 next-hop " ++ n.addr]]
  else if n.target == s "mapped_ipv4" then emit [[s "set", s "ipv6 next-hop ::FFFF:{next_hop_action_value.addr}"]]
  else fail .notImplemented

/-- `_cumulus_policy_then` (cumulus_frr.py:369-443) -/
def cumThen (cl : List CommList) (a : Action) : Out (List Str) :=
  match a.field with
  | .community => match a.val with | .comm c => cumThenCommunity cl c | _ => fail .attribute
  | .largeCommunity => match a.val with | .comm c => cumThenAddOnly (s "large-community") c | _ => fail .attribute
  | .extcommunity => match a.val with | .comm c => cumThenExt cl c | _ => fail .attribute
  | .extcommunityRt => match a.val with | .comm c => cumThenAddOnly (s "extcommunity rt") c | _ => fail .attribute
  | .extcommunitySoo => match a.val with | .comm c => cumThenAddOnly (s "extcommunity soo") c | _ => fail .attribute
  | .metric =>
    match scalarOf a.val with
    | none => fail .unmodelled
    | some v =>
      if a.type == .add then emit [[s "set", s "metric +" ++ v]]
      else if a.type == .remove then emit [[s "set", s "metric -" ++ v]]
      else if a.type == .set then emit [[s "set", s "metric " ++ v]]
      else fail .notImplemented
  | .asPath => match a.val with | .asPath p => cumThenAsPath p | _ => fail .attribute
  | .nextHop => match a.val with | .nextHop n => cumThenNextHop n | _ => fail .attribute
  | f =>
    if a.type != .set then fail .notImplemented
    else match frrThenCmd f with
      | none => fail .notImplemented
      | some cmd =>
        match scalarOf a.val with
        | some v => emit [[s "set", cmd ++ v]]
        | none => fail .unmodelled

/-- `FRR_INDENT, *row` -/
def indentRow (row : List Str) : List Str := [' '] :: row

/-- `_cumulus_policy_statement` (cumulus_frr.py:445-463); `num` is `str(statement.number)` -/
def cumStatement (inp : Input) (p : Policy) (st : Stmt) (num : Str) : Out (List Str) :=
  match resultWord st.result with
  | none => fail .key
  | some res =>
    (emit [[s "route-map", p.name, res, num]]).seq
      (((seqAll (st.conds.map (cumMatch inp))).mapRows indentRow).seq
        (((seqAll (st.acts.map (cumThen inp.clists))).mapRows indentRow).seq
          ((if st.result == .next then emit [indentRow [s "on-match next"]] else emit []).seq (emit [[s "!"]]))))

/-- the statement loop of `_cumulus_policy_config` with its `applied_stmts` dictionary (cumulus_frr.py:474-489) -/
def cumStmts (inp : Input) (p : Policy) : List Stmt → List Str → Out (List Str)
  | [], _ => emit []
  | st :: sts, applied =>
    match st.number with
    | none => fail .runtime
    | some num =>
      if applied.contains num then fail .runtime
      else (cumStatement inp p st num).seq (cumStmts inp p sts (num :: applied))

def cumPolicyConfig (inp : Input) : Out (List Str) :=
  seqAll (inp.policies.map fun p => cumStmts inp p p.stmts [])

/-- `generate_cumulus_rpl` (cumulus_frr.py:63-72) -/
def runCumulus (inp : Input) : Out (List Str) :=
  (cumAsPath inp).seq ((cumCommunities inp).seq ((cumPrefixLists inp).seq (cumPolicyConfig inp)))

end Annet.Rpl
