/-
L1 — the offside parser of `annet/annlib/tabparser.py:823-909`, function by
function: `_filtered_lines`, `_parse_indent`, `_parsed_indents`,
`_stripped_indents`, `_stacked`, `parse_to_tree`.

Core Lean only.
-/
import AnnetModel.Model.Tree

namespace Annet.Offside

/-- Python `str.isspace()` for a single code point (the set `str.strip()` removes). -/
def pyIsSpace (c : Char) : Bool :=
  let n := c.toNat
  (9 ≤ n && n ≤ 13) || (28 ≤ n && n ≤ 32) || n == 133 || n == 160 || n == 5760 ||
  (8192 ≤ n && n ≤ 8202) || n == 8232 || n == 8233 || n == 8239 || n == 8287 || n == 12288

def lstrip (cs : List Char) : List Char := cs.dropWhile pyIsSpace
def strip (cs : List Char) : List Char := (lstrip (lstrip cs).reverse).reverse

/-- `_parse_indent`: blanks and tabs count 1 each. -/
def parseIndent : List Char → Nat
  | [] => 0
  | c :: cs => if c == '\t' || c == ' ' then 1 + parseIndent cs else 0

/-- What `_parsed_indents` yields for one input line. -/
inductive Item where
  | blank                                   -- `_CommentOrEmpty`
  | sectionEnd                              -- `BlockEnd` (`#` at column 0, Huawei)
  | text (indent : Nat) (body : String)
  deriving Repr, DecidableEq, Inhabited

def startsWith (s pre : List Char) : Bool := pre.isPrefixOf s

/-- `_filtered_lines` + `_parsed_indents` for one line. -/
def classify (comments : List String) (line : String) : Item :=
  let cs := line.toList
  let stripped := strip cs
  if comments.contains "#" && startsWith cs ['#'] then .sectionEnd
  else if stripped.isEmpty || comments.any (fun c => startsWith stripped c.toList) then .blank
  else .text (parseIndent cs) (String.ofList stripped)

/-- State of `_stripped_indents`: `indents` (top first), `curr_level`, `g_level`. -/
structure St where
  indents : List Nat
  curr : Int
  g : Option Nat
  deriving Repr

def St.init : St := ⟨[], 0, none⟩

/-- `while curr_level > level and len(indents): curr_level -= indents.pop()` -/
def popLoop (level : Int) : List Nat → Int → List Nat × Int
  | [], curr => ([], curr)
  | d :: ds, curr => if curr > level then popLoop level ds (curr - d) else (d :: ds, curr)

/-- One iteration of the `for` loop of `_stripped_indents` on a text line.
`none` = `ParserError`.  Returns the new state and the yielded depth. -/
def stepText (st : St) (lvl : Nat) : Option (St × Nat) :=
  let g := st.g.getD lvl
  let level : Int := (lvl : Int) - (g : Int)
  if level < 0 then none
  else if level > st.curr then
    let ind := (level - st.curr).toNat :: st.indents
    some (⟨ind, level, some g⟩, ind.length)
  else if level < st.curr then
    let (ind, curr) := popLoop level st.indents st.curr
    if curr != level then none else some (⟨ind, curr, some g⟩, ind.length)
  else some (⟨st.indents, st.curr, some g⟩, st.indents.length)

/-- `_stacked`: the new stack for a yielded `(level, line)`; `stack` is bottom first. -/
def restack (stack : List String) (depth : Nat) (line : String) : List String :=
  let level := depth + 1
  if level > stack.length then stack ++ [line]
  else if level == stack.length then stack.dropLast ++ [line]
  else stack.take (level - 1) ++ [line]

/-- The generator pipeline `_stacked(_stripped_indents(_parsed_indents(...)))`
run over a list of items: either the list of yielded stacks, or the 1-based number
of the line at which `ParserError` is raised. -/
def runItems : List Item → St → List String → Nat → Except Nat (List (List String))
  | [], _, _, _ => .ok []
  | .blank :: rest, st, stack, n => runItems rest st stack (n + 1)
  | .sectionEnd :: rest, _, stack, n => runItems rest St.init stack (n + 1)
  | .text lvl body :: rest, st, stack, n =>
    match stepText st lvl with
    | none => .error n
    | some (st', depth) =>
      let stack' := restack stack depth body
      match runItems rest st' stack' (n + 1) with
      | .error e => .error e
      | .ok out => .ok (stack' :: out)

def stacks (items : List Item) : Except Nat (List (List String)) :=
  runItems items St.init [] 1

/-- the line number of the `ParserError`, if any -/
def errLine {α : Type} : Except Nat α → Option Nat
  | .error n => some n
  | .ok _ => none

def treeOfStacks (ss : List (List String)) : Cfg :=
  ss.foldl (fun t p => Cfg.insertPath p t) Cfg.empty

/-- `parse_to_tree` on already split lines. -/
def parseItems (items : List Item) : Except Nat Cfg :=
  match stacks items with
  | .error e => .error e
  | .ok ss => .ok (treeOfStacks ss)

/-- `CommonFormatter.split`: `list(filter(None, text.split("\n")))`. -/
def splitCommon (text : String) : List String :=
  (text.splitOn "\n").filter (fun l => !l.isEmpty)

/-- `parse_to_tree(text, CommonFormatter().split, comments)`. -/
def parseToTree (comments : List String) (lines : List String) : Except Nat Cfg :=
  parseItems (lines.map (classify comments))

end Annet.Offside
