/-
L3 — ACLs: compilation (`_merge_toplevel`, `_compile_acl`, acl.py:46-121),
matching (`_find_acl_matches`, `_select_match`, `match_row_to_acl`,
patching.py:475-586, with `merge_dicts`, lib.py:185-205, specialised to rule
dictionaries) and filtering (`apply_acl`, patching.py:259-283).

Rule rows must be inside the grammar of `Model/Pattern.lean`; a row outside it
makes `compileAcl` return `none` (the harness then does not consult the model).

Core Lean only.
-/
import AnnetModel.Model.Pattern

namespace Annet.Acl
open Annet.Pattern

/-- A rule as `syntax.parse_text(text, _PARAMS_SCHEME)` returns it (validated params). -/
inductive RawRule where
  | mk (row : String) (ignore : Bool) (isGlobal : Bool) (cantDelete : List Bool) (prio : Nat)
       (genNames : List String) (children : List RawRule)
  deriving Repr, Inhabited

/-- A compiled rule (`_compile_acl`): `children = none` for `%global` and ignore rules. -/
inductive Rule where
  | mk (id : String) (row : String) (ignore : Bool) (cantDelete : List Bool) (prio : Nat)
       (genNames : List String) (children : Option (List Rule × List Rule))
  deriving Repr, Inhabited

structure Rules where
  loc : List Rule
  glob : List Rule
  deriving Repr, Inhabited

namespace Rule
def id : Rule → String | mk i _ _ _ _ _ _ => i
def row : Rule → String | mk _ r _ _ _ _ _ => r
def ignore : Rule → Bool | mk _ _ g _ _ _ _ => g
def cantDelete : Rule → List Bool | mk _ _ _ c _ _ _ => c
def prio : Rule → Nat | mk _ _ _ _ p _ _ => p
def genNames : Rule → List String | mk _ _ _ _ _ n _ => n
def children : Rule → Option (List Rule × List Rule) | mk _ _ _ _ _ _ c => c
end Rule

/-! ### compilation -/

/-- intermediate record of `_merge_toplevel`: params united, children = list of trees -/
structure Merged where
  id : String
  row : String
  ignore : Bool
  isGlobal : Bool
  cantDelete : List Bool
  prio : Nat
  genNames : List String
  children : List (List RawRule)

def Merged.ofRaw : RawRule → Merged
  | .mk row ign g cd prio names ch =>
    { id := (if ign then "!" else "") ++ row, row := row, ignore := ign, isGlobal := g, cantDelete := cd,
      prio := prio, genNames := names, children := if ch.isEmpty then [] else [ch] }

/-- unite params with the `uniter`s of `_PARAMS_SCHEME` and append the children tree -/
def Merged.absorb (m : Merged) : RawRule → Merged
  | .mk _ _ g cd prio names ch =>
    { m with isGlobal := m.isGlobal || g, cantDelete := m.cantDelete ++ cd, prio := max m.prio prio,
             genNames := m.genNames ++ names,
             children := if ch.isEmpty then m.children else m.children ++ [ch] }

def mergeInto (acc : List Merged) (r : RawRule) : List Merged :=
  let m := Merged.ofRaw r
  if acc.any (·.id == m.id) then acc.map fun a => if a.id == m.id then a.absorb r else a
  else acc ++ [m]

/-- `_merge_toplevel(trees)` -/
def mergeToplevel (trees : List (List RawRule)) : List Merged :=
  trees.foldl (fun acc t => t.foldl mergeInto acc) []

def rawSize : RawRule → Nat
  | .mk _ _ _ _ _ _ ch => 1 + rawSizeList ch
where rawSizeList : List RawRule → Nat
  | [] => 0
  | r :: rs => rawSize r + rawSizeList rs

/-- `_compile_acl(trees, …)` with fuel for the nested recursion through merged
children (the depth of the rule tree bounds it; `compileAcl` passes enough). -/
def compileAclFuel : Nat → List (List RawRule) → Rules
  | 0, _ => ⟨[], []⟩
  | fuel + 1, trees =>
    let ms := mergeToplevel trees
    let mk (m : Merged) : Rule :=
      let ch : Option (List Rule × List Rule) :=
        if !m.isGlobal && !m.ignore then
          let r := compileAclFuel fuel m.children
          some (r.loc, r.glob)
        else none
      Rule.mk m.id m.row m.ignore m.cantDelete m.prio m.genNames ch
    ⟨(ms.filter (!·.isGlobal)).map mk, (ms.filter (·.isGlobal)).map mk⟩

def depthRaw : RawRule → Nat
  | .mk _ _ _ _ _ _ ch => 1 + depthList ch
where depthList : List RawRule → Nat
  | [] => 0
  | r :: rs => max (depthRaw r) (depthList rs)

def compileAcl (trees : List (List RawRule)) : Rules :=
  compileAclFuel ((trees.map depthRaw.depthList).foldl max 0 + 1) trees

/-! ### `merge_dicts` on dictionaries of compiled rules -/

mutual
  def ruleBeq : Rule → Rule → Bool
    | .mk i r g c p n ch, .mk i' r' g' c' p' n' ch' =>
      i == i' && r == r' && g == g' && c == c' && p == p' && n == n' && chBeq ch ch'
  def chBeq : Option (List Rule × List Rule) → Option (List Rule × List Rule) → Bool
    | none, none => true
    | some (a, b), some (a', b') => rulesBeq a a' && rulesBeq b b'
    | _, _ => false
  def rulesBeq : List Rule → List Rule → Bool
    | [], [] => true
    | x :: xs, y :: ys => ruleBeq x y && rulesBeq xs ys
    | _, _ => false
end

def findRule (l : List Rule) (id : String) : Option Rule := l.find? (·.id == id)

/-- `merge_dicts(a, b)` for two dictionaries `rule_id → rule` (lib.py:185-205):
equal arguments are returned as they are; otherwise keys of `a` then new keys of
`b`; a rule present in both is merged field by field — list attributes
(`cant_delete`, `generator_names`) are chained, scalars taken from `b`,
`children` dictionaries merged recursively (`None` children are scalars).
Fuel bounds the recursion through children. -/
def mergeRuleDicts : Nat → List Rule → List Rule → List Rule
  | 0, a, _ => a
  | fuel + 1, a, b =>
    if rulesBeq a b then a else
    let mergeRule (x y : Rule) : Rule :=
      if ruleBeq x y then x else
      let ch := match x.children, y.children with
        | some (xl, xg), some (yl, yg) =>
          if chBeq x.children y.children then x.children
          else some (mergeRuleDicts fuel xl yl, mergeRuleDicts fuel xg yg)
        | _, c => c
      -- `merge_dicts(attrs_x, attrs_y)` returns `attrs_x` when the two are equal
      let sameAttrs := x.row == y.row && x.cantDelete == y.cantDelete && x.prio == y.prio &&
        x.genNames == y.genNames
      if sameAttrs then Rule.mk x.id x.row y.ignore x.cantDelete x.prio x.genNames ch
      else Rule.mk x.id y.row y.ignore (x.cantDelete ++ y.cantDelete) y.prio (x.genNames ++ y.genNames) ch
    (a.map fun x => match findRule b x.id with
      | some y => mergeRule x y
      | none => x) ++ b.filter (fun y => (findRule a y.id).isNone)

mutual
  def ruleDepth : Rule → Nat
    | .mk _ _ _ _ _ _ none => 1
    | .mk _ _ _ _ _ _ (some (l, g)) => 1 + max (rulesDepth l) (rulesDepth g)
  def rulesDepth : List Rule → Nat
    | [] => 0
    | r :: rs => max (ruleDepth r) (rulesDepth rs)
end

def mergeDicts (a b : List Rule) : List Rule :=
  mergeRuleDicts (max (rulesDepth a) (rulesDepth b) + 1) a b

/-! ### matching -/

structure Vendor where
  reverse : String          -- the vendor's negation word
  juniper : Bool := false   -- rows are normalised with `jun_activate`
  deriving Repr, Inhabited

/-- number of distinct characters of `row` that occur in `pattern`
(`len(set(row).intersection(set(pattern)))`, patching.py:540) -/
def sharedChars (row pattern : List Char) : Nat :=
  (row.eraseDups.filter (pattern.contains ·)).length

def junActivate (row : String) : String :=
  if "inactive: ".toList.isPrefixOf row.toList then String.ofList (row.toList.drop 10) else row

def directPat (r : Rule) : Option Pat := parseRow false r.row.toList
def reversePat (v : Vendor) (r : Rule) : Option Pat :=
  parseRow false (joinWords (negate v.reverse.toList (splitBlank r.row.toList)))

structure Match where
  rule : Rule
  crAllowed : Bool
  isReverse : Bool
  prio : Nat
  shared : Nat
  deriving Inhabited

/-- metric order: `(prio, shared/len(row))` compared as `(prio, shared)` (common denominator) -/
def Match.lt (a b : Match) : Bool := a.prio < b.prio || (a.prio == b.prio && a.shared < b.shared)

/-- insert `m` after every element whose metric is `>=` its own -/
def insertStable (m : Match) : List Match → List Match
  | [] => [m]
  | x :: xs => if x.lt m then m :: x :: xs else x :: insertStable m xs

/-- `res.sort(key=metric, reverse=True)`: descending and stable (equal elements keep their order) -/
def sortStable (l : List Match) : List Match := l.foldl (fun acc m => insertStable m acc) []

/-- `_find_acl_matches` (patching.py:522-548); `none` if a rule row is outside the grammar -/
def findMatches (v : Vendor) (row : String) (rules : Rules) : Option (List Match) := do
  let all : List (Rule × Bool) := rules.loc.map (·, false) ++ rules.glob.map (·, true)
  let one (rev : Bool) (rg : Rule × Bool) : Option (List Match) := do
    let (r, isGlobal) := rg
    let p ← if rev then reversePat v r else directPat r
    let rowN := if v.juniper then junActivate row else row
    match p.match? rowN.toList with
    | none => pure []
    | some _ =>
      pure [{ rule := r, crAllowed := !isGlobal && !rev && !r.ignore, isReverse := rev, prio := r.prio,
              shared := sharedChars row.toList (patternSource p) }]
  let d ← all.mapM (one false)
  let r ← all.mapM (one true)
  pure (sortStable (d.flatten ++ r.flatten))

/-- `_select_match` (patching.py:561-586): `none` = "(None, None)" (ignore rule first) -/
def selectMatch (ms : List Match) (rules : Rules) : Option (Match × Rules) :=
  match ms with
  | [] => none
  | f :: _ =>
    if f.rule.ignore then none else
    let (l, g) :=
      if f.crAllowed then
        ms.foldl (fun (acc : List Rule × List Rule) m =>
          if m.crAllowed then
            match m.rule.children with
            | some (cl, cg) => (mergeDicts acc.1 cl, mergeDicts acc.2 cg)
            | none => acc
          else acc) ([], [])
      else ([], [])
    some (f, ⟨l, mergeDicts g rules.glob⟩)

inductive Err where
  | grammar                       -- a rule row outside the modelled grammar (not an annet error)
  | aclError (path : List String)
  | notExclusive (path : List String) (names : List String)
  deriving Repr, DecidableEq, Inhabited

/-- the `exclusive` fold of `match_row_to_acl` (patching.py:478-491): names of generators
that may delete the row, in first-seen order -/
def canDeleteNames (ms : List Match) : List String :=
  let tab : List (String × Bool) := ms.foldl (fun (acc : List (String × Bool)) m =>
    (m.rule.genNames.zip m.rule.cantDelete).foldl (fun acc (nf : String × Bool) =>
      if acc.any (·.1 == nf.1) then acc.map fun e => if e.1 == nf.1 then (e.1, e.2 && nf.2) else e
      else acc ++ [nf]) acc) []
  (tab.filter (fun e => !e.2)).map (·.1)

/-- `match_row_to_acl(row, rules, exclusive)` -/
def matchRowToAcl (v : Vendor) (row : String) (rules : Rules) (exclusive : Bool) :
    Except Err (Option (Match × Rules)) :=
  match findMatches v row rules with
  | none => .error .grammar
  | some [] => .ok none
  | some ms =>
    if exclusive && (canDeleteNames ms).length > 1 then .error (.notExclusive [] (canDeleteNames ms))
    else .ok (selectMatch ms rules)

def stripAnnotation (row : String) : String :=
  -- `row.rsplit(" # -- ", 1)[0]` is modelled for rows without the separator only; the harness never
  -- generates annotated rows (with_annotations = add_comments is off in every property's domain)
  row

mutual
  /-- `apply_acl(config, rules, fatal_acl, exclusive)` (patching.py:259-283) -/
  def applyAcl (v : Vendor) (fatal exclusive : Bool) (rules : Rules) (path : List String) :
      Cfg → Except Err Cfg
    | .mk ks => (applyAclList v fatal exclusive rules path ks).map Cfg.mk
  def applyAclList (v : Vendor) (fatal exclusive : Bool) (rules : Rules) (path : List String) :
      List (String × Cfg) → Except Err (List (String × Cfg))
    | [] => .ok []
    | (row, ch) :: rest =>
      match matchRowToAcl v row rules exclusive with
      | .error (.notExclusive _ names) => .error (.notExclusive (path ++ [row]) names)
      | .error e => .error e
      | .ok none =>
        if fatal then .error (.aclError (path ++ [row])) else applyAclList v fatal exclusive rules path rest
      | .ok (some (m, cr)) =>
        if m.isReverse && m.rule.cantDelete.all id then applyAclList v fatal exclusive rules path rest
        else
          match applyAcl v fatal exclusive cr (path ++ [row]) ch with
          | .error e => .error e
          | .ok ch' =>
            match applyAclList v fatal exclusive rules path rest with
            | .error e => .error e
            | .ok rest' => .ok ((row, ch') :: rest')
end

end Annet.Acl
