/-
C18 — hardware model string → true sequences → vendor → rulebook.

Mirrors, function by function:
  * `annet/annlib/netdev/db.py:5-62`      `get_db`, `find_true_sequences`, `_build_tree`, `_seq_subs`,
                                           `_make_allowed_by_seq`, `_make_seq_variants`
  * `annet/annlib/netdev/devdb/__init__.py:10-19`  `parse_hw_model`
  * `annet/annlib/netdev/views/hardware.py:9-36, 74-84`  `HardwareLeaf.__bool__/__getattr__`, `HardwareView.match/__hash__/__eq__`
  * `annet/vendors/registry.py:59-77`     `Registry.match`
  * `annet/rulebook/__init__.py:63-116`   `DefaultRulebookProvider.get_rulebook/_render_rul/_read_escaped_rul`
                                           (the three caches; Mako, file reading and the rule compilers are parameters)

Names of sequence components (`α`) and regexps (`ρ`) are type parameters: the driver instantiates them with
`String`, the regenerated tables of `Gen/DevDb.lean` with interned `Nat`s.  A regexp is only ever *searched* in
the model string, so the model takes the outcome as a truth assignment `m : ρ → Bool` (CPython `re` is a
parameter); python `set`s are lists read up to membership.

Core Lean only.
-/
import AnnetModel.Model.Offside

namespace Annet.Hw

variable {α : Type} [DecidableEq α] {ρ : Type} [DecidableEq ρ]

/-! ### db.py -/

/-- `_seq_subs(seq)`: `seq[:1], seq[:2], …, seq[:len]` (db.py:37-39). -/
def seqSubs : List α → List (List α)
  | [] => []
  | a :: s => [a] :: (seqSubs s).map (a :: ·)

/-- all prefixes, `[]` included -/
def prefixes : List α → List (List α)
  | [] => [[]]
  | a :: l => [] :: (prefixes l).map (a :: ·)

/-- all non-empty contiguous slices -/
def neInfixes : List α → List (List α)
  | [] => []
  | a :: l => (prefixes l).map (a :: ·) ++ neInfixes l

/-- all contiguous slices `l[left:right]`, `[]` once -/
def infixes (l : List α) : List (List α) := [] :: neInfixes l

/-- `_make_seq_variants(seq)` (db.py:57-62): `seq[left:-right] + (seq[-1],)` for every `left < len`,
`1 ≤ right ≤ len - left`, i.e. every contiguous slice of `seq[:-1]` followed by the last component. -/
def variants (s : List α) : List (List α) :=
  match s.getLast? with
  | none => []
  | some z => (infixes s.dropLast).map (· ++ [z])

/-- `variants_by_seq.values()` (db.py:43-49): the variant set of every sequence, computed once. -/
def variantLists (P : List (List α × ρ)) : List (List (List α)) := P.map fun e => variants e.1

/-- `all_variants[v]`: the `Counter` is updated with one *set* per sequence, so it counts the sequences that
have `v` among their variants. -/
def countIn (vs : List (List (List α))) (v : List α) : Nat := (vs.filter fun l => decide (v ∈ l)).length

def variantCount (P : List (List α × ρ)) (v : List α) : Nat := countIn (variantLists P) v

/-- `set(variant for variant in variants if all_variants[variant] <= 1)` (db.py:51-54) -/
def allowedIn (vs : List (List (List α))) (s : List α) : List (List α) :=
  (variants s).filter fun v => decide (countIn vs v ≤ 1)

/-- `_make_allowed_by_seq(sequences)[seq]`: the variants of `seq` no other sequence has. -/
def allowed (P : List (List α × ρ)) (s : List α) : List (List α) := allowedIn (variantLists P) s

/-- `functools.reduce(set.union, allowed.values())` (db.py:9). -/
def allSequences (P : List (List α × ρ)) : List (List α) :=
  P.flatMap fun e => allowed P e.1

/-- python `dict.get(k)` on an association list -/
def assocGet {γ δ : Type} [DecidableEq γ] (k : γ) : List (γ × δ) → Option δ
  | [] => none
  | e :: rest => if e.1 = k then some e.2 else assocGet k rest

/-- The dict `_make_allowed_by_seq(sequences)` returns (db.py:42-54), computed once per `get_db`. -/
def allowedTable (P : List (List α × ρ)) : List (List α × List (List α)) :=
  let vs := variantLists P
  P.map fun e => (e.1, allowedIn vs e.1)

/-- `allowed_by_seq[sub_seq]` (db.py:30).  `_build_tree` evaluates it only after `prepared[sub_seq]` on the
line before succeeded, and both dicts have the same keys, so the `KeyError` branch belongs to `lookup`; the
`none` case here is unreachable (`Lemmas.tableGet_eq`). -/
def tableGet (T : List (List α × List (List α))) (s : List α) : List (List α) :=
  match assocGet s T with
  | some a => a
  | none => []

/-- `prepared[seq]`; `none` is `KeyError`. -/
def lookup (P : List (List α × ρ)) (s : List α) : Option ρ :=
  match P with
  | [] => none
  | e :: rest => if e.1 = s then some e.2 else lookup rest s

/-- The nested dict `{regexp: {"sequences": …, "children": {…}}}`; a dict is an association list in insertion
order (sibling keys are unique by construction, see `Lemmas`). -/
inductive Tree (α ρ : Type) where
  | mk : List (ρ × List (List α) × Tree α ρ) → Tree α ρ

abbrev Kid (α ρ : Type) := ρ × List (List α) × Tree α ρ

def Tree.kids : Tree α ρ → List (Kid α ρ)
  | .mk ks => ks

/-- `(prepared[sub], allowed_by_seq[sub])` for every `sub` of a list of sequences; `none` = `KeyError`. -/
def chainFrom (P : List (List α × ρ)) (A : List α → List (List α)) :
    List (List α) → Option (List (ρ × List (List α)))
  | [] => some []
  | sub :: more =>
    match lookup P sub with
    | none => none
    | some r => (chainFrom P A more).map ((r, A sub) :: ·)

/-- What the inner loop of `_build_tree` walks for one `seq`: `(prepared[sub], allowed_by_seq[sub])` for every
`sub` of `_seq_subs(seq)`; `none` = `KeyError` (a prefix of `seq` is not a key of `prepared`). -/
def chainOf (P : List (List α × ρ)) (A : List α → List (List α)) (s : List α) :
    Option (List (ρ × List (List α))) :=
  chainFrom P A (seqSubs s)

/-- A fresh branch: what the loop creates below a node it has just added. -/
def Tree.ofChain : List (ρ × List (List α)) → Tree α ρ
  | [] => .mk []
  | c :: cs => .mk [(c.1, c.2, Tree.ofChain cs)]

/-- `sub[regexp]` for an existing key: rewrite the first kid whose key is `r` with `f`; `none` if absent. -/
def updFirst (r : ρ) (f : Tree α ρ → Tree α ρ) : List (Kid α ρ) → Option (List (Kid α ρ))
  | [] => none
  | k :: rest =>
    if k.1 = r then some ((k.1, k.2.1, f k.2.2) :: rest)
    else (updFirst r f rest).map (k :: ·)

/-- One iteration of the outer loop of `_build_tree` (db.py:24-34):
`if regexp not in sub: sub[regexp] = {sequences, children: {}}` ; `sub = sub[regexp]["children"]`. -/
def Tree.insert : List (ρ × List (List α)) → Tree α ρ → Tree α ρ
  | [], t => t
  | c :: cs, t =>
    match updFirst c.1 (Tree.insert cs) t.kids with
    | some ks => .mk ks
    | none => .mk (t.kids ++ [(c.1, c.2, Tree.ofChain cs)])

/-- `_build_tree(prepared, allowed_by_seq)` (db.py:22-35), `A = allowed_by_seq`. `none` = `KeyError`. -/
def buildFrom (P : List (List α × ρ)) (A : List α → List (List α)) :
    List (List α × ρ) → Tree α ρ → Option (Tree α ρ)
  | [], t => some t
  | e :: rest, t =>
    match chainOf P A e.1 with
    | none => none
    | some c => buildFrom P A rest (t.insert c)

def buildTree (P : List (List α × ρ)) (A : List α → List (List α)) : Option (Tree α ρ) :=
  buildFrom P A P (.mk [])

mutual
/-- `find_true_sequences(hw_model, tree)` (db.py:13-19), `m r = bool(regexp.search(hw_model))`. -/
def Tree.findTrue (m : ρ → Bool) : Tree α ρ → List (List α)
  | .mk ks => findTrueKids m ks
def findTrueKids (m : ρ → Bool) : List (Kid α ρ) → List (List α)
  | [] => []
  | (r, sq, ch) :: rest => (if m r then sq ++ ch.findTrue m else []) ++ findTrueKids m rest
end

inductive DbErr where
  | keyError    -- `prepared[sub_seq]`: a prefix of a sequence is missing
  | typeError   -- `reduce()` of an empty iterable (empty database)
  deriving Repr, DecidableEq

/-- The two sets a `HardwareLeaf` carries. -/
structure HwSets (α : Type) where
  trueS : List (List α)
  falseS : List (List α)

/-- `get_db(prepared)` (db.py:5-10): the allowed-variant dict is computed once and handed to `_build_tree`;
the second component is the union of its values. -/
def getDb (P : List (List α × ρ)) : Except DbErr (Tree α ρ × List (List α)) :=
  let T := allowedTable P
  match buildTree P (tableGet T) with
  | none => .error .keyError
  | some t =>
    if P.isEmpty then .error .typeError
    else .ok (t, T.flatMap fun e => e.2)

/-- `parse_hw_model` after `get_db` (devdb/__init__.py:13-18):
`(true_sequences, all_sequences.difference(true_sequences))`. -/
def hwSets (db : Tree α ρ × List (List α)) (m : ρ → Bool) : HwSets α :=
  let tr := db.1.findTrue m
  ⟨tr, db.2.filter fun v => decide (v ∉ tr)⟩

def parseHw (P : List (List α × ρ)) (m : ρ → Bool) : Except DbErr (HwSets α) :=
  (getDb P).map fun db => hwSets db m

/-! ### views/hardware.py -/

/-- `HardwareLeaf.__bool__` (hardware.py:22-27); `none` = `AttributeError`. -/
def leafBool (h : HwSets α) (path : List α) : Option Bool :=
  if path = [] ∨ path ∈ h.trueS then some true
  else if path ∈ h.falseS then some false
  else none

/-- `HardwareLeaf.__getattr__` (hardware.py:29-36) for a name that is not an ordinary python attribute:
the new leaf's path, or `none` = `AttributeError`. -/
def leafGetattr (h : HwSets α) (path : List α) (name : α) : Option (List α) :=
  let p := path ++ [name]
  if p ∈ h.trueS ∨ p ∈ h.falseS then some p else none

/-- `functools.reduce(getattr, dev_path, self)` then `bool(…)` (hardware.py:74-78). -/
def hwMatchPath (h : HwSets α) (devPath : List α) : Option Bool :=
  match devPath.foldlM (leafGetattr h) [] with
  | none => none
  | some p => leafBool h p

/-- python `str.split(".")` on the characters of a string -/
def splitDots : List Char → List (List Char)
  | [] => [[]]
  | c :: cs =>
    if c = '.' then [] :: splitDots cs
    else match splitDots cs with
      | [] => [[c]]
      | w :: ws => (c :: w) :: ws

/-- `dev_path = expr.split("."); if dev_path[0] == "hw": dev_path = dev_path[1:]`, together with
`item.count(".")` which `Registry.match` uses as the specificity of the expression. -/
def parseExpr (expr : String) : List String × Nat :=
  let parts := (splitDots expr.toList).map String.ofList
  let path := match parts with
    | "hw" :: rest => rest
    | ps => ps
  (path, (expr.toList.filter (· = '.')).length)

/-! ### vendors/registry.py -/

/-- insert `x` into a list sorted by descending key, before the first element whose key is not larger
(so that `x`, which came earlier in the input, stays in front of equal keys). -/
def insertDesc {ν : Type} (x : ν × Nat) : List (ν × Nat) → List (ν × Nat)
  | [] => [x]
  | y :: ys => if y.2 > x.2 then y :: insertDesc x ys else x :: y :: ys

/-- `sorted(matched, key=itemgetter(1), reverse=True)`: a stable sort by descending key. -/
def sortDesc {ν : Type} : List (ν × Nat) → List (ν × Nat)
  | [] => []
  | x :: xs => insertDesc x (sortDesc xs)

/-- `for name, vendor in self.vendors.items(): for item in vendor.match(): …` flattened: the `(vendor, path,
dots)` triples in the order `Registry.match` visits them. -/
def vendorItems {ν : Type} (vendors : List (ν × List (List α × Nat))) : List (ν × List α × Nat) :=
  vendors.flatMap fun ve => ve.2.map fun it => (ve.1, it.1, it.2)

/-- The `matched` list of `Registry.match` (registry.py:67-71): the visited items that hold of `hw`, with
their dot count.  `none` = an `AttributeError` escaped from `hw.match(item)`. -/
def matchedItems {ν : Type} (h : HwSets α) : List (ν × List α × Nat) → Option (List (ν × Nat))
  | [] => some []
  | (v, p, dots) :: more =>
    match hwMatchPath h p with
    | none => none
    | some true => (matchedItems h more).map ((v, dots) :: ·)
    | some false => matchedItems h more

def matchedList {ν : Type} (h : HwSets α) (vendors : List (ν × List (List α × Nat))) :
    Option (List (ν × Nat)) :=
  matchedItems h (vendorItems vendors)

/-- `Registry.match(hw, default)` (registry.py:59-77): `some none` = `default`. -/
def registryMatch {ν : Type} (h : HwSets α) (vendors : List (ν × List (List α × Nat))) : Option (Option ν) :=
  (matchedList h vendors).map fun ms => (sortDesc ms).head?.map (·.1)

/-! ### rulebook/__init__.py — the provider and its caches -/

/-- What `get_rulebook` needs from the outside world.  `κ` = rule file name, `τ` = text, `β` = compiled
rulebook part, `μ` = model string, `σ` = software version, `ν` = vendor name. -/
structure Env (μ σ ν κ τ β : Type) where
  /-- `hw.vendor` (`None` when nothing matches) -/
  vendorOf : μ → Option ν
  /-- `vendor in registry_connector.get()` -/
  registered : ν → Bool
  /-- `VENDOR_ALIASES.get(v, v)` -/
  alias : ν → ν
  /-- `"<vendor>.rul" / ".order" / ".deploy"` -/
  fileName : ν → Nat → κ
  /-- `open(texts/<name>).read()` through `_escape_mako`; `none` = `FileNotFoundError` -/
  readEscaped : κ → Option τ
  /-- `mako_render(text, hw=hw)`; `none` = the template raised -/
  render : τ → μ → σ → Option τ
  /-- `compile_patching_text / compile_ordering_text / compile_deploying_text` (index 0/1/2); `none` = raised -/
  compile : Nat → τ → ν → Option β
  /-- the empty text `""` used when `.order` / `.deploy` do not exist -/
  emptyText : τ

inductive RbErr where
  | unknownVendor     -- the `assert`
  | fileNotFound      -- `<vendor>.rul` missing
  | renderFailed
  | compileFailed
  deriving Repr, DecidableEq

/-- `DefaultRulebookProvider` instance state: `_rulebook_cache` (keyed by `hw`, whose `__eq__/__hash__` look at
`hw.model` only, hardware.py:80-84), `_render_rul_cache` (keyed by `(name, hw)`), `_escaped_rul_cache`. -/
structure Provider (μ κ τ β : Type) where
  rulebooks : List (μ × (β × β × β))
  rendered : List ((κ × μ) × τ)
  escaped : List (κ × τ)

def Provider.fresh {μ κ τ β : Type} : Provider μ κ τ β := ⟨[], [], []⟩

/-! #### `_escape_mako` (rulebook/__init__.py:110-116)

Two `re.sub` passes over the rule text, modelled as the left-to-right scans the regexps perform. -/

/-- the negative look-ahead `(?!if\s*|elif\s*|else\s*|endif\s*|for\s*|endfor\s*)`: does the text after `%`
start with one of Mako's control words? -/
def makoKeyword (cs : List Char) : Bool :=
  ["if", "elif", "else", "endif", "for", "endfor"].any fun k => k.toList.isPrefixOf cs

/-- `re.sub(r"(?:^|\n)%((?!if…))", "\n%%\\1", text)`: a `%` at the start of the text or right after a newline,
not followed by a control word, becomes `%%` (and a newline is put in front of it at the start of the text,
because the replacement begins with `\n` also for the `^` alternative). -/
def escapePercent (lineStart textStart : Bool) : List Char → List Char
  | [] => []
  | c :: cs =>
    if lineStart && c = '%' && !makoKeyword cs then
      (if textStart then ['\n', '%', '%'] else ['%', '%']) ++ escapePercent false false cs
    else c :: escapePercent (c = '\n') false cs

/-- scanner state of the second pass -/
inductive CommentSt where
  | normal
  | pending (buf : List Char)   -- after `^`/`\n`: whitespace seen so far (reversed, the `\n` included)
  | comment                     -- inside `#.*`

/-- `re.sub(r"(?:^|\n)\s*#.*", "", text)`: a `#` that is the first non-blank character after the start of the
text or after a newline is removed with the rest of its line, with that newline and with all the white space
(blank lines included) in between. -/
def dropComments : CommentSt → List Char → List Char
  | .normal, [] => []
  | .pending buf, [] => buf.reverse
  | .comment, [] => []
  | .normal, c :: cs => if c = '\n' then dropComments (.pending ['\n']) cs else c :: dropComments .normal cs
  | .pending buf, c :: cs =>
    if c = '#' then dropComments .comment cs
    else if Annet.Offside.pyIsSpace c then dropComments (.pending (c :: buf)) cs
    else buf.reverse ++ c :: dropComments .normal cs
  | .comment, c :: cs => if c = '\n' then dropComments (.pending ['\n']) cs else dropComments .comment cs

/-- `DefaultRulebookProvider._escape_mako(text)` -/
def escapeMako (text : String) : String :=
  String.ofList (dropComments (.pending []) (escapePercent true true text.toList))

section provider
variable {μ σ ν κ τ β : Type} [DecidableEq μ] [DecidableEq κ]

inductive Rendered (τ : Type) where
  | ok (t : τ)
  | notFound
  | failed

/-- `_read_escaped_rul(name)` (rulebook/__init__.py:97-108). -/
def readEscapedRul (E : Env μ σ ν κ τ β) (st : Provider μ κ τ β) (name : κ) :
    Provider μ κ τ β × Option τ :=
  match assocGet name st.escaped with
  | some t => (st, some t)
  | none =>
    match E.readEscaped name with
    | some t => ({ st with escaped := (name, t) :: st.escaped }, some t)
    | none => (st, none)

/-- `_render_rul(name, hw)` (rulebook/__init__.py:91-95). -/
def renderRul (E : Env μ σ ν κ τ β) (st : Provider μ κ τ β) (name : κ) (model : μ) (soft : σ) :
    Provider μ κ τ β × Rendered τ :=
  match assocGet (name, model) st.rendered with
  | some t => (st, .ok t)
  | none =>
    match readEscapedRul E st name with
    | (st, none) => (st, .notFound)
    | (st, some esc) =>
      match E.render esc model soft with
      | none => (st, .failed)
      | some t => ({ st with rendered := ((name, model), t) :: st.rendered }, .ok t)

/-- `except FileNotFoundError: text = ""` (rulebook/__init__.py:73-82) -/
def textOr (E : Env μ σ ν κ τ β) : Rendered τ → τ
  | .ok t => t
  | _ => E.emptyText

/-- `get_rulebook(hw)` (rulebook/__init__.py:63-89). -/
def getRulebook (E : Env μ σ ν κ τ β) (st : Provider μ κ τ β) (model : μ) (soft : σ) :
    Provider μ κ τ β × Except RbErr (β × β × β) :=
  match assocGet model st.rulebooks with
  | some rb => (st, .ok rb)
  | none =>
    match (E.vendorOf model).filter E.registered with
    | none => (st, .error .unknownVendor)
    | some v =>
      let rv := E.alias v
      match renderRul E st (E.fileName rv 0) model soft with
      | (st, .notFound) => (st, .error .fileNotFound)
      | (st, .failed) => (st, .error .renderFailed)
      | (st, .ok ptext) =>
        match E.compile 0 ptext rv with
        | none => (st, .error .compileFailed)
        | some patching =>
          match renderRul E st (E.fileName v 1) model soft with
          | (st, .failed) => (st, .error .renderFailed)
          | (st, ro) =>
            match E.compile 1 (textOr E ro) v with
            | none => (st, .error .compileFailed)
            | some ordering =>
              match renderRul E st (E.fileName v 2) model soft with
              | (st, .failed) => (st, .error .renderFailed)
              | (st, rd) =>
                match E.compile 2 (textOr E rd) v with
                | none => (st, .error .compileFailed)
                | some deploying =>
                  let rb := (patching, ordering, deploying)
                  ({ st with rulebooks := (model, rb) :: st.rulebooks }, .ok rb)

/-- a provider used for a whole history of `get_rulebook(hw)` calls; returns the last result -/
def runHistory (E : Env μ σ ν κ τ β) (st : Provider μ κ τ β) : List (μ × σ) → Provider μ κ τ β
  | [] => st
  | (mo, so) :: rest => runHistory E (getRulebook E st mo so).1 rest

end provider

end Annet.Hw
