/-
Patching and ordering rulebooks: compilation and row matching.

Mirrors
  * `_compile_patching`        annet/rulebook/patching.py:67-116
  * `_compile_ordering`        annet/annlib/rbparser/ordering.py:43-63
  * `_find_rules_matches`, `_match_row_to_rules`, `_select_match`
                               annet/annlib/patching.py:497-586
for rule rows inside the grammar of `Model/Pattern.lean`.  Parameter validation
(valkit) and the text parser are executed by the real code; the model starts
from `syntax.parse_text`'s output.  Not modelled: `%multiline`, `%ignore_case`,
`%comment`, `%context` (the harness never generates them).

Core Lean only.
-/
import AnnetModel.Model.Pattern

namespace Annet.Rules
open Annet.Pattern

/-! ### patching rules -/

/-- one rule of `syntax.parse_text(text, patching scheme)` with validated params -/
inductive RawP where
  | mk (rawRule : String) (row : String) (ignore : Bool) (isGlobal : Bool) (logic : String)
       (diffLogic : String) (ordered rewrite parent forceCommit : Bool) (children : List RawP)
  deriving Repr, Inhabited

structure PAttrs where
  row : String
  logic : String
  diffLogic : String
  parent : Bool
  forceCommit : Bool
  deriving Repr, Inhabited, DecidableEq

/-- compiled patching rule; `children = none` for `%global` rules -/
inductive PRule where
  | mk (rawRule : String) (ignore : Bool) (attrs : PAttrs) (children : Option (List PRule × List PRule))
  deriving Repr, Inhabited

namespace PRule
def rawRule : PRule → String | mk r _ _ _ => r
def ignore : PRule → Bool | mk _ i _ _ => i
def attrs : PRule → PAttrs | mk _ _ a _ => a
def children : PRule → Option (List PRule × List PRule) | mk _ _ _ c => c
end PRule

structure PRules where
  loc : List PRule
  glob : List PRule
  deriving Repr, Inhabited

/-- vendor facts used by compilation and patching -/
structure Vendor where
  reverse : String
  exit : String
  defaultDiff : String := "common.default_diff"
  orderedDiff : String := "common.ordered_diff"
  deriving Repr, Inhabited

/-- split compiled rules into the "local" and "global" dictionaries -/
def splitLG (all : List (PRule × Bool)) : PRules :=
  ⟨(all.filter (!·.2)).map (·.1), (all.filter (·.2)).map (·.1)⟩

mutual
  def compilePList (v : Vendor) : List RawP → List (PRule × Bool)
    | [] => []
    | r :: rest => compileRule v r :: compilePList v rest
  /-- one rule of `_compile_patching`, and whether it goes to the "global" dictionary -/
  def compileRule (v : Vendor) : RawP → PRule × Bool
    | .mk raw row ign g logic dlogic ord rew parent fc ch =>
      if ign then
        -- ignore rules: children = {"global": {}, "local": {}}
        (.mk raw true { row := row, logic := "", diffLogic := dlogic, parent := !ch.isEmpty, forceCommit := false }
          (some ([], [])), g)
      else
        let dl := if ord then v.orderedDiff else if rew then "common.rewrite_diff" else dlogic
        let lg := if ord then "common.ordered" else if rew then "common.rewrite" else logic
        (.mk raw false { row := row, logic := lg, diffLogic := dl, parent := parent || !ch.isEmpty, forceCommit := fc }
          (if g then none else some ((splitLG (compilePList v ch)).loc, (splitLG (compilePList v ch)).glob)), g)
end

/-- `_compile_patching(tree, reverse_prefix, vendor)`; duplicate raw rules cannot occur (dict keys) -/
def compileP (v : Vendor) (rs : List RawP) : PRules := splitLG (compilePList v rs)

/-! `merge_dicts` on dictionaries `raw_rule → rule` (used by `_select_match`).  Two rules under the
same raw rule text have the same row and params; they may differ in `parent` and children. -/

mutual
  def pruleBeq : PRule → PRule → Bool
    | .mk r i a c, .mk r' i' a' c' => r == r' && i == i' && a == a' && pchBeq c c'
  def pchBeq : Option (List PRule × List PRule) → Option (List PRule × List PRule) → Bool
    | none, none => true
    | some (a, b), some (a', b') => prulesBeq a a' && prulesBeq b b'
    | _, _ => false
  def prulesBeq : List PRule → List PRule → Bool
    | [], [] => true
    | x :: xs, y :: ys => pruleBeq x y && prulesBeq xs ys
    | _, _ => false
end

def findP (l : List PRule) (raw : String) : Option PRule := l.find? (·.rawRule == raw)

def mergePDicts : Nat → List PRule → List PRule → List PRule
  | 0, a, _ => a
  | fuel + 1, a, b =>
    if prulesBeq a b then a else
    let mergeRule (x y : PRule) : PRule :=
      if pruleBeq x y then x else
      let ch := match x.children, y.children with
        | some (xl, xg), some (yl, yg) =>
          if pchBeq x.children y.children then x.children
          else some (mergePDicts fuel xl yl, mergePDicts fuel xg yg)
        | _, c => c
      .mk x.rawRule y.ignore y.attrs ch
    (a.map fun x => match findP b x.rawRule with
      | some y => mergeRule x y
      | none => x) ++ b.filter (fun y => (findP a y.rawRule).isNone)

mutual
  def pruleDepth : PRule → Nat
    | .mk _ _ _ none => 1
    | .mk _ _ _ (some (l, g)) => 1 + max (prulesDepth l) (prulesDepth g)
  def prulesDepth : List PRule → Nat
    | [] => 0
    | r :: rs => max (pruleDepth r) (prulesDepth rs)
end

def mergeP (a b : List PRule) : List PRule := mergePDicts (max (prulesDepth a) (prulesDepth b) + 1) a b

/-- a successful match of a config row against a patching rulebook level -/
structure PMatch where
  rawRule : String
  key : List String
  attrs : PAttrs
  deriving Repr, Inhabited, DecidableEq

inductive MatchRes where
  | grammar                                   -- rule row outside the modelled grammar
  | nomatch                                   -- no rule, or an ignore rule, knows the row
  | found (m : PMatch) (children : PRules)
  deriving Inhabited

/-- `_find_rules_matches` (local rules then global rules, all that match, stopping with "no match" at
the first matching ignore rule) followed by `_select_match`. -/
def matchRow (row : String) (rules : PRules) : MatchRes :=
  let all : List (PRule × Bool) := rules.loc.map (·, false) ++ rules.glob.map (·, true)
  let rec go : List (PRule × Bool) → List (PRule × Bool × List String) → Option (Option (List (PRule × Bool × List String)))
    | [], acc => some (some acc.reverse)
    | (r, isG) :: rest, acc =>
      match parseRow false r.attrs.row.toList with
      | none => none
      | some p =>
        match p.match? row.toList with
        | none => go rest acc
        | some key => if r.ignore then some none else go rest ((r, !isG, key.map String.ofList) :: acc)
  match go all [] with
  | none => .grammar
  | some none => .nomatch
  | some (some []) => .nomatch
  | some (some ((f, fcr, fkey) :: more)) =>
    let (l, g) :=
      if fcr then
        ((f, fcr, fkey) :: more).foldl (fun (acc : List PRule × List PRule) (m : PRule × Bool × List String) =>
          if m.2.1 then
            match m.1.children with
            | some (cl, cg) => (mergeP acc.1 cl, mergeP acc.2 cg)
            | none => acc
          else acc) ([], [])
      else ([], [])
    .found { rawRule := f.rawRule, key := fkey, attrs := f.attrs } ⟨l, mergeP g rules.glob⟩

/-! ### ordering rules -/

inductive RawO where
  | mk (rawRule : String) (row : String) (normal : Bool) (orderReverse : Bool) (isGlobal : Bool)
       (scope : Option (List String)) (children : List RawO)
  deriving Repr, Inhabited

inductive ORule where
  | mk (rawRule : String) (row : String) (orderReverse : Bool) (isGlobal : Bool)
       (scope : Option (List String)) (children : List ORule)
  deriving Repr, Inhabited

namespace ORule
def rawRule : ORule → String | mk r _ _ _ _ _ => r
def row : ORule → String | mk _ r _ _ _ _ => r
def orderReverse : ORule → Bool | mk _ _ o _ _ _ => o
def isGlobal : ORule → Bool | mk _ _ _ g _ _ => g
def scope : ORule → Option (List String) | mk _ _ _ _ s _ => s
def children : ORule → List ORule | mk _ _ _ _ _ c => c
end ORule

mutual
  /-- `_compile_ordering`: only rules of type "normal" are kept -/
  def compileO : List RawO → List ORule
    | [] => []
    | r :: rest =>
      match compileORule r with
      | some o => o :: compileO rest
      | none => compileO rest
  def compileORule : RawO → Option ORule
    | .mk raw row normal orev g scope ch => if normal then some (.mk raw row orev g scope (compileO ch)) else none
end

end Annet.Rules
