/-
L6 (patch side) — how a PatchTree becomes the text shown to the operator and the command
paths handed to the deploy driver.  Mirrors annet/annlib/tabparser.py at HEAD:

  * `FormatterContext`                                  tabparser.py:40-64
  * `CommonFormatter.patch`, `_indent_blocks`           tabparser.py:91-96, 136-145
  * `CommonFormatter.cmd_paths` (path-keyed odict)      tabparser.py:98-111
  * `CommonFormatter.blocks_and_context` (is_patch)     tabparser.py:147-178
  * `BlockExitFormatter.block_exit / blocks_and_context` tabparser.py:197-222
  * `HuaweiFormatter.block_exit`                        tabparser.py:245-265
  * `CiscoFormatter.block_exit`                         tabparser.py:326-332
  * `AsrFormatter.block_exit`                           tabparser.py:377-387
  * the constructors (`__init__`) of all BlockExit-derived formatters, including that
    Cisco/Nexus/B4com/Aruba/Arista/Asr call `super().__init__("exit", indent)`, which binds
    `indent` to `no_block_exit` (tabparser.py:272-274, 335-369).

Only the patch side (`is_patch=True`) is modelled here; `join`/`split` are C04's subject
(Model/FormatSplit.lean, another owner).  The set-style formatters (Juniper, Ribbon, Nokia,
RouterOS) define `patch()` as the join of their own `cmd_paths()`; they are covered by the
oracle of harness/props/c09.py only.

The generators of Python are modelled by the lists they yield.  `blocks_and_context` of a
BlockExit formatter is a wrapper around the Common generator whose recursive call is the
wrapper again; the token list is therefore built structurally: after the `BlockEnd` of a
direct child block the wrapper emits `filter(None, self.block_exit(context))`, where
`context` (mutated in place by the Common generator) describes the row whose block has
just been closed, and `last_row_context` is the context of the last row yielded so far.

Core Lean only.
-/
import AnnetModel.Model.Patch

namespace Annet.Format

/-- `PatchItem.context`: a `Dict[str, str]` -/
abbrev Ctx := List (String × String)

/-- `PatchTree` as the formatters see it: `itms` = `(row, child, context)` (the sort key is
not looked at after sorting). -/
inductive PT where
  | mk (items : List (String × Option PT × Ctx))
  deriving Inhabited

abbrev Item := String × Option PT × Ctx

def PT.items : PT → List Item | .mk l => l

mutual
  /-- forget the sort keys of a `Patch.PTree` (contexts are not modelled there: `{}`) -/
  def ofPTree : Patch.PTree → PT
    | .mk items => .mk (ofPTreeItems items)
  def ofPTreeItems : List (String × Option Patch.PTree × Patch.SortKey) → List Item
    | [] => []
    | (row, none, _) :: rest => (row, none, []) :: ofPTreeItems rest
    | (row, some c, _) :: rest => (row, some (ofPTree c), []) :: ofPTreeItems rest
end

/-- what the block generators yield: a row with its context, `BlockBegin`, `BlockEnd` -/
inductive Tok where
  | row (r : String) (ctx : Ctx)
  | bb
  | be
  deriving Repr, DecidableEq, Inhabited

/-- `FormatterContext` (tabparser.py:40-64) -/
inductive FCtx where
  | mk (parent : Option FCtx) (prev cur next : Option (String × Ctx))
  deriving Inhabited

def FCtx.parent : FCtx → Option FCtx | .mk p _ _ _ => p
/-- `context.row`: `self.current and self.current[0]` -/
def FCtx.row : FCtx → Option String | .mk _ _ c _ => c.map (·.1)
/-- `context.row_next` -/
def FCtx.rowNext : FCtx → Option String | .mk _ _ _ n => n.map (·.1)
def FCtx.rowPrev : FCtx → Option String | .mk _ p _ _ => p.map (·.1)

/-- `FormatterContext.level` -/
def FCtx.level : FCtx → Nat
  | .mk none _ _ _ => 0
  | .mk (some p) _ _ _ => p.level + 1

/-- `x or ""` for an optional row -/
def orEmpty (x : Option String) : String := x.getD ""

/-- `(r, c) if r else None`  (tabparser.py:168-169) -/
def truthy (x : Option (String × Ctx)) : Option (String × Ctx) :=
  match x with
  | some (r, c) => if r.isEmpty then none else some (r, c)
  | none => none

/-- what a `block_exit` generator yields -/
inductive Mark where
  | bb
  | be
  | s (x : String)
  deriving Repr, DecidableEq, Inhabited

/-- `block_wrapper(value)` (tabparser.py:36-37) -/
def blockWrapper (v : String) : List Mark := [.bb, .s v, .be]

/-- `str.startswith(prefix)` -/
def startsWith (s pre : String) : Bool := pre.toList.isPrefixOf s.toList
/-- `str.startswith(tuple)` (an empty tuple matches nothing) -/
def startsWithAny (s : String) (pres : List String) : Bool := pres.any (startsWith s)
/-- `str.endswith(suffix)` -/
def endsWith (s suf : String) : Bool := suf.toList.isSuffixOf s.toList

inductive Kind where
  | common      -- CommonFormatter, OptixtransFormatter
  | blockExit   -- BlockExitFormatter itself; Nexus, B4com, Aruba, Arista
  | huawei
  | cisco
  | asr
  deriving Repr, DecidableEq, Inhabited

/-- the attributes of a formatter object that the patch side reads -/
structure Fmt where
  kind : Kind
  indent : String := "  "
  exit : String := ""
  noExit : List String := []
  deriving Repr, Inhabited

/-- `tuple(s)` of a string: its characters as one-character strings -/
def charStrings (s : String) : List String := s.toList.map fun c => String.singleton c

/-- `CommonFormatter(indent)` -/
def mkCommon (indent : String) : Fmt := { kind := .common, indent := indent }
/-- `HuaweiFormatter(indent)` (tabparser.py:226-235) -/
def mkHuawei (indent : String) : Fmt :=
  { kind := .huawei, indent := indent, exit := "quit",
    noExit := ["rsa peer-public-key", "dsa peer-public-key", "public-key-code begin"] }
/-- `super().__init__("exit", indent)`: the second positional parameter of
`BlockExitFormatter.__init__` is `no_block_exit`, so the requested indent becomes the tuple of
its characters in `_no_block_exit` and `_indent` keeps its default of two blanks. -/
def mkExitFamily (k : Kind) (indent : String) : Fmt :=
  { kind := k, indent := "  ", exit := "exit", noExit := charStrings indent }
def mkCisco (indent : String) : Fmt := mkExitFamily .cisco indent
def mkAsr (indent : String) : Fmt := mkExitFamily .asr indent
/-- Nexus, B4com, Aruba, Arista -/
def mkPlainExit (indent : String) : Fmt := mkExitFamily .blockExit indent

/-- `BlockExitFormatter.block_exit` (tabparser.py:197-200) -/
def baseBlockExit (f : Fmt) (cx : FCtx) : List Mark :=
  match cx.row with
  | none => []
  | some cur => if !cur.isEmpty && !startsWithAny cur f.noExit then blockWrapper f.exit else []

/-- `HuaweiFormatter.block_exit` (tabparser.py:245-265) -/
def huaweiBlockExit (f : Fmt) (cx : FCtx) : List Mark :=
  let row := orEmpty cx.row
  let rowNext := cx.rowNext
  let parentRow := orEmpty (cx.parent.bind (·.row))
  if startsWith row "xpl route-filter" then blockWrapper "end-filter"
  else if startsWith row "xpl" then blockWrapper "end-list"
  else if startsWith parentRow "xpl route-filter" then
    if (startsWith row "if" || startsWith row "elseif") && endsWith row "then" && (orEmpty rowNext).isEmpty then [.s "endif"]
    else if row == "else" then [.s "endif"]
    else []
  else baseBlockExit f cx

/-- `CiscoFormatter.block_exit` (tabparser.py:326-332) -/
def ciscoBlockExit (f : Fmt) (cx : FCtx) : List Mark :=
  if startsWith (orEmpty cx.row) "address-family" then blockWrapper "exit-address-family"
  else baseBlockExit f cx

/-- `AsrFormatter.block_exit` (tabparser.py:377-387) -/
def asrBlockExit (f : Fmt) (cx : FCtx) : List Mark :=
  let cur := orEmpty cx.row
  if startsWithAny cur ["prefix-set", "as-path-set", "community-set"] then blockWrapper "end-set"
  else if startsWith cur "if" && endsWith cur "then" then blockWrapper "endif"
  else if startsWith cur "route-policy" then blockWrapper "end-policy"
  else baseBlockExit f cx

/-- `self.block_exit(context)` by class; the Common formatter's `blocks_and_context` never
calls one. -/
def blockExit (f : Fmt) (cx : FCtx) : List Mark :=
  match f.kind with
  | .common => []
  | .blockExit => baseBlockExit f cx
  | .huawei => huaweiBlockExit f cx
  | .cisco => ciscoBlockExit f cx
  | .asr => asrBlockExit f cx

/-- `for exit_statement in filter(None, self.block_exit(context)): yield exit_statement, last_row_context`
(tabparser.py:221-222): empty strings are dropped, every statement carries `last_row_context`. -/
def exitToks (marks : List Mark) (last : Ctx) : List Tok :=
  marks.filterMap fun
    | .bb => some .bb
    | .be => some .be
    | .s x => if x.isEmpty then none else some (.row x last)

/-- `last_row_context` after the tokens `ts`, starting from `dflt` -/
def lastCtx (dflt : Ctx) : List Tok → Ctx
  | [] => dflt
  | .row _ c :: rest => lastCtx c rest
  | _ :: rest => lastCtx dflt rest

def nextOf (rest : List Item) : Option (String × Ctx) :=
  match rest with
  | [] => none
  | (r, _, c) :: _ => some (r, c)

/-- the `FormatterContext` as the Common generator has left it when item `(row, rc)` with
predecessor `prev` and successors `rest` is the current one (tabparser.py:162-169) -/
def ctxAt (parent : Option FCtx) (prev : Option (String × Ctx)) (row : String) (rc : Ctx) (rest : List Item) : FCtx :=
  .mk parent (truthy prev) (some (row, rc)) (truthy (nextOf rest))

mutual
  /-- `blocks_and_context(tree, is_patch=True, context)` for a formatter whose exit statements are
  given by `ex` (`fun _ => []` for the Common formatter): tabparser.py:147-178 and 202-222.
  A patch item opens a block iff `child is not None` (also when the child tree is empty). -/
  def blocksTree (ex : FCtx → List Mark) (parent : Option FCtx) : PT → List Tok
    | .mk items => blocksItems ex parent none items
  def blocksItems (ex : FCtx → List Mark) (parent : Option FCtx) (prev : Option (String × Ctx)) :
      List Item → List Tok
    | [] => []
    | (row, none, rc) :: rest => .row row rc :: blocksItems ex parent (some (row, rc)) rest
    | (row, some c, rc) :: rest =>
      let cx := ctxAt parent prev row rc rest
      let inner := blocksTree ex (some cx) c
      .row row rc :: .bb :: (inner ++ .be :: (exitToks (ex cx) (lastCtx rc inner)
        ++ blocksItems ex parent (some (row, rc)) rest))
end

/-- `self.blocks_and_context(patch, is_patch=True)` -/
def blocks (f : Fmt) (pt : PT) : List Tok := blocksTree (blockExit f) none pt

/-- `_indent_blocks` followed by `_filtered_block_marks`, keeping level and row apart
(the text line is `indent * level + row`) -/
def indentAux : List Tok → Nat → List (Nat × String)
  | [], _ => []
  | .bb :: rest, lvl => indentAux rest (lvl + 1)
  | .be :: rest, lvl => indentAux rest (lvl - 1)
  | .row r _ :: rest, lvl => (lvl, r) :: indentAux rest lvl

/-- the lines of `formatter.patch(pt)` as `(nesting depth, command)` -/
def patchLinesOf (ex : FCtx → List Mark) (pt : PT) : List (Nat × String) := indentAux (blocksTree ex none pt) 0
def patchLines (f : Fmt) (pt : PT) : List (Nat × String) := patchLinesOf (blockExit f) pt

def replicateStr (n : Nat) (s : String) : String := String.join (List.replicate n s)

/-- `formatter.patch(pt)` (tabparser.py:91-96) -/
def patchText (f : Fmt) (pt : PT) : String :=
  "\n".intercalate ((patchLines f pt).map fun (lvl, r) => replicateStr lvl f.indent ++ r)

/-- `odict.__setitem__`: an existing key keeps its position and gets the new value -/
def odictSet {κ ν : Type} [BEq κ] (d : List (κ × ν)) (k : κ) (v : ν) : List (κ × ν) :=
  if d.any (·.1 == k) then d.map fun e => if e.1 == k then (e.1, v) else e else d ++ [(k, v)]

inductive PyErr where
  | indexError
  deriving Repr, DecidableEq, Inhabited

/-- the loop of `cmd_paths` (tabparser.py:98-111); `path` is the Python list, `ret` the odict.
`path[-1]` / `path.pop()` on an empty list raise `IndexError`. -/
def cmdPathsAux : List Tok → List String → List (List String × Ctx) → Except PyErr (List (List String × Ctx))
  | [], _, ret => .ok ret
  | .bb :: rest, path, ret =>
    match path.getLast? with
    | none => .error .indexError
    | some t => cmdPathsAux rest (path ++ [t]) ret
  | .be :: rest, path, ret =>
    if path.isEmpty then .error .indexError else cmdPathsAux rest path.dropLast ret
  | .row r c :: rest, path, ret =>
    let path' := path.dropLast ++ [r]
    cmdPathsAux rest path' (odictSet ret path' c)

def cmdPathsOf (ex : FCtx → List Mark) (pt : PT) : Except PyErr (List (List String × Ctx)) :=
  cmdPathsAux (blocksTree ex none pt) [] []

/-- `formatter.cmd_paths(pt)` for Common / BlockExit formatters -/
def cmdPaths (f : Fmt) (pt : PT) : Except PyErr (List (List String × Ctx)) := cmdPathsOf (blockExit f) pt

/-- `(len(p) - 1, p[-1])` of a command path -/
def depthLast (p : List String) : Nat × String := (p.length - 1, p.getLast?.getD "")

end Annet.Format
