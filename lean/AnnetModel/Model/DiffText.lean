/-
The two textual views of a diff (property C03, last clause):

* `CommonFormatter._diff_lines` (annet/annlib/tabparser.py:116-131) — the view shown at deploy
  confirmation (`formatter.diff(diff)`): one line per entry, `"%s %s%s" % (sign, indent * level, row + suffix)`,
  children one level deeper, and (formatters with a block-end mark) a closing line carrying the block's sign;
* `gen_pre_as_diff` (annet/annlib/diff.py:135-155) — the `annet diff` view, printed from `make_pre(diff)`:
  rule by rule, key by key, operation by operation (affected, moved, removed, added),
  `"%s%s %s\n" % (sign, indent * level, row)`.

Texts are `List Char` (the glue converts from/to `String`), so that the theorems need no `String` lemmas.
Not modelled: colours (`no_color=True`), `show_rules`, the `__MULTILINE_BODY__` pseudo rule.

Core Lean only.
-/
import AnnetModel.Model.Patch

namespace Annet.DiffText
open Annet.Diff Annet.Patch

abbrev Txt := List Char

/-- the four signs of `sign_map` / `ops_sign` -/
inductive Sign where
  | minus | plus | gt | space
  deriving Repr, DecidableEq, Inhabited

def Sign.char : Sign → Char
  | .minus => '-' | .plus => '+' | .gt => '>' | .space => ' '

/-- `sign_map[flag]`; `Op.UNCHANGED` has no sign (KeyError in the code; entries are stripped before printing) -/
def signOfOp : Op → Option Sign
  | .removed => some .minus | .added => some .plus | .moved => some .gt | .affected => some .space
  | .unchanged => none

/-- a diff entry as the operator reads it: sign, row, nested entries -/
inductive SItem where
  | mk (s : Sign) (row : Txt) (children : List SItem)
  deriving Repr, Inhabited

namespace SItem
def sign : SItem → Sign | mk s _ _ => s
def row : SItem → Txt | mk _ r _ => r
def children : SItem → List SItem | mk _ _ c => c
end SItem

mutual
  /-- the signed reading of a diff; `none` when an UNCHANGED entry is present -/
  def signedItem : DItem → Option SItem
    | .mk op row ch _ =>
      match signOfOp op, signedList ch with
      | some s, some cs => some (.mk s row.toList cs)
      | _, _ => none
  def signedList : List DItem → Option (List SItem)
    | [] => some []
    | i :: rest =>
      match signedItem i, signedList rest with
      | some x, some xs => some (x :: xs)
      | _, _ => none
end

/-- `_indent`, `_block_begin`, `_block_end`, `_statement_end` of a formatter -/
structure Fmt where
  indent : Txt
  blockBegin : Txt
  blockEnd : Txt
  stmtEnd : Txt
  deriving Repr, Inhabited

/-- `s * n` -/
def rep : Nat → Txt → Txt
  | 0, _ => []
  | n + 1, t => t ++ rep n t

/-- `"%s %s%s" % (sign, indent * level, body)` -/
def fline (f : Fmt) (s : Sign) (lvl : Nat) (body : Txt) : Txt :=
  s.char :: ' ' :: (rep lvl f.indent ++ body)

/-- the closing line of a block whose rows are at `lvl + 1` -/
def closing (f : Fmt) (s : Sign) (lvl : Nat) : List Txt :=
  if f.blockEnd.isEmpty then [] else [fline f s lvl f.blockEnd]

mutual
  /-- one iteration of the loop of `_diff_lines` -/
  def linesItem (f : Fmt) (lvl : Nat) : SItem → List Txt
    | .mk s row [] => [fline f s lvl (row ++ f.stmtEnd)]
    | .mk s row (c :: cs) =>
      fline f s lvl (row ++ f.blockBegin) :: (linesList f (lvl + 1) (c :: cs) ++ closing f s lvl)
  def linesList (f : Fmt) (lvl : Nat) : List SItem → List Txt
    | [] => []
    | i :: rest => linesItem f lvl i ++ linesList f lvl rest
end

/-- `formatter.diff(diff)` -/
def diffText (f : Fmt) (d : List SItem) : List Txt := linesList f 0 d

/-! ### the `annet diff` view: `gen_pre_as_diff(make_pre(diff), show_rules=False, indent, no_color=True)` -/

/-- `"%s%s %s\n" % (sign, indent * level, row)` (without the newline) -/
def pline (indent : Txt) (s : Sign) (lvl : Nat) (row : Txt) : Txt :=
  s.char :: (rep lvl indent ++ ' ' :: row)

mutual
  def preLines (indent : Txt) (lvl : Nat) : Pre → List Txt
    | .mk rules => preRules indent lvl rules
  def preRules (indent : Txt) (lvl : Nat) : List PreRule → List Txt
    | [] => []
    | .mk _ _ items :: rest => preItems indent lvl items ++ preRules indent lvl rest
  /-- `ops` sorted by `ops_order`: affected, moved, removed, added (unchanged entries are not printed) -/
  def preItems (indent : Txt) (lvl : Nat) : List PreItem → List Txt
    | [] => []
    | .mk _ a r m f _ :: rest =>
      (preEntries indent lvl .space f ++ preEntries indent lvl .gt m ++
       preEntries indent lvl .minus r ++ preEntries indent lvl .plus a) ++ preItems indent lvl rest
  def preEntries (indent : Txt) (lvl : Nat) (s : Sign) : List PreEntry → List Txt
    | [] => []
    | .mk row ch :: rest =>
      (pline indent s lvl row.toList :: preLines indent (lvl + 1) ch) ++ preEntries indent lvl s rest
end

/-- `gen_pre_as_diff(make_pre(diff), False, indent, True)` -/
def preText (indent : Txt) (d : List DItem) : List Txt := preLines indent 0 (makePre d)

end Annet.DiffText
