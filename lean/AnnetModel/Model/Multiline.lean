/-
`%multiline` rules: `common.multiline_diff` (annet/annlib/rulebook/common.py:177-200), the diff logic that rule
compilation gives to every `%multiline` rule (annet/rulebook/patching.py:94), shipped use:
`*/[rd]sa/ peer-public-key * %multiline` (annet/rulebook/texts/huawei.rul:171).

```
def multiline_diff(old, new, diff_pre, _pops=(Op.AFFECTED,)):
    def process_multiline(op, tree):
        for row, children in tree.items():
            yield op, row, list(process_multiline(op, children)), None
    ret = []
    for item in default_diff(old, new, diff_pre, _pops):
        if old.get(item.row, {}) == new.get(item.row, {}):          # <- the skip rule (`Rule.head`)
            continue
        op, tree = Op.ADDED, new
        if item.op == Op.REMOVED:
            op, tree = Op.REMOVED, old
        children = list(process_multiline(op, tree[item.row]))
        ret.append(DiffItem(item.op, item.row, children, item.diff_pre))
    return ret
```

`old` / `new` are the rows of ONE group of sibling rows, all compared by `multiline_diff` (`call_diff_logic` hands every
diff logic the sub-dicts of its own rows, so indices are relative to the group), at the top level (`_pops == (AFFECTED,)`).
`default_diff` is `base_diff(…, moved_to_affected=True)` (`Annet.Diff.baseDiff`); the children it computes are thrown away
by `multiline_diff`, so only its (index, op, row) skeleton is mirrored here (`removedRows`, `newRows`, `sortIdx`): removed
rows carry old indices, rows of new carry new indices, `diff_indexed.sort()` orders by `(index, op string, row)`.  With
`moved_to_affected=True` and `_pops[-1] == AFFECTED` a common row is AFFECTED whether or not the block is in disorder.

`OrderedDict == OrderedDict` is ordered structural equality (`Cfg.beq`); `odict() == {}` holds exactly for the empty
`odict`, which is what comparing with `Cfg.empty` gives.

The skip rule is a parameter: `Rule.head` is the code as it was before the repair 870061c (kept as the old rule, for the regression witnesses); `Rule.fixed` is the code as it is now, the repair
`if item.row in old and item.row in new and old[item.row] == new[item.row]: continue`.

Core Lean only.
-/
import AnnetModel.Model.Diff

namespace Annet.Multiline
open Annet
open Annet.Diff (Op)

/-- one `odict` level: sibling rows with their subtrees -/
abbrev Level := List (String × Cfg)

/-- a `DiffItem` of `multiline_diff`; the match (`diff_pre`) of the top entry is the rule's, the children carry `None` -/
inductive MItem where
  | mk (op : Op) (row : String) (children : List MItem)
  deriving Repr, Inhabited

namespace MItem
def op : MItem → Op | mk o _ _ => o
def row : MItem → String | mk _ r _ => r
def children : MItem → List MItem | mk _ _ c => c
end MItem

mutual
  /-- `process_multiline(op, tree)` (common.py:185-187): every row at every depth with the one `op` -/
  def processMultiline (op : Op) : Cfg → List MItem
    | .mk ks => processMultilineList op ks
  def processMultilineList (op : Op) : List (String × Cfg) → List MItem
    | [] => []
    | (row, ch) :: rest => .mk op row (processMultiline op ch) :: processMultilineList op rest
end

/-- first loop of `base_diff` (common.py:210-218): rows of `old` absent from `new`, with their old index -/
def removedRows (new : Level) : Nat → Level → List (Nat × Op × String)
  | _, [] => []
  | idx, (row, _) :: rest =>
    if Cfg.hasKey new row then removedRows new (idx + 1) rest
    else (idx, .removed, row) :: removedRows new (idx + 1) rest

/-- second loop of `base_diff` (common.py:220-238) for `moved_to_affected=True`, `_pops[-1] == AFFECTED`: every row of
`new` with its new index; ADDED if `old` does not have it, otherwise the parent's op (AFFECTED) -/
def newRows (old : Level) : Nat → Level → List (Nat × Op × String)
  | _, [] => []
  | idx, (row, _) :: rest =>
    (idx, (if Cfg.hasKey old row then Op.affected else Op.added), row) :: newRows old (idx + 1) rest

/-- `diff_indexed.sort()` key `(index, op string, row)`: insertion into a sorted list, after equals -/
def insertIdx (x : Nat × Op × String) : List (Nat × Op × String) → List (Nat × Op × String)
  | [] => [x]
  | y :: ys =>
    let lt := x.1 < y.1 || (x.1 == y.1 && (x.2.1.rank < y.2.1.rank ||
                (x.2.1.rank == y.2.1.rank && x.2.2 < y.2.2)))
    if lt then x :: y :: ys else y :: insertIdx x ys

def sortIdx (l : List (Nat × Op × String)) : List (Nat × Op × String) := l.foldl (fun acc x => insertIdx x acc) []

/-- the (op, row) skeleton of `default_diff(old, new, diff_pre, (AFFECTED,))`, in the order of its result -/
def defaultDiffRows (old new : Level) : List (Op × String) :=
  (sortIdx (removedRows new 0 old ++ newRows old 0 new)).map (·.2)

/-- which rows produce no entry -/
inductive Rule where
  | head    -- the code before the repair 870061c: `old.get(row, {}) == new.get(row, {})`
  | fixed   -- `row in old and row in new and old[row] == new[row]`
  deriving Repr, DecidableEq, Inhabited

/-- the `continue` test of the loop -/
def skip (rule : Rule) (old new : Level) (row : String) : Bool :=
  match rule with
  | .head => Cfg.beq ((Cfg.lookup old row).getD Cfg.empty) ((Cfg.lookup new row).getD Cfg.empty)
  | .fixed =>
    match Cfg.lookup old row, Cfg.lookup new row with
    | some a, some b => Cfg.beq a b
    | _, _ => false

/-- the op handed to `process_multiline` -/
def childOp (op : Op) : Op := if op == .removed then .removed else .added

/-- the tree `item.row` is looked up in -/
def sideOf (op : Op) (old new : Level) : Level := if op == .removed then old else new

/-- the loop over the items of `default_diff`; `none` = `KeyError` of `tree[item.row]` -/
def buildItems (rule : Rule) (old new : Level) : List (Op × String) → Option (List MItem)
  | [] => some []
  | (op, row) :: rest =>
    if skip rule old new row then buildItems rule old new rest
    else
      match Cfg.lookup (sideOf op old new) row with
      | none => none
      | some t =>
        match buildItems rule old new rest with
        | none => none
        | some more => some (.mk op row (processMultiline (childOp op) t) :: more)

/-- `multiline_diff(old, new, diff_pre, (AFFECTED,))` with the given skip rule -/
def multilineDiffWith (rule : Rule) (old new : Level) : Option (List MItem) :=
  buildItems rule old new (defaultDiffRows old new)

/-- the code as it was before the repair 870061c (old rule) -/
def multilineDiff (old new : Level) : Option (List MItem) := multilineDiffWith .head old new

/-- the code as it is (since the repair 870061c) -/
def multilineDiffFixed (old new : Level) : Option (List MItem) := multilineDiffWith .fixed old new

mutual
  /-- `mark_unchanged` (annet/annlib/patching.py:296-304) applied by `make_diff` to what the diff logics return: an AFFECTED
  entry all of whose (marked) children are UNCHANGED — in particular one WITHOUT children — becomes UNCHANGED -/
  def markUnchanged : List MItem → List MItem
    | [] => []
    | i :: rest => markItem i :: markUnchanged rest
  def markItem : MItem → MItem
    | .mk o r ch =>
      if o == .affected then
        .mk (if (markUnchanged ch).all (·.op == .unchanged) then .unchanged else .affected) r (markUnchanged ch)
      else .mk o r ch
end

/-- `strip_unchanged` at the top level (patching.py:307-314): what is reported -/
def reported (d : List MItem) : List MItem := (markUnchanged d).filter (fun i => i.op != .unchanged)

mutual
  /-- paths of an entry forest, ops erased (document order; same shape as `Cfg.paths`) -/
  def mpaths : List MItem → List (List String)
    | [] => []
    | i :: rest => mpathsItem i ++ mpaths rest
  def mpathsItem : MItem → List (List String)
    | .mk _ r ch => [r] :: (mpaths ch).map (r :: ·)
end

mutual
  /-- every entry at every depth carries `op` -/
  def allOp (op : Op) : List MItem → Bool
    | [] => true
    | i :: rest => allOpItem op i && allOp op rest
  def allOpItem (op : Op) : MItem → Bool
    | .mk o _ ch => o == op && allOp op ch
end

mutual
  /-- flat, decidable rendering used by witnesses and the driver: (op name, path) of every entry in document order -/
  def flat : List MItem → List (String × List String)
    | [] => []
    | i :: rest => flatItem i ++ flat rest
  def flatItem : MItem → List (String × List String)
    | .mk o r ch => (o.name, [r]) :: (flat ch).map (fun p => (p.1, r :: p.2))
end

end Annet.Multiline
