/-
`apply_acl_diff` (annet/annlib/patching.py:286-295), `make_diff` with ACLs (319-329) and the ACL branch of
`_diff_and_patch` (annet/api/__init__.py:70-87).

Core Lean only.
-/
import AnnetModel.Model.Acl
import AnnetModel.Model.Api

namespace Annet.AclDiff
open Annet Annet.Diff

inductive Err where
  | acl (e : Acl.Err)
  | patch (e : Patch.Err)
  deriving Repr, Inhabited

mutual
  /-- `apply_acl_diff(diff, rules)`: entries whose row the ACL does not match are dropped; a REMOVED entry
  whose selected match only has cant_delete generators becomes AFFECTED -/
  def applyAclDiff (v : Acl.Vendor) (rules : Acl.Rules) : List DItem → Except Acl.Err (List DItem)
    | [] => .ok []
    | i :: rest =>
      match aclDiffItem v rules i, applyAclDiff v rules rest with
      | .error e, _ => .error e
      | _, .error e => .error e
      | .ok none, .ok r => .ok r
      | .ok (some i'), .ok r => .ok (i' :: r)
  def aclDiffItem (v : Acl.Vendor) (rules : Acl.Rules) : DItem → Except Acl.Err (Option DItem)
    | .mk op row ch m =>
      match Acl.matchRowToAcl v row rules false with
      | .error e => .error e
      | .ok none => .ok none
      | .ok (some (am, cr)) =>
        match applyAclDiff v cr ch with
        | .error e => .error e
        | .ok ch' =>
          .ok (some (.mk (if op == .removed && am.rule.cantDelete.all id then .affected else op) row ch' m))
end

/-- `make_diff(old, new, rb, [acl, None])` -/
def makeDiffAcl (v : Acl.Vendor) (acl : Acl.Rules) (rules : Rules.PRules) (old new : Cfg) :
    Except Err (List DItem) :=
  match annotate rules old, annotate rules new with
  | .error e, _ => .error (.patch (.diff e))
  | _, .error e => .error (.patch (.diff e))
  | .ok o, .ok n =>
    match callDiffLogic (adepth o + adepth n + 2) [.op .affected] o.kids n.kids with
    | .error e => .error (.patch (.diff e))
    | .ok d =>
      match applyAclDiff v acl d with
      | .error e => .error (.acl e)
      | .ok d' => .ok (markUnchanged d')

/-- `_diff_and_patch(device, old, new, acl_rules, None, add_comments=False)` -/
def deviceModeAcl (lg : Patch.LogicFn) (pv : Rules.Vendor) (av : Acl.Vendor) (acl : Acl.Rules) (rules : Rules.PRules)
    (ordering : List Rules.ORule) (old new : Cfg) : Except Err Api.Result :=
  match Acl.applyAcl av false false acl [] old, Acl.applyAcl av false false acl [] new with
  | .error e, _ => .error (.acl e)
  | _, .error e => .error (.acl e)
  | .ok old', .ok new' =>
    match makeDiffAcl av acl rules old' new' with
    | .error e => .error e
    | .ok d =>
      match Patch.makePatchWith lg pv ordering true (Patch.makePre d) with
      | .error e => .error (.patch e)
      | .ok p => .ok { diff := stripUnchanged d, patch := p }

end Annet.AclDiff
