/-
Partial generators (C10): from generator programs and ACL texts to the device's desired configuration.

Mirrors, function by function,
* `annet/generators/base.py:44-49`   `_split_and_strip` (with `textwrap.dedent`, CPython 3.12 `textwrap.py`)
* `annet/generators/base.py:23-38`   `_filter_str`
* `annet/generators/base.py:59-131`  `TreeGenerator.block / block_if / multiblock / _append_text_cb`
* `annet/generators/partial.py:69-97` `PartialGenerator.__call__` (tuple flattening `annlib/lib.py:221-226`,
                                      `"\n".join(rows) + "\n"`)
* `annet/annlib/tabparser.py:75-76, 191-195, 237-243` the vendors' `split` (Common / `split_remove_spaces` / Huawei)
* `annet/generators/__init__.py:159-250` `_run_partial_generator` (parse, `apply_acl(fatal_acl=True)`)
* `annet/generators/__init__.py:120-155` `run_partial_generators` (loop, `add_partial`)
* `annet/generators/result.py:24-81`  `_combine_acl_text` (on parsed rule trees), `config_tree`
* `annet/gen.py:181-216`              `_old_new_per_device`: `new = apply_acl(config_tree, merged acl, exclusive=True)`

The offside parser is `Model/Offside.lean`, ACL compilation/matching/filtering `Model/Acl.lean`, `merge_dicts` on
config trees `Model/Implicit.lean` (`merge`).

Core Lean only.
-/
import AnnetModel.Model.Offside
import AnnetModel.Model.Acl
import AnnetModel.Model.Implicit

namespace Annet.Gen
open Annet Annet.Offside Annet.Acl

/-! ### `_split_and_strip` (base.py:44-49) -/

/-- the characters `textwrap` treats as indentation: `[ \t]` -/
def isBlankTab (c : Char) : Bool := c == ' ' || c == '\t'

/-- `text.split("\n")` -/
def splitNl : List Char → List (List Char)
  | [] => [[]]
  | c :: cs =>
    if c == '\n' then [] :: splitNl cs
    else match splitNl cs with
      | [] => [[c]]            -- not reachable: `splitNl` never returns `[]`
      | l :: ls => (c :: l) :: ls

/-- `"\n".join(lines)` -/
def joinNl : List (List Char) → List Char
  | [] => []
  | [l] => l
  | l :: ls => l ++ '\n' :: joinNl ls

/-- longest common prefix -/
def lcp : List Char → List Char → List Char
  | a :: as, b :: bs => if a == b then a :: lcp as bs else []
  | _, _ => []

/-- `_whitespace_only_re.sub('', text)`: a line of blanks and tabs only becomes empty -/
def normLine (l : List Char) : List Char := if l.all isBlankTab then [] else l

/-- the loop over `_leading_whitespace_re.findall(text)` of `textwrap.dedent`: the longest common prefix of the
leading `[ \t]*` of every line that has a character outside `[ \t]`; `none` = no such line (`margin is None`) -/
def margin (lines : List (List Char)) : Option (List Char) :=
  lines.foldl (fun m l =>
    if l.all isBlankTab then m
    else match m with
      | none => some (l.takeWhile isBlankTab)
      | some mg => some (lcp mg (l.takeWhile isBlankTab))) none

/-- `textwrap.dedent(text)`, on the lines of the text -/
def dedentLines (lines : List (List Char)) : List (List Char) :=
  let ls := lines.map normLine
  match margin ls with
  | none => ls                                   -- `if margin:` is false
  | some mg => ls.map fun l => if mg.isPrefixOf l then l.drop mg.length else l   -- `re.sub(r'(?m)^' + margin, '', text)`

/-- `_split_and_strip(text)` (base.py:44-49, since fix e9aec0a): multi-line texts are dedented, stripped as a whole
and split; a text without a newline is one row, stripped as well (before the fix it was taken verbatim, so a leading
blank re-parented the row — `Spec.splitAndStripOld`, `C10_yield_paths_old_rule_false`). -/
def splitAndStrip (text : List Char) : List (List Char) :=
  if text.contains '\n' then splitNl (strip (joinNl (dedentLines (splitNl text))))
  else [strip text]

/-! ### generator programs -/

/-- a yielded / block token -/
inductive Val where
  | str (s : String)        -- `str`, `int`, `float` (already `str(value)`): what `_filter_str` accepts
  | none                    -- `None` (or any other value `_filter_str` rejects)
  | tup (vs : List Val)     -- a nested tuple / list (flattened in yields, rejected as a block token)
  deriving Repr, Inhabited

inductive Op where
  | yieldStr (text : String)                                         -- `yield "text"`
  | yieldTuple (vals : List Val)                                     -- `yield (a, b, (c, d))`
  | block (toks : List Val) (indent : Option String) (body : List Op)   -- `with self.block(*toks, indent=…):`
  | blockIf (toks : List Val) (cond : Option Bool) (body : List Op)     -- `with self.block_if(*toks, condition=…):`
  | multiblock (blocks : List (List Val)) (body : List Op)              -- `with self.multiblock(*blocks):`
  deriving Repr, Inhabited

mutual
  /-- `annlib.lib.flatten` (lib.py:221-226) -/
  def flatten : Val → List Val
    | .tup vs => flattenList vs
    | v => [v]
  def flattenList : List Val → List Val
    | [] => []
    | v :: vs => flatten v ++ flattenList vs
end

/-- `_filter_str` (base.py:23-38): `none` = `InvalidValueFromGenerator` -/
def filterStr : Val → Option String
  | .str s => some s
  | _ => none

def joinWith (sep : String) : List String → String
  | [] => ""
  | [s] => s
  | s :: ss => s ++ sep ++ joinWith sep ss

/-- `" ".join(map(_filter_str, tokens))` -/
def joinToks (toks : List Val) : Option String := (toks.mapM filterStr).map (joinWith " ")

def concatStr : List String → String
  | [] => ""
  | s :: ss => s ++ concatStr ss

/-- `_append_text_cb(text)` (base.py:127-131): `self._rows.append("".join(self._indents) + row)` for every row of
`_split_and_strip(text)`; returns the appended rows -/
def appendText (indents : List String) (text : String) : List String :=
  (splitAndStrip text.toList).map fun row => concatStr indents ++ String.ofList row

/-- default condition of `block_if` (base.py:84-85): `None not in tokens and "" not in tokens` -/
def defaultCond (toks : List Val) : Bool :=
  toks.all fun
    | .none => false
    | .str s => !s.isEmpty
    | .tup _ => true

/-- the header rows of `multiblock(*blocks)` (base.py:93-101): block `i` is opened inside the `i` blocks before it,
each with the default indent -/
def multiHeaders (indents : List String) : List (List Val) → Option (List String)
  | [] => some []
  | b :: bs =>
    match joinToks b, multiHeaders (indents ++ ["  "]) bs with
    | some h, some rest => some (appendText indents h ++ rest)
    | _, _ => none

mutual
  /-- running one statement of the generator body with `self._indents = indents`; the rows appended to
  `self._rows`, `none` = an exception (`InvalidValueFromGenerator`) escapes the generator -/
  def runOp (indents : List String) : Op → Option (List String)
    | .yieldStr text => some (appendText indents text)
    | .yieldTuple vals =>                                    -- partial.py:80-84
      match joinToks (flattenList vals) with
      | some text => some (appendText indents text)
      | none => none
    | .block toks indent body =>                             -- base.py:66-79
      match joinToks toks with
      | none => none
      | some h =>
        match runOps (indents ++ [indent.getD "  "]) body with   -- `self._indent if indent is None else indent`
        | none => none
        | some rows => some (appendText indents h ++ rows)
    | .blockIf toks cond body =>                             -- base.py:81-90
      if cond.getD (defaultCond toks) then                   -- `condition is DefaultBlockIfCondition`
        match joinToks toks with
        | none => none
        | some h =>
          match runOps (indents ++ ["  "]) body with
          | none => none
          | some rows => some (appendText indents h ++ rows)
      else runOps indents body
    | .multiblock blocks body =>                             -- base.py:92-101
      match multiHeaders indents blocks with
      | none => none
      | some hs =>
        match runOps (indents ++ blocks.map fun _ => "  ") body with
        | none => none
        | some rows => some (hs ++ rows)
  def runOps (indents : List String) : List Op → Option (List String)
    | [] => some []
    | op :: rest =>
      match runOp indents op with
      | none => none
      | some rows =>
        match runOps indents rest with
        | none => none
        | some more => some (rows ++ more)
end

/-- `PartialGenerator.__call__` (partial.py:69-97): the rows; the returned text is `"\n".join(rows) + "\n"`.
(The assertion that no row contains the word `None` is not modelled: see the header of Props/C10.lean.) -/
def runGen (ops : List Op) : Option (List String) := runOps [] ops

/-! ### the vendors' `split` (tabparser.py) -/

inductive Splitter where
  | common          -- `CommonFormatter.split`
  | removeSpaces    -- `BlockExitFormatter.split_remove_spaces` (Arista, Nexus, Aruba, B4com)
  | huawei          -- `HuaweiFormatter.split`
  deriving Repr, DecidableEq, Inhabited

/-- `re.sub(r"(?<=\S)\ {2,}(?=\S)", " ", line)`: a run of two or more blanks between two non-whitespace characters
becomes one blank.  `afterNonWs`: the run being counted started right after a non-whitespace character;
`pending`: its length so far. -/
def collapseGo : Bool → Nat → List Char → List Char
  | _, n, [] => List.replicate n ' '
  | a, n, c :: cs =>
    if c == ' ' then
      if a then collapseGo a (n + 1) cs
      else ' ' :: collapseGo false 0 cs
    else
      (if n ≥ 2 && !pyIsSpace c then [' '] else List.replicate n ' ') ++ c :: collapseGo (!pyIsSpace c) 0 cs

def collapseSpaces (row : String) : String := String.ofList (collapseGo false 0 row.toList)

/-- `str(x).strip().startswith(("end-list", "endif", "end-filter"))` -/
def isPolicyEnd (row : String) : Bool :=
  let s := strip row.toList
  "end-list".toList.isPrefixOf s || "endif".toList.isPrefixOf s || "end-filter".toList.isPrefixOf s

/-- `fmtr.split("\n".join(rows) + "\n")` for rows without newlines: `list(filter(None, text.split("\n")))` gives the
non-empty rows back -/
def split : Splitter → List String → List String
  | .common, rows => rows.filter (fun r => !r.isEmpty)
  | .removeSpaces, rows => (rows.map collapseSpaces).filter (fun r => !r.isEmpty)
  | .huawei, rows => ((rows.map collapseSpaces).filter (fun r => !r.isEmpty)).filter (fun r => !isPolicyEnd r)

/-! ### `_run_partial_generator`, `run_partial_generators`, `_old_new_per_device` -/

structure GenDef where
  name : String                -- `gen.__class__.__name__`
  ops : List Op                -- the body of `run_<vendor>`
  acl : List RawRule           -- `syntax.parse_text(textwrap.dedent(gen.acl(device)), _PARAMS_SCHEME)`
  deriving Repr, Inhabited

inductive RunErr where
  | generator (gen : String)                       -- `GeneratorError(f"{gen} on {device}") from err` (the generator raised)
  | parser (gen : String) (line : Nat)             -- `GeneratorError from ParserError`
  | acl (gen : String) (path : List String)        -- `GeneratorError from AclError(path)`
  | notExclusive (path : List String) (names : List String)   -- `AclNotExclusiveError`
  | grammar                                        -- an ACL row outside the modelled rule grammar (not an annet error)
  deriving Repr, DecidableEq, Inhabited

/-- the comments `parse_to_tree` is called with (its default, tabparser.py:823) -/
def comments : List String := ["!", "#"]

/-- `_run_partial_generator` (generators/__init__.py:159-250) with `use_acl`, without `acl_safe`, annotations, `no_new`:
run, parse with the vendor's splitter, filter by the generator's own ACL in fatal mode -/
def runPartial (v : Vendor) (sp : Splitter) (g : GenDef) : Except RunErr Cfg :=
  match runGen g.ops with
  | none => .error (.generator g.name)
  | some rows =>
    match parseToTree comments (split sp rows) with
    | .error n => .error (.parser g.name n)
    | .ok cfg =>
      match applyAcl v true false (compileAcl [g.acl]) [] cfg with
      | .error (.aclError p) => .error (.acl g.name p)
      | .error (.notExclusive p ns) => .error (.notExclusive p ns)     -- not reachable (`exclusive = false`)
      | .error .grammar => .error .grammar
      | .ok c => .ok c

/-- a generator's result as `RunGeneratorResult.partial_results` keeps it -/
structure Result where
  name : String
  acl : List RawRule
  config : Cfg
  deriving Inhabited

/-- `add_partial`: `self.partial_results[result.name] = result` (overwrite in place, or append) -/
def addPartial (rs : List Result) (r : Result) : List Result :=
  if rs.any (·.name == r.name) then rs.map fun x => if x.name == r.name then r else x else rs ++ [r]

/-- `run_partial_generators` (generators/__init__.py:120-155) without ref generators: the first failing generator
ends the run -/
def runPartials (v : Vendor) (sp : Splitter) : List GenDef → List Result → Except RunErr (List Result)
  | [], acc => .ok acc
  | g :: rest, acc =>
    match runPartial v sp g with
    | .error e => .error e
    | .ok c => runPartials v sp rest (addPartial acc ⟨g.name, g.acl, c⟩)

/-- `RunGeneratorResult.config_tree` (result.py:61-66): `merge_dicts` folded from the empty tree -/
def configTree (rs : List Result) : Cfg := rs.foldl (fun t r => Implicit.merge t r.config) Cfg.empty

mutual
  /-- what the `%generator_names=<name>` suffix `_combine_acl_text` (result.py:24-36) puts on every non-blank line
  does to the parsed rule: the validated parameter `generator_names` is `[name]` at every depth -/
  def tagRule (name : String) : RawRule → RawRule
    | .mk row ign g cd prio _ ch => .mk row ign g cd prio [name] (tagRules name ch)
  def tagRules (name : String) : List RawRule → List RawRule
    | [] => []
    | r :: rs => tagRule name r :: tagRules name rs
end

/-- `syntax.parse_text(res.acl_text(), _PARAMS_SCHEME)`: the generators' rule trees one after the other, tagged -/
def combineAcl (rs : List Result) : List RawRule := (rs.map fun r => tagRules r.name r.acl).flatten

/-- `_old_new_per_device` (gen.py:129-216), CLI device, `config == "empty"`, ACLs on, exclusive on, no implicit
rules, no filter ACL: `.new` or the exception raised -/
def oldNew (v : Vendor) (sp : Splitter) (gens : List GenDef) : Except RunErr Cfg :=
  match runPartials v sp gens [] with
  | .error e => .error e
  | .ok rs =>
    match applyAcl v false true (compileAcl [combineAcl rs]) [] (configTree rs) with
    | .error (.aclError p) => .error (.acl "" p)                      -- not reachable (`fatal = false`)
    | .error (.notExclusive p ns) => .error (.notExclusive p ns)
    | .error .grammar => .error .grammar
    | .ok c => .ok c

/-! ### the ACL steps of `_old_new_per_device` with a device configuration and a filter ACL (gen.py:207-236) -/

/-- what leaves `_old_new_per_device` for a CLI device -/
structure OldNew where
  old : Cfg
  new : Cfg
  deriving Inhabited

/-- `old and patching.apply_acl(old, rules)` (gen.py:209, 233): an empty `old` is passed on untouched -/
def filterOld (v : Vendor) (rules : Rules) : Cfg → Except Err Cfg
  | .mk [] => .ok (.mk [])
  | old => applyAcl v false false rules [] old

/-- gen.py:207-236 without `--acl-safe` and annotations.  `noAcl` = `--no-acl`; `exclusive` = not `--no-acl-exclusive`;
`genAcl` = `syntax.parse_text(res.acl_text())`, compiled even when it is EMPTY (an empty allow-list allows nothing);
`filter` = `none` when no filter option was given (`build_filter_text` returned `None`), `some rules` when a filter was
requested — even one that parses to no rule at all. -/
def aclSteps (v : Vendor) (noAcl exclusive : Bool) (genAcl : List RawRule) (filter : Option (List RawRule))
    (old new : Cfg) : Except Err OldNew :=
  let owned : Except Err OldNew :=
    if noAcl then .ok ⟨old, new⟩
    else
      match filterOld v (compileAcl [genAcl]) old with
      | .error e => .error e
      | .ok o =>
        match applyAcl v false exclusive (compileAcl [genAcl]) [] new with
        | .error e => .error e
        | .ok n => .ok ⟨o, n⟩
  match owned with
  | .error e => .error e
  | .ok r =>
    match filter with
    | none => .ok r
    | some f =>
      match filterOld v (compileAcl [f]) r.old with
      | .error e => .error e
      | .ok o =>
        match applyAcl v false false (compileAcl [f]) [] r.new with
        | .error e => .error e
        | .ok n => .ok ⟨o, n⟩

/-- `_run_partial_generator` with `use_acl` as a parameter: with `--no-acl` the generator's rows are parsed and kept as
they are (generators/__init__.py:207: the own-ACL filter is inside `if run_args.use_acl`) -/
def runPartialU (useAcl : Bool) (v : Vendor) (sp : Splitter) (g : GenDef) : Except RunErr Cfg :=
  if useAcl then runPartial v sp g
  else
    match runGen g.ops with
    | none => .error (.generator g.name)
    | some rows =>
      match parseToTree comments (split sp rows) with
      | .error n => .error (.parser g.name n)
      | .ok cfg => .ok cfg

def runPartialsU (useAcl : Bool) (v : Vendor) (sp : Splitter) : List GenDef → List Result → Except RunErr (List Result)
  | [], acc => .ok acc
  | g :: rest, acc =>
    match runPartialU useAcl v sp g with
    | .error e => .error e
    | .ok c => runPartialsU useAcl v sp rest (addPartial acc ⟨g.name, g.acl, c⟩)

/-- `_old_new_per_device` for a CLI device whose configuration is `old`: run the generators (`use_acl = not no_acl`),
then the ACL steps -/
def oldNewFull (v : Vendor) (sp : Splitter) (gens : List GenDef) (noAcl exclusive : Bool)
    (filter : Option (List RawRule)) (old : Cfg) : Except RunErr OldNew :=
  match runPartialsU (!noAcl) v sp gens [] with
  | .error e => .error e
  | .ok rs =>
    match aclSteps v noAcl exclusive (combineAcl rs) filter old (configTree rs) with
    | .error (.aclError p) => .error (.acl "" p)                      -- not reachable (`fatal = false`)
    | .error (.notExclusive p ns) => .error (.notExclusive p ns)
    | .error .grammar => .error .grammar
    | .ok r => .ok r

end Annet.Gen
