/-
L2 — the rule language shared by patching, ordering, deploy, ACL and implicit
rule texts.

Mirrors, for rows inside the *grammar* (literal words free of regex
metacharacters, `*`, a trailing `~`, a trailing `...`, the `(?i)` flag):
  * `compile_row_regexp`            annet/annlib/rbparser/syntax.py:13-38
    — as the *meaning* of the regular expression it builds (what
      `compile_row_regexp(p).match(row)` returns), not its source text;
  * `_make_reverse` (patching)      annet/rulebook/patching.py:119-130
  * `_make_reverse` (ACL)           annet/annlib/rbparser/acl.py:116-121
  * ordering `reverse_regexp`       annet/annlib/rbparser/ordering.py:52-56
Rows outside the grammar (`*/re/`, `~/re/`, `<name>`, words with regex
metacharacters) are `none` of `parseRow`; CPython `re` decides them and the
harness counts them.

Core Lean only.
-/
import AnnetModel.Model.Offside

namespace Annet.Pattern
open Annet.Offside (pyIsSpace)

inductive Tok where
  | lit (w : List Char)
  | star
  | tilde
  deriving Repr, DecidableEq, Inhabited

structure Pat where
  toks : List Tok
  icase : Bool := false
  ellipsis : Bool := false
  deriving Repr, DecidableEq, Inhabited

/-- characters that make a word regex source rather than a literal
(also `{ }` which would break `str.format`, and `< > / ~ *`). -/
def isMeta (c : Char) : Bool :=
  "\\[](){}|+?^$.*<>/~".toList.contains c

/-- split on single blanks (the row has been normalised by
`re.sub(r"\s+", " ", raw_rule.strip())`, syntax.py:83) -/
def splitBlank : List Char → List (List Char)
  | [] => [[]]
  | c :: cs =>
    if c == ' ' then [] :: splitBlank cs
    else match splitBlank cs with
      | [] => [[c]]
      | w :: ws => (c :: w) :: ws

def dropLast3 (l : List Char) : List Char := l.take (l.length - 3)

/-- remove every occurrence of "(?i)" (`skip` = characters of a found occurrence still to drop) -/
def removeIcaseAux : Nat → List Char → List Char
  | _, [] => []
  | n + 1, _ :: cs => removeIcaseAux n cs
  | 0, c :: cs =>
    if "(?i)".toList.isPrefixOf (c :: cs) then removeIcaseAux 3 cs else c :: removeIcaseAux 0 cs

def removeIcase (l : List Char) : List Char := removeIcaseAux 0 l

def hasIcase : List Char → Bool
  | [] => false
  | c :: cs => "(?i)".toList.isPrefixOf (c :: cs) || hasIcase cs

def wordToTok (isLast : Bool) (w : List Char) : Option Tok :=
  if w == ['*'] then some .star
  else if w == ['~'] then (if isLast then some .tilde else none)
  else if w.isEmpty || w.any isMeta then none
  else some (.lit w)

def wordsToToks : List (List Char) → Option (List Tok)
  | [] => some []
  | [w] => (wordToTok true w).map ([·])
  | w :: ws => do
    let t ← wordToTok false w
    let ts ← wordsToToks ws
    pure (t :: ts)

/-- Tokenise a normalised rule row; `none` = outside the grammar.
`keepIcase = true` is used for the reverse template, where the code does not
strip `(?i)` (so such rows are outside the grammar there). -/
def parseRow (keepIcase : Bool) (row : List Char) : Option Pat :=
  let ic := !keepIcase && hasIcase row
  let row1 := if keepIcase then row else removeIcase row
  let ell := "...".toList.isSuffixOf row1
  let row2 := if ell then dropLast3 row1 else row1
  if row2.isEmpty then none
  else (wordsToToks (splitBlank row2)).map fun ts => { toks := ts, icase := ic, ellipsis := ell }

/-- ASCII case folding (the `re.IGNORECASE` behaviour on the harness's alphabet) -/
def lower (c : Char) : Char := if 'A' ≤ c && c ≤ 'Z' then Char.ofNat (c.toNat + 32) else c

def charEq (ic : Bool) (a b : Char) : Bool := if ic then lower a == lower b else a == b

/-- `rest` after literal `w`, if `rest` starts with it -/
def stripLit (ic : Bool) : List Char → List Char → Option (List Char)
  | [], rest => some rest
  | _ :: _, [] => none
  | a :: w, b :: rest => if charEq ic a b then stripLit ic w rest else none

/-- `(?:\s|$)` — or nothing at all after a `...` row -/
def boundary (ell : Bool) (rest : List Char) : Bool :=
  ell || match rest with
    | [] => true
    | c :: _ => pyIsSpace c

/-- `\s+`: at least one whitespace, all of them consumed -/
def sep (rest : List Char) : Option (List Char) :=
  match rest with
  | [] => none
  | c :: _ => if pyIsSpace c then some (rest.dropWhile pyIsSpace) else none

/-- one token: captures and remaining input -/
def matchOne (ic : Bool) : Tok → List Char → Option (List (List Char) × List Char)
  | .lit w, rest => (stripLit ic w rest).map fun r => ([], r)
  | .star, rest =>
    let word := rest.takeWhile (fun c => !pyIsSpace c)
    if word.isEmpty then none else some ([word], rest.dropWhile (fun c => !pyIsSpace c))
  | .tilde, rest => if rest.isEmpty then none else some ([rest], [])

/-- What `compile_row_regexp(p).match(row)` returns for a grammar pattern:
`none`, or `some groups`.  Domain: `row` has no newline and no trailing
whitespace (configuration rows are stripped lines). -/
def matchToks (ic ell : Bool) : List Tok → List Char → Option (List (List Char))
  | [], rest => if boundary ell rest then some [] else none
  | t :: more, rest =>
    match matchOne ic t rest with
    | none => none
    | some (caps, rest') =>
      match more with
      | [] => if t == .tilde || boundary ell rest' then some caps else none
      | _ :: _ =>
        match sep rest' with
        | none => none
        | some r2 => (matchToks ic ell more r2).map (caps ++ ·)

def Pat.match? (p : Pat) (row : List Char) : Option (List (List Char)) :=
  matchToks p.icase p.ellipsis p.toks row

/-! ### word-level reference semantics (what the rule language *says*) -/

/-- Declarative meaning over rows given as words: literal = that word, `*` = any
one word, trailing `~` = one or more remaining words (key: those words joined
by single blanks).  A pattern not ending in `~` matches any row that *starts*
with the right words. -/
def refWords (ic : Bool) : List Tok → List (List Char) → Option (List (List Char))
  | [], _ => some []
  | [.tilde], ws => if ws.isEmpty then none else some [(" ".toList).intercalate ws]
  | .tilde :: _ :: _, _ => none
  | .lit w :: more, x :: ws =>
    if stripLit ic w x == some [] then refWords ic more ws else none
  | .star :: more, x :: ws => (refWords ic more ws).map (x :: ·)
  | _ :: _, [] => none

/-! ### removal commands -/

inductive RTok where
  | word (w : List Char)
  | hole
  deriving Repr, DecidableEq, Inhabited

/-- `startswith(prefix + " ")` on a normalised row given as words -/
def startsWithPrefix (pre : List Char) (ws : List (List Char)) : Bool :=
  match ws with
  | w :: _ :: _ => w == pre
  | _ => false

/-- ACL / ordering negation of a rule row (acl.py:116-121, ordering.py:52-56):
strip the vendor's negation word if the row starts with it, else prepend it. -/
def negate (pre : List Char) (ws : List (List Char)) : List (List Char) :=
  if startsWithPrefix pre ws then ws.drop 1 else pre :: ws

/-- patching `_make_reverse` on a grammar row: the `str.format` template of the
removal command. -/
def makeReverse (pre : List Char) (toks : List Tok) : List RTok :=
  let body := toks.map fun
    | .lit w => RTok.word w
    | .star => RTok.hole
    | .tilde => RTok.hole
  match toks with
  | .lit w :: _ :: _ => if w == pre then body.drop 1 else .word pre :: body
  | _ => .word pre :: body

/-- `template.format(*key)`: holes filled left to right; `none` = IndexError -/
def format : List RTok → List (List Char) → Option (List (List Char))
  | [], _ => some []
  | .word w :: more, key => (format more key).map (w :: ·)
  | .hole :: more, k :: key => (format more key).map (k :: ·)
  | .hole :: _, [] => none

/-- number of placeholders (`*`, `~`) of a pattern -/
def holes (toks : List Tok) : Nat := toks.countP fun
  | .lit _ => false
  | _ => true

/-- the template as text, `{}` for holes (what `_make_reverse` returns) -/
def renderTemplate (r : List RTok) : List Char :=
  (" ".toList).intercalate (r.map fun
    | .word w => w
    | .hole => "{}".toList)

def joinWords (ws : List (List Char)) : List Char := (" ".toList).intercalate ws

/-- The *source text* of the regular expression `compile_row_regexp` builds for a
grammar row (`re.Pattern.pattern`), syntax.py:13-38.  Needed because the ACL
specificity metric and the ordering weight look at the characters of the
pattern string (patching.py:179, 540). -/
def patternSource (p : Pat) : List Char :=
  let ws := p.toks.map fun
    | .lit w => w
    | .star => "([^\\s]+)".toList
    | .tilde => "(.+)".toList
  let body := ("\\s+".toList).intercalate ws
  let tail := if p.ellipsis || p.toks.getLast? == some .tilde then [] else "(?:\\s|$)".toList
  '^' :: (body ++ tail)

end Annet.Pattern
