/-
C15 — mesh model, part 2: registry lookup, executor, conversion to `bgp_models.Peer`.

Mirrors, function by function:
* `MeshRulesRegistry.lookup_direct / lookup_indirect / lookup_virtual / lookup_global`
                                                   registry.py:209-292 → `lookupDirect`, `lookupIndirect`, …
* `united_ports / separate_ports`                  port_processor.py:13-18 → `portGroups`
* `MeshExecutor._execute_direct_pair`              executor.py:80-127  → `executeDirectPair`
* `MeshExecutor._execute_direct`                   executor.py:129-190 → `executeDirect`
* `MeshExecutor._execute_virtual`                  executor.py:192-229 → `executeVirtual`
* `MeshExecutor._execute_indirect`                 executor.py:231-303 → `executeIndirect`
* `MeshExecutor._execute_globals`                  executor.py:55-72   → `executeGlobals`
* `Pair` / `VirtualPair` and their mergers         executor.py:32-43   → `Pair`, `mergePair`
* `_apply_direct_interface_changes`                executor.py:314-346 → `applyDirectIface`
* `_apply_indirect_interface_changes`              executor.py:348-364 → `applyIndirectIface`
* `InterfaceChanges.__post_init__`                 models_converter.py:27-31 → `interfaceChanges`
* `to_bgp_peer`                                    models_converter.py:73-93 → `toBgpPeer`
* `MeshExecutor.execute_for`                       executor.py:369-404 → `executeFor`

Parameters (not modelled, shipped by the harness from the real objects or fixed by its fake storage):
* name matching (`PairMatcher.match_pair`, `SingleMatcher.match_one`, `_normalize_host`): the
  Boolean match matrix `isMatch`;  handlers: pure functions of what they are shown;
* `Storage`/`Device`: `allFqdns`, `neighbours`, `conns` (= names in `search_connections`),
  `known`, interface names and the naming of created interfaces (`make_lag`, `add_subif`, `add_svi`);
* `ipaddress.ip_interface(x).ip` : `ipOf`;  `adaptix` loading is a field-by-field copy.
Not modelled: nested registries (`include`), `GlobalOptions` conversion `to_bgp_global_options`.

Core Lean only.
-/
import AnnetModel.Model.Mesh

namespace Annet.Mesh

/-- exception classes `execute_for` can raise -/
inductive ExecErr where
  | valueError        -- every `MergeForbiddenError` is re-raised as `ValueError`; also the explicit ones
  | attributeError    -- `connected.asnum` missing in `to_bgp_peer`
  | loadError         -- `adaptix` cannot build `InterfaceChanges` (no `addr`)
  | indexError        -- `port_pairs[0]` on an empty list
  | unsupported       -- outside the modelled domain (`MergeErr.typeError/unsupported`, non-scalar key)
  deriving Repr, DecidableEq, Inhabited

def MergeErr.toExec : MergeErr → ExecErr
  | .forbidden => .valueError
  | _ => .unsupported

def liftMerge {α : Type} : Except MergeErr α → Except ExecErr α
  | .ok a => .ok a
  | .error e => .error e.toExec

abbrev PortPairs := List (String × String)

def swapPorts (ps : PortPairs) : PortPairs := ps.map fun p => (p.2, p.1)

/-- What one handler invocation assigned on its three arguments. -/
structure Assign where
  left : Fields
  right : Fields
  session : Fields
  deriving Inhabited

/-- A direct handler sees `(left, right)` hosts, the processed port group and all connected ports,
both as `(left port, right port)` pairs. -/
abbrev DirectHandler := String → String → PortPairs → PortPairs → Assign
abbrev IndirectHandler := String → String → Assign
/-- `(device, num)`; `left` = the `VirtualLocal`, `right` = the `VirtualPeer`. -/
abbrev VirtualHandler := String → Nat → Assign

structure DirectRule where
  /-- `rule.matcher.match_pair(normalize(left), normalize(right))` is not `None` -/
  isMatch : String → String → Bool
  /-- `port_processor`: `separate_ports` (true) or `united_ports` (false) -/
  separate : Bool
  handler : DirectHandler

structure IndirectRule where
  isMatch : String → String → Bool
  handler : IndirectHandler

structure VirtualRule where
  isMatch : String → Bool
  num : List Nat
  handler : VirtualHandler

structure Storage where
  /-- `storage.resolve_all_fdnds()` -/
  allFqdns : List String
  /-- `device.neighbours_fqdns` -/
  neighbours : String → List String
  /-- port names of `storage.search_connections(device, neighbor)` -/
  conns : String → String → PortPairs
  /-- `make_devices([fqdn])` returns the device -/
  known : String → Bool
  /-- names of `device.interfaces` before the run -/
  ifaces : String → List String
  /-- names the `Device` adapter gives to created interfaces -/
  lagName : String → String
  subifName : String → String → String
  sviName : String → String

/-! ### registry.py:209-292 -/

structure MatchedDirect where
  rule : DirectRule
  directOrder : Bool
  nameLeft : String
  nameRight : String

/-- `lookup_direct(device, neighbors)`: every rule is tried in both orientations for every neighbor. -/
def lookupDirect (rules : List DirectRule) (device : String) (neighbors : List String) : List MatchedDirect :=
  neighbors.flatMap fun n => rules.flatMap fun r =>
    (if r.isMatch device n then [⟨r, true, device, n⟩] else []) ++
    (if r.isMatch n device then [⟨r, false, n, device⟩] else [])

structure MatchedIndirect where
  rule : IndirectRule
  directOrder : Bool
  nameLeft : String
  nameRight : String

/-- `lookup_indirect(device, devices)` -/
def lookupIndirect (rules : List IndirectRule) (device : String) (devices : List String) : List MatchedIndirect :=
  devices.flatMap fun n => rules.flatMap fun r =>
    (if r.isMatch device n then [⟨r, true, device, n⟩] else []) ++
    (if r.isMatch n device then [⟨r, false, n, device⟩] else [])

/-- `lookup_virtual(device)` -/
def lookupVirtual (rules : List VirtualRule) (device : String) : List VirtualRule :=
  rules.filter fun r => r.isMatch device

/-- port_processor.py:13-18 -/
def portGroups (separate : Bool) (pairs : PortPairs) : List PortPairs :=
  if separate then pairs.map fun p => [p] else [pairs]

/-! ### executor.py:32-43 `Pair` -/

/-- `Pair(local, connected, device, ports)`; `ports` is `NOT_SET` for indirect pairs. -/
structure Pair where
  loc : Fields
  connected : Fields
  device : String
  ports : Option (List String)
  deriving Inhabited

/-- `ForbidChange` (the default merger) on `Pair.ports : list[str]`, through `Merger.__call__`. -/
def mergePorts : Option (List String) → Option (List String) → Except MergeErr (Option (List String))
  | none, y => .ok y
  | some x, none => .ok (some x)
  | some x, some y => if x = y then .ok (some x) else .error .forbidden

/-- `merge(pair1, pair2)` with `Pair._field_mergers = {local: Merge(), connected: Merge(),
device: UseLast(), ports: ForbidChange()}`; `dto` is the table of the peer DTO class. -/
def mergePair (dto : Table) (p q : Pair) : Except MergeErr Pair := do
  let l ← mergeFields dto p.loc q.loc
  let c ← mergeFields dto p.connected q.connected
  let ports ← mergePorts p.ports q.ports
  pure ⟨l, c, q.device, ports⟩

/-- `PeerKey(fqdn, addr, vrf)` (executor.py:25-29); `addr`/`vrf` are the atoms' encodings. -/
abbrev PeerKey := String × String × String

/-- encodings of Python scalars as atoms (fixed by the harness): `None`, `""` -/
def noneAtom : String := "n"
def emptyStrAtom : String := "s"

/-- `addr = getattr(pair.connected, "addr", None); if addr is None: raise ValueError`;
`vrf = getattr(pair.connected, "vrf", "")`. -/
def peerKey (fqdn : String) (connected : Fields) : Except ExecErr PeerKey :=
  match lookup "addr" connected with
  | none => .error .valueError
  | some (.atom a) =>
    if a = noneAtom then .error .valueError else
    match lookup "vrf" connected with
    | none => .ok (fqdn, a, emptyStrAtom)
    | some (.atom v) => .ok (fqdn, a, v)
    | some _ => .error .unsupported
  | some _ => .error .unsupported

abbrev PairState := List (PeerKey × Pair)

/-- `if peer_key in peers: pair = merge(peers[peer_key], pair)`; `peers[peer_key] = pair`
(executor.py:172-189): merge in place when present, append otherwise. -/
def upsertPair (dto : Table) (k : PeerKey) (p : Pair) : PairState → Except MergeErr PairState :=
  upsertWith (fun q p => mergePair dto q p) k p

/-- `merge(DTO(), peer, session)` -/
def mkDto (dto : Table) (peer session : Fields) : Except MergeErr Fields :=
  mergeMany dto [] [peer, session]

/-! ### executor.py:80-127 `_execute_direct_pair` -/

/-- the handler is always called as `(left, right)`; `ports`/`allPorts` are `(local, remote)` pairs -/
def callDirect (device neighbor : String) (rule : DirectRule) (directOrder : Bool)
    (ports allPorts : PortPairs) : Assign :=
  if directOrder then rule.handler device neighbor ports allPorts
  else rule.handler neighbor device (swapPorts ports) (swapPorts allPorts)

def executeDirectPair (dto : Table) (device neighbor : String) (rule : DirectRule) (directOrder : Bool)
    (ports allPorts : PortPairs) : Except ExecErr (Option Pair) :=
  let a := callDirect device neighbor rule directOrder ports allPorts
  let peerDevice := if directOrder then a.left else a.right
  let peerNeighbor := if directOrder then a.right else a.left
  if peerNeighbor.isEmpty && peerDevice.isEmpty && a.session.isEmpty then .ok none
  else do
    let neighborDto ← liftMerge (mkDto dto peerNeighbor a.session)
    let deviceDto ← liftMerge (mkDto dto peerDevice a.session)
    pure (some ⟨deviceDto, neighborDto, neighbor, some (ports.map (·.1))⟩)

/-! ### executor.py:129-190 `_execute_direct` -/

/-- One iteration of the two nested loops of `_execute_direct`: a missing neighbor device, or one
handler application on one port group. -/
inductive DirectItem where
  | missing
  | app (rule : DirectRule) (directOrder : Bool) (neighbor : String) (ports allPorts : PortPairs)

def directItems (st : Storage) (device : String) (mp : MatchedDirect) : List DirectItem :=
  let neighbor := if mp.directOrder then mp.nameRight else mp.nameLeft
  if st.known neighbor then
    let allPorts := st.conns device neighbor
    (portGroups mp.rule.separate allPorts).map fun g => .app mp.rule mp.directOrder neighbor g allPorts
  else [.missing]

/-- insert the pair produced by one handler application (body of the loops, executor.py:161-189) -/
def addPair (dto : Table) (acc : PairState) (pair : Pair) : Except ExecErr PairState := do
  let key ← peerKey pair.device pair.connected
  liftMerge (upsertPair dto key pair acc)

def directStep (dto : Table) (device : String) (acc : PairState) : DirectItem → Except ExecErr PairState
  | .missing => .error .valueError
  | .app rule directOrder neighbor ports allPorts => do
    match ← executeDirectPair dto device neighbor rule directOrder ports allPorts with
    | none => pure acc
    | some pair => addPair dto acc pair

def executeDirect (dto : Table) (st : Storage) (rules : List DirectRule) (device : String) :
    Except ExecErr PairState :=
  (lookupDirect rules device (st.neighbours device)).foldlM
    (fun acc mp => (directItems st device mp).foldlM (directStep dto device) acc) []

/-! ### executor.py:231-303 `_execute_indirect` -/

def executeIndirectPair (dto : Table) (device connected : String) (rule : IndirectRule) (directOrder : Bool) :
    Except ExecErr (Option Pair) :=
  let a := if directOrder then rule.handler device connected else rule.handler connected device
  let peerDevice := if directOrder then a.left else a.right
  let peerConnected := if directOrder then a.right else a.left
  if peerConnected.isEmpty && peerDevice.isEmpty && a.session.isEmpty then .ok none
  else do
    let connectedDto ← liftMerge (mkDto dto peerConnected a.session)
    let deviceDto ← liftMerge (mkDto dto peerDevice a.session)
    pure (some ⟨deviceDto, connectedDto, connected, none⟩)

def indirectStep (dto : Table) (device : String) (acc : PairState) (mp : MatchedIndirect) :
    Except ExecErr PairState := do
  let connected := if mp.directOrder then mp.nameRight else mp.nameLeft
  match ← executeIndirectPair dto device connected mp.rule mp.directOrder with
  | none => pure acc
  | some pair => addPair dto acc pair

def executeIndirect (dto : Table) (st : Storage) (rules : List IndirectRule) (device : String) :
    Except ExecErr PairState :=
  (lookupIndirect rules device st.allFqdns).foldlM (indirectStep dto device) []

/-! ### executor.py:192-229 `_execute_virtual` -/

structure VirtualPair where
  loc : Fields
  connected : Fields

def executeVirtualOne (localDto peerDto : Table) (device : String) (rule : VirtualRule) (num : Nat) :
    Except ExecErr (Option VirtualPair) :=
  let a := rule.handler device num
  if a.right.isEmpty && a.left.isEmpty && a.session.isEmpty then .ok none
  else do
    let virtualDto ← liftMerge (mkDto peerDto a.right a.session)
    let deviceDto ← liftMerge (mkDto localDto a.left a.session)
    if (lookup "svi" deviceDto).isNone then .error .valueError
    else pure (some ⟨deviceDto, virtualDto⟩)

def executeVirtual (localDto peerDto : Table) (rules : List VirtualRule) (device : String) :
    Except ExecErr (List VirtualPair) := do
  let outs ← ((lookupVirtual rules device).flatMap fun r => r.num.map fun n => (r, n)).mapM
    fun rn => executeVirtualOne localDto peerDto device rn.1 rn.2
  pure (outs.filterMap id)

/-! ### executor.py:55-72 `_execute_globals` -/

/-- `global_opts = GlobalOptionsDTO(); for rule …: global_opts = merge(global_opts, rule_global_opts)`;
`insts` are the handler-filled `GlobalOptions` objects of the matching rules, in lookup order
(`is_empty()` is never true: the constructor presets the family and dict fields). -/
def executeGlobals (table : Table) (init : Fields) (insts : List Fields) : Except ExecErr Fields :=
  liftMerge (mergeMany table init insts)

/-! ### models_converter.py -/

/-- `InterfaceChanges` as loaded from the local DTO (models_converter.py:18-31, 68). -/
structure IfChanges where
  addr : String
  lag : Option String
  lagLinksMin : Option String
  svi : Option String
  subif : Option String
  vrf : Option String

/-- an attribute that is set and not `None` -/
def optAtom (fs : Fields) (f : String) : Except ExecErr (Option String) :=
  match lookup f fs with
  | none => .ok none
  | some (.atom a) => .ok (if a = noneAtom then none else some a)
  | some _ => .error .unsupported

/-- `addr: str` is required and type-checked by the loader -/
def ifAddr (loc : Fields) : Except ExecErr String :=
  match lookup "addr" loc with
  | none => .error .loadError
  | some (.atom a) => if a.toList.head? = some 's' then .ok a else .error .loadError
  | some _ => .error .unsupported

def interfaceChanges (loc : Fields) : Except ExecErr IfChanges := do
  let addr ← ifAddr loc
  let lag ← optAtom loc "lag"
  let lagLinksMin ← optAtom loc "lag_links_min"
  let svi ← optAtom loc "svi"
  let subif ← optAtom loc "subif"
  let vrf ← optAtom loc "vrf"
  if lag.isSome && svi.isSome then .error .valueError
  else if svi.isSome && subif.isSome then .error .valueError
  else pure ⟨addr, lag, lagLinksMin, svi, subif, vrf⟩

/-- calls made on the `Device`/`Interface` adapter -/
inductive IfCall where
  | makeLag (lag : String) (ports : List String) (minLinks : Option String)
  | addSubif (iface : String) (subif : String)
  | addSvi (svi : String)
  | addAddr (iface : String) (addr : String) (vrf : Option String)
  deriving Repr, DecidableEq

/-- device interface names so far, and the log of adapter calls -/
structure DevState where
  ifaces : List String
  calls : List IfCall

/-- `_apply_direct_interface_changes` (executor.py:314-346) -/
def applyDirectIface (st : Storage) (device neighbor : String) (ports : List String) (ch : IfChanges)
    (ds : DevState) : Except ExecErr (String × DevState) :=
  let portPairs := (st.conns device neighbor).filter fun p => ports.contains p.1
  if portPairs.length > 1 && ch.lag.isNone && ch.svi.isNone then .error .valueError
  else
    let finish (name : String) (ifs : List String) (calls : List IfCall) : Except ExecErr (String × DevState) :=
      .ok (name, ⟨ds.ifaces ++ ifs, ds.calls ++ calls ++ [.addAddr name ch.addr ch.vrf]⟩)
    match ch.lag with
    | some lag =>
      let lagN := st.lagName lag
      let c1 := IfCall.makeLag lag (portPairs.map (·.1)) ch.lagLinksMin
      match ch.subif with
      | some sub => let n := st.subifName lagN sub; finish n [lagN, n] [c1, .addSubif lagN sub]
      | none => finish lagN [lagN] [c1]
    | none =>
      match ch.subif with
      | some sub =>
        match portPairs with
        | [] => .error .indexError
        | p :: _ => let n := st.subifName p.1 sub; finish n [n] [.addSubif p.1 sub]
      | none =>
        match ch.svi with
        | some svi => let n := st.sviName svi; finish n [n] [.addSvi svi]
        | none =>
          match portPairs with
          | [] => .error .indexError
          | p :: _ => finish p.1 [] []

/-- `_apply_indirect_interface_changes` (executor.py:348-364); `ifname = getattr(local, "ifname", None)` -/
def applyIndirectIface (st : Storage) (ifname : Option String) (ch : IfChanges) (ds : DevState) :
    Except ExecErr (Option String × DevState) :=
  let finish (name : String) (ifs : List String) (calls : List IfCall) : Except ExecErr (Option String × DevState) :=
    .ok (some name, ⟨ds.ifaces ++ ifs, ds.calls ++ calls ++ [.addAddr name ch.addr ch.vrf]⟩)
  match ch.lag with
  | some _ => .error .valueError
  | none =>
    match ch.subif with
    | some sub =>
      let parent := ifname.getD "None"
      let n := st.subifName parent sub
      finish n [n] [.addSubif parent sub]
    | none =>
      match ch.svi with
      | some svi => let n := st.sviName svi; finish n [n] [.addSvi svi]
      | none =>
        match ifname with
        | none => .ok (none, ds)
        | some name =>
          if name.isEmpty then .ok (none, ds)
          else if ds.ifaces.contains name then finish name [] []
          else .error .valueError

/-- `int(s)` for a plain run of ASCII digits (other spellings Python accepts are outside the domain) -/
def parseDecAux : List Char → Nat → Option Nat
  | [], acc => some acc
  | c :: cs, acc => if c.isDigit then parseDecAux cs (acc * 10 + (c.toNat - 48)) else none

def parseDec (cs : List Char) : Option Nat := if cs.isEmpty then none else parseDecAux cs 0

/-- `s.split(".")` -/
def splitDot : List Char → List (List Char)
  | [] => [[]]
  | c :: cs =>
    if c = '.' then [] :: splitDot cs
    else match splitDot cs with
      | [] => [[c]]
      | x :: xs => (c :: x) :: xs

/-- `bgp_models.ASN.__new__` (bgp_models.py:85-99) on an atom: int, `"high.low"`, decimal string, `None` -/
def parseAsn (atom : String) : Except ExecErr Nat :=
  let check (n : Nat) : Except ExecErr Nat := if n ≤ 0xffffffff then .ok n else .error .valueError
  if atom = noneAtom then .ok 0
  else match atom.toList with
    | 'i' :: ds =>
      match parseDec ds with
      | some n => check n
      | none => .error .valueError          -- negative
    | 's' :: cs =>
      match splitDot cs with
      | [hi, lo] =>
        match parseDec hi, parseDec lo with
        | some h, some l => if h < 0x10000 && l < 0x10000 then check (h * 0x10000 + l) else .error .valueError
        | _, _ => .error .valueError
      | [d] =>
        match parseDec d with
        | some n => check n
        | none => .error .valueError
      | _ => .error .valueError
    | _ => .error .unsupported

/-- `bgp_models.Peer` as built by `to_bgp_peer`; `none` = the dataclass default was kept -/
structure PeerOut where
  addr : String
  interface : Option String
  remoteAs : Nat
  hostname : String
  families : Option Val
  vrfName : Option Val
  groupName : Option Val
  description : Option Val
  importPolicy : Option Val
  exportPolicy : Option Val
  updateSource : Option Val
  localAs : Option Nat
  options : Fields
  /-- not a field of `Peer`: `local.addr`, the address this side puts on the interface -/
  localAddr : Option Val
  /-- not a field of `Peer`: `local.vrf` -/
  localVrf : Option Val

/-- `options.local_as = retort.load(local, PeerOptions).local_as`: `Optional[ASN]` loaded from `asnum` -/
def peerLocalAs (loc : Fields) : Except ExecErr (Option Nat) :=
  match lookup "asnum" loc with
  | none => .ok none
  | some (.atom a) =>
    if a = noneAtom then .ok none            -- `Optional[ASN]`
    else match parseAsn a with
      | .ok n => .ok (some n)
      | .error .valueError => .error .loadError   -- raised inside the adaptix loader
      | .error e => .error e
  | some _ => .error .unsupported

/-- `str(ip_interface(connected.addr).ip)` -/
def peerAddr (ipOf : String → Option String) (connected : Fields) : Except ExecErr String :=
  match lookup "addr" connected with
  | some (.atom a) =>
    (match a.toList with
     | 's' :: cs => match ipOf (String.ofList cs) with
        | some ip => .ok ip
        | none => .error .valueError
     | _ => .error .unsupported)
  | none => .error .attributeError
  | some _ => .error .unsupported

/-- `ASN(connected.asnum)` -/
def peerRemoteAs (connected : Fields) : Except ExecErr Nat :=
  match lookup "asnum" connected with
  | none => .error .attributeError
  | some (.atom a) => parseAsn a
  | some _ => .error .unsupported

/-- `to_bgp_peer(local, connected, connected_hostname, interface)` (models_converter.py:73-93).
`optFields` = the fields of `bgp_models.PeerOptions` other than `local_as`;
`ipOf a` = `str(ip_interface(a).ip)` or `none` when `ipaddress` rejects the string. -/
def toBgpPeer (optFields : List String) (ipOf : String → Option String) (loc connected : Fields)
    (hostname : String) (interface : Option String) : Except ExecErr PeerOut := do
  -- options = retort.load(local, PeerOptions): `local_as` <- `asnum`, the rest by name
  let localAs ← peerLocalAs loc
  let addr ← peerAddr ipOf connected
  let remoteAs ← peerRemoteAs connected
  pure {
    addr := addr, interface := interface, remoteAs := remoteAs, hostname := hostname
    vrfName := lookup "vrf" connected
    groupName := lookup "group_name" connected
    description := lookup "description" connected
    families := lookup "families" connected
    importPolicy := lookup "import_policy" loc
    exportPolicy := lookup "export_policy" loc
    updateSource := lookup "update_source" loc
    localAs := localAs
    options := optFields.filterMap fun f => (lookup f loc).map fun v => (f, v)
    localAddr := lookup "addr" loc
    localVrf := lookup "vrf" loc }

/-! ### executor.py:369-404 `execute_for` -/

structure Registry where
  direct : List DirectRule
  indirect : List IndirectRule
  virt : List VirtualRule

structure Tables where
  directDto : Table
  indirectDto : Table
  virtualLocal : Table
  virtualPeer : Table
  optFields : List String

structure ExecOut where
  peers : List PeerOut
  calls : List IfCall

def directPeers (T : Tables) (st : Storage) (ipOf : String → Option String) (device : String) :
    List Pair → DevState → List PeerOut → Except ExecErr (DevState × List PeerOut)
  | [], ds, acc => .ok (ds, acc)
  | p :: rest, ds, acc => do
    let ch ← interfaceChanges p.loc
    let (ifn, ds') ← applyDirectIface st device p.device (p.ports.getD []) ch ds
    let peer ← toBgpPeer T.optFields ipOf p.loc p.connected p.device (some ifn)
    directPeers T st ipOf device rest ds' (acc ++ [peer])

def virtualPeers (T : Tables) (st : Storage) (ipOf : String → Option String) :
    List VirtualPair → DevState → List PeerOut → Except ExecErr (DevState × List PeerOut)
  | [], ds, acc => .ok (ds, acc)
  | p :: rest, ds, acc => do
    -- `device.add_svi(local.svi).name` (executor.py:366-367)
    let svi ← match lookup "svi" p.loc with
      | some (.atom a) => pure a
      | _ => .error .unsupported
    let n := st.sviName svi
    let ds' : DevState := ⟨ds.ifaces ++ [n], ds.calls ++ [.addSvi svi]⟩
    let peer ← toBgpPeer T.optFields ipOf p.loc p.connected "" (some n)
    virtualPeers T st ipOf rest ds' (acc ++ [peer])

def indirectPeers (T : Tables) (st : Storage) (ipOf : String → Option String) :
    List Pair → DevState → List PeerOut → Except ExecErr (DevState × List PeerOut)
  | [], ds, acc => .ok (ds, acc)
  | p :: rest, ds, acc => do
    let ifname ← optAtom p.loc "ifname"
    let ifname := ifname.map fun a => String.ofList (a.toList.drop 1)
    let ch ← interfaceChanges p.loc
    let (ifn, ds') ← applyIndirectIface st ifname ch ds
    let peer ← toBgpPeer T.optFields ipOf p.loc p.connected p.device ifn
    indirectPeers T st ipOf rest ds' (acc ++ [peer])

/-- `execute_for(device)` without the global options (see `executeGlobals`). -/
def executeFor (T : Tables) (st : Storage) (ipOf : String → Option String) (reg : Registry) (device : String) :
    Except ExecErr ExecOut := do
  let direct ← executeDirect T.directDto st reg.direct device
  let (ds1, peers1) ← directPeers T st ipOf device (direct.map (·.2)) ⟨st.ifaces device, []⟩ []
  let virt ← executeVirtual T.virtualLocal T.virtualPeer reg.virt device
  let (ds2, peers2) ← virtualPeers T st ipOf virt ds1 peers1
  let indirect ← executeIndirect T.indirectDto st reg.indirect device
  let (ds3, peers3) ← indirectPeers T st ipOf (indirect.map (·.2)) ds2 peers2
  pure ⟨peers3, ds3.calls⟩

end Annet.Mesh
