/-
L8 — from command paths to the command list handed to the deploy driver.  Mirrors at HEAD:

  * `match_deploy_rule`                annet/rulebook/deploying.py:66-88
  * `syntax.match_context`             annet/annlib/rbparser/syntax.py:99-107
  * `rb_question_to_question`, `make_cmd_params`, `make_apply_commands`, `fill_cmd_params`,
    `apply_deploy_rulebook`            annet/deploy.py:153-231
  * `common.apply` (annet/annlib/rulebook/common.py:290-373) and every other `%apply_logic`
    function as a *table* `(logic, hardware, do_commit, do_finalize) ↦ (before, after)`;
    the table itself (`Gen/ApplyTab.lean`) is regenerated from the real functions on every run
    by `harness/props/c09.py:pregen`.

`rule["attrs"]["regexp"].match(row)` is the parameter `rx : rule row → command → Bool`
(instantiated by Model/Pattern.lean for rule rows of the grammar, by CPython `re` otherwise).

Timeouts are milliseconds (`Nat`); `DEFAULT_TIMEOUT = 30` s.

Core Lean only.
-/
import AnnetModel.Model.Format
import AnnetModel.Model.Pattern

namespace Annet.Deploy
open Annet.Format (Ctx startsWith endsWith)

/-- one `dialog:` line of a rule: `MakeMessageMatcher._text`, `Answer.text`, `Answer.send_nl` -/
structure Dialog where
  text : String
  answer : String
  sendNl : Bool := true
  deriving Repr, DecidableEq, Inhabited

/-- a compiled deploy rule: `{"attrs": {regexp, timeout, apply_logic, dialogs, ifcontext}, "children"}`
(deploying.py:44-63); `row` stands for the compiled `regexp`, `applyLogic` for the imported function -/
inductive DRule where
  | mk (row : String) (timeout : Nat) (applyLogic : String) (dialogs : List Dialog)
       (ifcontext : List String) (children : List DRule)
  deriving Inhabited

def DRule.row : DRule → String | .mk r _ _ _ _ _ => r
def DRule.timeout : DRule → Nat | .mk _ t _ _ _ _ => t
def DRule.applyLogic : DRule → String | .mk _ _ a _ _ _ => a
def DRule.dialogs : DRule → List Dialog | .mk _ _ _ d _ _ => d
def DRule.ifcontext : DRule → List String | .mk _ _ _ _ i _ => i
def DRule.children : DRule → List DRule | .mk _ _ _ _ _ c => c

inductive Err where
  | valueError        -- `name, value = ifcontext_value.split(":")` with other than one colon
  | sendNlFalse       -- `Exception("not supported false send_nl")`
  | unknownHw         -- `Exception("unknown hw %s")` / logic not in the table
  | indexError        -- `cmd_path[-1]` of an empty path
  deriving Repr, DecidableEq, Inhabited

abbrev Rx := String → String → Bool

def defaultTimeout : Nat := 30000
def defaultApplyLogic : String := "common.apply"

/-- the `# default match` of `match_deploy_rule` (deploying.py:78-88) -/
def defaultRule : DRule := .mk "~" defaultTimeout defaultApplyLogic [] [] []

/-- `str.split(":")` -/
def splitColon : List Char → List (List Char)
  | [] => [[]]
  | c :: cs =>
    if c == ':' then [] :: splitColon cs
    else match splitColon cs with
      | [] => [[c]]
      | w :: ws => (c :: w) :: ws

/-- `syntax.match_context(ifcontext, context)` (syntax.py:99-107) -/
def matchContextLoop (ctx : Ctx) : List String → Except Err Bool
  | [] => .ok false
  | v :: more =>
    match splitColon v.toList with
    | [name, value] =>
      if (ctx.lookup (String.ofList name)) == some (String.ofList value) then .ok true
      else matchContextLoop ctx more
    | _ => .error .valueError

def matchContext (ifcontext : List String) (ctx : Ctx) : Except Err Bool :=
  if ifcontext.isEmpty then .ok true else matchContextLoop ctx ifcontext

/-- outcome of the inner `for rule in rules.values()` for one `(depth, row)` -/
inductive Step where
  | ret (r : DRule)              -- `return rule`
  | cont (rules : List DRule)    -- loop left (exhausted or `break`); the current binding of `rules`

/-- The inner loop of `match_deploy_rule` over the *remaining* rules of the level whose iteration
started, with `cur` = the current binding of the variable `rules`.  As written in the code, a
match above the last depth rebinds `rules` to the children of the matching rule and goes on
iterating the old level (unless the children are empty: `break`), so a later sibling that also
matches rebinds `rules` again. -/
def scanLevel (rx : Rx) (ctx : Ctx) (isLast : Bool) (row : String) : List DRule → List DRule → Except Err Step
  | [], cur => .ok (.cont cur)
  | r :: rest, cur =>
    if rx r.row row then
      match matchContext r.ifcontext ctx with
      | .error e => .error e
      | .ok true =>
        if isLast then .ok (.ret r)
        else if r.children.isEmpty then .ok (.cont [])
        else scanLevel rx ctx isLast row rest r.children
      | .ok false => scanLevel rx ctx isLast row rest cur
    else scanLevel rx ctx isLast row rest cur

/-- `match_deploy_rule(rules, cmd_path, context)` (deploying.py:66-88) -/
def matchDeployRule (rx : Rx) : List DRule → List String → Ctx → Except Err DRule
  | _, [], _ => .ok defaultRule
  | rules, row :: more, ctx =>
    match scanLevel rx ctx more.isEmpty row rules rules with
    | .error e => .error e
    | .ok (.ret r) => .ok r
    | .ok (.cont rules') => matchDeployRule rx rules' more ctx

structure Question where
  question : String
  answer : String
  isRegexp : Bool
  deriving Repr, DecidableEq, Inhabited

/-- `rb_question_to_question` (deploy.py:153-163) -/
def questionOf (d : Dialog) : Except Err Question :=
  if !d.sendNl then .error .sendNlFalse
  else if startsWith d.text "/" && endsWith d.text "/" then
    .ok { question := String.ofList (d.text.toList.drop 1).dropLast, answer := d.answer, isRegexp := true }
  else .ok { question := d.text, answer := d.answer, isRegexp := false }

def questionsOf : List Dialog → Except Err (List Question)
  | [] => .ok []
  | d :: ds =>
    match questionOf d with
    | .error e => .error e
    | .ok q => match questionsOf ds with
      | .error e => .error e
      | .ok qs => .ok (q :: qs)

/-- `make_cmd_params(rule)` (deploy.py:166-179): a rule dict is always truthy, also the default one -/
def makeCmdParams (r : DRule) : Except Err (List Question × Nat) :=
  match questionsOf r.dialogs with
  | .error e => .error e
  | .ok qs => .ok (qs, r.timeout)

/-- a `Command` as an apply-logic function creates it -/
structure TabCmd where
  cmd : String
  timeout : Option Nat := none
  deriving Repr, DecidableEq, Inhabited

/-- a `Command` of the resulting `CommandList` (all of them have `level`, `questions`, `timeout` set) -/
structure Cmd where
  cmd : String
  questions : List Question
  timeout : Nat
  level : Nat
  deriving Repr, DecidableEq, Inhabited

structure ApplyEntry where
  logic : String
  hw : String
  doCommit : Bool
  doFinalize : Bool
  /-- `none`: the function raised (`unknown hw`) -/
  result : Option (List TabCmd × List TabCmd)
  deriving Repr, DecidableEq, Inhabited

abbrev ApplyTab := List ApplyEntry

/-- `make_apply_commands` = `rule["attrs"]["apply_logic"](hw, do_commit=…, do_finalize=…, path=None)` -/
def applyLogic (tab : ApplyTab) (logic hw : String) (doCommit doFinalize : Bool) : Except Err (List TabCmd × List TabCmd) :=
  match tab.find? (fun e => e.logic == logic && e.hw == hw && e.doCommit == doCommit && e.doFinalize == doFinalize) with
  | some e => match e.result with
    | some r => .ok r
    | none => .error .unknownHw
  | none => .error .unknownHw

/-- one element of `cmds_with_apply` -/
structure WithApply where
  cmd : Cmd
  before : List TabCmd
  after : List TabCmd
  deriving Repr, DecidableEq, Inhabited

/-- the body of the first loop of `apply_deploy_rulebook` (deploy.py:200-210) -/
def cmdOf (rx : Rx) (tab : ApplyTab) (hw : String) (rules : List DRule) (doFinalize doCommit : Bool)
    (p : List String × Ctx) : Except Err WithApply :=
  match matchDeployRule rx rules p.1 p.2 with
  | .error e => .error e
  | .ok rule =>
    match makeCmdParams rule with
    | .error e => .error e
    | .ok (qs, t) =>
      match applyLogic tab rule.applyLogic hw doCommit doFinalize with
      | .error e => .error e
      | .ok (b, a) =>
        match p.1.getLast? with
        | none => .error .indexError
        | some last => .ok { cmd := { cmd := last, questions := qs, timeout := t, level := p.1.length - 1 }, before := b, after := a }

def cmdsWithApply (rx : Rx) (tab : ApplyTab) (hw : String) (rules : List DRule) (doFinalize doCommit : Bool) :
    List (List String × Ctx) → Except Err (List WithApply)
  | [] => .ok []
  | p :: ps =>
    match cmdOf rx tab hw rules doFinalize doCommit p with
    | .error e => .error e
    | .ok c => match cmdsWithApply rx tab hw rules doFinalize doCommit ps with
      | .error e => .error e
      | .ok cs => .ok (c :: cs)

/-- `_key` (deploy.py:212-214) -/
def groupKey (w : WithApply) : List String × List String := (w.before.map (·.cmd), w.after.map (·.cmd))

/-- `itertools.groupby(xs, key)`: maximal runs of consecutive elements with equal keys.
(Python compares with the key of the first element of the run; for an equivalence relation that
is the same as comparing neighbours, which is what this structural definition does.) -/
def groupRuns {α κ : Type} [BEq κ] (key : α → κ) : List α → List (List α)
  | [] => []
  | x :: xs =>
    match groupRuns key xs with
    | (y :: g) :: gs => if key x == key y then (x :: y :: g) :: gs else [x] :: (y :: g) :: gs
    | _ => [[x]]

/-- `c.level = 0; fill_cmd_params(rules, c)` (deploy.py:190-195, 220-222, 226-228): the wrapper
command is matched as a one-element path with an empty context; since even the default rule is
truthy its `timeout`/`questions` always replace those the apply logic gave. -/
def fillCmd (rx : Rx) (rules : List DRule) (c : TabCmd) : Except Err Cmd :=
  match matchDeployRule rx rules [c.cmd] [] with
  | .error e => .error e
  | .ok rule =>
    match makeCmdParams rule with
    | .error e => .error e
    | .ok (qs, t) => .ok { cmd := c.cmd, questions := qs, timeout := t, level := 0 }

def fillCmds (rx : Rx) (rules : List DRule) : List TabCmd → Except Err (List Cmd)
  | [] => .ok []
  | c :: cs =>
    match fillCmd rx rules c with
    | .error e => .error e
    | .ok x => match fillCmds rx rules cs with
      | .error e => .error e
      | .ok xs => .ok (x :: xs)

/-- one run of `groupby`: `before` of its first element, the commands, `after` of its first element -/
def wrapGroup (rx : Rx) (rules : List DRule) : List WithApply → Except Err (List Cmd)
  | [] => .ok []
  | w :: ws =>
    match fillCmds rx rules w.before with
    | .error e => .error e
    | .ok b =>
      match fillCmds rx rules w.after with
      | .error e => .error e
      | .ok a => .ok (b ++ (w :: ws).map (·.cmd) ++ a)

def wrapGroups (rx : Rx) (rules : List DRule) : List (List WithApply) → Except Err (List Cmd)
  | [] => .ok []
  | g :: gs =>
    match wrapGroup rx rules g with
    | .error e => .error e
    | .ok x => match wrapGroups rx rules gs with
      | .error e => .error e
      | .ok xs => .ok (x ++ xs)

/-- `apply_deploy_rulebook(hw, cmd_paths, do_finalize, do_commit)` (deploy.py:198-231) with
`rules = get_rulebook(hw)["deploying"]` -/
def applyDeployRulebook (rx : Rx) (tab : ApplyTab) (hw : String) (rules : List DRule)
    (paths : List (List String × Ctx)) (doFinalize doCommit : Bool) : Except Err (List Cmd) :=
  match cmdsWithApply rx tab hw rules doFinalize doCommit paths with
  | .error e => .error e
  | .ok cwa => wrapGroups rx rules (groupRuns groupKey cwa)

/-- `rx` for rule rows inside the rule grammar (Model/Pattern.lean, tied to CPython `re` by C07);
`extra` lists the `(rule row, command)` pairs that match for rule rows outside the grammar
(decided by CPython `re`). -/
def rxGrammar (extra : List (String × String)) : Rx := fun ruleRow row =>
  match Pattern.parseRow false ruleRow.toList with
  | some p => (p.match? row.toList).isSome
  | none => extra.contains (ruleRow, row)

/-- a commit command of some vendor's session wrapper: `commit`, `commit apply`, … -/
def isCommitCmd (c : String) : Bool := c == "commit" || startsWith c "commit "

end Annet.Deploy
