/-
C13 — JSON documents, JSON pointers with globs, fragments, filters, patches.

Mirrors, function by function,
  * `annet/annlib/jsontools.py` (HEAD): `apply_json_fragment` (18-44),
    `_ensure_pointer_exists` (47-71), `make_patch` (74-78), `apply_patch` (81-98),
    `apply_acl_filters` (101-121), `_resolve_json_pointers` (124-184);
  * the parts of the third-party libraries those functions execute:
    `jsonpointer.JsonPointer` (`__init__`, `walk`, `get_part`, `to_last`,
    `resolve`, `set`, `path`, `escape`, `unescape`), `fnmatch.fnmatchcase`
    (`fnmatch.translate` of CPython 3.12) and `jsonpatch` operation `apply`
    methods (add / remove / replace / move / copy).
  * `annet/generators/result.py:83-120` (`new_json_fragment_files`): the chain of
    several generators over one file is `applyChain`.

A Python `dict` is an association list (`J.obj`), insertion-ordered; "keys are
unique" is the separate predicate `J.WF`.  Python exceptions are the enum `Err`.
`jsonpatch.make_patch` (the diff algorithm) is NOT modelled: it is the parameter
`lib` of `makePatch`.

Core Lean only (linked into the driver).
-/
namespace Annet.Json

/-- JSON values.  Numbers are integers (floats are never generated or compared). -/
inductive J where
  | null
  | bool (b : Bool)
  | num (n : Int)
  | str (s : String)
  | arr (xs : List J)
  | obj (kvs : List (String × J))
  deriving Repr, Inhabited

/-- Python exceptions that can leave the modelled functions. -/
inductive Err where
  | pointer      -- jsonpointer.JsonPointerException
  | index        -- IndexError
  | type         -- TypeError
  | attr         -- AttributeError
  | conflict     -- jsonpatch.JsonPatchConflict
  | invalid      -- jsonpatch.InvalidJsonPatch
  deriving Repr, DecidableEq, Inhabited

abbrev Ptr := List String

/-! ### association lists = Python dicts -/

/-- `d.get(k)` / `k in d` -/
def lookup (k : String) : List (String × J) → Option J
  | [] => none
  | (k', v) :: rest => if k' = k then some v else lookup k rest

/-- `d[k] = v`: replace in place when the key exists, append otherwise. -/
def upsert (k : String) (v : J) : List (String × J) → List (String × J)
  | [] => [(k, v)]
  | (k', v') :: rest => if k' = k then (k', v) :: rest else (k', v') :: upsert k v rest

/-- `d.pop(k, None)` / `del d[k]` -/
def erase (k : String) : List (String × J) → List (String × J)
  | [] => []
  | (k', v') :: rest => if k' = k then rest else (k', v') :: erase k rest

def J.isObj : J → Bool
  | .obj _ => true
  | _ => false

/-! ### structural equality and well-formedness (unique keys) -/

mutual
  def J.beq : J → J → Bool
    | .null, .null => true
    | .bool a, .bool b => a == b
    | .num a, .num b => a == b
    | .str a, .str b => a == b
    | .arr a, .arr b => J.beqList a b
    | .obj a, .obj b => J.beqKvs a b
    | _, _ => false
  def J.beqList : List J → List J → Bool
    | [], [] => true
    | x :: xs, y :: ys => J.beq x y && J.beqList xs ys
    | _, _ => false
  def J.beqKvs : List (String × J) → List (String × J) → Bool
    | [], [] => true
    | (k, x) :: xs, (k', y) :: ys => k == k' && J.beq x y && J.beqKvs xs ys
    | _, _ => false
end

def keysOf (kvs : List (String × J)) : List String := kvs.map (·.1)

mutual
  /-- every object in the document has pairwise distinct keys (what a Python dict guarantees) -/
  def J.wf : J → Bool
    | .arr xs => J.wfList xs
    | .obj kvs => J.wfKvs kvs
    | _ => true
  def J.wfList : List J → Bool
    | [] => true
    | x :: xs => J.wf x && J.wfList xs
  def J.wfKvs : List (String × J) → Bool
    | [] => true
    | (k, x) :: rest => (lookup k rest).isNone && J.wf x && J.wfKvs rest
end

/-! ### RFC 6901 pointers: `jsonpointer.escape`, `unescape`, `JsonPointer.__init__`, `.path` -/

/-- `s.replace('~', '~0').replace('/', '~1')` (jsonpointer 3.1.1, jsonpointer.py:341-342) -/
def escapeL : List Char → List Char
  | [] => []
  | c :: cs =>
    if c = '~' then '~' :: '0' :: escapeL cs
    else if c = '/' then '~' :: '1' :: escapeL cs
    else c :: escapeL cs

/-- `s.replace(a ++ b, r)` for a two-character needle: leftmost, non-overlapping. -/
def replace2 (a b r : Char) : List Char → List Char
  | [] => []
  | [c] => [c]
  | c :: d :: cs => if c = a ∧ d = b then r :: replace2 a b r cs else c :: replace2 a b r (d :: cs)

/-- `s.replace('~1', '/').replace('~0', '~')` (jsonpointer.py:345-346) -/
def unescapeL (s : List Char) : List Char := replace2 '~' '0' '~' (replace2 '~' '1' '/' s)

/-- `_RE_INVALID_ESCAPE = '(~[^01]|~$)'` `.search`: a `~` not followed by `0` or `1`. -/
def invalidEscape : List Char → Bool
  | [] => false
  | [c] => c = '~'
  | c :: d :: cs => (c = '~' ∧ d ≠ '0' ∧ d ≠ '1') || invalidEscape (d :: cs)

/-- `str.split('/')` -/
def splitSlash : List Char → List (List Char)
  | [] => [[]]
  | c :: cs =>
    match splitSlash cs with
    | [] => [[]]                       -- unreachable: splitSlash never returns []
    | p :: ps => if c = '/' then [] :: p :: ps else (c :: p) :: ps

/-- `JsonPointer.__init__` (jsonpointer.py:156-169) on characters. -/
def parsePointerL (s : List Char) : Except Err (List (List Char)) :=
  if invalidEscape s then .error .pointer
  else match splitSlash s with
    | [] => .error .pointer
    | first :: parts => if first ≠ [] then .error .pointer else .ok (parts.map unescapeL)

def parsePointer (s : String) : Except Err Ptr :=
  (parsePointerL s.toList).map (·.map String.ofList)

/-- `JsonPointer.path`: `''.join('/' + escape(part) for part in parts)` -/
def pathL : List (List Char) → List Char
  | [] => []
  | p :: ps => '/' :: (escapeL p ++ pathL ps)

/-- `"/" + "/".join(escape(p) for p in parts)` (jsontools.py:183); differs from `.path` only for `[]`. -/
def joinedL (parts : List (List Char)) : List Char :=
  match parts with
  | [] => ['/']
  | _ => pathL parts

def path (p : Ptr) : String := String.ofList (pathL (p.map String.toList))

/-! ### `fnmatch.fnmatchcase` (CPython 3.12 `fnmatch.translate`) -/

inductive Tok where
  | star
  | any
  | lit (c : Char)
  | cls (neg : Bool) (chunks : List (List Char))   -- literal chunks; consecutive chunks are joined by a range
  | never
  deriving Repr, Inhabited

/-- Position of the closing bracket: `stuff = pat[i:j]`, rest after `]`; `none` when there is none. -/
def bracketSplit (rest : List Char) : Option (List Char × List Char) :=
  let (pre1, r1) := match rest with
    | '!' :: r => (['!'], r)
    | r => ([], r)
  let (pre2, r2) := match r1 with
    | ']' :: r => ([']'], r)
    | r => ([], r)
  let mid := r2.takeWhile (· ≠ ']')
  match r2.dropWhile (· ≠ ']') with
  | [] => none
  | _ :: after => some (pre1 ++ pre2 ++ mid, after)

/-- index of the first `-` at position ≥ k -/
def findHyphen (s : List Char) (k : Nat) : Option Nat :=
  match (s.drop k).idxOf? '-' with
  | none => none
  | some i => some (k + i)

/-- the `while True: k = pat.find('-', k, j) …` loop of `translate`: split `stuff` at range hyphens -/
def chunkLoop (s : List Char) : Nat → Nat → Nat → List (List Char)
  | 0, _, _ => []
  | fuel + 1, start, k =>
    match findHyphen s k with
    | none =>
      let last := s.drop start
      [last]                      -- caller handles the empty last chunk
    | some h => ((s.drop start).take (h - start)) :: chunkLoop s fuel (h + 1) (h + 3)

/-- "Remove empty ranges": processed from the right (`for k in range(len(chunks)-1, 0, -1)`). -/
def dropEmptyRanges : List (List Char) → List (List Char)
  | [] => []
  | [c] => [c]
  | c :: rest =>
    match dropEmptyRanges rest with
    | [] => [c]
    | d :: ds =>
      match c.getLast?, d.head? with
      | some x, some y => if x.toNat > y.toNat then (c.dropLast ++ d.tail) :: ds else c :: d :: ds
      | _, _ => c :: d :: ds

/-- the chunks of a bracket expression (`stuff` still carries a leading `!`) -/
def chunksOf (stuff : List Char) : List (List Char) :=
  if ¬ stuff.contains '-' then [stuff]
  else
    let k0 := if stuff.head? = some '!' then 2 else 1
    let raw := chunkLoop stuff (stuff.length + 1) 0 k0
    -- `if chunk: chunks.append(chunk) else: chunks[-1] += '-'`
    let fixed := match raw.getLast? with
      | some [] => (match raw.dropLast.getLast? with
                    | some c => raw.dropLast.dropLast ++ [c ++ ['-']]
                    | none => raw)
      | _ => raw
    dropEmptyRanges fixed

/-- in the joined class text a hyphen that follows an empty first chunk stands at the start of the
class (`[^-a]`): it is a literal, not a range operator -/
def fixLead : List (List Char) → List (List Char)
  | [] :: d :: ds => ('-' :: d) :: ds
  | cs => cs

def bracketTok (stuff : List Char) : Tok :=
  let chunks := chunksOf stuff
  let joinedEmpty := match chunks with
    | [] => true
    | [c] => c.isEmpty
    | _ => false
  if joinedEmpty then .never
  else if chunks = [['!']] then .any
  else match chunks with
    | ('!' :: c) :: cs => .cls true (fixLead (c :: cs))
    | cs => .cls false (fixLead cs)

/-- first loop of `translate` (fuel = remaining length + 1) -/
def translateAux : Nat → List Char → List Tok → List Tok
  | 0, _, acc => acc.reverse
  | _, [], acc => acc.reverse
  | fuel + 1, c :: cs, acc =>
    if c = '*' then
      match acc with
      | .star :: _ => translateAux fuel cs acc
      | _ => translateAux fuel cs (.star :: acc)
    else if c = '?' then translateAux fuel cs (.any :: acc)
    else if c = '[' then
      match bracketSplit cs with
      | none => translateAux fuel cs (.lit '[' :: acc)
      | some (stuff, after) => translateAux fuel after (bracketTok stuff :: acc)
    else translateAux fuel cs (.lit c :: acc)

def translate (pat : List Char) : List Tok := translateAux (pat.length + 1) pat []

def inRanges (c : Char) : List (List Char) → Bool
  | [] => false
  | [_] => false
  | a :: b :: rest =>
    (match a.getLast?, b.head? with
     | some lo, some hi => lo.toNat ≤ c.toNat && c.toNat ≤ hi.toNat
     | _, _ => false) || inRanges c (b :: rest)

def Tok.accepts (t : Tok) (c : Char) : Bool :=
  match t with
  | .star => true
  | .any => true
  | .lit d => c = d
  | .never => false
  | .cls neg chunks =>
    let hit := chunks.any (·.contains c) || inRanges c chunks
    if neg then !hit else hit

/-- the compiled regular expression `(?s:…)\Z` applied with `.match`: ordinary glob matching -/
def matchToks : Nat → List Tok → List Char → Bool
  | _, [], [] => true
  | _, [], _ :: _ => false
  | 0, _, _ => false
  | fuel + 1, .star :: ts, name =>
    matchToks fuel ts name ||
      (match name with
       | [] => false
       | _ :: rest => matchToks fuel (.star :: ts) rest)
  | _, _ :: _, [] => false
  | fuel + 1, t :: ts, c :: rest => t.accepts c && matchToks fuel ts rest

/-- `fnmatch.fnmatchcase(name, pat)` -/
def fnmatchL (name pat : List Char) : Bool :=
  let toks := translate pat
  matchToks (toks.length + name.length + 1) toks name

def fnmatch (name pat : String) : Bool := fnmatchL name.toList pat.toList

/-! ### `JsonPointer.get_part`, `walk`, `resolve` -/

/-- `_RE_ARRAY_INDEX = '0|[1-9][0-9]*$'` `.fullmatch` then `int(part)` -/
def parseIndexL : List Char → Option Nat
  | [] => none
  | ['0'] => some 0
  | c :: cs =>
    if '1' ≤ c ∧ c ≤ '9' ∧ cs.all (fun d => '0' ≤ d ∧ d ≤ '9') then
      some ((c :: cs).foldl (fun n d => 10 * n + (d.toNat - '0'.toNat)) 0)
    else none

def parseIndex (s : String) : Option Nat := parseIndexL s.toList

/-- `str(i)` -/
def idxKey (i : Nat) : String := toString i

/-- characters of a Python `str`, as one-character strings -/
def strChars (s : String) : List J := s.toList.map (fun c => .str (String.ofList [c]))

/-- `JsonPointer.walk(doc, part)` (jsonpointer.py:250-273); `EndOfList` is only ever
an error for the callers modelled here (a further step on it raises). -/
def walk (d : J) (part : String) : Except Err J :=
  match d with
  | .obj kvs => match lookup part kvs with
    | some v => .ok v
    | none => .error .pointer
  | .arr xs =>
    if part = "-" then .error .pointer            -- EndOfList(doc): no further step / value possible
    else match parseIndex part with
      | none => .error .pointer
      | some i => match xs[i]? with
        | some v => .ok v
        | none => .error .pointer
  | .str s =>
    if part = "-" then .error .pointer
    else match parseIndex part with
      | none => .error .pointer
      | some i => match (strChars s)[i]? with
        | some v => .ok v
        | none => .error .pointer
  | _ => .error .pointer

/-- `JsonPointer.resolve` / `.get` -/
def getPtr : Ptr → J → Except Err J
  | [], d => .ok d
  | k :: rest, d => do
    let c ← walk d k
    getPtr rest c

/-! ### `_resolve_json_pointers` (jsontools.py:124-184) -/

/-- the `keys_and_docs` candidates of one document (jsontools.py:167-176): Mapping → items,
`Sequence and not (str, bytes)` → `str(i)`.  Since commit 33969c0 a Python `str` (a
`Sequence` as well) has no candidates: a pattern does not descend into string values.
(The rule before that commit is `Spec.childrenOfOld`.) -/
def childrenOf : J → List (String × J)
  | .obj kvs => kvs
  | .arr xs => xs.zipIdx.map (fun (v, i) => (idxKey i, v))
  | _ => []

/-- one iteration of `for part in parts` -/
def levelStep (part : String) (matched : List (Ptr × J)) : List (Ptr × J) :=
  matched.flatMap fun m =>
    ((childrenOf m.2).filter (fun kv => fnmatch kv.1 part)).map fun kv => (m.1 ++ [kv.1], kv.2)

def resolveFrom (parts : List String) (matched : List (Ptr × J)) : List (Ptr × J) :=
  parts.foldl (fun m part => levelStep part m) matched

/-- the `matched_parts` lists, in order -/
def resolveParts (parts : List String) (d : J) : List Ptr :=
  (resolveFrom parts [([], d)]).map (·.1)

/-- `JsonPointer("/" + "/".join(escape(p) for p in matched_parts))` -/
def rebuild (mp : Ptr) : Except Err Ptr :=
  (parsePointerL (joinedL (mp.map String.toList))).map (·.map String.ofList)

def resolve (pattern : String) (d : J) : Except Err (List Ptr) := do
  let parts ← parsePointer pattern
  (resolveParts parts d).mapM rebuild

/-! ### `_ensure_pointer_exists` (jsontools.py:47-71) -/

def ensure : Ptr → J → J
  | [], d => d
  | [_], d => d
  | k :: k2 :: rest, .obj kvs =>
    let child := match lookup k kvs with
      | none => J.obj []
      | some .null => J.obj []
      | some c => c
    .obj (upsert k (ensure (k2 :: rest) child) kvs)
  | _ :: _ :: _, d => d

/-! ### in-place updates through `to_last` -/

/-- Walk `parts[:-1]`, apply `fn parent last`, rebuild the document.  The error of a
failed step is `walk`'s.  A Python `str` met on the way (a concrete pointer may still
walk into one: `jsonpointer` indexes any `Sequence`) is immutable: every `fn`
modelled here either raises below it or leaves it as it is (`popLast`), so the
document is returned unchanged when the inner call succeeds. -/
def atParent (fn : J → String → Except Err J) : Ptr → J → Except Err J
  | [], d => .ok d
  | [last], d => fn d last
  | k :: k2 :: rest, d =>
    match d with
    | .obj kvs => match lookup k kvs with
      | none => .error .pointer
      | some c => do
        let c' ← atParent fn (k2 :: rest) c
        .ok (.obj (upsert k c' kvs))
    | .arr xs =>
      if k = "-" then .error .pointer
      else match parseIndex k with
        | none => .error .pointer
        | some i => match xs[i]? with
          | none => .error .pointer
          | some c => do
            let c' ← atParent fn (k2 :: rest) c
            .ok (.arr (xs.set i c'))
    | .str _ => do
      let c ← walk d k
      let _ ← atParent fn (k2 :: rest) c
      .ok d
    | _ => .error .pointer

/-- `JsonPointer.set` after `to_last` (jsonpointer.py:199-217): `parent.append(value)` /
`parent[part] = value` -/
def setLast (v : J) (parent : J) (last : String) : Except Err J :=
  match parent with
  | .obj kvs => .ok (.obj (upsert last v kvs))
  | .arr xs =>
    if last = "-" then .ok (.arr (xs ++ [v]))
    else match parseIndex last with
      | none => .error .pointer
      | some i => if i < xs.length then .ok (.arr (xs.set i v)) else .error .index
  | .str _ =>
    if last = "-" then .error .attr
    else match parseIndex last with
      | none => .error .pointer
      | some _ => .error .type
  | _ => .error .pointer

def setPtr (p : Ptr) (v : J) (d : J) : Except Err J :=
  match p with
  | [] => .error .pointer                      -- 'Cannot set root in place'
  | _ => atParent (setLast v) p d

/-- jsontools.py:40-42: `doc, part = pointer.to_last(cfg); if isinstance(doc, dict) and
isinstance(part, str): doc.pop(part, None)` -/
def popLast (parent : J) (last : String) : Except Err J :=
  match parent with
  | .obj kvs => .ok (.obj (erase last kvs))
  | .arr xs =>
    if last = "-" then .ok (.arr xs)
    else match parseIndex last with
      | none => .error .pointer
      | some _ => .ok (.arr xs)
  | .str s =>
    if last = "-" then .ok (.str s)
    else match parseIndex last with
      | none => .error .pointer
      | some _ => .ok (.str s)
  | _ => .error .pointer

def popPtr (p : Ptr) (d : J) : Except Err J := atParent popLast p d

/-! ### `apply_json_fragment` (jsontools.py:18-44) -/

/-- lines 31-34: `for pointer in new_pointers: …` -/
def setStep (f : J) (r : J) (q : Ptr) : Except Err J := do
  let v ← getPtr q f
  setPtr q v (ensure q r)

/-- the body of `for acl_item in acl` -/
def fragStep (f : J) (r : J) (pattern : String) : Except Err J := do
  let newPtrs ← resolve pattern f
  let oldPtrs ← resolve pattern r
  let r1 ← newPtrs.foldlM (setStep f) r
  -- `paths = {p.path for p in new_pointers}; to_delete = [p for p in old_pointers if p.path not in paths]`
  -- (`.path` is injective on parts: `Lemmas.parsePointerL_pathL`)
  let toDelete := oldPtrs.filter (fun q => !(newPtrs.contains q))
  toDelete.foldlM (fun r q => popPtr q r) r1

def applyFragment (old f : J) (acl : List String) : Except Err J :=
  acl.foldlM (fragStep f) old

/-- `new_json_fragment_files` for one file path (result.py:91-119): the generators are
applied one after another, each to the result of the previous one. -/
def applyChain (old : J) (gens : List (J × List String)) : Except Err J :=
  gens.foldlM (fun cfg g => applyFragment cfg g.1 g.2) old

/-! ### `jsonpatch` operations -/

structure Op where
  op : String
  path : String
  src : Option String := none       -- "from"
  value : Option J := none
  deriving Repr, Inhabited

def insertAt (xs : List J) (i : Nat) (v : J) : List J := xs.take i ++ v :: xs.drop i

/-- `AddOperation.apply` below `to_last` -/
def addLast (v : J) (parent : J) (last : String) : Except Err J :=
  match parent with
  | .arr xs =>
    if last = "-" then .ok (.arr (xs ++ [v]))
    else match parseIndex last with
      | none => .error .pointer
      | some i => if i > xs.length then .error .conflict else .ok (.arr (insertAt xs i v))
  | .obj kvs => .ok (.obj (upsert last v kvs))
  | .str _ =>
    if last = "-" then .error .conflict
    else match parseIndex last with
      | none => .error .pointer
      | some _ => .error .conflict
  | _ => .error .pointer

def opAdd (p : Ptr) (v : J) (d : J) : Except Err J :=
  match p with
  | [] => match d with
    | .obj _ => .ok v                   -- "we're replacing the root"
    | _ => .error .type                 -- list root: `None > len`; scalar root: TypeError
  | _ => atParent (addLast v) p d

/-- `RemoveOperation.apply` -/
def removeLast (parent : J) (last : String) : Except Err J :=
  match parent with
  | .arr xs =>
    if last = "-" then .error .pointer
    else match parseIndex last with
      | none => .error .pointer
      | some i => if i < xs.length then .ok (.arr (xs.eraseIdx i)) else .error .conflict
  | .obj kvs => match lookup last kvs with
    | none => .error .conflict
    | some _ => .ok (.obj (erase last kvs))
  | .str _ =>
    if last = "-" then .error .pointer
    else match parseIndex last with
      | none => .error .pointer
      | some _ => .error .type
  | _ => .error .pointer

def opRemove (p : Ptr) (d : J) : Except Err J :=
  match p with
  | [] => match d with
    | .obj _ => .error .conflict        -- `del subobj[None]` → KeyError
    | .arr _ => .error .pointer
    | .str _ => .error .pointer
    | _ => .error .type
  | _ => atParent removeLast p d

/-- `ReplaceOperation.apply` -/
def replaceLast (v : J) (parent : J) (last : String) : Except Err J :=
  match parent with
  | .arr xs =>
    if last = "-" then .error .invalid
    else match parseIndex last with
      | none => .error .pointer
      | some i => if i < xs.length then .ok (.arr (xs.set i v)) else .error .conflict
  | .obj kvs =>
    if last = "-" then .error .invalid
    else match lookup last kvs with
      | none => .error .conflict
      | some _ => .ok (.obj (upsert last v kvs))
  | .str _ =>
    if last = "-" then .error .invalid
    else match parseIndex last with
      | none => .error .pointer
      | some _ => .error .conflict
  | _ => .error .pointer

def opReplace (p : Ptr) (v : J) (d : J) : Except Err J :=
  match p with
  | [] => .ok v
  | _ => atParent (replaceLast v) p d

/-- `subobj, part = from_ptr.to_last(obj); value = subobj[part]` of move / copy -/
def readFrom : Ptr → J → Except Err J
  | [], d => match d with
    | .obj _ => .error .conflict        -- `d[None]` → KeyError
    | _ => .error .type
  | [last], d => match d with
    | .obj kvs => match lookup last kvs with
      | some v => .ok v
      | none => .error .conflict
    | .arr xs =>
      if last = "-" then .error .type
      else match parseIndex last with
        | none => .error .pointer
        | some i => match xs[i]? with
          | some v => .ok v
          | none => .error .conflict
    | .str s =>
      if last = "-" then .error .type
      else match parseIndex last with
        | none => .error .pointer
        | some i => match (strChars s)[i]? with
          | some v => .ok v
          | none => .error .conflict
    | _ => .error .pointer
  | k :: k2 :: rest, d => do
    let c ← walk d k
    readFrom (k2 :: rest) c

/-- is the parent of the last step of `p` a Mapping? (`isinstance(subobj, MutableMapping)`) -/
def parentIsObj : Ptr → J → Bool
  | [], d => d.isObj
  | [_], d => d.isObj
  | k :: k2 :: rest, d => match walk d k with
    | .ok c => parentIsObj (k2 :: rest) c
    | .error _ => false

/-- `MoveOperation.apply` -/
def opMove (src dst : Ptr) (d : J) : Except Err J := do
  let v ← readFrom src d
  if dst = src then .ok d
  else if parentIsObj src d && src.isPrefixOf dst then .error .conflict
  else do
    let d1 ← opRemove src d
    opAdd dst v d1

/-- `CopyOperation.apply` -/
def opCopy (src dst : Ptr) (d : J) : Except Err J := do
  let v ← readFrom src d
  opAdd dst v d

/-- one operation: `_get_operation` + `apply` -/
def applyOp (d : J) (o : Op) : Except Err J := do
  let p ← parsePointer o.path
  if o.op = "add" then
    match o.value with
    | none => .error .invalid
    | some v => opAdd p v d
  else if o.op = "remove" then opRemove p d
  else if o.op = "replace" then
    match o.value with
    | none => .error .invalid
    | some v => opReplace p v d
  else if o.op = "move" then
    match o.src with
    | none => .error .invalid
    | some s => do
      let sp ← parsePointer s
      opMove sp p d
  else if o.op = "copy" then
    match o.src with
    | none => .error .invalid
    | some s => do
      let sp ← parsePointer s
      opCopy sp p d
  else .error .invalid

/-- `JsonPatch.__init__` validates every operation (op name, `path` pointer syntax)
before anything is applied. -/
def validOp (o : Op) : Except Err Unit := do
  if ¬ (o.op = "add" ∨ o.op = "remove" ∨ o.op = "replace" ∨ o.op = "move" ∨ o.op = "copy") then
    .error .invalid
  else do
    let _ ← parsePointer o.path
    .ok ()

/-- `apply_patch` (jsontools.py:81-98) between `json.loads` and `format_json` -/
def applyPatch (d : J) (ops : List Op) : Except Err J := do
  ops.forM validOp
  ops.foldlM applyOp d

/-- `make_patch` (jsontools.py:74-78): the operations of `jsonpatch.make_patch`, in its order. -/
def makePatch (lib : J → J → List Op) (old new : J) : List Op := lib old new

/-! ### `apply_acl_filters` (jsontools.py:101-121) -/

def isPySpace (c : Char) : Bool :=
  let n := c.toNat
  (9 ≤ n && n ≤ 13) || (28 ≤ n && n ≤ 32) || n == 133 || n == 160 || n == 5760 ||
  (8192 ≤ n && n ≤ 8202) || n == 8232 || n == 8233 || n == 8239 || n == 8287 || n == 12288

/-- `str.strip()` -/
def pyStrip (s : String) : String :=
  String.ofList ((s.toList.dropWhile isPySpace).reverse.dropWhile isPySpace).reverse

/-- lines 112-116: `for i in parts: if i not in sub_tree: sub_tree[i] = {}; sub_tree = sub_tree[i]`.
On anything but a dict either the membership test or the item assignment raises `TypeError`. -/
def mkPath : Ptr → J → Except Err J
  | [], d => .ok d
  | k :: rest, .obj kvs =>
    let child := match lookup k kvs with
      | none => J.obj []
      | some c => c
    do
      let c' ← mkPath rest child
      .ok (.obj (upsert k c' kvs))
  | _ :: _, _ => .error .type

/-- the body of `for pointer in pointers` -/
def filterPtr (content : J) (result : J) (q : Ptr) : Except Err J := do
  let part ← getPtr q content
  let result1 ← mkPath q result
  -- `JsonPatch([{"op": "add", "path": pointer.path, "value": part}]).apply(result)`
  let p ← parsePointer (path q)
  opAdd p part result1

def filterStep (content : J) (result : J) (f : String) : Except Err J :=
  let text := pyStrip f
  if text = "" then .ok result
  else do
    let ptrs ← resolve text content
    ptrs.foldlM (filterPtr content) result

def applyAclFilters (content : J) (filters : List String) : Except Err J :=
  filters.foldlM (filterStep content) (.obj [])

end Annet.Json
