/-
C19 — whole-file ("Entire") generators on file-based (PC) devices.

Mirrors, function by function:

* `annet/generators/entire.py:35-37, 46-59, 86-101`  `Entire.supports_device`, `get_reload_cmds`, `__call__`
* `annet/generators/__init__.py:266-324`               `run_file_generators`, `_run_entire_generator`
* `annet/generators/result.py:53-58, 70-75`            `RunGeneratorResult.add_entire`, `new_files`
* `annet/diff.py:30-50`                                `_diff_files`, `pc_diff`
* `annet/diff.py:191-215`                              `UnifiedFileDiffer.diff_file/_diff_text_file`
* `annet/api/__init__.py:424-495`                      `PCDeployerJob.parse_result` (ENTIRE files)
* CPython `str.splitlines()` (Objects/unicodeobject.c, `_PyUnicode_IsLinebreak`)

Python `str` is `List Char` (`Text`); a Python `dict` is an association list
in insertion order (`lookup`, `dictSet`), uniqueness of keys being the separate
predicate `NoDupKeys`.  `difflib.unified_diff` is a *parameter* `ud` (what is assumed of it:
`UdSpec`, at the end of this file).

Core Lean only: this file is linked into the driver.
-/
namespace Annet.Files

abbrev Text := List Char
abbrev Path := List Char

/-! ### Python dict as association list -/

/-- `d.get(k)` -/
def lookup {β : Type} (k : Path) : List (Path × β) → Option β
  | [] => none
  | (k', v) :: rest => if k' = k then some v else lookup k rest

/-- `d[k] = v`: an existing key keeps its position, a new key is appended. -/
def dictSet {β : Type} : List (Path × β) → Path → β → List (Path × β)
  | [], k, v => [(k, v)]
  | (k', v') :: rest, k, v => if k' = k then (k', v) :: rest else (k', v') :: dictSet rest k v

def keys {β : Type} (d : List (Path × β)) : List Path := d.map (·.1)

/-- well-formedness of an association list standing for a Python dict -/
def NoDupKeys {β : Type} (d : List (Path × β)) : Prop := (keys d).Nodup

/-- `sep.join(parts)` -/
def joinWith (sep : Text) : List Text → Text
  | [] => []
  | [a] => a
  | a :: b :: rest => a ++ sep ++ joinWith sep (b :: rest)

/-- `"\n".join(parts)` -/
def joinNl (parts : List Text) : Text := joinWith ['\n'] parts

/-! ### `str.splitlines()` -/

/-- CPython `_PyUnicode_IsLinebreak`: the code points `str.splitlines()` breaks at. -/
def isSep (c : Char) : Bool :=
  c == '\n' || c == '\r' || c == '\x0b' || c == '\x0c' || c == '\x1c' || c == '\x1d' ||
  c == '\x1e' || c == '\u0085' || c == '\u2028' || c == '\u2029'

/-- The scanning loop of `str.splitlines()` (keepends=False) as a state machine:
`prevCR` = the previous character was a `\r` that already closed a line (a
directly following `\n` belongs to the same break); `cur` = the current line,
reversed.  A trailing unterminated line is emitted only when non-empty. -/
def splitAux : Bool → Text → Text → List Text
  | _, [], cur => if cur = [] then [] else [cur.reverse]
  | prevCR, c :: rest, cur =>
    if prevCR && c == '\n' then splitAux false rest cur
    else if isSep c then cur.reverse :: splitAux (c == '\r') rest []
    else splitAux false rest (c :: cur)

/-- `text.splitlines()` -/
def splitlines (t : Text) : List Text := splitAux false t []

/-! ### `Entire.__call__` (entire.py:86-101) -/

/-- One yielded item: a `str`, or a (flat) tuple of strings that is joined by blanks
(`" ".join(map(_filter_str, flatten(text)))`; nested tuples / non-string members
are outside the model). -/
inductive Part where
  | str (s : Text)
  | tup (ws : List Text)
  deriving Repr, DecidableEq

def Part.text : Part → Text
  | .str s => s
  | .tup ws => joinWith [' '] ws

/-- What `self.run(device)` does. -/
inductive RunRes where
  | notSupported                 -- raises `NotSupportedDevice`
  | none                         -- returns `None`           → `Exception`
  | badType                      -- returns e.g. a `list`    → `Exception`
  | str (s : Text)               -- returns one `str`
  | parts (ps : List Part)       -- returns a tuple / is a generator function
  deriving Repr, DecidableEq

inductive Err where
  | notSupported | exception | assertion
  deriving Repr, DecidableEq

/-- `\w` of Python's `re` for `str` patterns, on the code points of the declared
domain (U+0000–U+00FF, U+0410–U+044F; every other code point is treated as a
non-word character, which is right for the U+20xx punctuation the generator uses). -/
def isWordChar (c : Char) : Bool :=
  let n := c.toNat
  (48 ≤ n && n ≤ 57) || (65 ≤ n && n ≤ 90) || (97 ≤ n && n ≤ 122) || n == 95 ||
  n == 0xAA || n == 0xB2 || n == 0xB3 || n == 0xB5 || n == 0xB9 || n == 0xBA ||
  (0xBC ≤ n && n ≤ 0xBE) || (0xC0 ≤ n && n ≤ 0xD6) || (0xD8 ≤ n && n ≤ 0xF6) ||
  (0xF8 ≤ n && n ≤ 0xFF) || (0x410 ≤ n && n ≤ 0x44F)

def nextIsWord : Text → Bool
  | [] => false
  | c :: _ => isWordChar c

/-- `re.search(r"\bNone\b", text) is not None`; `prevWord` = the character before
the current position is a word character. -/
def hasNoneWordAux : Bool → Text → Bool
  | _, [] => false
  | prevWord, c :: rest =>
    (!prevWord && ['N', 'o', 'n', 'e'].isPrefixOf (c :: rest) && !nextIsWord (rest.drop 3)) ||
      hasNoneWordAux (isWordChar c) rest

def hasNoneWord (t : Text) : Bool := hasNoneWordAux false t

/-- the `for text in run_res:` loop: first offending part raises `AssertionError` -/
def collectParts : List Part → Except Err (List Text)
  | [] => .ok []
  | p :: ps =>
    if hasNoneWord p.text then .error .assertion
    else match collectParts ps with
      | .ok ts => .ok (p.text :: ts)
      | .error e => .error e

/-- `Entire.__call__` -/
def callEntire : RunRes → Except Err Text
  | .notSupported => .error .notSupported
  | .none => .error .exception
  | .badType => .error .exception
  | .str s => (collectParts [.str s]).map joinNl
  | .parts ps => (collectParts ps).map joinNl

/-! ### generators and `_run_entire_generator` -/

/-- What the code reads from the device. -/
structure Dev where
  isPC : Bool          -- `device.hw.PC`
  soft : Text          -- `device.hw.soft`
  deriving Repr, DecidableEq

/-- A synthetic `Entire` subclass instance: the values its methods return. -/
structure Gen where
  path : Option Path       -- `path(device)`; `None`/`""` = device not supported
  prio : Option Int        -- attribute `prio`; absent → 100 (`Entire.__init__`)
  run : RunRes
  reload : Option Text     -- `reload(device)`
  isSafe : Bool            -- `is_safe(device)`
  deriving Repr, DecidableEq

/-- `GeneratorEntireResult` (fields the property talks about) -/
structure EntireResult where
  path : Path
  output : Text
  reload : Text
  prio : Int
  isSafe : Bool
  deriving Repr, DecidableEq

def etckeeperSofts : List Text := ["Cumulus".toList, "SwitchDev".toList, "SONiC".toList]

/-- `Entire.get_reload_cmds` (entire.py:46-59) for a generator whose path is `path` -/
def getReloadCmds (dev : Dev) (path : Path) (reload : Option Text) : Text :=
  let ret := reload.getD []            -- `self.reload(device) or ""`
  if path ≠ [] && dev.isPC && etckeeperSofts.any (·.isPrefixOf dev.soft) then
    joinNl ((if ret ≠ [] then [ret] else []) ++
      ["/usr/bin/etckeeper commitreload ".toList ++ path])
  else ret

/-- `_run_entire_generator` (generators/__init__.py:295-324).  `.ok none` = the
`return` of an unsupported device.  (The `RuntimeError` branch `if not path` after a
successful `supports_device` is unreachable for a `path` that is a function of the
device, as it is here.) -/
def runEntireGenerator (dev : Dev) (g : Gen) : Except Err (Option EntireResult) :=
  match g.path with
  | none => .ok none
  | some p =>
    if p = [] then .ok none
    else match callEntire g.run with
      | .error e => .error e
      | .ok output =>
        .ok (some { path := p, output := output, reload := getReloadCmds dev p g.reload,
                    prio := g.prio.getD 100, isSafe := g.isSafe })

/-- `RunGeneratorResult.entire_results`: path ↦ result, insertion ordered -/
abbrev Results := List (Path × EntireResult)

/-- `RunGeneratorResult.add_entire` (result.py:53-58) -/
def addEntire (acc : Results) (r : EntireResult) : Results :=
  if r.path = [] then acc
  else match lookup r.path acc with
    | none => dictSet acc r.path r
    | some cur => if r.prio > cur.prio then dictSet acc r.path r else acc

/-- `run_file_generators` (generators/__init__.py:266-292), ENTIRE generators:
`NotSupportedDevice` skips the generator, any other exception propagates. -/
def runFileGeneratorsFrom (dev : Dev) : List Gen → Results → Except Err Results
  | [], acc => .ok acc
  | g :: gs, acc =>
    match runEntireGenerator dev g with
    | .error .notSupported => runFileGeneratorsFrom dev gs acc
    | .error e => .error e
    | .ok none => runFileGeneratorsFrom dev gs acc
    | .ok (some r) => runFileGeneratorsFrom dev gs (addEntire acc r)

def runFileGenerators (dev : Dev) (gens : List Gen) : Except Err Results :=
  runFileGeneratorsFrom dev gens []

/-- path ↦ (content, reload commands) -/
abbrev NewFiles := List (Path × (Text × Text))

/-- `RunGeneratorResult.new_files(safe)` (result.py:70-75) -/
def newFiles (safe : Bool) (res : Results) : NewFiles :=
  res.foldl (fun files kv =>
    if !safe || kv.2.isSafe then dictSet files kv.2.path (kv.2.output, kv.2.reload) else files) []

/-! ### the file differ -/

/-- `difflib.unified_diff(old_lines, new_lines, n=3, lineterm="")` — a parameter. -/
abbrev UDiff := List Text → List Text → List Text

/-- `old.splitlines() if old else []` (diff.py:211-212); `none` = Python `None` -/
def linesOf : Option Text → List Text
  | none => []
  | some t => if t = [] then [] else splitlines t

/-- `UnifiedFileDiffer.diff_file` → `_diff_text_file` (diff.py:195-215) -/
def diffFile (ud : UDiff) (old : Option Text) (new : Text) : List Text :=
  ud (linesOf old) (linesOf (some new))

/-- `_diff_files` + `pc_diff` (diff.py:30-50) before labelling: the files that are
shown, in the order shown, as `(path, is_new, diff_lines)`. -/
def insertByPath {β : Type} (x : Path × β) : List (Path × β) → List (Path × β)
  | [] => [x]
  | y :: ys => if x.1 < y.1 then x :: y :: ys else y :: insertByPath x ys

/-- `sorted(d.items())` for a dict with distinct `str` keys (stable insertion sort by key) -/
def sortByPath {β : Type} (d : List (Path × β)) : List (Path × β) :=
  d.foldr insertByPath []

def diffFiles (ud : UDiff) (old : List (Path × Text)) (new : NewFiles) :
    List (Path × (List Text × Bool)) :=
  new.foldl (fun ret kv =>
    let oldText := lookup kv.1 old
    dictSet ret kv.1 (diffFile ud oldText kv.2.1, oldText.isNone)) []

def pcDiffEntries (ud : UDiff) (old : List (Path × Text)) (new : NewFiles) :
    List (Path × (List Text × Bool)) :=
  (sortByPath (diffFiles ud old new)).filter (fun e => e.2.1 ≠ [])

/-- `label = hostname + os.sep + path`, prefixed by `LABEL_NEW_PREFIX` for a new file -/
def label (hostname : Text) (path : Path) (isNew : Bool) : Text :=
  (if isNew then "new: ".toList else []) ++ hostname ++ ['/'] ++ path

/-- `pc_diff`: the yielded `PCDiffFile(label, diff_lines)` -/
def pcDiff (ud : UDiff) (hostname : Text) (old : List (Path × Text)) (new : NewFiles) :
    List (Text × List Text) :=
  (pcDiffEntries ud old new).map (fun e => (label hostname e.1 e.2.2, e.2.1))

/-! ### `PCDeployerJob.parse_result` (api/__init__.py:424-495), ENTIRE files -/

/-- `args.entire_reload` -/
inductive Reload where
  | no | yes | force
  deriving Repr, DecidableEq

/-- The command lists of the installed deploy driver
(`build_configuration_cmdlist(hw)`, `build_exit_cmdlist(hw)`): external to annet. -/
structure DriverCmds where
  before : List Text
  after : List Text
  exit : List Text
  deriving Repr, DecidableEq

structure JobIn where
  hostname : Text
  err : Bool                         -- `res.err`
  oldFiles : List (Path × Text)      -- `res.old_files`
  newFiles : NewFiles                -- `res.get_new_files(args.acl_safe)`
  reload : Reload
  drv : DriverCmds
  deriving Repr, DecidableEq

/-- The observable state of the job after `parse_result`. -/
structure JobOut where
  failed : Bool := false             -- `failed_configs[device.fqdn] = err`
  hasDiff : Bool := false            -- `_has_diff`
  deployed : Bool := false           -- `device in deploy_cmds`
  files : List (Path × Text) := []   -- `deploy_cmds[device]["files"]` (before `.encode()`)
  cmds : List (Path × Text) := []    -- `deploy_cmds[device]["cmds"]`
  cmdsPre : List (Path × Text) := [] -- `deploy_cmds[device]["cmds_pre_files"]`
  diffLines : List Text := []
  cmdLines : List Text := []
  deriving Repr, DecidableEq

def Reload.enable (r : Reload) : Bool := r ≠ .no
def Reload.isForce (r : Reload) : Bool := r = .force

/-- `"= %s/%s " % (device.hostname, file)` -/
def fileHeader (pre : Text) (hostname : Text) (file : Path) : Text :=
  pre ++ hostname ++ ['/'] ++ file ++ [' ']

/-- body of `for file, (file_content, cmds) in new_files.items()` -/
def uploadStep (ud : UDiff) (inp : JobIn) (st : JobOut) (kv : Path × (Text × Text)) : JobOut :=
  let file := kv.1
  let content := kv.2.1
  let cmds := kv.2.2
  let diffContent := joinNl (diffFile ud (lookup file inp.oldFiles) content)
  if diffContent ≠ [] || inp.reload.isForce then
    let st := { st with
      hasDiff := true
      files := dictSet st.files file content
      cmdLines := st.cmdLines ++ [fileHeader "= ".toList inp.hostname file, content, []]
      diffLines := st.diffLines ++ [fileHeader "= ".toList inp.hostname file, diffContent, []] }
    if inp.reload.enable then
      { st with
        cmds := dictSet st.cmds file cmds
        cmdLines := st.cmdLines ++ [fileHeader "= Deploy cmds ".toList inp.hostname file, cmds, []] }
    else st
  else st

/-- `for file, content in self.deploy_cmds[device]["files"].items()` (lines 489-494):
`cmds_pre_files[file] = "\n".join(before)`; a non-empty `"\n".join(after)` is appended
to `cmds[file]` — a `KeyError` when reloads are disabled.  (`before_more/after_more`
of the PC deploy rulebook are empty: `pc.deploy` is empty and `common.apply` adds
nothing for PC unless `ETCKEEPER_CHECK` is set.) -/
def finishFiles (before after : Text) :
    List (Path × Text) → List (Path × Text) → List (Path × Text) →
    Option (List (Path × Text) × List (Path × Text))
  | [], cmds, pre => some (cmds, pre)
  | (file, _) :: rest, cmds, pre =>
    let pre := dictSet pre file before
    if after ≠ [] then
      match lookup file cmds with
      | none => none                                    -- KeyError
      | some c => finishFiles before after rest (dictSet cmds file (c ++ ['\n'] ++ after)) pre
    else finishFiles before after rest cmds pre

inductive JobErr where
  | keyError
  deriving Repr, DecidableEq

def parseResult (ud : UDiff) (inp : JobIn) : Except JobErr JobOut :=
  if inp.err then .ok { failed := true }
  else if inp.newFiles = [] then .ok {}
  else
    let st := inp.newFiles.foldl (uploadStep ud inp) {}
    if st.hasDiff then
      let before := joinNl inp.drv.before
      let after := joinNl (inp.drv.after ++ inp.drv.exit)
      match finishFiles before after st.files st.cmds [] with
      | none => .error .keyError
      | some (cmds, pre) => .ok { st with deployed := true, cmds := cmds, cmdsPre := pre }
    else .ok st

/-! ### what is assumed of `difflib.unified_diff` -/

/-- Equal line lists give no output; different ones give output whose join is not
the empty string (the first line is the `"--- "` header).  Checked on every case
by the harness. -/
def UdSpec (ud : UDiff) : Prop :=
  ∀ a b, (a = b → ud a b = []) ∧ (a ≠ b → joinNl (ud a b) ≠ [])

end Annet.Files
