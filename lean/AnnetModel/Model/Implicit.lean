/-
Implicit defaults: `implicit.config` (annet/implicit.py:6-15), `compile_tree` (22-31) and the completion
`merge_dicts(tree, implicit.config(tree, rules))` (annet/gen.py:201-205; `merge_dicts` of annet/annlib/lib.py:185-205
specialised to config trees).

Rule rows must be inside the grammar of `Model/Pattern.lean`; otherwise `none`.
Core Lean only.
-/
import AnnetModel.Model.Pattern

namespace Annet.Implicit
open Annet Annet.Pattern

/-- a compiled implicit rule: `rules[row] = {"type", "children", "regexp"}` -/
inductive IRule where
  | mk (row : String) (ignore : Bool) (children : List IRule)
  deriving Repr, Inhabited

def IRule.row : IRule → String | .mk r _ _ => r
def IRule.ignore : IRule → Bool | .mk _ i _ => i
def IRule.children : IRule → List IRule | .mk _ _ c => c

/-- `d[key] = value` on an ordered dict: overwrite in place, or append -/
def setKey (d : List (String × Cfg)) (k : String) (v : Cfg) : List (String × Cfg) :=
  if d.any (·.1 == k) then d.map fun e => if e.1 == k then (k, v) else e else d ++ [(k, v)]

def rowMatches (rule : IRule) (line : String) : Option Bool :=
  (parseRow false rule.row.toList).map fun p => (p.match? line.toList).isSome

/-- `for line in matched_lines: implicit_config_tree[line] = config(config_tree[line], rule["children"])`,
with the recursive call abstracted as `recur` -/
def configMatched (recur : List (String × Cfg) → Option (List (String × Cfg))) :
    List (String × Cfg) → List (String × Cfg) → Option (List (String × Cfg))
  | [], acc => some acc
  | (line, .mk sub) :: more, acc =>
    match recur sub with
    | none => none
    | some t => configMatched recur more (setKey acc line (.mk t))

mutual
  /-- `implicit.config(config_tree, rules)`: the loop over `rules.items()`, accumulating `implicit_config_tree` -/
  def configRules : List IRule → List (String × Cfg) → List (String × Cfg) → Option (List (String × Cfg))
    | [], _, acc => some acc
    | r :: rest, cfg, acc =>
      match configRule r cfg acc with
      | none => none
      | some acc' => configRules rest cfg acc'
  def configRule : IRule → List (String × Cfg) → List (String × Cfg) → Option (List (String × Cfg))
    | .mk row ign children, cfg, acc =>
      match parseRow false row.toList with
      | none => none
      | some p =>
        let matched := cfg.filter fun e => (p.match? e.1.toList).isSome
        -- `not any(matched_lines)`: a matched line is truthy unless it is the empty string;
        -- a missing default block is added with the defaults inside it: `config(odict(), rule["children"])`
        if !ign && !(matched.any fun e => !e.1.isEmpty) && !(cfg.any (·.1 == row)) then
          match configRules children [] [] with
          | none => none
          | some sub => configMatched (fun s => configRules children s []) matched (setKey acc row (.mk sub))
        else configMatched (fun s => configRules children s []) matched acc
end

def config (rules : List IRule) (t : Cfg) : Option Cfg := (configRules rules t.kids []).map Cfg.mk

mutual
  /-- `merge_dicts(a, b)` on config trees: keys of `a` (values merged when `b` has the key), then new keys of `b` -/
  def merge : Cfg → Cfg → Cfg
    | .mk a, .mk b => .mk (mergeL a b ++ b.filter fun e => !(a.any (·.1 == e.1)))
  def mergeL : List (String × Cfg) → List (String × Cfg) → List (String × Cfg)
    | [], _ => []
    | (k, c) :: rest, b =>
      (match b.find? (·.1 == k) with
        | some (_, c') => (k, merge c c')
        | none => (k, c)) :: mergeL rest b
end

/-- `merge_dicts(tree, implicit.config(tree, rules))` -/
def complete (rules : List IRule) (t : Cfg) : Option Cfg := (config rules t).map (merge t)

end Annet.Implicit
