/-
C20 — an *effect* model of the diff/patch pipeline: which long-lived objects a job can write.

The value models (`Model/Diff.lean`, `Model/Patch.lean`, `Model/Api.lean`, `Model/Acl.lean`) are pure functions:
that is the ideal.  The Python code reaches it through three `copy.deepcopy` calls and through the
discipline that logic functions only write to their own arguments.  This file models exactly that part:

  * the objects that outlive a job inside one process (a pool worker serves many devices,
    annet/parallel.py:122-202):
      `rb`      the `attrs` dictionaries of the compiled patching rules, held by the provider cache
                (annet/rulebook/__init__.py:63-90) and by `functools.lru_cache`
                (annet/rulebook/patching.py:19, annet/annlib/rbparser/{acl,ordering,syntax}.py),
      `glob`    anything else a function could reach that is not one of its arguments (module globals,
                `hw`, `rule_pre`, `root_pre`),
      `scratch` the `match` field `_find_acl_matches` writes into the shared compiled ACL rules
                (annet/annlib/patching.py:510),
      and the caller's `old` / `new` trees;
  * the three copies
      `copyOldNew`  make_diff:      `old = copy.deepcopy(old); new = copy.deepcopy(new)`        patching.py:321-322
      `copyAttrs`   make_patch:     `attrs = copy.deepcopy(rule_pre["attrs"])`                  patching.py:410
      `copyMatch`   _select_match:  `match = {"attrs": copy.deepcopy(f_rule["attrs"])}`        patching.py:569
    as boolean flags (regenerated from the ASTs into `Gen/Effects.lean` on every run), so that the model says
    what the code does with and without each of them;
  * logic functions as state transformers of the cells they are handed (`LogicSem`), diff-logic functions
    likewise (`DSem`); a small effect language (`Eff`, `Phase`) in which the shipped writers
    (`common.default_instead_undo`, `huawei.bgp.undo_commit`, `cisco.misc.ssh_key`, `common.permanent`)
    and the test-only logics of the harness are written, with its interpreter (`phaseLogic`), which mirrors the
    generator protocol of make_patch: after every `yield` make_patch *reads* `attrs["comment"]` and
    `attrs.get("force_commit")` from the same dictionary the logic writes to (patching.py:421-455).

Scope: one level of rules (children are other rule objects with their own attrs; nesting adds no aliasing).

Core Lean only.
-/
import AnnetModel.Model.Diff

namespace Annet.Effects
open Annet Annet.Rules Annet.Diff

/-! ### rule attrs -/

/-- values of the fields of a compiled rule's `attrs` that logic functions and make_patch read or write -/
inductive Val where
  | str (s : String)
  | bool (b : Bool)
  | strs (l : List String)
  deriving Repr, DecidableEq, Inhabited

/-- `rule["attrs"]`: an ordered dict -/
abbrev Attrs := List (String × Val)

/-- `attrs.get(f)` -/
def getF (a : Attrs) (f : String) : Option Val := (a.find? (·.1 == f)).map (·.2)

/-- `attrs[f] = v` -/
def setF : Attrs → String → Val → Attrs
  | [], f, v => [(f, v)]
  | (g, w) :: rest, f, v => if g == f then (f, v) :: rest else (g, w) :: setF rest f v

/-- the three `copy.deepcopy` calls -/
structure Flags where
  copyOldNew : Bool
  copyAttrs : Bool
  copyMatch : Bool
  deriving Repr, DecidableEq, Inhabited

def Flags.all : Flags := ⟨true, true, true⟩

/-! ### what a logic function sees and does -/

/-- the `diff` argument of a logic function: rows per op (one level, children not modelled) -/
structure Buckets where
  added : List String := []
  removed : List String := []
  moved : List String := []
  affected : List String := []
  unchanged : List String := []
  deriving Repr, DecidableEq, Inhabited

def Buckets.get (b : Buckets) : Op → List String
  | .added => b.added | .removed => b.removed | .moved => b.moved
  | .affected => b.affected | .unchanged => b.unchanged

def Buckets.set (b : Buckets) (o : Op) (l : List String) : Buckets :=
  match o with
  | .added => { b with added := l } | .removed => { b with removed := l } | .moved => { b with moved := l }
  | .affected => { b with affected := l } | .unchanged => { b with unchanged := l }

inductive Err where
  | assertion      -- AssertionError (common.default: "Too many actions")
  | keyError       -- KeyError (a field that is not there)
  | typeError      -- TypeError / AttributeError (a field of the wrong kind)
  | badRule        -- index outside the rulebook (cannot happen for jobs derived from a diff)
  deriving Repr, DecidableEq, Inhabited

/-- what make_patch records for one `yield (direct, row, None)` of a logic function, *unformatted*:
`row` is `tmpl` or `tmpl.format(*key)`; `comments` and `forceCommit` are read from the attrs dictionary
right after the yield (patching.py:424-455). -/
structure Emit where
  direct : Bool
  tmpl : String
  fmtKey : Option (List String)
  comments : List String
  forceCommit : Bool
  deriving Repr, DecidableEq, Inhabited

/-- the cells one call of a logic function can reach -/
structure Cells where
  rule : Attrs       -- its `rule` argument
  diff : Buckets     -- its `diff` argument
  glob : Attrs       -- everything that is not an argument of its own
  deriving Repr, DecidableEq, Inhabited

structure Out where
  cells : Cells
  emits : List Emit
  err : Option Err
  deriving Repr, DecidableEq, Inhabited

/-- one call `attrs["logic"](rule=attrs, key=key, diff=diff, …)` run to exhaustion by make_patch -/
abbrev LogicSem := List String → Cells → Out

structure DOut where
  attrs : Attrs            -- the match attrs (`diff_pre[row]["match"]["attrs"]`) afterwards
  glob : Attrs
  obs : List String        -- what the function contributes to the diff for this row
  err : Option Err
  deriving Repr, DecidableEq, Inhabited

/-- what a `%diff_logic` function does with the match of one row: `match attrs → glob → …` -/
abbrev DSem := Attrs → Attrs → DOut

/-- A logic function is *confined* when it neither reads nor writes anything but its arguments. -/
def ConfinedL (L : LogicSem) : Prop :=
  ∀ key c g, L key { c with glob := g } =
    { L key c with cells := { (L key c).cells with glob := g } }

def ConfinedD (D : DSem) : Prop :=
  ∀ a g g', D a g' = { D a g with glob := g' }

/-- a diff-logic that leaves the match it is shown alone (all shipped ones except juniper's `comment_processor`) -/
def PureD (D : DSem) : Prop := ∀ a g, (D a g).attrs = a

/-- logic and diff-logic of every compiled rule (`attrs["logic"]`, `attrs["diff_logic"]`), by rule index -/
structure Tables where
  logic : Nat → LogicSem
  dlogic : Nat → DSem

def Tables.Confined (T : Tables) : Prop := (∀ r, ConfinedL (T.logic r)) ∧ (∀ r, ConfinedD (T.dlogic r))

/-! ### a process, a job -/

/-- what survives from one job to the next inside a process -/
structure Proc where
  rb : List Attrs
  glob : Attrs
  deriving Repr, DecidableEq, Inhabited

/-- one `(raw_rule, key)` entry of `pre`: make_patch calls the rule's logic once for it (patching.py:405-419) -/
structure Item where
  rule : Nat
  key : List String
  buckets : Buckets
  deriving Repr, DecidableEq, Inhabited

/-- `rows`: the rule matched by every row of the diff, in diff order (each row gets a match from `_select_match`
and is shown to its diff-logic); `items`: the entries of `make_pre(diff)` in the order make_patch visits them. -/
structure Job where
  rows : List Nat
  items : List Item
  deriving Repr, DecidableEq, Inhabited

/-- state while one job runs.  `pre r` is the attrs object `make_pre` keeps for rule `r`
(`pre[raw_rule]["attrs"] = match["attrs"]` of the *first* row of that rule, patching.py:375-379); it is a separate
object only when `_select_match` copies, otherwise it *is* `rb[r]`. -/
structure JSt where
  rb : List Attrs
  glob : Attrs
  pre : List (Option Attrs)
  dobs : List (List String)
  emits : List Emit
  err : Option Err
  deriving Repr, DecidableEq, Inhabited

def JSt.start (p : Proc) : JSt :=
  { rb := p.rb, glob := p.glob, pre := p.rb.map (fun _ => none), dobs := [], emits := [], err := none }

/-- make_diff for one row: `_select_match` hands out the rule's attrs (copied or not), the diff-logic sees it -/
def rowStep (fl : Flags) (T : Tables) (st : JSt) (r : Nat) : JSt :=
  if st.err.isSome then st else
  match st.rb[r]? with
  | none => { st with err := some .badRule }
  | some a =>
    let o := T.dlogic r a st.glob
    let st := { st with glob := o.glob, dobs := st.dobs ++ [o.obs], err := o.err }
    if fl.copyMatch then
      match st.pre[r]? with
      | some none => { st with pre := st.pre.set r (some o.attrs) }
      | _ => st                          -- a later row of the same rule: its copy is dropped by make_pre
    else { st with rb := st.rb.set r o.attrs }

/-- the attrs object make_patch finds in `pre` for rule `r` -/
def preCell (fl : Flags) (st : JSt) (r : Nat) : Option Attrs :=
  if fl.copyMatch then (st.pre[r]?).join else st.rb[r]?

/-- make_patch for one `(raw_rule, key)`: the logic gets a copy of the attrs or the object itself -/
def itemStep (fl : Flags) (T : Tables) (st : JSt) (it : Item) : JSt :=
  if st.err.isSome then st else
  match preCell fl st it.rule with
  | none => { st with err := some .badRule }
  | some a =>
    let o := T.logic it.rule it.key { rule := a, diff := it.buckets, glob := st.glob }
    let st := { st with glob := o.cells.glob, emits := st.emits ++ o.emits, err := o.err }
    if fl.copyAttrs then st
    else if fl.copyMatch then { st with pre := st.pre.set it.rule (some o.cells.rule) }
    else { st with rb := st.rb.set it.rule o.cells.rule }

def runJobSt (fl : Flags) (T : Tables) (p : Proc) (j : Job) : JSt :=
  j.items.foldl (itemStep fl T) (j.rows.foldl (rowStep fl T) (JSt.start p))

/-- the result of a job as its caller sees it -/
structure Res where
  dobs : List (List String)
  emits : List Emit
  err : Option Err
  deriving Repr, DecidableEq, Inhabited

def JSt.res (st : JSt) : Res := { dobs := st.dobs, emits := st.emits, err := st.err }
def JSt.proc (st : JSt) : Proc := { rb := st.rb, glob := st.glob }

def runJob (fl : Flags) (T : Tables) (p : Proc) (j : Job) : Res × Proc :=
  ((runJobSt fl T p j).res, (runJobSt fl T p j).proc)

/-- the process after a sequence of jobs (a pool worker's history) -/
def after (fl : Flags) (T : Tables) (p : Proc) : List Job → Proc
  | [] => p
  | j :: js => after fl T (runJob fl T p j).2 js

/-- the results of a sequence of jobs run one after the other in one process -/
def runJobs (fl : Flags) (T : Tables) (p : Proc) : List Job → List Res
  | [] => []
  | j :: js => (runJob fl T p j).1 :: runJobs fl T (runJob fl T p j).2 js

/-! ### the effect language and its interpreter -/

inductive Eff where
  | setField (f : String) (v : Val)          -- rule[f] = v
  | appendStr (f s : String)                 -- rule[f] = rule[f] + s
  | replaceStr (f a b : String)              -- rule[f] = rule[f].replace(a, b)
  | pushList (f s : String)                  -- rule[f].append(s)
  | moveBucket (src dst : Op)                -- diff[dst] += diff[src]; diff[src] = []
  | clearBucket (o : Op)                     -- diff[o] = []
  deriving Repr, DecidableEq, Inhabited

inductive Guard where
  | always
  | nonEmpty (o : Op)                        -- `if diff[o]:`
  | isEmpty (o : Op)                         -- `if not diff[o]:`
  deriving Repr, DecidableEq, Inhabited

inductive YieldSpec where
  | reverse                                  -- yield (False, rule["reverse"].format(*key), None)
  | reverseRaw                               -- yield (False, rule["reverse"], None)   (huawei.bgp.undo_commit)
  | default                                  -- yield from common.default(rule, key, diff)
  | literal (s : String)                     -- yield (False, s, None)
  deriving Repr, DecidableEq, Inhabited

/-- `if guard: effs…; yield …` — a logic function is a list of these -/
structure Phase where
  guard : Guard
  effs : List Eff
  yld : Option YieldSpec
  deriving Repr, DecidableEq, Inhabited

def Guard.holds (g : Guard) (b : Buckets) : Bool :=
  match g with
  | .always => true
  | .nonEmpty o => !(b.get o).isEmpty
  | .isEmpty o => (b.get o).isEmpty

def applyEff (e : Eff) (a : Attrs) (b : Buckets) : Except Err (Attrs × Buckets) :=
  match e with
  | .setField f v => .ok (setF a f v, b)
  | .appendStr f s =>
    match getF a f with
    | some (.str x) => .ok (setF a f (.str (x ++ s)), b)
    | some _ => .error .typeError
    | none => .error .keyError
  | .replaceStr f x y =>
    match getF a f with
    | some (.str s) => .ok (setF a f (.str (s.replace x y)), b)
    | some _ => .error .typeError
    | none => .error .keyError
  | .pushList f s =>
    match getF a f with
    | some (.strs l) => .ok (setF a f (.strs (l ++ [s])), b)
    | some _ => .error .typeError
    | none => .error .keyError
  | .moveBucket src dst => .ok (a, (b.set dst (b.get dst ++ b.get src)).set src [])
  | .clearBucket o => .ok (a, b.set o [])

/-- effects one after the other; on an exception the writes already made stay -/
def applyEffs : List Eff → Attrs → Buckets → Attrs × Buckets × Option Err
  | [], a, b => (a, b, none)
  | e :: es, a, b =>
    match applyEff e a b with
    | .error x => (a, b, some x)
    | .ok (a', b') => applyEffs es a' b'

/-- `" ".join(attrs["comment"])` is built from this list -/
def commentsOf (a : Attrs) : List String :=
  match getF a "comment" with
  | some (.strs l) => l
  | _ => []

/-- truthiness of `attrs.get("force_commit", False)` -/
def forceCommitOf (a : Attrs) : Bool :=
  match getF a "force_commit" with
  | some (.bool b) => b
  | some (.str s) => s != ""
  | some (.strs l) => !l.isEmpty
  | none => false

def mkEmit (a : Attrs) (direct : Bool) (tmpl : String) (k : Option (List String)) : Emit :=
  { direct := direct, tmpl := tmpl, fmtKey := k, comments := commentsOf a, forceCommit := forceCommitOf a }

/-- `common.default(rule, key, diff)` on childless rows (annet/annlib/rulebook/common.py:54-66) -/
def defaultYield (a : Attrs) (key : List String) (b : Buckets) : Except Err (List Emit) :=
  if b.added.length > 1 || b.removed.length > 1 || b.affected.length > 1 || b.moved.length > 1 then .error .assertion
  else
    match b.affected, b.added, b.moved, b.removed with
    | r :: _, _, _, _ => .ok [mkEmit a true r none]
    | [], r :: _, _, _ => .ok [mkEmit a true r none]
    | [], [], r :: _, _ => .ok [mkEmit a true r none]
    | [], [], [], _ :: _ =>
      match getF a "reverse" with
      | some (.str t) => .ok [mkEmit a false t (some key)]
      | some _ => .error .typeError
      | none => .error .keyError
    | [], [], [], [] => .ok []

def yieldOf (y : YieldSpec) (a : Attrs) (key : List String) (b : Buckets) : Except Err (List Emit) :=
  match y with
  | .default => defaultYield a key b
  | .literal s => .ok [mkEmit a false s none]
  | .reverse =>
    match getF a "reverse" with
    | some (.str t) => .ok [mkEmit a false t (some key)]
    | some _ => .error .typeError
    | none => .error .keyError
  | .reverseRaw =>
    match getF a "reverse" with
    | some (.str t) => .ok [mkEmit a false t none]
    | some _ => .error .typeError
    | none => .error .keyError

/-- run the phases of one logic call on the cells `(a, b)`; `acc` = what was yielded so far -/
def runPhases : List Phase → List String → Attrs → Buckets → List Emit → Attrs × Buckets × List Emit × Option Err
  | [], _, a, b, acc => (a, b, acc, none)
  | ph :: rest, key, a, b, acc =>
    if ph.guard.holds b then
      match applyEffs ph.effs a b with
      | (a', b', some e) => (a', b', acc, some e)
      | (a', b', none) =>
        match ph.yld with
        | none => runPhases rest key a' b' acc
        | some y =>
          match yieldOf y a' key b' with
          | .error e => (a', b', acc, some e)
          | .ok es => runPhases rest key a' b' (acc ++ es)
    else runPhases rest key a b acc

/-- the logic function written as `phases` -/
def phaseLogic (phases : List Phase) : LogicSem := fun key c =>
  match runPhases phases key c.rule c.diff [] with
  | (a, b, es, err) => { cells := { rule := a, diff := b, glob := c.glob }, emits := es, err := err }

/-- a diff-logic that applies `effs` to the match of every row it returns (the harness's `mut.D_…` wrapper around
`common.default_diff`; `juniper.comment_processor` has this shape) -/
def effDLogic (effs : List Eff) : DSem := fun a g =>
  match applyEffs effs a {} with
  | (a', _, err) => { attrs := a', glob := g, obs := [], err := err }

/-! shipped writers, in the effect language -/

/-- `common.default` -/
def lDefault : List Phase := [⟨.always, [], some .default⟩]

/-- `common.default_instead_undo` (annet/annlib/rulebook/common.py:120-127) -/
def lDefaultInsteadUndo : List Phase :=
  [⟨.nonEmpty .removed, [.replaceStr "reverse" "no" "default"], none⟩, ⟨.always, [], some .default⟩]

/-- `huawei.bgp.undo_commit` (annet/rulebook/huawei/bgp.py:8-18) -/
def lUndoCommit : List Phase :=
  [⟨.nonEmpty .removed, [.setField "force_commit" (.bool true)], some .reverseRaw⟩,
   ⟨.always, [.setField "force_commit" (.bool false)], some .default⟩]

/-- `cisco.misc.no_ipv6_nd_suppress_ra` (annet/rulebook/cisco/misc.py:31-41) -/
def lNoIpv6NdSuppressRa : List Phase :=
  [⟨.nonEmpty .added, [], some (.literal "no ipv6 nd suppress-ra")⟩, ⟨.always, [], some .default⟩]

/-! ### rendering (what the patch shows) -/

/-- `tmpl.format(*key)` for templates whose only braces are `{}` placeholders; `none` = IndexError / stray brace -/
def fmtChars : List Char → List String → Option (List Char)
  | [], _ => some []
  | '{' :: '}' :: rest, k :: ks => (fmtChars rest ks).map (k.toList ++ ·)
  | '{' :: _, _ => none
  | '}' :: _, _ => none
  | c :: rest, ks => (fmtChars rest ks).map (c :: ·)

/-- the patch rows one yield contributes: the row (with comments when `add_comments`), and a `commit` row after a
`force_commit` item; nothing when `do_commit` is off and the item needs a commit (patching.py:424-470) -/
def renderEmit (addComments doCommit : Bool) (e : Emit) : List String :=
  if !doCommit && e.forceCommit then [] else
  let row := match e.fmtKey with
    | none => e.tmpl
    | some k => match fmtChars e.tmpl.toList k with
      | some cs => String.ofList cs
      | none => "<format-error>"
  let cm := " ".intercalate e.comments
  let row := if addComments && cm != "" then row ++ " " ++ cm else row
  if e.forceCommit then [row, "commit"] else [row]

/-! ### the caller's trees (make_diff, patching.py:319-349) -/

mutual
  /-- forget the matches: the tree `apply_diff_rb` leaves behind (unknown rows popped at every level) -/
  def eraseA : ACfg → Cfg
    | .mk ks => .mk (eraseL ks)
  def eraseL : List (String × PMatch × ACfg) → List (String × Cfg)
    | [] => []
    | (row, _, c) :: rest => (row, eraseA c) :: eraseL rest
end

/-- the tree `apply_diff_rb(old, new, rb)` was handed, afterwards -/
def prune (rules : PRules) (t : Cfg) : Except Diff.Err Cfg := (annotate rules t).map eraseA

/-- the caller's `old` (or `new`) after `make_diff` -/
def callerTreeAfter (fl : Flags) (rules : PRules) (t : Cfg) : Except Diff.Err Cfg :=
  if fl.copyOldNew then .ok t else prune rules t

/-! ### the ACL scratch field (`_find_acl_matches`, patching.py:503-531; `_select_match`, 547-574)

Rules of one level are numbered in `_rules_local_global` order.  `dm r row` / `rm r row` are the `groupdict()`s of
`direct_regexp` / `reverse_regexp` (CPython `re`: a parameter).  The scratch field of rule `r` is `sc[r]`. -/

abbrev Groups := List (String × String)

/-- one pass over the rules for one regexp key: every matching rule gets `rule["attrs"]["match"] = groupdict` -/
def scanPass (m : Nat → Option Groups) (isRev : Bool) :
    Nat → List (Option Groups) → List (Option Groups) × List (Nat × Bool)
  | _, [] => ([], [])
  | i, s :: rest =>
    let (rest', ms) := scanPass m isRev (i + 1) rest
    match m i with
    | some g => (some g :: rest', (i, isRev) :: ms)
    | none => (s :: rest', ms)

/-- `_find_acl_matches(row, rules)` before sorting: the direct pass, then the reverse pass -/
def findAclMatches (dm rm : Nat → Option Groups) (sc : List (Option Groups)) :
    List (Option Groups) × List (Nat × Bool) :=
  let (sc1, m1) := scanPass dm false 0 sc
  let (sc2, m2) := scanPass rm true 0 sc1
  (sc2, m1 ++ m2)

/-- `match_row_to_acl`: the first match after the metric sort (`sel`: a parameter) is copied with its scratch
field; returns the new scratch state and `(rule, is_reverse, match["attrs"]["match"])` -/
def matchRowToAcl (sel : List (Nat × Bool) → Option (Nat × Bool)) (dm rm : Nat → Option Groups)
    (sc : List (Option Groups)) : List (Option Groups) × Option (Nat × Bool × Option Groups) :=
  let (sc', ms) := findAclMatches dm rm sc
  match sel ms with
  | none => (sc', none)
  | some (r, isRev) => (sc', some (r, isRev, (sc'[r]?).join))

/-- a sequence of rows through one shared compiled ACL level: the reads, and the final scratch state -/
def aclRows (sel : Nat → List (Nat × Bool) → Option (Nat × Bool)) (dm rm : Nat → Nat → Option Groups) :
    Nat → Nat → List (Option Groups) → List (Option (Nat × Bool × Option Groups)) × List (Option Groups)
  | 0, _, sc => ([], sc)
  | n + 1, j, sc =>
    let (sc', rd) := matchRowToAcl (sel j) (dm j) (rm j) sc
    let (rds, scf) := aclRows sel dm rm n (j + 1) sc'
    (rd :: rds, scf)

/-! ### the regenerated table (types; the data is `Gen/Effects.lean`) -/

/-- what a write found in the source of a logic / diff-logic function is rooted at -/
inductive Root where
  | rule | key | diff                       -- arguments of a logic function that are its own
  | hw | rulePre | rootPre                  -- arguments shared with the caller
  | old | new | diffPre | pops              -- arguments of a diff-logic function (slices of make_diff's copies)
  | otherArg                                -- `*args` / `**kwargs`
  | global                                  -- a module-level name
  deriving Repr, DecidableEq, Inhabited

inductive Kind where
  | logic | diffLogic
  deriving Repr, DecidableEq, Inhabited

structure Write where
  root : Root
  field : String
  how : String
  viaMatch : Bool        -- the target goes through `…["attrs"]…` of a match (guarded by `copyMatch` only)
  deriving Repr, DecidableEq, Inhabited

structure Entry where
  name : String
  kind : Kind
  resolved : Bool        -- the function was found in the source tree
  writes : List Write
  deriving Repr, DecidableEq, Inhabited

def Root.ownArg (k : Kind) (r : Root) : Bool :=
  match k, r with
  | .logic, .rule | .logic, .key | .logic, .diff => true
  | .diffLogic, .old | .diffLogic, .new | .diffLogic, .diffPre | .diffLogic, .pops | .diffLogic, .otherArg => true
  | _, _ => false

/-- every write of the function goes to one of its own arguments, and a logic function does not reach into a match -/
def Entry.confined (e : Entry) : Bool :=
  e.resolved && e.writes.all (fun w => w.root.ownArg e.kind && (e.kind == .diffLogic || !w.viaMatch))

/-- the function writes into the match attrs it is shown (only `copyMatch` stands between it and the rulebook) -/
def Entry.writesMatch (e : Entry) : Bool := e.writes.any (·.viaMatch)

/-- does the table allow this observed write (root and field) for the function `name`? -/
def tableAllows (table : List Entry) (name : String) (root : Root) (field : String) : Bool :=
  table.any fun e => e.name == name && e.writes.any fun w => w.root == root && (w.field == field || w.field == "*" || w.field == "")

end Annet.Effects
