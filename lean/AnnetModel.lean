import AnnetModel.Model.Offside
import AnnetModel.Model.Tree
import AnnetModel.Spec.Offside
import AnnetModel.Lemmas.Offside
import AnnetModel.Props.C05
import AnnetModel.Glue.C05
import AnnetModel.Glue.Common
