import AnnetModel.Model.Tree
import AnnetModel.Model.Offside
import AnnetModel.Spec.Offside
import AnnetModel.Lemmas.Offside
import AnnetModel.Props.C05
