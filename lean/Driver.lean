/-
Line-protocol driver: one JSON request per line on stdin, one JSON response per
line on stdout.  Evaluates the definitions of `AnnetModel/Model` — the same
definitions the theorems in `AnnetModel/Props` are about.  Imports no Mathlib.
-/
import AnnetModel.Glue.All

open Lean Annet.Glue

def respond (line : String) : String :=
  match Json.parse line with
  | .error e => (Json.mkObj [("fail", Json.str s!"bad json: {e}")]).compress
  | .ok j =>
    match j.getObjVal? "op" >>= (·.getStr?) with
    | .error e => (Json.mkObj [("fail", Json.str s!"no op: {e}")]).compress
    | .ok op =>
      match allHandlers.lookup op with
      | none => (Json.mkObj [("fail", Json.str s!"unknown op {op}")]).compress
      | some h =>
        match h j with
        | .error e => (Json.mkObj [("fail", Json.str e)]).compress
        | .ok r => r.compress

partial def loop (hin : IO.FS.Stream) (hout : IO.FS.Stream) : IO Unit := do
  let line ← hin.getLine
  if line.isEmpty then return ()
  let l := line.trimAscii.toString
  if l.isEmpty then
    hout.putStrLn "{}"
  else
    hout.putStrLn (respond l)
  loop hin hout

def main : IO Unit := do
  let hin ← IO.getStdin
  let hout ← IO.getStdout
  loop hin hout
