#!/usr/bin/env python3
"""Merge the files a builder owns (see BUILDING.md) from its scratch workspace into /verif."""
import json, os, shutil, sys, filecmp
pid = sys.argv[1].upper()
src = "/tmp/build_%s/verif" % pid.lower()
dst = "/verif"
copied = []
for sub in ("Model", "Spec", "Lemmas", "Props", "Glue", "Gen"):
    d = os.path.join(src, "lean/AnnetModel", sub)
    if not os.path.isdir(d):
        continue
    for f in sorted(os.listdir(d)):
        if not f.endswith(".lean") or f == "All.lean":
            continue
        s, t = os.path.join(d, f), os.path.join(dst, "lean/AnnetModel", sub, f)
        if os.path.exists(t):
            if not filecmp.cmp(s, t, shallow=False) and "--force" in sys.argv:
                pass
            else:
                continue
        os.makedirs(os.path.dirname(t), exist_ok=True)
        shutil.copy(s, t); copied.append(os.path.relpath(t, dst))
for f in sorted(os.listdir(os.path.join(src, "harness/props"))):
    s, t = os.path.join(src, "harness/props", f), os.path.join(dst, "harness/props", f)
    if f.endswith(".py") and not os.path.exists(t):
        shutil.copy(s, t); copied.append(os.path.relpath(t, dst))
for f in sorted(os.listdir(os.path.join(src, "harness"))):
    s, t = os.path.join(src, "harness", f), os.path.join(dst, "harness", f)
    if f.endswith(".py") and not os.path.exists(t):
        shutil.copy(s, t); copied.append(os.path.relpath(t, dst))
c = os.path.join(src, "corpus", pid)
if os.path.isdir(c):
    shutil.copytree(c, os.path.join(dst, "corpus", pid), dirs_exist_ok=True); copied.append("corpus/" + pid)
kf_s = json.load(open(os.path.join(src, "known_findings.json")))
kf_d = json.load(open(os.path.join(dst, "known_findings.json")))
have = {(f["property"], f["signature"]) for f in kf_d["findings"]}
for f in kf_s.get("findings", []):
    if f["property"] == pid and (f["property"], f["signature"]) not in have:
        kf_d["findings"].append(f); copied.append("known:" + f["signature"])
json.dump(kf_d, open(os.path.join(dst, "known_findings.json"), "w"), indent=1)
print("\n".join(copied))
