#!/bin/bash
# usage: harm_eval.sh <verif copy> <patch dir>...   -> runs all quick checks against a worktree carrying the patch
V=$1; shift
cd $V
for pd in "$@"; do
  [ -f $pd/patch.diff ] || continue
  wt=$(mktemp -d /tmp/harmwt_XXXX); rmdir $wt
  git -C /repo worktree add -q --detach $wt HEAD
  if ! git -C $wt apply $pd/patch.diff; then echo "$pd: PATCH DOES NOT APPLY"; git -C /repo worktree remove --force $wt; continue; fi
  t=$(cd $wt && /venv/bin/python -m pytest -q -p no:cacheprovider -x 2>&1 | tail -1)
  echo "$pd tests: $t"
  for c in C01 C02 C03 C04 C05 C06 C07 C08 C09 C10 C11 C13 C14 C15 C16 C17 C18 C19 C20 C12; do
    out=$(ANNET_REPO=$wt timeout 1500 ./check $c --tier quick 2>&1 | grep -E "VIOLATION|INFRA|quick")
    if echo "$out" | grep -q "VIOLATION\|INFRA"; then echo "$pd $c ALARM: $(echo "$out" | head -3 | cut -c1-300)"; fi
  done
  echo "$pd done"
  git -C /repo worktree remove --force $wt
done
echo HARMDONE
