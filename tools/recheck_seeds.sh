#!/bin/bash
# Re-evaluate every stored seeded change (seeded/<name>/patch.diff, demo.py) against the CURRENT checks and rewrite its
# meta.json.  Sequential (the pregen checks C09 C18 C20 regenerate Lean tables): about 3 hours.
# usage: tools/recheck_seeds.sh [name-prefix]      e.g. tools/recheck_seeds.sh C15
cd "$(dirname "$0")/.."
for d in seeded/${1:-}*/; do
  n=$(basename "$d"); p=${n%%-*}
  extra=$(python3 -c "
import json
m=json.load(open('seeded/$n/meta.json')); print(' '.join(c for c in m.get('checks',{}) if c!='$p'))")
  timeout 3000 python3 tools/seed_eval.py "$p" "seeded/$n" "$n" $extra >/dev/null 2>&1
  python3 -c "
import json
m=json.load(open('seeded/$n/meta.json')); print('$n', 'confirmed' if m.get('confirmed') else 'NOT-CONFIRMED', 'detected:', m.get('detected_with_failing_input') or m.get('detected_by') or 'MISSED')"
done
# the seeds ran with ANNET_REPO=<worktree>: regenerate the translated tables from the clean /repo
for c in C09 C18 C20; do ./check $c --tier quick | tail -1; done
