#!/usr/bin/env python3
"""Confirm a seeded breaking change and run the checks against it.

usage: tools/seed_eval.py <property id> <seed dir with patch.diff demo.py notes.md> <seed name> [extra check ids…]

1. in a scratch worktree of /repo (removed afterwards): the patch applies, the existing test suite passes with it,
   demo.py exits 0 without the patch and 1 with it;
2. applies the patch to /repo itself (git apply), runs ./check <id> (quick) and the extra checks, and ALWAYS undoes it
   (git checkout -- .);
3. stores patch.diff, demo.py, notes.md, meta.json under /verif/seeded/<seed name>/.
"""
import json
import os
import shutil
import subprocess
import sys
import tempfile

VERIF = os.path.dirname(os.path.dirname(os.path.abspath(__file__)))
REPO = "/repo"


def sh(cmd, cwd=None, timeout=1800):
    p = subprocess.run(cmd, shell=True, cwd=cwd, stdout=subprocess.PIPE, stderr=subprocess.STDOUT, text=True, timeout=timeout)
    out = "\n".join(l for l in p.stdout.splitlines() if "conda.cli.condarc" not in l)
    return p.returncode, out


def main():
    pid, sdir, name = sys.argv[1], os.path.abspath(sys.argv[2]), sys.argv[3]
    extra = [x for x in sys.argv[4:] if not x.startswith("--")]
    patch = os.path.join(sdir, "patch.diff")
    demo = os.path.join(sdir, "demo.py")
    meta = dict(property=pid, name=name, confirmed=False)
    wt = tempfile.mkdtemp(prefix="seedwt_")
    os.rmdir(wt)
    try:
        rc, out = sh("git -C %s worktree add -q --detach %s HEAD" % (REPO, wt))
        assert rc == 0, out
        rc0, out0 = sh("/venv/bin/python %s %s" % (demo, wt), timeout=900)
        rc, out = sh("git apply %s" % patch, cwd=wt)
        meta["patch_applies"] = rc == 0
        if rc != 0:
            meta["error"] = out[-500:]
        else:
            rct, outt = sh("/venv/bin/python -m pytest -q -p no:cacheprovider -x 2>&1 | tail -3", cwd=wt, timeout=1800)
            meta["tests_with_patch"] = outt.strip().splitlines()[-1] if outt.strip() else ""
            meta["tests_pass_with_patch"] = " passed" in meta["tests_with_patch"] and "failed" not in meta["tests_with_patch"]
            rc1, out1 = sh("/venv/bin/python %s %s" % (demo, wt), timeout=900)
            meta["demo_without_patch_exit"] = rc0
            meta["demo_with_patch_exit"] = rc1
            meta["demo_with_patch_output"] = out1[-600:]
            meta["confirmed"] = bool(meta["tests_pass_with_patch"] and rc0 == 0 and rc1 != 0)
    finally:
        sh("git -C %s worktree remove --force %s" % (REPO, wt))
        shutil.rmtree(wt, ignore_errors=True)
    checks = {}
    if meta.get("patch_applies"):
        # The checks are run against a scratch worktree carrying the change (ANNET_REPO), not against /repo itself,
        # because other jobs import annet from /repo concurrently; `--in-repo` applies it to /repo and undoes it.
        in_repo = "--in-repo" in sys.argv
        wt2 = tempfile.mkdtemp(prefix="seedrun_")
        os.rmdir(wt2)
        try:
            if in_repo:
                rc, out = sh("git -C %s status --porcelain" % REPO)
                assert out.strip() == "", "refusing: /repo is not clean:\n" + out
                rc, out = sh("git -C %s apply %s" % (REPO, patch))
                assert rc == 0, out
                env = ""
            else:
                rc, out = sh("git -C %s worktree add -q --detach %s HEAD" % (REPO, wt2))
                assert rc == 0, out
                rc, out = sh("git apply %s" % patch, cwd=wt2)
                assert rc == 0, out
                env = "ANNET_REPO=%s " % wt2
            for cid in [pid] + [x for x in extra if not x.startswith("--")]:
                rc, out = sh(env + "./check %s --tier quick" % cid, cwd=VERIF, timeout=3600)
                lines = [l for l in out.splitlines() if l.startswith("VIOLATION") or l.startswith(cid + " ")]
                checks[cid] = dict(exit=rc, lines=lines[-6:])
                # keep the replay files of the violation next to the seed
                for l in lines:
                    if l.startswith("VIOLATION") and "replay=" in l:
                        rp = l.split("replay=")[1].split()[0]
                        src = os.path.join(VERIF, rp)
                        if os.path.exists(src):
                            d = os.path.join(VERIF, "seeded", name, "replays")
                            os.makedirs(d, exist_ok=True)
                            shutil.copy(src, d)
        finally:
            if in_repo:
                sh("git -C %s checkout -- ." % REPO)
            else:
                sh("git -C %s worktree remove --force %s" % (REPO, wt2))
                shutil.rmtree(wt2, ignore_errors=True)
    meta["checks"] = checks
    meta["detected_by"] = [c for c, r in checks.items() if r["exit"] == 1]
    meta["detected_with_failing_input"] = [c for c, r in checks.items() if r["exit"] == 1 and any(
        l.startswith("VIOLATION") and "no-failing-input-found" not in l for l in r["lines"])]
    dst = os.path.join(VERIF, "seeded", name)
    os.makedirs(dst, exist_ok=True)
    for f in ("patch.diff", "demo.py", "notes.md"):
        if os.path.exists(os.path.join(sdir, f)) and os.path.abspath(os.path.join(sdir, f)) != os.path.abspath(os.path.join(dst, f)):
            shutil.copy(os.path.join(sdir, f), dst)
    # what it needs to manifest: first lines of the author's notes
    notes = open(os.path.join(sdir, "notes.md")).read() if os.path.exists(os.path.join(sdir, "notes.md")) else ""
    meta["needs_to_manifest"] = notes[:1200]
    meta["ran"] = ["scratch worktree: git apply patch.diff; pytest (existing suite); demo.py with/without the patch",
                   "checks: ./check <id> --tier quick against a worktree of /repo HEAD with patch.diff applied "
                   "(ANNET_REPO=<worktree>; equivalent to git -C /repo apply … && ./check … && git -C /repo checkout -- ., "
                   "used so that concurrent jobs importing /repo are not disturbed)"]
    json.dump(meta, open(os.path.join(dst, "meta.json"), "w"), indent=1)
    print(json.dumps({k: meta[k] for k in ("name", "confirmed", "tests_with_patch", "demo_without_patch_exit",
                                            "demo_with_patch_exit", "detected_by", "detected_with_failing_input") if k in meta}, indent=1))
    for c, r in checks.items():
        print(c, r["exit"], *r["lines"], sep="\n  ")


if __name__ == "__main__":
    main()
