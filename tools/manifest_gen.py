#!/usr/bin/env python3
"""Writes MANIFEST.json from the table below (single source for claimed checks)."""
import json, os
ROOT = os.path.dirname(os.path.dirname(os.path.abspath(__file__)))
ALL = ["C%02d" % i for i in range(1, 21)]
COMMON_NOTE = ("Trusted base: Lean 4.33 kernel (+leanchecker in thorough); axioms limited to propext/Classical.choice/"
               "Quot.sound, audited per theorem on every run, no native_decide/bv_decide/sorry; the hand-written model is "
               "tied to /repo's working tree by a differential correspondence check (compiled Lean driver vs real annet "
               "functions on generated inputs) whose generator bounds what the tie sees; ")
CLAIMED = {
 "C05": dict(
  text="Lean theorems (unbounded lists of lines): the stack machine of _stripped_indents/_stacked equals the declarative "
       "offside rule (same path for every line, ParserError at the same line and only there), the rule's chain is the nearest "
       "preceding smaller indent, width independence, blank lines ignored, duplicate paths merge, rejection iff inconsistent. "
       "Tie: parse_to_tree vs Annet.Offside.parseToTree on ~190k (quick) exhaustive small texts + random texts; oracle: "
       "independent Python reference parser.",
  note=COMMON_NOTE + "Spec/Offside.lean is my declarative reading of the offside rule; Python str.strip whitespace table; "
       "CommonFormatter.split only.",
  design="§5 C05", technique="Lean 4 proof (refinement of stack machine to declarative spec) + differential correspondence"),
}
REASONS = {}
def main():
    checks = []
    for pid in ALL:
        if pid not in CLAIMED:
            continue
        c = CLAIMED[pid]
        checks.append(dict(
            property_id=pid, quick_cmd="./check %s --tier quick" % pid, thorough_cmd="./check %s --tier thorough" % pid,
            evidence_file="evidence/%s.json" % pid, replay_cmd_template="./check %s --replay {path}" % pid,
            engine="lean-model", level_claimed=dict(category="proof", text=c["text"], design_ref=c["design"]),
            level_note=c["note"], technique=c["technique"]))
    m = {
     "version": 1,
     "setup_cmd": "cd lean && (lake build driver AnnetModel 2>&1 | grep -v conda.cli.condarc | tail -5)",
     "hooks": {"guard": "ANNET_VERIF", "enable": "no source hooks: checks import annet from /repo's working tree (ANNET_REPO overrides the path)",
               "baseline_off_cmd": "cd /repo && /venv/bin/python -m pytest -ra -q -p no:cacheprovider --timeout=900 --continue-on-collection-errors",
               "source_commits": [], "add_only": True},
     "engines": [
      {"name": "lean-model", "path": "lean/", "serves_properties": sorted(CLAIMED),
       "kind_free_text": "Lean 4 library AnnetModel (Model = executable model of annet code, Spec, Lemmas, Props = property theorems) + compiled line-protocol driver"},
      {"name": "harness", "path": "harness/", "serves_properties": sorted(CLAIMED),
       "kind_free_text": "Python harness run by /venv/bin/python: seeded generators, real-code adapters, direct oracles, model/impl diff, known findings, evidence"}],
     "checks": checks,
     "not_applicable": [dict(property_id=p, reason=REASONS.get(p, "check not built yet (work in progress; design in DESIGN.md §5)"))
                        for p in ALL if p not in CLAIMED],
     "notes": "Design, trusted base and findings: DESIGN.md. Known findings: known_findings.json. Seeded breaking changes: seeded/.",
    }
    json.dump(m, open(os.path.join(ROOT, "MANIFEST.json"), "w"), indent=1)
    print("claimed:", sorted(CLAIMED))
main()
