#!/usr/bin/env python3
"""Writes MANIFEST.json from the table below (single source for claimed checks)."""
import json, os
ROOT = os.path.dirname(os.path.dirname(os.path.abspath(__file__)))
ALL = ["C%02d" % i for i in range(1, 21)]
COMMON_NOTE = ("Trusted base: Lean 4.33 kernel (+leanchecker in thorough); axioms limited to propext/Classical.choice/"
               "Quot.sound, audited per theorem on every run, no native_decide/bv_decide/sorry; the hand-written model is "
               "tied to /repo's working tree by a differential correspondence check (compiled Lean driver vs real annet "
               "functions on generated inputs) whose generator bounds what the tie sees; ")
CLAIMED = {
 "C05": dict(
  text="Lean theorems (unbounded lists of lines): the stack machine of _stripped_indents/_stacked equals the declarative "
       "offside rule (same path for every line, ParserError at the same line and only there), the rule's chain is the nearest "
       "preceding smaller indent, width independence, blank lines ignored, duplicate paths merge, rejection iff inconsistent. "
       "Tie: parse_to_tree vs Annet.Offside.parseToTree on ~190k (quick) exhaustive small texts + random texts; oracle: "
       "independent Python reference parser.",
  note=COMMON_NOTE + "Spec/Offside.lean is my declarative reading of the offside rule; Python str.strip whitespace table; "
       "CommonFormatter.split only.",
  design="§5 C05", technique="Lean 4 proof (refinement of stack machine to declarative spec) + differential correspondence"),
 "C06": dict(
  text="Lean theorems over the model of compile_acl_text/_find_acl_matches/_select_match/apply_acl (any ACL in the rule grammar, "
       "any tree): result is an order-preserving sub-tree; idempotence; a path survives iff every row along it passes at the rules "
       "reached along it; strict mode raises iff some row at a covered parent is unmatched and names the first one; everything "
       "below a deletable '~ %global' survives. Merge-monotonicity is FALSE of the code: three kernel-checked witnesses, recorded "
       "as known findings F06a-c. Tie: apply_acl vs Annet.Acl.applyAcl on 6.4k (quick) generated ACL/tree cases incl. merged "
       "generator ACLs, fatal and exclusive modes; oracle: the property's clauses on the real functions.",
  note=COMMON_NOTE + "CPython re not modelled (rows matched by Model/Pattern.lean, tied by C07); valkit/tabparser executed; "
       "ACL rows inside the rule grammar, no ignore rules, no annotations.",
  design="§5 C06", technique="Lean 4 proof (mutual induction over the tree) + differential correspondence"),
 "C07": dict(
  text="Lean theorems (any pattern of literal words/*/trailing ~, any row): the regex built by compile_row_regexp (modelled by "
       "matchToks, incl. its source text) matches exactly when the row starts with the corresponding words at word boundaries; "
       "the key has one entry per placeholder; * binds one word; prefix semantics; never across a word boundary; the removal "
       "template is negation word + words with the key substituted and is matched back by the same rule with the same key; "
       "negation is an involution (explicit guard); (?i) extends case-sensitive matches. Tie: real compiled regexes vs the model "
       "on ~225k pairs (exhaustive small alphabet + every shipped rule line with synthesised/near-miss rows); all compiled "
       "shipped rulebooks checked to use the one compiler.",
  note=COMMON_NOTE + "CPython re is a modelled subset: rows outside the grammar (*/re/, ~/re/, <name>, metacharacters; 218 of "
       "1540 shipped lines) are decided by re and only counted.",
  design="§5 C07", technique="Lean 4 proof (induction over token lists) + differential correspondence, exhaustive on a small alphabet"),
 "C08": dict(
  text="Lean theorems: the stable sort used for patches and configs is a permutation at every level (paths multiset preserved, "
       "children stay in their block), yields keys in non-decreasing order for the strict weak order of Python's tuple keys "
       "(proved for SortKey and the order_config key), keeps equal-key (e.g. unmentioned) rows in place, commutes with deleting "
       "any set of commands (independence of unrelated lines), keeps removal before re-creation of one rule and key, and is "
       "idempotent; order_config is a permutation at every depth and idempotent, for every ordering rulebook. Tie: make_patch "
       "(rows, nesting, order, sort keys) and Orderer.order_config vs the model on 3.2k (quick) generated rulebook/ordering/config "
       "cases; oracle: the property's clauses on the real outputs incl. the erase-one-row experiment.",
  note=COMMON_NOTE + "Python list.sort stability is an assumption validated by the tie; ordering rule rows inside the rule grammar; "
       "vendor %logic functions are parameters; empty RefTracker.",
  design="§5 C08", technique="Lean 4 proof (verified stable insertion sort, mutual induction over trees) + differential correspondence"),
 "C16": dict(
  text="Lean theorems over the model of the two front ends (api._diff_and_patch, api._read_old_new_diff_patch): for EVERY table of "
       "logic functions, rulebook, ordering and config pair they return the same diff entries and the same patch (or the same "
       "error); the displayed diff never depended on the composition; witness that the pre-repair composition (strip first) "
       "differs for a logic that reads unchanged siblings. Tie: both real front ends vs the model on generated rulebooks served "
       "through a RulebookProvider; oracle: both real front ends on the 192 shipped corpus pairs, per-vendor cross products and "
       "generated pairs (diff entries and command paths must be equal).",
  note=COMMON_NOTE + "vendor %logic functions are parameters (quantified over); no ACL, implicit defaults off.",
  design="§5 C16", technique="Lean 4 proof (definitional equality of the two compositions for all logic tables) + differential correspondence + impl-vs-impl oracle on shipped corpus"),
 "C03": dict(
  text="Lean theorems over the model of make_diff (apply_diff_rb, call_diff_logic, base_diff with default/ordered/rewrite logics, "
       "mark/strip_unchanged), any rulebook/trees: per diff-logic group, dropping removed lines yields new in new's order, dropping "
       "added lines yields old as a multiset; ops are exact; self-diff is empty at every depth; MOVED is characterised exactly "
       "(block_in_disorder closed form); strip idempotent. Text views (Model/DiffText.lean = CommonFormatter._diff_lines and "
       "gen_pre_as_diff(make_pre(.))): reading formatter.diff back gives the same entries, signs and nesting for every formatter "
       "shape and any depth (hence the text determines the diff), a stripped diff always has a sign per entry, and the annet-diff "
       "view reads back to the entries per level as a multiset. The stronger readings (MOVED iff relative order changed; old order "
       "recoverable) are FALSE of the code: kernel-checked witnesses, recorded as findings F03a/F03b. Tie: make_diff/"
       "strip_unchanged and both text views (4 formatter shapes) vs the model on 4k (quick) generated rulebook/config cases; "
       "oracle: projections, exact ops, self-diff, MOVED, and both texts read back, on the real outputs."
       " Several devices: Model/Collapse.lean = collapse_diffs (stable sort by (vendor, text), runs of equal text, first diff shown); "
       "the groups partition the devices, and when no line is masked every device of a group has exactly the diff shown "
       "(C03_collapse_faithful, by the text round trip); the masked snmp-cipher case is finding F03c. Glue kinds (harness/c03glue.py): "
       "file mode through _read_old_new_diff_patch / file_diff_worker with shipped and generated rulebooks, collapse_diffs / "
       "gen_sort_diff / Deployer.diff_lines over 2-7 devices, grouping compared with the Lean model (rb.collapse).",
  note=COMMON_NOTE + "standard diff logics only (vendor %diff_logic and %multiline out of scope by the property text); colours "
       "and show_rules of the annet-diff view are not modelled.",
  design="§5 C03", technique="Lean 4 proof (sorting/index invariants, mutual induction; parser/printer round trip for the text views) + differential correspondence"),
 "C19": dict(
  text="Lean theorems over the model of run_file_generators/add_entire/new_files, str.splitlines, UnifiedFileDiffer, pc_diff and "
       "PCDeployerJob.parse_result (any generator list, file maps, flags): the stored result for a path is the argmax-priority one "
       "and independent of listing order; files[p] is the generated content; cmds has p iff uploaded and reloads enabled; equal "
       "contents are never uploaded; end-to-end characterisation of the upload. 'Uploaded/shown iff contents differ' is FALSE of "
       "the code (decision taken on splitlines: 'a' vs 'a\\n', CRLF vs LF, missing vs empty): kernel-checked witnesses, partial "
       "theorems (iff lines differ; full iff for canonical Unix texts), recorded as known findings. Tie: real functions vs model on "
       "43k (quick) cases incl. exhaustive separator/terminator streams; oracle: the property's clauses on the real code.",
  note=COMMON_NOTE + "difflib.unified_diff is a parameter with assumption UdSpec (validated on every case); re \\w modelled on a "
       "declared character domain; JSON_FRAGMENT generators and FrrFileDiffer's frr.conf branch are not modelled.",
  design="§5 C19", technique="Lean 4 proof (fold/argmax lemmas, splitlines model) + differential correspondence"),
 "C01": dict(
  text="The device of the property is the specification Spec/Device.lean. Lean theorems: (1) one level of that device refines a "
       "finite map slot(rule,key) -> line: put/delete/exit commands act on exactly one slot, keep the level well-formed, keep an "
       "identical line with its subtree, and leave every other slot's line, subtree and position alone; any command sequence is "
       "determined per slot by the fold of the abstract step (C01_cmds_refine). (2) END-TO-END CONVERGENCE: for rulebooks of any "
       "depth over the default/undo_redo logics (one rule per line, one line per (rule,key), no %global/%ordered/%rewrite, no "
       "%order_reverse pins) and any pair of configurations of any depth, executing the patch the modelled pipeline (make_diff, "
       "make_pre, logics, ordering, make_patch, sort) computes on old yields new: C01_flat_converges (flat), C01_nested_converges "
       "(patch tree) and C01_nested_converges_paths (the linearised command paths with exit words that cmd_paths sends, executed "
       "one by one from the top); a second run of the pipeline on the resulting device state returns an empty diff and an empty patch "
       "(C01_nested_second_run_empty), also along chains of targets (C01_chain_converges); non-vacuity instances are kernel-checked. PARTIAL: %ordered/%rewrite/%global, custom logics and "
       "chains of targets are decided on every generated case by executing the real patch on the device specification (Python "
       "twin cross-checked against the Lean spec); the full-strength statement is false by design for permanent/ignore_changes "
       "(kernel-checked witnesses) and in 6 recorded corner cases (F01c-h).",
  note=COMMON_NOTE + "Spec/Device.lean is my reading of 'a device that holds one line per rule and key'; the linearisation "
       "ConvergeNested.treePaths is compared with the real formatter.cmd_paths on every case (block-exit formatters); "
       "block-structured vendors only; common logics; no rule row starts with the negation word.",
  design="§5 C01", technique="Lean 4 proof (refinement of the device level to an abstract map; end-to-end convergence by induction over rule and configuration depth) + differential correspondence + simulator oracle over chains"),
 "C13": dict(
  text="Lean theorems over the model of apply_json_fragment/_ensure_pointer_exists/_resolve_json_pointers/apply_acl_filters/"
       "make_patch/apply_patch incl. jsonpointer, fnmatch and RFC 6902 application: under SpineObj (objects above every selectable "
       "pointer) the merged document equals the fragment inside the patterns, the old document outside, is idempotent, also along "
       "chains of generators; the resolver returns exactly the selected pointers and rebuilt pointers denote the matched keys "
       "(any characters); filters return sub-documents; patch application is compositional and the round trip holds relative to "
       "LibCorrect. Full statements false of the code for arrays/strings below patterns: 5 kernel-checked witnesses; 10 recorded "
       "findings (4 of them are jsonpatch 1.33's own round-trip failures). Tie: 327k (quick) cases incl. exhaustive two-key "
       "documents and fnmatch globs.",
  note=COMMON_NOTE + "jsonpatch.make_patch (diff algorithm) is a parameter (LibCorrect is validated on every pair and is FALSE for "
       "the recorded library findings); floats and the 'test' op not modelled.",
  design="§5 C13", technique="Lean 4 proof (pointer/tree lemmas, induction over pattern lists) + differential correspondence, exhaustive small documents"),
 "C14": dict(
  text="Lean theorems over a line-exact model of the shipped routing-policy generators (rpl_generators/policy.py, community.py, "
       "prefix_lists.py, aspath.py, rd.py, cumulus_frr.py, entities.py; Huawei, Arista, Cumulus back-ends) and of "
       "_run_partial_generator (split, offside parse, apply_acl fatal): every row of every Huawei and Arista generator is covered by "
       "that generator's own ACL (full, after repair db6d169); an action/condition either yields rows or raises before any row "
       "(full for Huawei after repairs 0cac6f0/47fe134, for conditions on all vendors; Arista/Cumulus partial: one wrong-type "
       "extcommunity shape excluded, kernel-checked witness); on the run(device) stream the rows below a statement header are those "
       "of the elements that completed; every list a Huawei/Arista/Cumulus policy refers to is defined under the same name and kind by the "
       "matching list generator (type-consistent, non-empty lists; false for empty lists: witness + recorded finding F14g); parse of "
       "the rendered rows gives the yielded nesting. Tie: the real generators run through _run_partial_generator vs the model on "
       "13.6k (quick) / 194k (thorough) random and systematic RouteMap programs and entity sets, ACL texts re-extracted from the code.",
  note=COMMON_NOTE + "the annet.rpl builder (R.* / rule.* DSL) is executed, the model starts from the built objects; str(int) and "
       "ipaddress formatting done by the harness; programs with unknown or "
       "wrong-type list names are judged on ACL coverage, nesting and name-level refs only.",
  design="§5 C14", technique="Lean 4 proof (stream/ACL/reference lemmas over a line-exact generator model) + differential correspondence on generated RouteMap programs"),
 "C15": dict(
  text="Lean theorems: merge laws for every merger table with Merge/DictMerge nested to any depth (unset never overrides, "
       "ForbidChange equal-or-conflict, Unite union, Concat, recursive merge, associativity, commutativity up to concat order, "
       "merge(first,*others) independent of the order of others); executor: a pair handler is symmetric at the two ends, direct and "
       "indirect pair dictionaries are independent of rule order, mirrored peer address/AS, interface decision table. Mirroring of "
       "whole sessions holds under KeyCompat (partial); false without it and execute_for's success depends on rule order through "
       "interface creation: kernel-checked witnesses, 2 recorded findings. Tie: MeshExecutor.execute_for and basemodel.merge vs the "
       "model on 8.3k (quick) topologies/registries/permutations.",
  note=COMMON_NOTE + "name-template matching is shipped as the real match matrix; adaptix conversion, storage adapter and "
       "ipaddress are executed; virtual pairs are covered by tie and oracle only.",
  design="§5 C15", technique="Lean 4 proof (merge algebra, permutation invariance of folds) + differential correspondence over all handler permutations"),
 "C17": dict(
  text="Lean theorems over the model of implicit.config / merge_dicts / the completion (after repair 387ab6b): completion keeps "
       "every explicit line in order at every depth; merge_dicts(t,t)=t; a default line is present iff it was explicit or no line of "
       "its kind is there; '!' rules add nothing at their level; completion is idempotent for rule sets with pairwise disjoint, "
       "self-matching, distinct sibling rows (decidable; holds for the shipped sets); a default of a kind absent on both sides is "
       "present in both completions. Tie: implicit.config/merge_dicts vs the model for every hardware branch inside the grammar and "
       "random rule sets; oracle: the clauses incl. the patch clause with the shipped rulebooks on all 15 hardware branches. "
       "By-design deviations recorded as findings F17a/F17b.",
  note=COMMON_NOTE + "hardware branches whose implicit rows are regex rows (Huawei other, Nexus N3x.., Cisco) are outside the Lean "
       "matcher and checked by the oracle only; the patch clause executes vendor logics.",
  design="§5 C17", technique="Lean 4 proof (structural induction over rule trees) + differential correspondence"),
 "C02": dict(
  text="PARTIAL proof (clause (b) under the hypothesis finding F02b shows necessary; the text reading of (a) is false of the code). Lean theorems over the model of apply_acl_diff / make_diff with ACL / _diff_and_patch with an ACL: (a, provenance "
       "form, end to end: C02_device_patch_provenance) every item of the patch tree, at every depth, stems from an entry of the "
       "ACL-filtered diff - it is the entry's row, the removal command of a REMOVED/MOVED entry or the commit of a %force_commit "
       "rule, nothing else can appear in a patch built by the common logics - and every such entry has a row the ACL matches at "
       "every level of its path and is deletable if REMOVED; the ACL only drops entries and only relabels REMOVED->AFFECTED; (c) a "
       "REMOVED entry whose selected match has only cant_delete generators is relabelled, and no common logic emits a removal "
       "without a REMOVED/MOVED bucket; (b) end to end at the top level (C02_uncovered_line_untouched_flat/_device): if no line of "
       "old or new that the ACL covers addresses a slot (as written or through its negated form), executing the patch "
       "_diff_and_patch builds leaves the line holding that slot as it was, whatever the device holds; at every depth "
       "(C02_uncovered_line_untouched_nested, C02_uncovered_subtree_untouched): below a path of surviving blocks a line no diff "
       "entry addresses keeps its text, subtree and position when the patch tree is executed; "
       "no generator ACL rule / an empty requested filter => empty diff and empty patch (C02_no_generator_acl_no_patch). The text reading of (a) is false of the code (kernel-checked witness, "
       "finding F02a); (b) needs the hypothesis that an uncovered row shares no slot with a command (finding F02b); %rewrite groups "
       "are re-sent as a whole (findings F02c, F02d). Tie: _diff_and_patch with acl_rules vs the model on 1.9k (quick) generated "
       "rulebook/ACL/config cases; oracle: clauses (a)(b)(c) by executing the real patch on the device specification."
       " Glue kind (harness/c02glue.py): synthetic generators -> real gen._old_new_per_device -> real api._diff_and_patch, clauses "
       "(a)(b)(c) against an ACL the harness combines itself (own dedent, own tagging, generators that do not take part); the "
       "empty-allow-list and filter steps of _old_new_per_device are theorems of C10's model (C10_full_*).",
  note=COMMON_NOTE + "device specification as in C01; ACL/pattern models tied by C06/C07; no filter-ACL; common logics.",
  design="§5 C02", technique="Lean 4 proof (mutual induction over diff trees; device-level frame lemma) + differential correspondence + simulator oracle"),
 "C11": dict(
  text="Lean theorems over the model of lib expand/collapse, huawei.vlandb single/multi/multi_all/_process_vlandb/vlan_diff and cisco.vlandb "
       "simple/swtrunk (after repairs 679839a, 7d0d905, 7afbb71): expand(collapse(S))=S for every set, chunk length and tiny_ranges; "
       "written lines parse back; changed lines suffice under partition; for all modes, any number of lines and every permutation of the "
       "emitted commands, executing them from S_old ends in exactly S_new and every intermediate set contains S_old&S_new (single refuses "
       ">1 changed line per side with an assertion, characterised); pool lines as one key are exact; vlan_diff never removes a batched vlan. "
       "Kernel-checked witnesses that the OLD shortcut rules lost VLANs. Tie: real functions and the shipped huawei/cisco/nexus rulebooks "
       "vs the model on 88k (quick) cases incl. all subset pairs of a 6-element universe; oracle: device simulation of the emitted rows.",
  note=COMMON_NOTE + "Spec/VlanDev.lean is the device semantics of add/remove/clear commands; ids not range-checked; Cisco VLAN blocks "
       "are tied but the theorems cover leaf rows.",
  design="§5 C11", technique="Lean 4 proof (set algebra over range lists, permutation invariance) + differential correspondence, exhaustive small universes"),
 "C12": dict(
  text="Lean theorems over an explicit transition system of Parallel.irun (parent loop sub-steps, workers, task queue, per-worker feeder "
       "buffers, pipe; every schedule, any number of ids/workers/quota): conservation (submitted = delivered + in flight + dropped), payloads, "
       "STOP only after ids, no deadlock, termination under weak fairness, single-process path exact, run() partitions ids; exactly-once for "
       "EVERY schedule under the exit rule now in the code (2315307), partial for the previous rule, kernel-checked loss witnesses for the two "
       "earlier rules, the by-design abort and unpicklable outcomes. Tie: ~4k (quick) real pool runs traced through a shim and replayed "
       "event by event in the model + exhaustive state exploration of small configurations in the compiled model.",
  note=COMMON_NOTE + "multiprocessing semantics (FIFO queue, feeder flush before exit code, get timeout only on empty pipe) are assumptions "
       "validated on every logged trace; task_timeout, outside kills, KeyboardInterrupt not modelled.",
  design="§5 C12", technique="Lean 4 proof (inductive invariant over all schedules, liveness under weak fairness) + trace validation against real runs"),
 "C09": dict(
  text="Lean theorems over the model of the patch side of tabparser (blocks_and_context with is_patch, every block_exit variant, patch(), "
       "cmd_paths) and of deploy (match_deploy_rule, make_cmd_params, apply_deploy_rulebook; common.apply as a table REGENERATED from the "
       "real function on every run): the shown lines are exactly the yielded rows/exits at depth len(path)-1; sent paths = shown paths "
       "with repeated paths dropped (exact law); equality under NoDupPaths; the stream is before ++ body ++ after with body = the paths in "
       "order and only level-0 wrapper commands added; with do_commit=false no commit command is sent (decide +kernel over the regenerated "
       "table) and make_patch drops force_commit items; rule parameters are those of the unique matching chain under disjoint sibling "
       "languages. 'Exactly once' is false of the code for repeated block paths: 2 kernel-checked witnesses, 3 recorded findings (F09a). "
       "Tie: formatter.patch/cmd_paths, apply_deploy_rulebook and CliDeployerJob.parse_result vs the model on 36k (quick) cases.",
  note=COMMON_NOTE + "set-style formatters (juniper, ribbon, nokia, routeros) are oracle-only on the formatter side; deploy rule rows "
       "outside the grammar are matched by CPython re (shipped as data); %apply_logic functions are the regenerated table.",
  design="§5 C09", technique="Lean 4 proof (formatter stream lemmas, table theorem by decide +kernel over a regenerated table) + translation + differential correspondence"),
 "C18": dict(
  text="Mostly TRANSLATION: harness/translate_c18.py regenerates lean/AnnetModel/Gen/DevDb.lean from /repo on every run (devdb via the real "
       "_prepare_db, vendors' match() lists in registration order, every hw.<path> referenced by templates and code, logic names used vs "
       "importable, templates reading hw.soft). Lean theorems: for every model string (= every truth assignment of the regex nodes) the "
       "true sequences are prefix-closed, parse never raises, no referenced hw.<path> raises AttributeError, Registry.match never raises, "
       "returns the most specific vendor and is independent of registration order when the best dot count has one owner - which holds on "
       "the chain of each of the 168 sequences (decide +kernel over the regenerated tables); every logic name resolves; the provider's "
       "caches make a used provider answer like a fresh one when templates ignore hw.soft; _escape_mako protects column-0 %. General "
       "statements false without the table facts: kernel-checked witnesses. Tie/oracle: exhaustive execution over synthesised model "
       "strings for all sequences x software shapes, registry permutations, two fresh providers / fresh interpreters.",
  note=COMMON_NOTE + "CPython re search outcomes, Mako rendering, the rule compilers and Python import are executed on the finite space, not "
       "modelled; the translator is in the trusted base.",
  design="§5 C18", technique="translation of devdb/vendor/template tables into Lean + decide +kernel table theorems + general proofs + exhaustive execution"),
 "C04": dict(
  text="Lean theorems over the model of join (blocks/indent) and every vendor's split (Common, Huawei, Cisco _split_indent, Nexus-like "
       "split_remove_spaces, Asr, Juniper/Ribbon/Nokia _formatted_blocks + sub_regexs, RouterOS) composed with the offside parser (C05): "
       "for all 14 registered vendors and every tree of any depth in the explicit decidable well-formed domain, parse(join(t)) = t and "
       "join(parse(join t)) = join t (after repairs c926070, 13137d1 also Cisco address-family blocks and nested RouterOS sections); "
       "whatever the Common parser returns is inside the domain. Kernel-checked witnesses that the two OLD rules did not round-trip. "
       "Tie: formatter.join / parse_to_tree(split) vs the model on 95k (quick) trees and device-style texts for all vendors incl. "
       "exhaustive small trees; oracle: the round trip and fixed point on the real code.",
  note=COMMON_NOTE + "the six regexes are re-stated as list functions (validated by the tie only); Juniper comment rows and the RouterOS /file "
       "and /user ssh-keys post-processors are outside the domain; tab indents are tie-only.",
  design="§5 C04", technique="Lean 4 proof (render/parse inversion by induction over trees, per-vendor splitters) + differential correspondence, exhaustive small trees"),
 "C20": dict(
  text="TRANSLATION + proof over an effect model: harness/props/c20.py regenerates lean/AnnetModel/Gen/Effects.lean from the Python ASTs of "
       "/repo on every run (write sets of every function reachable from the %logic/%diff_logic names of the shipped rule files and the "
       "three deepcopy flags of make_diff, make_patch, _select_match). Lean theorems: with the copies in place and confined logics no job "
       "writes the compiled rulebook, a global, or the caller's trees; a job after any history gives what it gives in a fresh process; "
       "items of one job are independent; the ACL scratch field never influences a result; the regenerated table is confined and the "
       "flags hold (decide); kernel-checked witnesses that each copy / confinement is needed. Oracle (what finds failing inputs): deep "
       "snapshots of old/new/rulebook around every real call, recorded writes of logics vs the table, and a fresh-subprocess history "
       "differential over the 192 corpus jobs and synthetic rulebooks incl. a test-only mutating logic.",
  note=COMMON_NOTE + "the AST write-set extraction is syntactic (its link to semantic confinement is validated by snapshots, not proved); "
       "deepcopy/lru_cache/object identity as documented; one level of rules in the heap model.",
  design="§5 C20", technique="translation of Python ASTs into a Lean effect table + proof of non-interference over the effect model + effect validation and fresh-process differential"),
 "C10": dict(
  text="Lean theorems over the model of TreeGenerator block/_append_text_cb, _split_and_strip (incl. textwrap.dedent), tuple flattening, "
       "PartialGenerator running, the vendor split + offside parse, _run_partial_generator, _combine_acl_text tagging, the exclusive "
       "check, config_tree and _old_new_per_device (after repair e9aec0a): a program with a well-formed layout runs without raising and "
       "parses to exactly the specified tree (every single-line yield is well formed now); a run fails with the generator error naming "
       "the first uncovered line iff such a line exists; the exclusive filter raises iff a reached row has >=2 owners and names them; "
       "merge_dicts is union of paths, first-seen order, associative, idempotent; new = the filtered union. 'new == union' is false of "
       "the code when the merged ACL drops a line its own generator covers (C06 family) or a negated cant_delete line: kernel-checked "
       "witnesses, 5 recorded findings. Tie: the real _old_new_per_device with synthetic PartialGenerators vs the model on 81k (quick) cases."
       " With a device configuration, --no-acl and a filter ACL (aclSteps / oldNewFull): results are sub-trees, an empty allow-list "
       "passes nothing, a requested filter without rules passes nothing, a filter only narrows, every passed path is covered by both "
       "ACLs, --no-acl without a filter is the identity (kind=full: config text through --config -, filter through stdin / file / "
       "Filterer stub, unsupported generators).",
  note=COMMON_NOTE + "ACL text parsing (valkit) executed; Cisco/ASR/Juniper/Nokia/RouterOS splitters, RefGenerators, JuniperList, annotations, "
       "perf/tracing not modelled; generator class names distinct.",
  design="§5 C10", technique="Lean 4 proof (layout/offside composition, merge algebra, ACL ownership) + differential correspondence through the real entry point"),
}
REASONS = {}
PENDING = {}
for _p, _r in PENDING.items():
    CLAIMED.pop(_p, None)
    REASONS[_p] = _r
def main():
    checks = []
    for pid in ALL:
        if pid not in CLAIMED:
            continue
        c = CLAIMED[pid]
        checks.append(dict(
            property_id=pid, quick_cmd="./check %s --tier quick" % pid, thorough_cmd="./check %s --tier thorough" % pid,
            evidence_file="evidence/%s.json" % pid, replay_cmd_template="./check %s --replay {path}" % pid,
            engine="lean-model", level_claimed=dict(category="proof", text=c["text"], design_ref=c["design"]),
            level_note=c["note"], technique=c["technique"]))
    m = {
     "version": 1,
     "setup_cmd": "cd lean && (lake build driver AnnetModel 2>&1 | grep -v conda.cli.condarc | tail -5)",
     "hooks": {"guard": "ANNET_VERIF", "enable": "no source hooks: checks import annet from /repo's working tree (ANNET_REPO overrides the path)",
               "baseline_off_cmd": "cd /repo && /venv/bin/python -m pytest -ra -q -p no:cacheprovider --timeout=900 --continue-on-collection-errors",
               "source_commits": [], "add_only": True},
     "engines": [
      {"name": "lean-model", "path": "lean/", "serves_properties": sorted(CLAIMED),
       "kind_free_text": "Lean 4 library AnnetModel (Model = executable model of annet code, Spec, Lemmas, Props = property theorems) + compiled line-protocol driver"},
      {"name": "harness", "path": "harness/", "serves_properties": sorted(CLAIMED),
       "kind_free_text": "Python harness run by /venv/bin/python: seeded generators, real-code adapters, direct oracles, model/impl diff, known findings, evidence"}],
     "checks": checks,
     "not_applicable": [dict(property_id=p, reason=REASONS.get(p, "check not built yet (work in progress; design in DESIGN.md §5)"))
                        for p in ALL if p not in CLAIMED],
     "notes": "Design, trusted base and findings: DESIGN.md. Known findings: known_findings.json. Seeded breaking changes: seeded/.",
    }
    json.dump(m, open(os.path.join(ROOT, "MANIFEST.json"), "w"), indent=1)
    print("claimed:", sorted(CLAIMED))
main()
