"""C01, kind=shipped — the chain property on the SHIPPED rulebooks (rule texts + ordering texts + the vendor's own logic
functions), restricted to the part of them the device specification can execute.

The property quantifies over rulebooks built from the rule language with the common logics.  The shipped rule texts are
such rulebooks for most of their rules; this kind takes, per vendor, the rows of the shipped (before, after) corpus
whose governing rule at every level uses a whitelisted logic (the common logics, and vendor functions of the same name:
`huawei.misc.undo_redo`, `*.iface.permanent`, …) and the default diff logic, builds configurations with at most one row
per (rule, key) from them (plus rows whose last number is changed), and runs chains old -> new_1 -> new_2 through
`api._diff_and_patch` and the device of harness/device.py.  Oracle: after every step the device holds the target
(rows the rulebook knows) and the second patch is empty.  No Lean tie: vendor functions are outside the model.

Signatures are per vendor and rule text (`shipped:<vendor>:<rule>`), so that a recorded behaviour of one rule does not
hide another rule."""
import random
import re

from harness import device, rbgen

MODELS = {"huawei": ["Huawei CE6870", "Huawei NE40E", "Huawei Quidway S5300"], "cisco": ["Cisco Catalyst 2960"],
          "arista": ["Arista DCS-7280"], "nexus": ["Cisco Nexus 3172"]}
WHITE_LOGIC = {"default", "undo_redo", "permanent"}      # `permanent` blocks are never removed by the generator
WHITE_DIFF = {"default_diff"}
_UNI = {}


def _hw(model):
    from annet.annlib.netdev.views.hardware import HardwareView
    return HardwareView(model, None)


def _rb(model):
    from annet.rulebook import get_rulebook
    from harness.props import c16
    c16.setup_worker()
    return get_rulebook(_hw(model))


def _white(m, row=""):
    a = m["attrs"]
    if row.split(" ")[0] in ("undo", "no", "default"):
        return False        # a config row in negated form is a removal command for the device specification
    return a["logic"].__name__ in WHITE_LOGIC and a["diff_logic"].__name__ in WHITE_DIFF and not a.get("multiline") \
        and not a.get("ignore_case")


def universe(vendor, model):
    """rows of the shipped corpus of the vendor that are inside the domain under the model's rulebook:
    [(row, [child rows])] — top-level rows and one level of children"""
    key = (vendor, model)
    if key in _UNI:
        return _UNI[key]
    from annet.annlib import patching
    from harness.props import c16
    rules = _rb(model)["patching"]
    top = {}
    for _name, v, old, new in c16.corpus():
        if v != vendor:
            continue
        for tree in (old, new):
            for row, ch in tree:
                if row != row.strip() or "  " in row:
                    continue
                m, cr = patching._match_row_to_rules(row, rules)
                if not m or not _white(m, row):
                    continue
                kids = top.setdefault(row, {})
                for crow, cch in ch:
                    if cch or crow != crow.strip() or "  " in crow:
                        continue
                    cm, _ = patching._match_row_to_rules(crow, cr)
                    if cm and _white(cm, crow) and cm["attrs"]["logic"].__name__ != "permanent":
                        kids[crow] = True
    _UNI[key] = [(r, sorted(k)) for r, k in sorted(top.items())]
    return _UNI[key]


def _slot(rules, row):
    from annet.annlib import patching
    m, cr = patching._match_row_to_rules(row, rules)
    return ((m["raw_rule"], tuple(m["key"])), cr) if m else (None, None)


def _slot_logic(rules, row):
    from annet.annlib import patching
    m, _cr = patching._match_row_to_rules(row, rules)
    return m["attrs"]["logic"].__name__ if m else None


def _bump(rng, row):
    """another value for the last number of the row (`isis enable 1` -> `isis enable 2`)"""
    ws = row.split(" ")
    for i in range(len(ws) - 1, 0, -1):
        if ws[i].isdigit():
            ws[i] = str((int(ws[i]) % 9) + 1 + (1 if rng.random() < 0.5 else 0))
            return " ".join(ws)
    return row


def _select(rng, uni, rules, base=None, p_keep=0.6):
    """a configuration with at most one row per (rule, key) at every level"""
    out, seen = [], set()
    cand = list(uni)
    rng.shuffle(cand)
    for row, kids in cand[:rng.randint(1, 6)] if base is None else cand:
        if base is not None and row not in dict(base) and rng.random() < 0.85:
            continue
        s, cr = _slot(rules, row)
        if s is None or s in seen:
            continue
        seen.add(s)
        ch, cseen = [], set()
        ks = list(kids)
        rng.shuffle(ks)
        for k in ks[:rng.randint(0, 5)]:
            if rng.random() < 0.3:
                k = _bump(rng, k)
            cs, _ = _slot(cr, k)
            if cs is None or cs in cseen:
                continue
            cseen.add(cs)
            ch.append([k, []])
        out.append([row, ch])
    return out


def gen(desc):
    rng = random.Random("shipped|%d" % desc["seed"])
    from harness.props import c16
    c16.setup_worker()
    for _ in range(desc["n"]):
        vendor = rng.choice(sorted(MODELS))
        model = rng.choice(MODELS[vendor])
        uni = universe(vendor, model)
        if not uni:
            continue
        rules = _rb(model)["patching"]
        old = _select(rng, uni, rules)
        targets = []
        cur = old
        for _k in range(rng.choice([1, 2, 2])):
            nxt = []
            for row, ch in cur:
                r = rng.random()
                if r < 0.15 and not ch and _slot_logic(rules, row) != "permanent":
                    continue                      # a top-level leaf row removed
                kids = []
                seen = set()
                _s, cr = _slot(rules, row)
                pool = [c for c, _ in ch] + [k for k in dict(uni).get(row, []) if rng.random() < 0.3]
                for c in pool:
                    r2 = rng.random()
                    if r2 < 0.2:
                        continue
                    if r2 < 0.45:
                        c = _bump(rng, c)
                    cs, _ = _slot(cr, c)
                    if cs is None or cs in seen:
                        continue
                    seen.add(cs)
                    kids.append([c, []])
                nxt.append([row, kids])
            have = {_slot(rules, r)[0] for r, _ in nxt}
            for row, ch in _select(rng, uni, rules):
                if _slot(rules, row)[0] not in have and rng.random() < 0.4:
                    nxt.append([row, ch])
                    have.add(_slot(rules, row)[0])
            targets.append(nxt)
            cur = nxt
        yield dict(kind="shipped", vendor=vendor, model=model, old=old, targets=targets)


class _Dev:
    def __init__(self, hw):
        self.hw = hw
        self.hostname = "dev"
        self.breed = "x"


def run(case):
    from annet import api
    from annet.vendors import registry_connector
    from harness.props import c16
    c16.setup_worker()
    hw = _hw(case["model"])
    rb = _rb(case["model"])
    vend = registry_connector.get().match(hw)
    fmt, reverse = vend.make_formatter(), vend.reverse
    dev = case["old"]
    steps = []
    for new in case["targets"]:
        try:
            _diff, pt = api._diff_and_patch(_Dev(hw), rbgen.to_odict(dev), rbgen.to_odict(new), None, None, False)
        except Exception as e:  # noqa  a vendor logic may refuse a pair
            steps.append({"err": type(e).__name__})
            break
        paths = [list(p) for p in fmt.cmd_paths(pt).keys()]
        after = rbgen.to_list(device.apply_cmds(reverse, rb["patching"], paths, rbgen.to_odict(dev)))
        try:
            _d2, pt2 = api._diff_and_patch(_Dev(hw), rbgen.to_odict(after), rbgen.to_odict(new), None, None, False)
            second = [list(p) for p in fmt.cmd_paths(pt2).keys()]
        except Exception as e:  # noqa
            second = ["raised " + type(e).__name__]
        steps.append({"dev": dev, "new": new, "paths": paths, "after": after, "second": second})
        dev = after
    return {"steps": steps}


def _canon(tree):
    return sorted((r, _canon(c)) for r, c in tree)


def _first_diff(a, b, pre=()):
    da, db = dict((r, c) for r, c in a), dict((r, c) for r, c in b)
    for r in da:
        if r not in db:
            return "stale", pre + (r,)
    for r in db:
        if r not in da:
            return "missing", pre + (r,)
    for r in da:
        d = _first_diff(da[r], db[r], pre + (r,))
        if d:
            return d
    return None


def oracle(case, r):
    from annet.annlib import patching
    rules = _rb(case["model"])["patching"]
    out = []
    for i, s in enumerate(r["steps"]):
        if "err" in s:
            break
        if _canon(s["after"]) != _canon(s["new"]):
            kind, path = _first_diff(s["after"], s["new"])
            lv = rules
            raw = "?"
            for row in path:
                m, lv = patching._match_row_to_rules(row, lv)
                if not m:
                    break
                raw = re.sub(r"\s+", " ", m["raw_rule"]).strip()
            out.append(dict(sig="shipped:%s:%s" % (case["vendor"], raw),
                            what="%s step %d: after executing the patch %r the device has %r %s (device %r, target %r)" % (
                                case["model"], i, s["paths"], path, "left over" if kind == "stale" else "missing",
                                s["after"], s["new"])))
            break
        if s["second"]:
            out.append(dict(sig="shipped:%s:second-patch-not-empty" % case["vendor"],
                            what="%s step %d: the device equals the target, the second patch is %r" % (
                                case["model"], i, s["second"])))
            break
    return out


def nontrivial(case, r):
    return any(len(s.get("paths", [])) >= 2 for s in r["steps"])


def stats(case, r):
    lab = ["kind=shipped", "shipped:model=" + case["model"], "shipped:steps=%d" % len(case["targets"])]
    for s in r["steps"]:
        lab.append("shipped:step=" + ("err:" + s["err"] if "err" in s else "cmds=%s" % min(6, len(s["paths"]))))
    return lab


def shrink_candidates(case):
    for k in ["old"] + list(range(len(case["targets"]))):
        t = case["old"] if k == "old" else case["targets"][k]
        for i in range(len(t)):
            for nt in (t[:i] + t[i + 1:],) + tuple(t[:i] + [[t[i][0], t[i][1][:j] + t[i][1][j + 1:]]] + t[i + 1:]
                                                 for j in range(len(t[i][1]))):
                if k == "old":
                    yield dict(case, old=nt)
                else:
                    yield dict(case, targets=case["targets"][:k] + [nt] + case["targets"][k + 1:])
    if len(case["targets"]) > 1:
        yield dict(case, targets=case["targets"][:-1])
