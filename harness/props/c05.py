"""C05 — offside parser. impl: annet.annlib.tabparser.parse_to_tree; model: Annet.Offside.parseToTree;
oracle: an independent declarative reference parser (nearest preceding line with smaller indent)."""
import itertools
import random
import re

ID = "C05"
RULE = ("texts = sequences of lines over shapes {indent 0..6 x words, '!c', ' #c', blank, '#' at col 0, tabs}; "
        "exhaustive by length (quick: <=4 lines x 19 shapes, 5 lines x 8 shapes; thorough: <=5 x 19, 7 lines x "
        "indents 0..6) plus seeded random texts up to 14 lines with offsets/tabs; a case is non-trivial when it "
        "has >=2 significant lines and some indentation; distinct = distinct (text, comments)")
TRUSTED_BASE = [
    "Lean 4.33 kernel; axioms per theorem are listed in axioms_per_theorem (subset of propext, Classical.choice, Quot.sound)",
    "Spec/Offside.lean (declarative offside rule) is a specification, not annet code",
    "correspondence harness harness/props/c05.py + compiled Lean driver (Lean compiler) evaluating Model/Offside.lean",
    "Python reference parser ref_parse in harness/props/c05.py (oracle)",
]
ASSUMPTIONS = [
    "str.strip()/whitespace set modelled by pyIsSpace; non-BMP/other Unicode whitespace beyond that table is out of domain",
    "splitter = CommonFormatter.split (other vendors' splitters are C04's subject)",
]
EXHAUSTIVE = {"quick": True, "thorough": True}

WORDS = ["a", "b"]
SHAPES19 = [" " * i + w for i in range(7) for w in WORDS] + ["!c", "  !c", "  #c", "", "#"]
SHAPES8 = [" " * i + "a" for i in range(5)] + ["  !c", "", "#"]
COMMENTS = ["!", "#"]


def setup_worker():
    pass


def shards(tier, seed):
    out = []
    if tier == "quick":
        for first in range(len(SHAPES19)):
            out.append(dict(kind="exh", shapes="19", first=first, maxlen=4))
        for first in range(len(SHAPES8)):
            out.append(dict(kind="exh", shapes="8", first=first, maxlen=5, minlen=5))
        for i in range(16):
            out.append(dict(kind="rnd", seed=seed * 1000 + i, n=1500))
    else:
        for first in range(len(SHAPES19)):
            for second in range(len(SHAPES19)):
                out.append(dict(kind="exh", shapes="19", first=first, second=second, maxlen=5))
        for a in range(7):
            for b in range(7):
                out.append(dict(kind="vec", a=a, b=b))
        for i in range(64):
            out.append(dict(kind="rnd", seed=seed * 1000 + i, n=6000))
    return out


def _rnd_text(rng):
    n = rng.randint(1, 14)
    off = rng.choice([0, 0, 0, 1, 2, 4])
    unit = rng.choice([1, 2, 3, 4])
    lines = []
    depth = 0
    for _ in range(n):
        r = rng.random()
        if r < 0.08:
            lines.append(rng.choice(["", "   ", "!", "! x", "  ! y", " #z", "\t", "#", "# sec", "#x"]))
            continue
        if r < 0.55:
            depth = depth + rng.choice([0, 0, 1])
        elif r < 0.9:
            depth = max(0, depth - rng.randint(1, 3))
        else:
            # irregular indent
            ind = rng.randint(0, 9)
            ws = "".join(rng.choice(" \t") if rng.random() < 0.2 else " " for _ in range(ind))
            lines.append(ws + rng.choice(["a", "b", "c d", "e  f ", "x ", "q\r"]))
            continue
        if r < 0.12:
            # rows carrying characters that `str.splitlines` (but not the offside rule: lines end at LF only) treats as
            # line ends: a lone CR, VT, FF, FS/GS/RS, NEL, LS, PS inside the row
            ind = off + unit * depth
            lines.append(" " * ind + rng.choice(["d\x0bq", "m\x0cn", "p\rq", "u\u2028v", "w\x85z", "s\x1ct", "k\x1dl",
                                                  "i\x1ej", "g\u2029h", "\ra"]))
            continue
        ind = off + unit * depth
        ws = " " * ind if rng.random() < 0.9 else "\t" * ind
        lines.append(ws + rng.choice(["a", "b", "c d", "a", "zz", "e !f", "g#"]))
    sep = "\n" if rng.random() < 0.9 else "\n\n"
    return sep.join(lines)


def gen(desc):
    if desc["kind"] == "exh":
        shapes = SHAPES19 if desc["shapes"] == "19" else SHAPES8
        fixed = [shapes[desc["first"]]]
        if "second" in desc:
            fixed.append(shapes[desc["second"]])
        for ln in range(desc.get("minlen", 1), desc["maxlen"] + 1):
            if ln < len(fixed):
                if "second" in desc and desc["second"] == 0 and ln == 1:
                    yield dict(text=fixed[0], comments=COMMENTS)
                continue
            for rest in itertools.product(shapes, repeat=ln - len(fixed)):
                yield dict(text="\n".join(fixed + list(rest)), comments=COMMENTS)
    elif desc["kind"] == "vec":
        for rest in itertools.product(range(7), repeat=5):
            v = (desc["a"], desc["b"]) + rest
            yield dict(text="\n".join(" " * k + "ab"[i % 2] for i, k in enumerate(v)), comments=COMMENTS)
    else:
        rng = random.Random(desc["seed"])
        for _ in range(desc["n"]):
            c = rng.choice([COMMENTS, COMMENTS, COMMENTS, ["!"], ["#"], []])
            yield dict(text=_rnd_text(rng), comments=c)


def _tree(d):
    return [[k, _tree(v)] for k, v in d.items()]


def impl(case):
    from annet.annlib import tabparser
    try:
        t = tabparser.parse_to_tree(case["text"], tabparser.CommonFormatter().split, tuple(case["comments"]))
    except tabparser.ParserError as e:
        m = re.search(r"line (\d+):", str(e))
        return {"err": "ParserError", "line": int(m.group(1))}
    return {"ok": _tree(t)}


def requests(case):
    return [dict(op="c05.parse_text", text=case["text"], comments=case["comments"])]


def model(case, resp):
    return resp[0]


def ref_parse(text, comments):
    """Declarative offside rule; independent of annet and of the Lean files."""
    lines = [l for l in text.split("\n") if l]
    tree = []
    prev = []   # significant lines of the current section: (indent, body)

    def ancestors(idx_hi, bound):
        anc = []
        for j in range(idx_hi - 1, -1, -1):
            if prev[j][0] < bound:
                anc.append(prev[j])
                bound = prev[j][0]
        return anc

    for n, line in enumerate(lines, 1):
        body = line.strip()
        if "#" in comments and line.startswith("#"):
            prev = []
            continue
        if not body or any(body.startswith(c) for c in comments):
            continue
        k = len(line) - len(line.lstrip(" \t"))
        if prev:
            if k < prev[0][0]:
                return {"err": "ParserError", "line": n}
            k0 = prev[-1][0]
            if k < k0:
                open_cols = [k0] + [a[0] for a in ancestors(len(prev) - 1, k0)]
                if k not in open_cols:
                    return {"err": "ParserError", "line": n}
        path = [a[1] for a in reversed(ancestors(len(prev), k))] + [body]
        node = tree
        for key in path:
            for ent in node:
                if ent[0] == key:
                    node = ent[1]
                    break
            else:
                ent = [key, []]
                node.append(ent)
                node = ent[1]
        prev.append((k, body))
    return {"ok": tree}


def oracle(case, r):
    ref = ref_parse(case["text"], case["comments"])
    if ref != r:
        if "err" in ref and "ok" in r:
            return [dict(sig="accepts-bad-indent", what="parse_to_tree accepted text the offside rule rejects at line %d" % ref["line"])]
        if "ok" in ref and "err" in r:
            return [dict(sig="rejects-good-indent", what="parse_to_tree raised %s on consistent text" % r)]
        if "err" in ref and "err" in r:
            return [dict(sig="wrong-error-line", what="error reported at line %s, reference says %s" % (r.get("line"), ref["line"]))]
        return [dict(sig="wrong-parent", what="tree differs from the offside reference tree")]
    return []


def _sig_lines(case):
    return [l for l in case["text"].split("\n") if l.strip() and not l.strip().startswith(tuple(case["comments"]) or ("\0",))]


def nontrivial(case, r):
    ls = _sig_lines(case)
    return len(ls) >= 2 and any(l[0] in " \t" for l in ls)


def stats(case, r):
    ls = case["text"].split("\n")
    lab = ["lines=%d" % min(len(ls), 15), "result=" + ("ok" if "ok" in r else r["err"])]
    if "ok" in r:
        def depth(t):
            return 1 + max([depth(c) for _, c in t], default=0)
        lab.append("depth=%d" % (depth(r["ok"]) - 1))
    if "\t" in case["text"]:
        lab.append("has-tab")
    if any(l.startswith("#") for l in ls) and "#" in case["comments"]:
        lab.append("section-break")
    return lab


def shrink_candidates(case):
    ls = case["text"].split("\n")
    for i in range(len(ls)):
        yield dict(text="\n".join(ls[:i] + ls[i + 1:]), comments=case["comments"])
    for i, l in enumerate(ls):
        if l.startswith(" "):
            yield dict(text="\n".join(ls[:i] + [l[1:]] + ls[i + 1:]), comments=case["comments"])


def search(case):
    rng = random.Random(hash(case["text"]) & 0xffff)
    ls = case["text"].split("\n")
    for _ in range(200):
        m = list(ls)
        i = rng.randrange(len(m))
        op = rng.random()
        if op < 0.3:
            m[i] = " " * rng.randint(0, 6) + m[i].lstrip()
        elif op < 0.6:
            m.insert(i, " " * rng.randint(0, 6) + rng.choice("ab"))
        else:
            del m[i]
        yield dict(text="\n".join(m), comments=case["comments"])
