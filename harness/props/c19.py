"""C19 — file-based (PC) devices: winning Entire generator, upload / reload decision, file diff.

impl  : annet.generators.run_file_generators(...).new_files(), annet.api.PCDeployerJob.parse_result,
        annet.diff.pc_diff (UnifiedFileDiffer), on synthetic `Entire` subclasses.
model : Annet.Files.{runFileGenerators,newFiles,parseResult,pcDiff} through op "c19.case"
        (difflib.unified_diff is a parameter of the model: its values are sent as a table).
oracle: the four clauses of the property evaluated on the real code's result only.
"""
import itertools
import random

ID = "C19"
RULE = ("cases = 0..5 synthetic Entire generators (paths from a pool of 5 + unsupported None/'', prios distinct "
        "per path in ~85% of cases, outputs as str / tuple / generator of parts over 11 line terminators, "
        "reload strings, is_safe) listed in every order (n<=4: all n! orders; n=5: 24 sampled, thorough: all 120) "
        "plus each generator alone; old file maps derived from the outputs (equal / terminator-only / "
        "line changes / missing); entire_reload in {yes,no,force}; acl_safe; hw.soft with and without etckeeper; "
        "exhaustive streams: 13 old x 12 new texts x 3 flags x 2 orders, every code point of the declared range "
        "as a line terminator candidate and as a neighbour of the word None; a case is non-trivial when "
        "a path has >=2 candidate generators or a planned file exists on the device; distinct = distinct case")
TRUSTED_BASE = [
    "Lean 4.33 kernel; axioms per theorem are listed in axioms_per_theorem (subset of propext, Classical.choice, Quot.sound)",
    "correspondence harness harness/props/c19.py + compiled Lean driver (Lean compiler) evaluating Model/Files.lean",
    "synthetic Entire subclasses, tests.annet.MockDevice('PC', soft) and a test DeployDriver whose command lists are case data "
    "(the repo ships only a stub driver that raises NotImplementedError)",
    "difflib.unified_diff is a parameter of the model (table computed by the harness with the real difflib)",
    "str.encode('utf-8') (upload bytes) is not modelled: the model works on the text, the oracle compares bytes",
]
ASSUMPTIONS = [
    "UdSpec: unified_diff(a, b, n=3, lineterm='') == [] iff a == b, and a non-empty result joins to a non-empty string "
    "(validated by the oracle on every case)",
    "file differ = UnifiedFileDiffer (annet.py default); FrrFileDiffer's frr.conf branch is C03's subject",
    "deploy rulebook of PC is empty and ETCKEEPER_CHECK is unset (before_more/after_more are empty)",
    "yielded tuples are flat tuples of str; texts contain no surrogate code points; "
    "re '\\w' is modelled on U+0000-00FF, U+0410-044F (other code points never touch the word None in generated cases)",
    "JSON_FRAGMENT generators are C13's subject and absent here",
]
EXHAUSTIVE = {"quick": True, "thorough": True}

PATHS = ["/etc/a.conf", "/b", "c", "/etc/frr/frr.conf", "/é/я"]
TERMS = ["\n", "\r\n", "\r", "\x0b", "\x0c", "\x1c", "\x1d", "\x1e", "\x85", "\u2028", "\u2029"]
BODIES = ["a", "b", "", "x y", "  z", "été", "key = 1", "#c", "\t", "None1", "aNone"]
SOFTS = ["", "", "", "Cumulus Linux 4.2", "SwitchDev 1", "SONiC ec_2024", "Ubuntu", "cumulus"]
HOSTS = ["host1", "h", "sw-1.dc"]
RELOADS = ["yes", "no", "force"]
EXH_TEXTS = ["", "a", "a\n", "a\r\n", "a\nb", "a\r\nb", "a\n\n", "\n", "b", "a\x0cb", "a\u2028b", "a b"]
WORD_DOMAIN = list(range(0, 0x100)) + list(range(0x410, 0x450)) + [0x2028, 0x2029, 0x20ac]

_DRV = dict(before=[], after=[], exit=[])
_STATE = {}


# ----------------------------------------------------------------------------- set-up
def setup_worker():
    if _STATE.get("ready"):
        return
    from annet.hardware import hardware_connector, AnnetHardwareProvider
    from annet.rulebook import rulebook_provider_connector, DefaultRulebookProvider
    from annet import diff
    import annet.deploy
    from annet.deploy import DeployDriver, CommandList, Command

    def _set(conn, cls):
        # a connector may already be set when several property modules share a process
        conn._classes = [cls]
        if hasattr(conn, "_cache"):
            conn._cache = None

    _set(hardware_connector, AnnetHardwareProvider)
    _set(rulebook_provider_connector, DefaultRulebookProvider)
    _set(diff.file_differ_connector, diff.UnifiedFileDiffer)

    class CaseDriver(DeployDriver):
        """Deploy driver whose command lists are part of the case (the repo has only a raising stub)."""
        async def bulk_deploy(self, *a, **k):
            raise NotImplementedError()

        def apply_deploy_rulebook(self, *a, **k):
            raise NotImplementedError()

        def build_configuration_cmdlist(self, hw, do_finalize=True, do_commit=True):
            before, after = CommandList(), CommandList()
            for c in _DRV["before"]:
                before.add_cmd(Command(c))
            for c in _DRV["after"]:
                after.add_cmd(Command(c))
            return before, after

        def build_exit_cmdlist(self, hw):
            return [Command(c) for c in _DRV["exit"]]

    _set(annet.deploy.driver_connector, CaseDriver)
    _STATE["ready"] = True


class _Storage:
    def flush_perf(self):
        return {}


def _make_gen(spec, idx):
    from annet.generators import Entire
    from annet.generators.exceptions import NotSupportedDevice
    run = spec["run"]

    def part_value(p):
        return p["s"] if "s" in p else tuple(p["t"])

    class _G(Entire):
        def path(self, device):
            return spec["path"]

        def reload(self, device):
            return spec["reload"]

        def is_safe(self, device):
            return spec["safe"]

    if run["k"] == "gen":
        def run_fn(self, device):
            for p in run["ps"]:
                yield part_value(p)
    elif run["k"] == "tuple":
        def run_fn(self, device):
            return tuple(part_value(p) for p in run["ps"])
    elif run["k"] == "str":
        def run_fn(self, device):
            return run["s"]
    elif run["k"] == "none":
        def run_fn(self, device):
            return None
    elif run["k"] == "bad":
        def run_fn(self, device):
            return [run.get("s", "x")]
    elif run["k"] == "unsupported":
        def run_fn(self, device):
            raise NotSupportedDevice("nope")
    else:
        raise ValueError(run["k"])
    _G.run = run_fn
    _G.__name__ = "G%d" % idx
    if spec["prio"] is not None:
        _G.prio = spec["prio"]          # class attribute: `hasattr(self, "prio")` is true in __init__
    return _G(_Storage())


def _device(soft, hostname):
    from tests.annet import MockDevice
    key = (soft, hostname)
    dev = _STATE.get(key)
    if dev is None:
        dev = MockDevice("PC", soft, "", hostname=hostname)
        dev.fqdn = hostname + ".test"
        _STATE[key] = dev
    return dev


def _nf(d):
    return [[p, v[0], v[1]] for p, v in d.items()]


# ----------------------------------------------------------------------------- impl
def impl(case):
    setup_worker()
    if case["kind"] == "splitlines":
        from annet.diff import UnifiedFileDiffer
        # observable through the differ only: which of the two texts splits like the reference
        d = UnifiedFileDiffer()
        return {"same_as": [d.diff_file(None, "/f", case["text"], ref) == [] for ref in case["refs"]]}
    if case["kind"] == "noneword":
        return _impl_case(_noneword_case(case))
    return _impl_case(case)


def _impl_case(case):
    from annet.generators import run_file_generators
    from annet.api import DeployerJob, PCDeployerJob
    from annet import cli_args
    from annet.diff import pc_diff
    from annet.types import OldNewResult

    dev = _device(case["soft"], case["hostname"])
    gens = [_make_gen(s, i) for i, s in enumerate(case["gens"])]
    perms_out = []
    first = None
    for k, perm in enumerate(case["perms"]):
        try:
            res = run_file_generators([gens[i] for i in perm], dev)
        except Exception as e:  # noqa
            perms_out.append({"err": type(e).__name__})
            if k == 0:
                first = e
            continue
        new, safe_new = res.new_files(), res.new_files(safe=True)
        perms_out.append({"new": _nf(new), "safe_new": _nf(safe_new)})
        if k == 0:
            first = (new, safe_new)
    direct = []
    for g in gens:     # the generator called directly: gen(device), gen.get_reload_cmds(device)
        try:
            d = {"out": g(dev)}
        except Exception as e:  # noqa
            d = {"err": type(e).__name__}
        d["reload"] = g.get_reload_cmds(dev)
        direct.append(d)
    if isinstance(first, Exception):
        return {"err": type(first).__name__, "perms": perms_out, "direct": direct}

    class Args:
        pass
    args = Args()
    args.entire_reload = cli_args.EntireReloadFlag(case["reload"])
    args.acl_safe = case["acl_safe"]
    old_files = dict(map(tuple, case["old"]))
    # gen.py:263,283: new_files = res.new_files(); safe_new_files = res.new_files(safe=True) under --acl-safe
    res = OldNewResult(device=dev, old_files=dict(old_files), new_files=first[0],
                       safe_new_files=first[1] if case["acl_safe"] else {},
                       err=Exception("boom") if case["res_err"] else None)
    _DRV.update(case["drv"])
    job = DeployerJob.from_device(dev, args)
    assert isinstance(job, PCDeployerJob)
    try:
        job.parse_result(res)
    except KeyError:
        job_out = {"err": "KeyError"}
    else:
        dc = job.deploy_cmds.get(dev)
        files = (dc or {}).get("files", {})
        cmds = (dc or {}).get("cmds", {})
        pre = (dc or {}).get("cmds_pre_files", {})
        job_out = {
            "failed": bool(job.failed_configs), "has_diff": job.has_diff(), "deployed": dc is not None,
            "files": [[p, _dec(v)] for p, v in files.items()],
            "cmds": [[p, _dec(v)] for p, v in cmds.items()],
            "cmds_pre_files": [[p, _dec(v)] for p, v in pre.items()],
            "diff_lines": list(job.diff_lines), "cmd_lines": list(job.cmd_lines),
        }
        if not all(isinstance(v, bytes) for v in list(files.values()) + list(cmds.values())):
            job_out["not_bytes"] = True
        if dc is not None and (set(dc.get("generator_types", {})) != set(files) or job.diffs.get(dev) is not files):
            job_out["bookkeeping"] = "generator_types/diffs out of step with files"
    chosen = res.get_new_files(case["acl_safe"])
    shown = [[d.label, list(d.diff_lines)] for d in pc_diff(dev.hw, case["hostname"], dict(old_files), chosen)]
    return {"ok": {"perms": perms_out, "direct": direct, "job": job_out, "pc_diff": shown}}


def _dec(b):
    if isinstance(b, bytes):
        try:
            return b.decode("utf-8")
        except UnicodeDecodeError:
            return "<undecodable %s>" % b.hex()
    return "<%s %r>" % (type(b).__name__, b)


# ----------------------------------------------------------------------------- model side
def _render(gen):
    """The text a generator spec denotes (parts joined by newlines, tuple members by blanks)."""
    run = gen["run"]
    if run["k"] == "str":
        return run["s"]
    if run["k"] in ("gen", "tuple"):
        return "\n".join(p["s"] if "s" in p else " ".join(p["t"]) for p in run["ps"])
    return None


def _lines(t):
    return t.splitlines() if t else []


def _ud(a, b):
    import difflib
    return list(difflib.unified_diff(a, b, n=3, lineterm=""))


def _ud_table(case):
    old = dict(map(tuple, case["old"]))
    seen, tab = set(), []
    for g in case["gens"]:
        t = _render(g)
        if t is None or not g["path"]:
            continue
        a, b = _lines(old.get(g["path"])), _lines(t)
        key = (tuple(a), tuple(b))
        if key not in seen:
            seen.add(key)
            tab.append([a, b, _ud(a, b)])
    return tab


def _model_run(run):
    if run["k"] in ("gen", "tuple"):
        return {"k": "parts", "ps": run["ps"]}
    if run["k"] == "bad":
        return {"k": "bad"}
    return run


def requests(case):
    if case["kind"] == "splitlines":
        return [dict(op="c19.splitlines", text=t) for t in [case["text"]] + case["refs"]]
    if case["kind"] == "noneword":
        case = _noneword_case(case)
    gens = [dict(g, run=_model_run(g["run"])) for g in case["gens"]]
    return [dict(op="c19.case", dev=dict(pc=True, soft=case["soft"]), gens=gens, perms=case["perms"],
                 old=case["old"], reload=case["reload"], acl_safe=case["acl_safe"], res_err=case["res_err"],
                 hostname=case["hostname"], drv=case["drv"], ud=_ud_table(case))]


def _t(a):
    return "".join(map(chr, a))


def _tl(a):
    return [_t(x) for x in a]


def model(case, resp):
    if case["kind"] == "splitlines":
        ls = [[_t(x) for x in r["ok"]] for r in resp]
        # the differ splits both texts (`... if text else []`) and compares the line lists
        return {"same_as": [ls[0] == l for l in ls[1:]]}
    r = resp[0]
    if "fail" in r:
        return r

    def perms(ps):
        out = []
        for p in ps:
            if "err" in p:
                out.append(p)
            else:
                out.append({k: [[_t(x) for x in e] for e in p[k]] for k in ("new", "safe_new")})
        return out
    def direct(ds):
        return [{k: (d[k] if k == "err" else _t(d[k])) for k in d} for d in ds]
    if "err" in r:
        return {"err": r["err"], "perms": perms(r["perms"]), "direct": direct(r["direct"])}
    o = r["ok"]
    job = o["job"]
    if "err" not in job:
        job = dict(job)
        for k in ("files", "cmds", "cmds_pre_files"):
            job[k] = [[_t(p), _t(v)] for p, v in job[k]]
        job["diff_lines"] = _tl(job["diff_lines"])
        job["cmd_lines"] = _tl(job["cmd_lines"])
    return {"ok": {"perms": perms(o["perms"]), "direct": direct(o["direct"]), "job": job,
                   "pc_diff": [[_t(l), _tl(ls)] for l, ls in o["pc_diff"]]}}


# ----------------------------------------------------------------------------- oracle
def _prio(g):
    return 100 if g["prio"] is None else g["prio"]


def _classify_hidden(old_text, new_text):
    if old_text is None and new_text == "":
        return "missing-file-vs-empty-output"
    if _lines(old_text) == _lines(new_text):
        return "same-lines-different-terminators"
    return "lines-differ"


def oracle(case, r):
    if case["kind"] == "splitlines":
        return []
    if case["kind"] == "noneword":
        case = _noneword_case(case)
    out = []

    def v(sig, what):
        out.append(dict(sig=sig, what=what))

    gens = case["gens"]
    n = len(gens)
    in_domain = all(g["run"]["k"] in ("str", "gen", "tuple", "unsupported") for g in gens) and not case.get("none_word")
    if "err" in r:
        if r["err"].startswith("Unexpected") or in_domain:
            v("unexpected-error:" + r["err"].split(":")[-1], "valid generators, but the run raised %s %s" % (r["err"], r.get("msg", "")))
        return out
    ok = r["ok"]
    perms = case["perms"]
    res = ok["perms"]
    # each generator alone: what it plans for its path
    solo = {}
    for perm, pr in zip(perms, res):
        if len(perm) == 1 and "new" in pr:
            solo[perm[0]] = pr
    # a generator run alone plans exactly what calling it directly gives
    for i, pr in solo.items():
        d = ok["direct"][i]
        for p, o, rl in pr["new"]:
            if p != gens[i]["path"] or d.get("out") != o or d["reload"] != rl:
                v("solo-output-differs", "generator %d alone plans %r, but path/gen(device)/get_reload_cmds give %r %r"
                  % (i, pr["new"], gens[i]["path"], d))
    # ---- clause 1: content comes from the highest-priority generator, whatever the listing order
    if len(solo) == n and in_domain:
        cand = {}
        for i in range(n):
            for p, o, rl in solo[i]["new"]:
                cand.setdefault(p, []).append(i)
        distinct = all(len({_prio(gens[i]) for i in c}) == len(c) for c in cand.values())
        expected, expected_safe = {}, {}
        for p, c in cand.items():
            top = max(_prio(gens[i]) for i in c)
            winners = [i for i in c if _prio(gens[i]) == top]
            expected[p] = [tuple(solo[i]["new"][0][1:]) for i in winners]
            expected_safe[p] = [tuple(solo[i]["new"][0][1:]) for i in winners if gens[i]["safe"]]
        base = None
        for perm, pr in zip(perms, res):
            if len(perm) != n or sorted(perm) != list(range(n)):
                continue
            if "new" not in pr:
                v("unexpected-error:" + pr["err"], "order %s raised %s" % (perm, pr["err"]))
                continue
            got = {p: (o, rl) for p, o, rl in pr["new"]}
            got_safe = {p: (o, rl) for p, o, rl in pr["safe_new"]}
            if len(got) != len(pr["new"]):
                v("duplicate-path", "new_files lists a path twice in order %s" % perm)
            if set(got) != set(expected) or any(got[p] not in expected[p] for p in got):
                v("winner-not-argmax", "order %s: new_files()=%r, highest-priority outputs are %r" % (perm, got, expected))
            if distinct:
                if base is None:
                    base = (got, got_safe, perm)
                elif (got, got_safe) != base[:2]:
                    v("order-dependent", "orders %s and %s plan different files: %r vs %r" % (base[2], perm, base[0], got))
                want_safe = {p: e[0] for p, e in expected_safe.items() if e}
                if got_safe != want_safe:
                    v("safe-filter", "order %s: new_files(safe=True)=%r, expected %r" % (perm, got_safe, want_safe))
    job = ok["job"]
    old = dict(map(tuple, case["old"]))
    chosen = res[0]["safe_new" if case["acl_safe"] else "new"]
    new = {p: (o, rl) for p, o, rl in chosen}
    drv_tail = case["drv"]["after"] + case["drv"]["exit"]
    if "err" in job:
        # KeyError: `cmds[file] += after` with reloads disabled and a driver that has after/exit commands.
        # The driver's lists are outside the property's quantifier; with empty lists it must not happen.
        if not (case["reload"] == "no" and drv_tail):
            v("unexpected-error:" + job["err"], "parse_result raised %s" % job["err"])
    elif case["res_err"]:
        if job["deployed"] or not job["failed"]:
            v("failed-result-deployed", "res.err set but the job deploys / does not record the failure")
    else:
        force = case["reload"] == "force"
        enabled = case["reload"] != "no"
        files = dict(map(tuple, job["files"]))
        cmds = dict(map(tuple, job["cmds"]))
        if job.get("not_bytes"):
            v("upload-not-bytes", "files/cmds values are not bytes")
        if job.get("bookkeeping"):
            v("bookkeeping", job["bookkeeping"])
        # ---- clause 2/3: uploaded exactly when content differs or forced; bytes are the generated content
        for p, (o, rl) in new.items():
            should = old.get(p) != o or force
            if should and p not in files:
                v("upload-skipped." + ("force-ignored" if force else _classify_hidden(old.get(p), o)),
                  "file %r: device has %r, generated %r, entire_reload=%s, but it is not scheduled for upload"
                  % (p, old.get(p), o, case["reload"]))
            elif not should and p in files:
                v("upload-unexpected", "file %r is uploaded although generated content equals the device's" % p)
            elif should and files[p] != o:
                v("upload-bytes-differ", "file %r: uploaded %r, generated %r" % (p, files[p], o))
        for p in files:
            if p not in new:
                v("upload-unplanned-path", "file %r uploaded but not in new_files" % p)
        if bool(files) != job["deployed"] or job["has_diff"] != job["deployed"]:
            v("deploy-flag", "files=%r deployed=%r has_diff=%r" % (sorted(files), job["deployed"], job["has_diff"]))
        # ---- clause 4: reload command attached iff reloads are enabled (and only to uploaded files)
        for p in files:
            if enabled and p not in cmds:
                v("reload-missing", "file %r uploaded with entire_reload=%s but has no reload command" % (p, case["reload"]))
            if enabled and p in cmds and p in new:
                want = new[p][1] + ("\n" + "\n".join(drv_tail) if "\n".join(drv_tail) else "")
                if cmds[p] != want:
                    v("reload-wrong-command", "file %r: reload %r, expected %r" % (p, cmds[p], want))
        for p in cmds:
            if not enabled:
                v("reload-attached-while-disabled", "file %r has reload command %r with entire_reload=no" % (p, cmds[p]))
            elif p not in files:
                v("reload-for-file-not-uploaded", "reload command for %r which is not uploaded" % p)
    # ---- clause 5: the diff shown is empty exactly when the contents are equal
    if not case["res_err"]:
        labels = {}
        for p, (o, rl) in new.items():
            labels[("new: " if p not in old else "") + case["hostname"] + "/" + p] = p
        shown = set()
        for lab, lines in ok["pc_diff"]:
            if lab not in labels:
                v("diff-label", "pc_diff label %r does not name a planned file" % lab)
            else:
                shown.add(labels[lab])
            if not lines:
                v("diff-empty-entry", "pc_diff yielded %r without lines" % lab)
        for p, (o, rl) in new.items():
            differs = old.get(p) != o
            if differs and p not in shown:
                v("diff-hidden." + _classify_hidden(old.get(p), o),
                  "file %r: device has %r, generated %r, but pc_diff shows nothing" % (p, old.get(p), o))
            elif not differs and p in shown:
                v("diff-shown-for-equal", "file %r: equal contents but pc_diff shows a diff" % p)
    # ---- the assumption made about difflib
    for a, b, d in _ud_table(case):
        if (a == b) != (d == []) or (d and "\n".join(d) == ""):
            v("assumption:difflib", "unified_diff(%r, %r) = %r" % (a, b, d))
    return out


# ----------------------------------------------------------------------------- generation
def _all_perms(n, rng, limit):
    ps = [list(p) for p in itertools.permutations(range(n))]
    if limit and len(ps) > limit:
        rest = ps[1:]
        rng.shuffle(rest)
        ps = [ps[0], list(reversed(range(n)))] + [p for p in rest if p != list(reversed(range(n)))][:limit - 2]
    return ps + [[i] for i in range(n)]


def _text(rng):
    n = rng.choice([0, 1, 1, 2, 2, 3, 4])
    term = rng.choice(TERMS) if rng.random() < 0.5 else None
    s = ""
    for i in range(n):
        s += rng.choice(BODIES)
        last = i == n - 1
        if not last or rng.random() < 0.6:
            s += term or rng.choice(TERMS[:3] if rng.random() < 0.7 else TERMS)
    return s


def _variant(rng, t):
    """an old file derived from the generated text"""
    r = rng.random()
    if r < 0.25:
        return t
    if r < 0.40:
        return t[:-1] if t.endswith("\n") else t + "\n"
    if r < 0.55:
        a, b = rng.sample(TERMS, 2)
        return t.replace(a, b) if a in t else t + rng.choice(TERMS)
    if r < 0.65:
        return t.replace("\r\n", "\n") if "\r\n" in t else t.replace("\n", "\r\n")
    if r < 0.80:
        ls = t.splitlines(keepends=True)
        if ls:
            i = rng.randrange(len(ls))
            if rng.random() < 0.5:
                del ls[i]
            else:
                ls.insert(i, rng.choice(BODIES) + "\n")
        return "".join(ls)
    if r < 0.9:
        return _text(rng)
    return ""


def _parts(rng, t):
    """split a text at newlines into yielded parts (so that "\\n".join gives it back)"""
    ps = []
    for seg in t.split("\n"):
        ws = seg.split(" ")
        if len(ws) > 1 and rng.random() < 0.4:
            ps.append({"t": ws})
        else:
            ps.append({"s": seg})
    return ps


def _run(rng, malformed):
    r = rng.random()
    if malformed and r < 0.25:
        return {"k": rng.choice(["none", "bad"])}
    if r < 0.06:
        return {"k": "unsupported"}
    t = _text(rng)
    if malformed and rng.random() < 0.5:
        t = rng.choice(["None", "x None y", "a\nNone", "is None.", "Noneé", " None ", "None\n"]) \
            if rng.random() < 0.7 else t + "None"
    k = rng.choice(["str", "str", "gen", "tuple"])
    if k == "str":
        return {"k": "str", "s": t}
    return {"k": k, "ps": _parts(rng, t)}


def _rnd_case(rng, tier):
    malformed = rng.random() < 0.06
    ties = rng.random() < 0.15
    n = rng.choice([0, 1, 2, 2, 3, 3, 3, 4, 4, 5])
    pool = rng.sample(PATHS, rng.choice([1, 1, 2, 2, 3]))
    gens = []
    used = {}
    for i in range(n):
        path = rng.choice(pool)
        r = rng.random()
        if r < 0.04:
            path = None
        elif r < 0.08:
            path = ""
        if ties:
            prio = rng.choice([None, 100, 100, 5, 200, -1])
        else:
            while True:
                prio = rng.choice([None, rng.randint(-3, 12), rng.randint(90, 110), rng.randint(-10 ** 12, 10 ** 12)])
                if (100 if prio is None else prio) not in used.setdefault(path, set()):
                    break
            used[path].add(100 if prio is None else prio)
        gens.append(dict(path=path, prio=prio, run=_run(rng, malformed),
                         reload=rng.choice([None, "", "systemctl reload x", "a\nb", "r%d" % i]),
                         safe=rng.random() < 0.5))
    old = []
    paths_done = set()
    order = list(range(n))
    rng.shuffle(order)
    for i in order:
        g = gens[i]
        t = _render(g)
        if not g["path"] or g["path"] in paths_done or t is None:
            continue
        if rng.random() < 0.75:
            paths_done.add(g["path"])
            old.append([g["path"], _variant(rng, t)])
    if rng.random() < 0.2:
        extra = rng.choice(PATHS)
        if extra not in paths_done:
            old.append([extra, _text(rng)])
    drv = dict(before=[], after=[], exit=[])
    if rng.random() < 0.12:
        drv = dict(before=rng.choice([[], ["sudo -i"]]), after=rng.choice([[], ["sync"], ["sync", "true"]]),
                   exit=rng.choice([[], ["exit"]]))
    limit = 24 if tier == "quick" else 0
    case = dict(kind="case", soft=rng.choice(SOFTS), hostname=rng.choice(HOSTS), gens=gens,
                perms=_all_perms(n, rng, limit), old=old, reload=rng.choice(RELOADS),
                acl_safe=rng.random() < 0.25, res_err=rng.random() < 0.02, drv=drv)
    if any(_render(g) is not None and _has_none_word(g) for g in gens):
        case["none_word"] = True
    return case


def _has_none_word(g):
    import re
    run = g["run"]
    texts = [run["s"]] if run["k"] == "str" else [p["s"] if "s" in p else " ".join(p["t"]) for p in run["ps"]]
    return any(re.search(r"\bNone\b", t) for t in texts)


def _noneword_case(case):
    """one generator whose output has the character `cp` on one side of the word None"""
    c = chr(case["cp"])
    t = {"after": "None" + c, "before": c + "None", "both": c + "None" + c}[case["side"]]
    full = dict(kind="case", soft="", hostname="h", gens=[dict(path="/f", prio=None, run={"k": "str", "s": t},
                                                               reload=None, safe=True)],
                perms=[[0]], old=[], reload="yes", acl_safe=False, res_err=False,
                drv=dict(before=[], after=[], exit=[]), none_word=True)
    return full


def _exh_case(old_t, new_t, reload, order):
    gens = [dict(path="/f", prio=7, run={"k": "str", "s": new_t}, reload="rl", safe=True),
            dict(path="/f", prio=3, run={"k": "str", "s": "loser\n"}, reload="other", safe=True)]
    if order:
        gens.reverse()
    return dict(kind="case", soft="", hostname="h", gens=gens, perms=[[0, 1], [1, 0], [0], [1]],
                old=[] if old_t is None else [["/f", old_t]], reload=reload, acl_safe=False, res_err=False,
                drv=dict(before=[], after=[], exit=[]))


def shards(tier, seed):
    out = []
    if tier == "quick":
        for i in range(13):
            out.append(dict(kind="exh", old=i))
        for lo in range(0, 0x3000, 0x300):
            out.append(dict(kind="chars", lo=lo, hi=lo + 0x300))
        out.append(dict(kind="noneword"))
        for i in range(32):
            out.append(dict(kind="rnd", seed=seed * 100003 + i, n=900, tier=tier))
    else:
        for i in range(13):
            out.append(dict(kind="exh", old=i))
        for lo in range(0, 0x10000, 0x400):
            out.append(dict(kind="chars", lo=lo, hi=lo + 0x400))
        out.append(dict(kind="noneword"))
        for i in range(160):
            out.append(dict(kind="rnd", seed=seed * 100003 + 7919 + i, n=2000, tier=tier))
    return out


def gen(desc):
    if desc["kind"] == "exh":
        olds = [None] + EXH_TEXTS
        for new_t in EXH_TEXTS:
            for reload in RELOADS:
                for order in (0, 1):
                    yield _exh_case(olds[desc["old"]], new_t, reload, order)
    elif desc["kind"] == "chars":
        for cp in range(desc["lo"], desc["hi"]):
            if 0xD800 <= cp <= 0xDFFF:
                continue
            c = chr(cp)
            yield dict(kind="splitlines", text="a" + c + "b", refs=["a\nb", "a" + c + "b", "ab"])
            if cp < 0x100 or cp in (0x2028, 0x2029):
                yield dict(kind="splitlines", text="a" + c, refs=["a", "a\n", "a" + c + "\n"])
                yield dict(kind="splitlines", text="\r" + c + "b", refs=["\nb", "\n\nb", "\r\n" + c + "b"])
    elif desc["kind"] == "noneword":
        for cp in WORD_DOMAIN:
            for side in ("after", "before", "both"):
                yield dict(kind="noneword", cp=cp, side=side)
    else:
        rng = random.Random(desc["seed"])
        for _ in range(desc["n"]):
            yield _rnd_case(rng, desc["tier"])


# ----------------------------------------------------------------------------- evidence helpers
def nontrivial(case, r):
    if case["kind"] != "case" or "ok" not in r:
        return False
    paths = [g["path"] for g in case["gens"] if g["path"]]
    old = dict(map(tuple, case["old"]))
    return len(paths) != len(set(paths)) or any(p in old for p in paths)


def stats(case, r):
    if case["kind"] != "case":
        return ["kind=" + case["kind"]]
    lab = ["kind=case", "gens=%d" % len(case["gens"]), "reload=" + case["reload"],
           "orders=%d" % sum(1 for p in case["perms"] if len(p) == len(case["gens"]))]
    if "err" in r:
        lab.append("result=" + r["err"])
        return lab
    job = r["ok"]["job"]
    if "err" in job:
        lab.append("job=" + job["err"])
    else:
        lab.append("job=failed" if job["failed"] else "uploads=%d" % min(len(job["files"]), 3))
        new = r["ok"]["perms"][0]["safe_new" if case["acl_safe"] else "new"]
        lab.append("planned=%d" % min(len(new), 3))
        old = dict(map(tuple, case["old"]))
        for p, o, rl in new:
            if p not in old:
                lab.append("file:new")
            elif old[p] == o:
                lab.append("file:equal")
            elif _lines(old[p]) == _lines(o):
                lab.append("file:terminators-only")
            else:
                lab.append("file:lines-differ")
    paths = [g["path"] for g in case["gens"] if g["path"]]
    if len(paths) != len(set(paths)):
        lab.append("contended-path")
    if case.get("none_word"):
        lab.append("none-word")
    if case["acl_safe"]:
        lab.append("acl-safe")
    if case["soft"].startswith(("Cumulus", "SwitchDev", "SONiC")):
        lab.append("etckeeper")
    if any(case["drv"].values()):
        lab.append("driver-cmds")
    return lab


def shrink_candidates(case):
    if case["kind"] != "case":
        return
    n = len(case["gens"])
    # drop a generator
    for i in range(n):
        gens = case["gens"][:i] + case["gens"][i + 1:]
        yield dict(case, gens=gens, perms=_all_perms(n - 1, random.Random(0), 24))
    # fewer orders
    full = [p for p in case["perms"] if len(p) == n]
    if len(full) > 2:
        yield dict(case, perms=full[:2] + [[i] for i in range(n)])
    # drop an old file
    for i in range(len(case["old"])):
        yield dict(case, old=case["old"][:i] + case["old"][i + 1:])
    # simpler environment
    if case["soft"]:
        yield dict(case, soft="")
    if any(case["drv"].values()):
        yield dict(case, drv=dict(before=[], after=[], exit=[]))
    if case["acl_safe"]:
        yield dict(case, acl_safe=False)
    # shorter texts
    for i, g in enumerate(case["gens"]):
        t = _render(g)
        if t is None:
            continue
        cands = []
        if g["run"]["k"] != "str":
            cands.append(t)
        ls = t.splitlines(keepends=True)
        for j in range(len(ls)):
            cands.append("".join(ls[:j] + ls[j + 1:]))
        for c in cands:
            gens = list(case["gens"])
            gens[i] = dict(g, run={"k": "str", "s": c})
            yield dict(case, gens=gens)
        if g["reload"] not in (None, "r"):
            gens = list(case["gens"])
            gens[i] = dict(g, reload="r")
            yield dict(case, gens=gens)
    for i, (p, t) in enumerate(case["old"]):
        ls = t.splitlines(keepends=True)
        for j in range(len(ls)):
            old = list(case["old"])
            old[i] = [p, "".join(ls[:j] + ls[j + 1:])]
            yield dict(case, old=old)


def search(case):
    if case["kind"] != "case":
        return
    rng = random.Random(len(str(case)))
    for _ in range(300):
        c = dict(case)
        op = rng.random()
        if op < 0.3:
            c["reload"] = rng.choice(RELOADS)
        elif op < 0.6 and c["old"]:
            old = [list(x) for x in c["old"]]
            i = rng.randrange(len(old))
            old[i][1] = _variant(rng, old[i][1])
            c["old"] = old
        elif c["gens"]:
            gens = [dict(g) for g in c["gens"]]
            i = rng.randrange(len(gens))
            gens[i]["run"] = {"k": "str", "s": _text(rng)}
            c["gens"] = gens
        yield c
