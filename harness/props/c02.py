"""C02 — a patch never touches configuration outside the ACL. impl: api._diff_and_patch with acl_rules (real), cmd_paths
executed on the device specification; model: Annet.AclDiff.deviceModeAcl; oracle: (a) every command path is ACL-covered
level by level, (b) uncovered rows of old survive with their subtree, (c) cant_delete rows survive.

kind=glue (harness/c02glue.py): the same three clauses on the patch that the WHOLE glue produces for one device -
synthetic generators with acl_<vendor>() literals -> real gen._old_new_per_device (device config as text) -> real
api._diff_and_patch(res.get_old(), res.get_new(), res.get_acl_rules(), ...) - judged against the ACL the harness combines
itself from the generators' literals (own dedent, own tagging, own reading of who takes part); the Lean model gets the
harness-combined ACL and the harness-merged generator output."""
import json
import random

from harness import rbgen, device
from harness import c02glue as glue
from harness.props import c06, c16, c01, c10

ID = "C02"
RULE = ("(rulebook, ordering, vendor, ACL text(s), old, new): rulebooks/configs as in C01; ACLs over the same vocabulary "
        "(nesting<=3, *, ~, %global, %cant_delete=0/1, %prio, 1-3 generator ACLs merged with %generator_names tagging), so "
        "that configs contain covered rows, uncovered rows next to them and rows covered only in negated form;" +
        rbgen.SMALL_RULE % (", under eight small ACLs", " (a seed-rotated quarter per run)") +
        "; kind=glue: (rulebook, vendor of huawei/cisco/arista/nexus/b4com, device config TEXT, 1-4 synthetic PartialGenerator "
        "classes, --no-acl-exclusive on/off, --clear on/off): each generator = acl_<vendor>() literal written as an indented "
        "triple-quoted block (margins 0..16, equal or different between generators, blank lines, trailing blanks) + op list "
        "(blocks, single yields, indented multi-line yields) yielding the part of the intended config its own ACL covers; "
        "modes ok / other-vendor / raises NotSupportedDevice / no acl_<vendor> / acl returns None / blank literal; families "
        "random (ACLs as above), levels (one generator owns a block of the device and some of its children, another one "
        "owns, at top level, rules that also match that block's children), interface (built-in cant_delete default), "
        "unsupported (no generator contributes an ACL line); non-trivial = "
        "the patch has >=2 commands and old has >=1 covered and >=1 uncovered row; distinct = distinct case")
TRUSTED_BASE = [
    "Lean 4.33 kernel; axioms per theorem listed (subset of propext, Classical.choice, Quot.sound)",
    "Spec/Device.lean (device specification) and its Python twin harness/device.py (cross-checked in C01)",
    "rule rows matched by Model/Pattern.lean (tied to CPython re by C07); ACL model tied by C06",
    "harness/rbgen.py, harness/props/c06.py (ACL generator) + harness/props/c02.py and the compiled Lean driver",
    "kind=glue: harness/c02glue.py (reference reading of the generators: who takes part, own dedent, own tagging; stub "
    "device/storage and op-list interpreter of harness/props/c10.py, its independent reading spec_paths of the op lists); "
    "the reference ACL text is compiled and matched by the real acl.compile_acl_text / patching.match_row_to_acl (tied by C06)",
]
ASSUMPTIONS = ["block-structured vendors", "common logics", "no filter-ACL (filter_acl_rules=None), add_comments=False",
               "ACL rows inside the rule grammar",
               "kind=glue: no acl_safe, no implicit rules, no annotations, no Entire/JSON_FRAGMENT/Ref generators; the device "
               "text reads back (vendor formatter + tabparser) as the case's old tree, else the case is counted and skipped; "
               "distinct generator class names"]


_READY = []


def setup_worker():
    c16.setup_worker()
    if not _READY:
        # c10's driver of _old_new_per_device (stub device, generator interpreter) re-installs the default rulebook
        # provider; the generated rulebooks of the other kinds are served by c16's provider: put it back
        c10.setup_worker()
        from annet.rulebook import rulebook_provider_connector
        rulebook_provider_connector._classes = [c16._PROV]
        rulebook_provider_connector._cache = None
        _READY.append(True)


SMALL_ACLS = [["a *\n    x *\n"], ["a *\n"], ["a 1\n    x *\n", "b\n"], ["a *  %cant_delete=1\n    x *\n"],
              ["a *\n    x 1  %cant_delete=1\n"], ["a *\n    x *  %global\n", "b  %cant_delete=1\n"], ["~  %global\n"],
              ["a *\n    x 1\n", "a 2\n    x *\n"]]


def shards(tier, seed):
    n = 120 if tier == "quick" else 12000
    out = [dict(seed=seed * 1000 + i, n=n) for i in range(16)]
    # the small space of rbgen under eight small ACLs (nested, partial, cant_delete, %global, two generators)
    if tier == "quick":
        out += [dict(kind="small", part=(seed * 2 + i) % 4096, parts=4096) for i in range(2)]
    else:
        # a quarter of the 2.6M cases per run, rotated by the seed
        out += [dict(kind="small", part=(seed * 64 + i) % 256, parts=256) for i in range(64)]
    # the whole glue: generators -> _old_new_per_device -> _diff_and_patch
    n = GLUE_N[tier]
    out += [dict(kind="glue", seed=seed * 1000 + 500 + i, n=n) for i in range(16)]
    return out


def acl_lines(rng, pre, prows, depth=0):
    out = []
    for _ in range(rng.randint(1, 4 if depth == 0 else 3)):
        if prows and rng.random() < 0.7:
            row = rng.choice(prows)
            if rng.random() < 0.3:
                ws = row.split(" ")
                row = " ".join(ws[:rng.randint(1, len(ws))])
                if rng.random() < 0.5:
                    row += " ~"
        else:
            row = c06.gen_rule_row(rng, pre)
        params = []
        g = rng.random() < 0.15
        if g:
            params.append("%global")
        if rng.random() < 0.3:
            params.append("%cant_delete=" + rng.choice(["0", "1"]))
        if rng.random() < 0.1:
            params.append("%prio=" + str(rng.randint(0, 3)))
        out.append((depth, row + ("  " + " ".join(params) if params else "")))
        if not g and depth < 2 and rng.random() < 0.5:
            out.extend(acl_lines(rng, pre, prows, depth + 1))
    return out


def negate_some(rng, old, new, pre):
    out = [list(x) for x in new]
    have = {r for r, _ in out}
    for row, ch in old:
        if rng.random() < 0.5 and pre + " " + row not in have:
            out = [x for x in out if x[0] != row]
            out.insert(rng.randint(0, len(out)), [pre + " " + row, []])
        elif ch and rng.random() < 0.5:
            for x in out:
                if x[0] == row:
                    x[1] = negate_some(rng, ch, x[1], pre)
    return out


def interface_case(rng, c, pre):
    """interface blocks owned by an ACL rule WITHOUT an explicit %cant_delete (built-in default), with uncovered
    children on the device and the block absent from (or reduced in) the generator output"""
    c["ptext"] = "interface *\n    description ~\n    mtu *\n    shutdown\ninterfaces\n    unit *\nsysname *\n"
    names = ["Eth1", "Vlanif10", "ae0"]
    rule = rng.choice(["interface", "interface *", "interface ~", "interfaces", "interface  %prio=1"])
    child = rng.choice(["", "    description ~\n", "    mtu *\n"])
    c["acl_texts"] = [rule + "\n" + child] + ([rng.choice(["sysname *\n", "interface *\n    shutdown\n"])] if rng.random() < 0.4 else [])
    c["tagged"] = len(c["acl_texts"]) > 1 or rng.random() < 0.5
    head = "interfaces" if rule.startswith("interfaces") else None
    old = []
    for n in rng.sample(names, rng.randint(1, 3)):
        row = head or "interface " + n
        if any(row == r for r, _ in old):
            continue
        ch = [[k, []] for k in rng.sample(["description up", "mtu 9000", "shutdown", "unit 0"], rng.randint(0, 3))]
        old.append([row, ch])
    new = [[r, [x for x in ch if rng.random() < 0.5]] for r, ch in old if rng.random() < 0.5]
    if rng.random() < 0.5:
        new.append(["sysname a", []])
    c["old"], c["new"] = old, new


# ------------------------------------------------------------------ kind=glue: case generator
GLUE_N = {"quick": 150, "thorough": 4000}
GLUE_VENDORS = ["huawei", "cisco", "arista", "nexus", "b4com"]
GLUE_OFF = ["other-vendor", "raises", "no-acl-func", "acl-none", "acl-blank"]


def _covered_part(tree, plain, vendor):
    """generation only: the part of the intended config that the generator's own ACL lets through (a generator that
    yields anything else is stopped by annet with an AclError)"""
    from annet.annlib import patching
    from annet.annlib.rbparser import acl
    try:
        return rbgen.to_list(patching.apply_acl(rbgen.to_odict(tree), acl.compile_acl_text(plain, vendor)))
    except Exception:  # noqa
        return []


def _uniq(lines):
    """drop repeated top-level rules (with their sub-rules) of one ACL text"""
    out, seen, skip = [], set(), False
    for d, t in lines:
        if d == 0:
            skip = t.split("  %")[0] in seen
            seen.add(t.split("  %")[0])
        if not skip:
            out.append((d, t))
    return out


def _soften(rng, row):
    ws = row.split(" ")
    return rng.choice([row, row, ws[0] + " ~", ws[0] + " ~", " ".join(ws[:-1] + ["*"]) if len(ws) > 1 else row])


def levels_acls(rng, c, pre, prows):
    """one generator owns a block of the device (and some of its children), another one owns - at TOP level - rules that
    also match children of that block: those children are nobody's"""
    blocks = [(row, ch) for row, ch in c["old"] if ch]
    if not blocks:
        return None
    row, ch = rng.choice(blocks)
    head = rng.choice([row, row, row.split(" ")[0] + " ~"])
    if rng.random() < 0.2:
        head += "  %cant_delete=" + rng.choice(["0", "1"])
    own = [(0, head)] + [(1, _soften(rng, k)) for k, _ in ch if rng.random() < 0.4]
    before = acl_lines(rng, pre, prows) if rng.random() < 0.5 else []
    g1 = _uniq(before + own) if rng.random() < 0.7 else _uniq(own + before)
    kids = [(0, _soften(rng, k)) for k, _ in ch if rng.random() < 0.7]
    for _, sub in ch:
        kids += [(0, _soften(rng, k)) for k, _ in sub if rng.random() < 0.5]
    if not kids:
        kids = [(0, _soften(rng, ch[0][0]))]
    extra = acl_lines(rng, pre, prows) if rng.random() < 0.5 else []
    g2 = _uniq(kids + extra) if rng.random() < 0.7 else _uniq(extra + kids)
    texts = [c06.render(g1), c06.render(g2)]
    if rng.random() < 0.3:
        texts.reverse()
    if rng.random() < 0.3:
        texts.insert(rng.randint(0, 2), c06.render(acl_lines(rng, pre, prows)))
    return texts


def glue_case(rng):
    c = rbgen.gen_case(rng, one_per_key=True)
    c["vendor"] = vendor = rng.choice(GLUE_VENDORS)
    pre = rbgen.vendor_info(vendor)["reverse"]
    prows = [r for r in rbgen.rule_rows([(0, l.strip()) for l in c["ptext"].split("\n") if l.strip()]) if "." not in r]
    r = rng.random()
    family = "unsupported" if r < 0.12 else "levels" if r < 0.45 else "interface" if r < 0.57 else "random"
    plains = None
    if family == "interface":
        interface_case(rng, c, pre)
        plains = list(c["acl_texts"])
    elif family == "levels":
        plains = levels_acls(rng, c, pre, prows)
        if plains is None:
            family = "random"
    if plains is None:
        plains = [c06.render(acl_lines(rng, pre, prows)) for _ in range(rng.choice([1, 2, 2, 3, 3, 4]))]
    if family != "interface" and rng.random() < 0.1:
        c["new"] = negate_some(rng, c["old"], c["new"], pre)
    # where the literals sit in their (imaginary) source files: all at the usual method-body margin, anywhere, or each
    # one block deeper / shallower than the one before
    base = rng.choice([0, 4, 8, 8, 12])
    layout = rng.choice(["equal", "equal", "mixed", "mixed", "mixed", "deeper", "deeper", "shallower"])
    gens = []
    for i, plain in enumerate(plains):
        if layout == "equal":
            margin = base
        elif layout == "mixed":
            margin = base if rng.random() < 0.5 else rng.choice([0, 4, 8, 12, 16])
        else:
            margin = max(0, base + 4 * i * (1 if layout == "deeper" else -1))
        if family == "unsupported":
            mode = rng.choice(GLUE_OFF)
        else:
            mode = "ok" if rng.random() < 0.8 else rng.choice(GLUE_OFF)
        lit = glue.literal(rng, plain, margin)
        if mode == "acl-blank":
            lit = rng.choice(["", "\n", "\n" + " " * margin + "\n" + " " * margin, "   "])
        elif mode in ("no-acl-func", "acl-none"):
            lit = None
        tree = _covered_part(c["new"], plain, vendor) if mode in ("ok", "other-vendor", "raises") else []
        ops = glue.ops_of(rng, tree)
        if mode == "ok" and rng.random() < 0.02:
            ops.append(["y", "zz outside-own-acl"])      # the generator is stopped with an AclError
        gens.append(dict(name="G%d" % i, mode=mode, acl=lit, ops=ops))
    return dict(kind="glue", family=family, vendor=vendor, ptext=c["ptext"], otext=c["otext"], old=c["old"], gens=gens,
                exclusive=rng.random() < 0.4, no_new=rng.random() < 0.08)


def gen(desc):
    if desc.get("kind") == "glue":
        setup_worker()
        rng = random.Random(desc["seed"])
        for _ in range(desc["n"]):
            yield glue_case(rng)
        return
    if desc.get("kind") == "small":
        # one slice = whole config pairs, each under all eight ACLs one after the other (ACLs that share rule texts but
        # differ below them follow each other in one process)
        for c in rbgen.small_cases(desc["part"], desc["parts"], vendors=("huawei", "cisco", "arista")):
            for acl in SMALL_ACLS:
                yield dict(c, acl_texts=list(acl), tagged=len(acl) > 1)
        return
    rng = random.Random(desc["seed"])
    for _ in range(desc["n"]):
        c = rbgen.gen_case(rng, one_per_key=True)
        c["vendor"] = rng.choice(c01.VENDORS)
        pre = rbgen.vendor_info(c["vendor"])["reverse"] if rbgen._SETUP else "undo"
        prows = [r for r in rbgen.rule_rows([(0, l.strip()) for l in c["ptext"].split("\n") if l.strip()]) if "." not in r]
        ngen = rng.choice([1, 1, 2, 3])
        c["acl_texts"] = [c06.render(acl_lines(rng, pre, prows)) for _ in range(ngen)]
        c["tagged"] = ngen > 1 or rng.random() < 0.3
        r = rng.random()
        if r < 0.2:
            # the generator prints the explicit negation of a line the device has ("undo shutdown")
            c["new"] = negate_some(rng, c["old"], c["new"], pre)
            if rng.random() < 0.7:
                # real rulebooks know negated lines too (e.g. 'undo ...' rules, catch-all rules): a top-level catch-all
                c["ptext"] = c["ptext"] + "~\n"
            if c["old"] and rng.random() < 0.7:
                # a wildcard rule matches the negated line as written; the line it negates is pinned by another rule
                w = c["old"][0][0].split(" ")[0]
                c["acl_texts"] = c["acl_texts"] + [rng.choice(["~  %cant_delete=1\n", "%s ~  %%cant_delete=1\n~\n" % w,
                                                               "~\n%s  %%cant_delete=1\n" % w])]
                c["tagged"] = True
        elif r < 0.35:
            interface_case(rng, c, pre)
        yield c


def run(case):
    from annet import api
    from annet.annlib.rbparser import acl
    from annet.vendors import registry_connector
    c16.setup_worker()
    hw = rbgen.Hw(case["vendor"])
    hw.tag = str(hash(case["ptext"] + "|" + case["otext"]))
    rb = rbgen.compile_rb(case["ptext"], case["otext"], case["vendor"])
    c16._PROV.table[hw.vendor + "|" + hw.tag] = rb
    text = c06.combine(case["acl_texts"], case["tagged"])
    try:
        try:
            acl_rules = acl.compile_acl_text(text, case["vendor"])
        except Exception as e:  # noqa
            return {"err": "compile:" + type(e).__name__}, None, None
        try:
            diff, pt = api._diff_and_patch(c16._Dev(hw), rbgen.to_odict(case["old"]), rbgen.to_odict(case["new"]),
                                           acl_rules, None, False)
        except AssertionError:
            return {"err": "AssertionError"}, rb, acl_rules
        fmt = registry_connector.get()[case["vendor"]].make_formatter()
        paths = [list(p) for p in fmt.cmd_paths(pt).keys()]
        return {"patch": rbgen.dump_patch(pt), "stripped": rbgen.dump_diff(diff), "paths": paths}, rb, acl_rules
    finally:
        c16._PROV.table.pop(hw.vendor + "|" + hw.tag, None)


# ------------------------------------------------------------------ kind=glue: real code, reference view, model
def run_glue(case):
    """generators -> real gen._old_new_per_device -> real api._diff_and_patch, the way api.res_diff_patch chains them"""
    from annet import api
    from annet.annlib import patching
    from annet.generators import GeneratorError
    from annet.vendors import registry_connector
    setup_worker()
    try:
        if glue.parsed_old(case) != case["old"]:
            return {"err": "harness:device-text-reads-back-differently"}
    except Exception as e:  # noqa
        return {"err": "harness:device-text-unreadable:" + type(e).__name__}
    rb = rbgen.compile_rb(case["ptext"], case["otext"], case["vendor"])
    try:
        dev, res = glue.run_old_new(case)
    except GeneratorError as e:
        return {"err": "GeneratorError:" + type(e.__cause__).__name__}
    except patching.AclNotExclusiveError:
        return {"err": "AclNotExclusiveError"}
    except Exception as e:  # noqa   (an ACL literal the ACL compiler rejects)
        return {"err": "raised:" + type(e).__name__}
    if res.err:
        return {"err": "result.err:" + type(res.err).__name__}
    try:
        diff, pt = api._diff_and_patch(dev, res.get_old(False), res.get_new(False), res.get_acl_rules(False),
                                       res.filter_acl_rules, False, rb=rb)
    except AssertionError:
        return {"err": "AssertionError"}
    fmt = registry_connector.get().match(dev.hw).make_formatter(indent="")
    paths = [list(p) for p in fmt.cmd_paths(pt).keys()]
    return {"patch": rbgen.dump_patch(pt), "stripped": rbgen.dump_diff(diff), "paths": paths}


def glue_view(case):
    """the case as the property reads it: (old, new, A) with A = the ACL text the harness combines itself from the
    generators' literals and new = what the participating generators yield; None = outside the reference's domain"""
    new = glue.ref_new(case)
    if new is None:
        return None
    return dict(vendor=case["vendor"], ptext=case["ptext"], otext=case["otext"], old=case["old"], new=new,
                acl_texts=[glue.ref_combined(case)], tagged=False)


def glue_requests(case):
    view = glue_view(case)
    if view is None:
        return []
    info = rbgen.vendor_info(case["vendor"])
    av = dict(reverse=info["reverse"], juniper=False)
    reqs = []
    try:
        if not case.get("no_new"):
            for g in glue.participating(case):
                # _run_partial_generator: the generator's output under its own ACL, fatal
                reqs.append(dict(op="c06.apply", trees=c06.raw_trees("".join(l + "\n" for l in glue.ref_acl_lines(g))),
                                 vendor=av, fatal=True, exclusive=False, config=glue.ref_yielded(g, case["vendor"])))
        trees = c06.raw_trees(view["acl_texts"][0])
    except Exception:  # noqa
        return []
    # _old_new_per_device: the merged output under the combined ACL, exclusive unless --no-acl-exclusive
    reqs.append(dict(op="c06.apply", trees=trees, vendor=av, fatal=False, exclusive=bool(case.get("exclusive", True)),
                     config=view["new"]))
    reqs.append(rbgen.job_request("c02.patch", view, acl_trees=trees, acl_vendor=av))
    return reqs


def glue_model(case, resp):
    if any(r.get("grammar") is False for r in resp):
        return {"skip": True}
    gens = [] if case.get("no_new") else glue.participating(case)
    for g, r in zip(gens, resp):
        if "err" in r:
            return {"err": "GeneratorError:" + r["err"]}
        if r["ok"] != glue.ref_yielded(g, case["vendor"]):
            return {"skip": True}       # a yielded line hidden by its own ACL (negated form of a cant_delete rule)
    if "err" in resp[-2]:
        return {"err": resp[-2]["err"]}
    r = resp[-1]
    if "err" in r:
        return {"err": r["err"]}
    real = _GLUE_MEMO.get(json.dumps(case, sort_keys=True)) or run_glue(case)
    return {"patch": r["patch"], "stripped": r["stripped"], "paths": real.get("paths")}


_GLUE_MEMO = {}     # real results of the current batch (the model side only needs the command paths of the real patch)


def impl(case):
    if case.get("kind") == "glue":
        r = run_glue(case)
        if len(_GLUE_MEMO) >= 6000:
            _GLUE_MEMO.clear()
        _GLUE_MEMO[json.dumps(case, sort_keys=True)] = r
        return r
    return run(case)[0]


def requests(case):
    if case.get("kind") == "glue":
        return glue_requests(case)
    c16.setup_worker()
    text = c06.combine(case["acl_texts"], case["tagged"])
    try:
        trees = c06.raw_trees(text)
    except Exception:
        return []
    info = rbgen.vendor_info(case["vendor"])
    return [rbgen.job_request("c02.patch", case, acl_trees=trees,
                              acl_vendor=dict(reverse=info["reverse"], juniper=case["vendor"] == "juniper"))]


def model(case, resp):
    if case.get("kind") == "glue":
        return glue_model(case, resp)
    r = resp[0]
    if r.get("grammar") is False:
        return {"skip": True}
    if "err" in r:
        return {"err": r["err"]}
    real = run(case)[0]
    return {"patch": r["patch"], "stripped": r["stripped"], "paths": real.get("paths")}


# ------------------------------------------------------------------ oracle
def covered_path(path, acl_rules):
    """is every level of the path matched by the ACL (direct or reverse form)?  returns index of first uncovered level"""
    from annet.annlib import patching
    rules = acl_rules
    for i, row in enumerate(path):
        if row in device.EXITS and i == len(path) - 1:
            return None
        match, rules = patching.match_row_to_acl(row, rules)
        if not match:
            return i
    return None


def ref_cant_delete(match, refs):
    """'not deletable' by the REFERENCE reading of the ACL text (explicit %cant_delete flags, else the built-in default
    for rules starting with 'interface'), looked up through the matched rule's regexp"""
    from annet.annlib.rbparser import syntax
    pat = match["attrs"]["direct_regexp"].pattern
    for row, fls in refs.items():
        try:
            if syntax.compile_row_regexp(row).pattern == pat:
                return all(x for fl in fls for x in fl)
        except Exception:
            continue
    return all(match["attrs"]["cant_delete"])


def acl_status(tree, acl_rules, path=(), refs=None):
    """yield (path, covered, pinned) for every row whose ancestors are all covered.
    covered = some ACL rule matches the row, as written or as the reverse form (that is the property's notion; apply_acl
    additionally hides rows whose best match is the reverse form of a cant_delete rule);
    pinned = EVERY matching rule is marked not deletable ("covered only by rules marked as not deletable")"""
    from annet.annlib import patching
    for row, ch in tree:
        matches = patching._find_acl_matches(row, acl_rules)
        if not matches:
            yield path + (row,), False, False
            continue
        pinned = all(ref_cant_delete({"attrs": m[0][0]["attrs"]}, refs) if refs is not None else all(m[0][0]["attrs"]["cant_delete"])
                     for m in matches)
        yield path + (row,), True, pinned
        match, cr = patching._select_match(matches, acl_rules)
        if match is not None:
            yield from acl_status(ch, cr, path + (row,), refs)


def get(tree, path):
    for k in path:
        nxt = None
        for r, c in tree:
            if r == k:
                nxt = c
                break
        if nxt is None:
            return None
        tree = nxt
    return tree


def slot_at(rules, path):
    from annet.annlib import patching
    m = None
    for k in path:
        m, rules = patching._match_row_to_rules(k, rules)
        if not m:
            return None
    return (m["raw_rule"], tuple(m["key"])) if m else None


def removed_during(paths, q, rules, rev):
    """does the patch contain a removal command for the line at path q (same rule and key)?"""
    want = slot_at(rules, q)
    for p in paths:
        if len(p) == len(q) and list(p[:-1]) == list(q[:-1]) and p[-1].startswith(rev + " "):
            if slot_at(rules, list(q[:-1]) + [p[-1][len(rev) + 1:]]) == want and want is not None:
                return True
    return False


def same_slot_present(after, path, rules):
    parent = get(after, path[:-1])
    want = slot_at(rules, path)
    if parent is None or want is None:
        return False
    return any(slot_at(rules, list(path[:-1]) + [row]) == want for row, _ in parent)


GLUE_SIG_EMPTY = "glue-no-generator-acl-yet-device-lines-touched"
GLUE_SIG_MARGINS = "glue-acl-literals-of-different-margins-combined-into-another-acl"
GLUE_SIG_OTHER = "glue-patch-leaves-the-independently-combined-acl"


def glue_sig(case):
    """which part of the glue is at fault is read off the CASE (the core, given the harness-combined ACL, keeps the
    clause on this very input): no participating generator has an ACL line at all / the generators' literals sit at
    different margins / anything else"""
    if not glue.ref_combined(case).strip():
        return GLUE_SIG_EMPTY
    if len(set(glue.margins(case))) > 1:
        return GLUE_SIG_MARGINS
    return GLUE_SIG_OTHER


def glue_oracle(case, r):
    from annet.annlib.rbparser import acl
    setup_worker()
    if "err" in r:
        return []
    view = glue_view(case)
    if view is None:
        return []
    try:
        acl_rules = acl.compile_acl_text(view["acl_texts"][0], case["vendor"])
    except Exception:  # noqa   the reference text itself is not an ACL: nothing to judge the patch against
        return []
    rb = rbgen.compile_rb(case["ptext"], case["otext"], case["vendor"])
    out = check_clauses(view, r, rb, acl_rules)
    if out:
        # the same (old, new, A) through api._diff_and_patch alone: a clause that fails there too is the core's
        core = run(view)[0]
        core_sigs = set() if "err" in core else {v["sig"] for v in check_clauses(view, core, rb, acl_rules)}
        for v in out:
            if v["sig"] not in core_sigs:
                v["what"] = "[%s] %s (combined ACL of the generators, read independently: %r)" % (
                    v["sig"], v["what"], view["acl_texts"][0])
                v["sig"] = glue_sig(case)
    return out


def oracle(case, r):
    if case.get("kind") == "glue":
        return glue_oracle(case, r)
    c16.setup_worker()
    if "err" in r:
        return []
    _, rb, acl_rules = run(case)
    return check_clauses(case, r, rb, acl_rules)


def check_clauses(case, r, rb, acl_rules):
    """clauses (a), (b), (c) for the patch r of (case.old, case.new) under the ACL acl_rules (text: case.acl_texts)"""
    from annet.vendors import registry_connector
    rules = rb["patching"]
    if not c01.one_row_per_key(case["old"], rules) or not c01.one_row_per_key(case["new"], rules):
        return []
    out = []
    rev = registry_connector.get()[case["vendor"]].reverse
    # (a) command paths are ACL-covered level by level
    for p in r["paths"]:
        i = covered_path(p, acl_rules)
        if i is not None:
            last = p[-1]
            sig = "command-outside-acl"
            if i == len(p) - 1 and last.startswith(rev + " "):
                # the removal command is shorter than the ACL rule that covers the removed row
                body = last[len(rev) + 1:]
                parent = get(case["old"], p[:-1])
                if parent is not None and any(row.startswith(body) and covered_path(list(p[:-1]) + [row], acl_rules) is None
                                              for row, _ in parent):
                    sig = "removal-command-not-matched-by-longer-acl-rule"
            out.append(dict(sig=sig, what="command path %r is not covered by the ACL at level %d" % (p, i)))
            break
    # (b), (c): execute the patch on the full old config
    after = rbgen.to_list(device.apply_cmds(rev, rules, r["paths"], rbgen.to_odict(case["old"])))
    refs = {}
    for (_ind, row), fl in c06.ref_flags(c06.combine(case["acl_texts"], case["tagged"])).items():
        refs.setdefault(row, []).append(fl)
    for path, cov, cd in acl_status(case["old"], acl_rules, (), refs):
        sub_old = get(case["old"], path)
        sub_new = get(after, path)
        parent_alive = get(after, path[:-1]) is not None
        if not parent_alive:
            continue
        # "unless an ACL-covered, deletable ancestor block is itself removed" (also when it is re-created afterwards)
        if any(removed_during(r["paths"], path[:i], rules, rev) for i in range(1, len(path))):
            continue
        if not cov:
            if sub_new is None or sub_new != sub_old:
                sig = "uncovered-row-changed"
                # a %rewrite row (the row itself or an ancestor): the block's rewrite content is re-sent as a whole,
                # which drops uncovered rewrite siblings and the uncovered children of the re-sent lines
                from annet.annlib import patching as _p
                _rules = rules
                for i, k in enumerate(path):
                    _m, _next = _p._match_row_to_rules(k, _rules)
                    if not _m:
                        break
                    if _m["attrs"]["logic"].__name__ == "rewrite" and any(
                            len(pp) == i + 1 and list(pp[:-1]) == list(path[:i]) and
                            (lambda mm: mm and mm["attrs"]["logic"].__name__ == "rewrite")(_p._match_row_to_rules(pp[-1], _rules)[0])
                            for pp in r["paths"]):
                        sig = "rewrite-block-resent-drops-uncovered-sibling"
                        break
                    _rules = _next
                # same (rule,key) as a covered row of new: the device replaces the line in place
                from annet.annlib import patching
                prules = rules
                ok = True
                for k in path[:-1]:
                    m, prules = patching._match_row_to_rules(k, prules)
                    if not m:
                        ok = False
                        break
                if ok:
                    m, _ = patching._match_row_to_rules(path[-1], prules)
                    pn = get(case["new"], path[:-1]) or []
                    if sig == "uncovered-row-changed" and m and any((lambda m2: m2 and m2["raw_rule"] == m["raw_rule"] and m2["key"] == m["key"] and row != path[-1])(
                            patching._match_row_to_rules(row, prules)[0]) for row, _ in pn):
                        sig = "uncovered-row-shares-slot-with-covered-new-row"
                out.append(dict(sig=sig, what="row %r is not covered by the ACL but is %s after the patch" % (
                    path, "gone" if sub_new is None else "changed")))
                break
        elif cd and sub_new is None and not same_slot_present(after, path, rules):
            sig = "cant-delete-row-removed"
            # the row belongs to a %rewrite group of its block and the patch re-sends that group (a command for another
            # %rewrite row of the same block): the device replaces the group's content, the protected row is not re-sent
            # (the row itself, or an ancestor whose content the device replaces when the ancestor is re-sent)
            from annet.annlib import patching as _p
            _rules = rules
            for i, k in enumerate(path):
                _m, _next = _p._match_row_to_rules(k, _rules)
                if not _m:
                    break
                last = i == len(path) - 1
                if _m["attrs"]["logic"].__name__ == "rewrite" and any(
                        len(pp) == i + 1 and list(pp[:-1]) == list(path[:i]) and (not last or pp[-1] != path[-1]) and
                        (lambda mm: mm and mm["attrs"]["logic"].__name__ == "rewrite")(_p._match_row_to_rules(pp[-1], _rules)[0])
                        for pp in r["paths"]):
                    sig = "cant-delete-row-of-rewrite-group-dropped-when-group-resent"
                    break
                _rules = _next
            # the generators themselves print the negation of the row (`no X`) and an ACL rule written in negated form
            # covers that line directly: the negative line is theirs, sending it removes X
            neg = rev + " " + path[-1]
            parent_new = get(case["new"], path[:-1])
            if sig == "cant-delete-row-removed" and parent_new is not None and any(rw == neg for rw, _ in parent_new) \
                    and list(path[:-1]) + [neg] in [list(pp) for pp in r["paths"]]:
                sig = "cant-delete-row-removed-by-generated-negation"
            if sig == "cant-delete-row-removed" and "%order_reverse" in case["otext"] and \
                    c01.removal_after_creation([list(pp) for pp in r["paths"]], rules, case["vendor"]):
                sig = "order-reverse-pins-removal-after-creation"      # C01's recorded finding F01g, seen through clause (c)
            out.append(dict(sig=sig, what="cant_delete row %r is gone after the patch" % (path,)))
            break
    return out


def nontrivial(case, r):
    return "paths" in r and len(r["paths"]) >= 2


def glue_stats(case, r):
    part = glue.participating(case)
    ms = glue.margins(case)
    lab = ["kind=glue", "glue:vendor=" + case["vendor"], "glue:family=" + case["family"],
           "glue:generators=%d" % len(case["gens"]), "glue:participating=%d" % len(part),
           "glue:combined-acl=" + ("empty" if not glue.ref_combined(case).strip() else "non-empty"),
           "glue:literal-margins=" + ("none" if not ms else "equal" if len(set(ms)) == 1 else
                                      "deeper-after-shallower" if any(b > a for a, b in zip(ms, ms[1:])) else
                                      "shallower-after-deeper")]
    lab += sorted({"glue:generator-mode=" + g["mode"] for g in case["gens"]})
    if case.get("no_new"):
        lab.append("glue:--clear")
    lab.append("glue:acl-exclusive=" + ("on" if case.get("exclusive", True) else "off"))
    if "err" in r:
        lab.append("glue:result=" + r["err"])
    else:
        n = len(r["paths"])
        lab.append("glue:cmds=%s" % ("0" if n == 0 else "1-3" if n <= 3 else "4-9" if n <= 9 else "10+"))
        if n and len(part) < len(case["gens"]):
            lab.append("glue:patch-with-some-generator-left-out")
    return lab


def stats(case, r):
    if case.get("kind") == "glue":
        return glue_stats(case, r)
    lab = ["vendor=" + case["vendor"], "acl-generators=%d" % len(case["acl_texts"])]
    if "err" in r:
        lab.append("result=" + r["err"])
    else:
        n = len(r["paths"])
        lab.append("cmds=%s" % ("0" if n == 0 else "1-3" if n <= 3 else "4-9" if n <= 9 else "10+"))
    if any("%cant_delete=1" in t for t in case["acl_texts"]):
        lab.append("acl:cant_delete")
    if any("%global" in t for t in case["acl_texts"]):
        lab.append("acl:global")
    return lab


def _op_drops(ops):
    for i in range(len(ops)):
        yield ops[:i] + ops[i + 1:]
        if ops[i][0] == "b":
            for sub in _op_drops(ops[i][3]):
                yield ops[:i] + [ops[i][:3] + [sub]] + ops[i + 1:]


def glue_shrink_candidates(case, drops):
    gens = case["gens"]
    for i in range(len(gens)):
        if len(gens) > 1:
            yield dict(case, gens=gens[:i] + gens[i + 1:])
    for nt in drops(case["old"]):
        yield dict(case, old=nt)
    for i, g in enumerate(gens):
        for ops in _op_drops(g["ops"]):
            yield dict(case, gens=gens[:i] + [dict(g, ops=ops)] + gens[i + 1:])
        if g["acl"]:
            ls = g["acl"].split("\n")
            for j in range(len(ls)):
                if ls[j].strip():
                    yield dict(case, gens=gens[:i] + [dict(g, acl="\n".join(ls[:j] + ls[j + 1:]))] + gens[i + 1:])
    if case.get("no_new"):
        yield dict(case, no_new=False)
    if case.get("exclusive"):
        yield dict(case, exclusive=False)


def shrink_candidates(case):
    def drops(tree):
        for i in range(len(tree)):
            yield tree[:i] + tree[i + 1:]
            for sub in drops(tree[i][1]):
                yield tree[:i] + [[tree[i][0], sub]] + tree[i + 1:]
    if case.get("kind") == "glue":
        yield from glue_shrink_candidates(case, drops)
        return
    for side in ("old", "new"):
        for nt in drops(case[side]):
            yield dict(case, **{side: nt})
    for gi, text in enumerate(case["acl_texts"]):
        ls = [l for l in text.split("\n") if l.strip()]
        for i in range(len(ls)):
            nl = ls[:i] + ls[i + 1:]
            if nl:
                yield dict(case, acl_texts=case["acl_texts"][:gi] + ["\n".join(nl) + "\n"] + case["acl_texts"][gi + 1:])
