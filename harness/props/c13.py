"""C13 — JSON fragments stay inside their pointers; JSON patches reproduce the target.

impl   : annet.annlib.jsontools.{apply_json_fragment, make_patch, apply_patch, apply_acl_filters,
         _resolve_json_pointers}, annet.generators.result.RunGeneratorResult.new_json_fragment_files
         (one call, and the full / --acl-safe views computed in turn on ONE object as gen.py does),
         annet.api.PCDeployerJob.parse_result and annet.api._patch_worker (what `annet deploy` / `annet patch` upload)
         (+ the library pieces the model contains: jsonpointer.JsonPointer, fnmatch.fnmatchcase)
model  : Annet.Json.* (lean/AnnetModel/Model/Json.lean) through Glue/C13.lean
oracle : the laws of the property evaluated on the real result only, with an independent pointer/glob
         reading (strings are scalars; `fnmatch` is the only shared library):
           resolve    _resolve_json_pointers(p, d) == the pointers of d selected by p, in document order
           inside     for every acl pattern p:  {q -> r[q] | q in r matches p} == {q -> f[q] | q in f matches p}
           outside    every path of old / r that no pattern covers (nor is an ancestor of) is unchanged;
                      ancestors keep their kind, new ancestors are objects
           idempotent apply(r, f, acl) == r
           patch      loads(apply_patch(dumps(old), format_json(make_patch(old, new)))) == new  (JSON equality)
           filter     apply_acl_filters(d, F) is a sub-document of d
           views      (glue, result.py:83-120) every merge of the fold over the generators of a file keeps inside /
                      outside (observed on fresh objects for every prefix of the chain); a view is that fold; the
                      k-th computation on one RunGeneratorResult equals the view a fresh one gives, computing twice
                      gives the same; fragments, pointer lists and old files are only read
           callers    (glue, api/__init__.py:269-278, 451-457) for every file, missing on the device (None) or not:
                      loads(apply_patch(dumps(old) or None, uploaded patch)) == new; nothing uploaded only if old == new
Documents travel in cases as tagged values (objects as ordered pair lists), so a replay is exact.
"""
import copy
import fnmatch as _fnmatch
import json
import random

ID = "C13"
RULE = ("documents old/new/f are drawn from one random schema (objects with keys from a pool containing "
        "'/', '~', '|', '*', blanks, non-ASCII, digit-like and '-' keys; arrays; string/int/bool/null scalars; "
        "depth <= 4), acl / filter lists of 0-4 glob pointers derived from schema paths (literal, *, prefix*, "
        "*suffix, ?, [set], [!set], ranges, array indices, too-deep and non-matching patterns); kinds: fragment "
        "(plus second application), chain of 2-3 generators through RunGeneratorResult.new_json_fragment_files, "
        "patch round trip (plus perturbed op lists for the RFC 6902 model), filters, pointer resolution, "
        "views (2-3 generators over 1-2 files, missing files included, whose acl / acl_safe lists are cuts of one schema "
        "path so that later generators select inside or around what earlier ones install; one RunGeneratorResult computes "
        "a sequence of full/safe views: FT FTF FTFT TF FF TTF TFT; every prefix of every chain is also computed on fresh "
        "objects), callers (1-3 files per device, 35% missing on the device, new / acl-safe documents re-drawn, slightly "
        "edited, equal or empty; --acl-safe and --entire-reload no/yes/force; PCDeployerJob.parse_result and _patch_worker "
        "run on the same OldNewResult and every uploaded patch is applied with apply_patch), "
        "fnmatch and JSON-pointer syntax streams; a smaller malformed stream breaks the schema (model tie only); "
        "plus the exhaustive universe of 49 x 49 two-key documents x 9 acl lists (fragment), 49 x 9 (filters), "
        "49 x 49 (patch), and every glob of length <= 5 over the alphabet []!-a (thorough: []!-ab^*\\) against 12 names. "
        "A case is non-trivial when the real call changed/selected something (or a patch has >= 2 ops); "
        "distinct = distinct canonical case")
TRUSTED_BASE = [
    "Lean 4.33 kernel; axioms per theorem are listed in axioms_per_theorem (subset of propext, Classical.choice, Quot.sound)",
    "correspondence harness harness/props/c13.py + compiled Lean driver (Lean compiler) evaluating Model/Json.lean",
    "the oracle's reading of 'd|acl' (pointer-wise, strings are scalars) in harness/props/c13.py; fnmatch.fnmatchcase is shared with the implementation",
    "jsonpatch.make_patch (diff algorithm) is a parameter of the model; jsonpatch.apply, jsonpointer, fnmatch are modelled and tied on generated inputs only",
    "json.dumps/json.loads round trip of documents (integers, strings, bool, null only; no floats)",
]
ASSUMPTIONS = [
    "LibCorrect lib: applyPatch a (lib a b) = ok b -- checked on every generated pair; the pairs on which jsonpatch 1.33 itself breaks it are reported as findings (patch.jsonpatch-lib.*)",
    "hypotheses of the *_partial theorems: SpineObj ps old (what the device document has above a selectable pointer is an object) and SpineNoArr ps f / SpineNoArr ps d (the fragment / the filtered document has no array there: objects and scalars, strings included since 33969c0); the share of generated cases inside them is reported as frag.theorem-hypotheses-hold / filter.theorem-hypotheses-hold, and a law broken inside them gets the signature *.inside-theorem-domain.*",
    "C13_resolve_sound_complete has no hypothesis besides unique keys and a non-root pattern: the resolve stream checks it on every generated (document, pattern), malformed documents included",
    "documents are JSON values without floats; dict keys are unique (J.WF)",
    "aliasing of fragment sub-objects inside the result (no deepcopy in apply_json_fragment) is not modelled; inputs are copied per call -- its observable consequence (a later merge or a later view changing a generator's fragment, a view depending on what was computed before) is checked on the real objects by the views kind, where the model (a function of values) says `nothing is mutated, every view is the fold`",
    "callers kind: the deploy driver is a stub without commands, the device is HardwareView('PC', ''), the file differ is UnifiedFileDiffer, res_diff_patch is replaced by the generated OldNewResult; which files are uploaded and with which operations is the code's choice (the model applies those operations)",
]
EXHAUSTIVE = {"quick": False, "thorough": False}

KEYS_COMMON = ["a", "b", "ab", "c", "a/b", "m~n", "x|y", "k*", "a b", "Z", "é", "eth0", "p?", "[x]"]
KEYS_RARE = ["", "0", "1", "10", "-", "~", "/", "~1", "a/", "*"]
SCAL_STR = ["x", "y", "", "0", "x/y", "zz", "1"]
SCAL_OTHER = [0, 1, 7, -3, True, False, None]


# ------------------------------------------------------------------ tagged documents
def enc(d):
    if isinstance(d, dict):
        return {"o": [[k, enc(v)] for k, v in d.items()]}
    if isinstance(d, (list, tuple)):
        return {"a": [enc(v) for v in d]}
    return d


def dec(t):
    if isinstance(t, dict):
        if "o" in t:
            return {k: dec(v) for k, v in t["o"]}
        return [dec(v) for v in t["a"]]
    return t


def esc(s):
    return s.replace("~", "~0").replace("/", "~1")


def strict_eq(a, b):
    """JSON equality: true != 1, key order irrelevant."""
    if type(a) is not type(b):
        return False
    if isinstance(a, dict):
        return a.keys() == b.keys() and all(strict_eq(a[k], b[k]) for k in a)
    if isinstance(a, list):
        return len(a) == len(b) and all(strict_eq(x, y) for x, y in zip(a, b))
    return a == b


# ------------------------------------------------------------------ generators
def gen_schema(rng, depth, keys):
    r = rng.random()
    if depth <= 0 or r < 0.25:
        return ("s",)
    if r < 0.82:
        n = rng.randint(1, 4)
        ks = rng.sample(keys, min(n, len(keys)))
        return ("o", [(k, gen_schema(rng, depth - 1, keys)) for k in ks])
    return ("a", gen_schema(rng, depth - 1, keys))


def gen_scalar(rng, strings_only=False):
    if strings_only or rng.random() < 0.7:
        return rng.choice(SCAL_STR)
    return rng.choice(SCAL_OTHER)


def gen_doc(rng, sch, p_key=0.7, strings_only=False):
    if sch[0] == "s":
        if rng.random() < 0.05:
            return [gen_scalar(rng, strings_only) for _ in range(rng.randint(0, 2))]
        return gen_scalar(rng, strings_only)
    if sch[0] == "a":
        if rng.random() < 0.04:
            return gen_scalar(rng, strings_only)
        return [gen_doc(rng, sch[1], p_key, strings_only) for _ in range(rng.randint(0, 3))]
    items = [(k, s) for k, s in sch[1] if rng.random() < p_key]
    rng.shuffle(items)
    return {k: gen_doc(rng, s, p_key, strings_only) for k, s in items}


def glob_of(rng, key):
    r = rng.random()
    if r < 0.45:
        return esc(key)
    if r < 0.63:
        return "*"
    if r < 0.72 and key:
        return esc(key[0]) + "*"
    if r < 0.78 and key:
        return "*" + esc(key[-1])
    if r < 0.84 and key:
        i = rng.randrange(len(key))
        return esc(key[:i]) + "?" + esc(key[i + 1:])
    if r < 0.92 and key:
        i = rng.randrange(len(key))
        c = key[i]
        if c in "]/~-!^\\[":
            cls = "?"
        else:
            cls = rng.choice(["[%sq]" % c, "[!%s]" % c, "[a-c]", "[0-9]", "[!0-1]", "[%s-%s]" % (c, c), "[!a-z]"])
        return esc(key[:i]) + cls + esc(key[i + 1:])
    return rng.choice(["?", "??", "[ab]*", "*b", "zz", "*~1*", "*~0*", "[!a]*", "**", "a*b", "[]x]", "[a", "*[*]"])


def gen_pattern(rng, sch, deep=0.06):
    parts = []
    node = sch
    while True:
        if node[0] == "o":
            k, sub = rng.choice(node[1])
            parts.append(glob_of(rng, k))
            node = sub
        elif node[0] == "a":
            parts.append(rng.choice(["*", "*", "*", "0", "1", "2", "[01]", "?", "[!0]"]))
            node = node[1]
        else:
            if rng.random() < deep:
                parts.append(rng.choice(["*", "0", "a", "?"]))
            break
        if rng.random() < 0.35:
            break
    return "/" + "/".join(parts)


def gen_root(rng, depth=3):
    keys = list(KEYS_COMMON)
    if rng.random() < 0.35:
        keys += rng.sample(KEYS_RARE, 3)
    rng.shuffle(keys)
    keys = keys[:8]
    return ("o", [(k, gen_schema(rng, depth, keys)) for k in rng.sample(keys, rng.randint(1, 4))])


def break_schema(rng, d):
    """malformed stream: replace a random node by a value of another kind"""
    d = copy.deepcopy(d)
    nodes = []

    def walk(x):
        if isinstance(x, dict):
            for k in x:
                nodes.append((x, k))
                walk(x[k])
        elif isinstance(x, list):
            for i in range(len(x)):
                nodes.append((x, i))
                walk(x[i])
    walk(d)
    if nodes:
        parent, k = rng.choice(nodes)
        parent[k] = rng.choice([None, 5, "str", [], {}, ["q", {"z": 1}], {"-": 1, "0": "v"}, True])
    return d


def gen_frag_case(rng, malformed=False):
    sch = gen_root(rng)
    old = gen_doc(rng, sch)
    f = gen_doc(rng, sch, p_key=0.6, strings_only=rng.random() < 0.6)
    acl = [gen_pattern(rng, sch) for _ in range(rng.choice([1, 1, 1, 2, 2, 3]))]
    if malformed:
        which = rng.random()
        if which < 0.4:
            old = break_schema(rng, old)
        elif which < 0.8:
            f = break_schema(rng, f)
        else:
            acl[rng.randrange(len(acl))] = rng.choice(["", "a", "/a~", "/~2", "/", "//", "/a/", "a/b", "/~"])
    return dict(k="frag", old=enc(old), f=enc(f), acl=acl)


def gen_chain_case(rng):
    sch = gen_root(rng)
    old = gen_doc(rng, sch) if rng.random() < 0.85 else None
    gens = []
    for _ in range(rng.randint(2, 3)):
        f = gen_doc(rng, sch, p_key=0.6, strings_only=True)
        gens.append(dict(f=enc(f), acl=[gen_pattern(rng, sch, deep=0.0) for _ in range(rng.choice([1, 1, 2]))]))
    return dict(k="chain", old=enc(old), gens=gens)


def gen_patch_case(rng, perturb="none"):
    sch = gen_root(rng)
    old = gen_doc(rng, sch)
    if rng.random() < 0.5:
        new = gen_doc(rng, sch)
    else:  # small edit distance: re-draw a few subtrees
        new = copy.deepcopy(old)
        for _ in range(rng.randint(1, 3)):
            other = gen_doc(rng, sch)
            for k in rng.sample(list(other), min(len(other), 1)):
                if rng.random() < 0.3 and k in new:
                    del new[k]
                else:
                    new[k] = other[k]
    return dict(k="patch", old=enc(old), new=enc(new), perturb=perturb)


def gen_filter_case(rng, malformed=False):
    sch = gen_root(rng)
    d = gen_doc(rng, sch)
    F = [gen_pattern(rng, sch) for _ in range(rng.randint(0, 4))]
    F = [(rng.choice([" ", "\t", ""]) + x + rng.choice([" ", " \t", "\n", ""])) if rng.random() < 0.15 else x for x in F]
    if rng.random() < 0.2:
        F.insert(rng.randrange(len(F) + 1), rng.choice(["", "  ", "\t"]))
    if malformed:
        F.append(rng.choice(["a", "/a~", "/~2x", "x/y"]))
    return dict(k="filter", d=enc(d), F=F)


def gen_resolve_case(rng):
    sch = gen_root(rng)
    d = gen_doc(rng, sch)
    if rng.random() < 0.1:
        d = break_schema(rng, d)
    return dict(k="resolve", d=enc(d), pattern=gen_pattern(rng, sch, deep=0.3))


FNX_NAMES = ["", "a", "-", "!", "]", "[", "b", "a-", "-a", "ab", "^", "\\"]
FN_ALPHA = list("ab0-!]^[*?\\~/.c|&") + ["é", "\n"]


def gen_fnmatch_case(rng):
    if rng.random() < 0.5:
        pat = "".join(rng.choice(FN_ALPHA) for _ in range(rng.randint(0, 7)))
    else:
        pieces = ["*", "?", "[ab]", "[!a]", "[a-c]", "[0-9]", "[!0-1]", "[]]", "[!]]", "[c-a]", "[a-]", "[-a]", "[!-a]",
                  "[a-cx-z]", "[a-c-e]", "[", "[!", "a", "b", "0", "-", "]", "[^a]", "[[]", "[*]", "[?]", "[\\]", "[a\\-c]",
                  "[&&]", "[~~]", "[||a]", "[b-ad-c]", "[!b-a]", "[]-[!-a]", "[]-[", "[a-a]", "[]-]", "[!]-[a]", "[b-a-c]"]
        pat = "".join(rng.choice(pieces) for _ in range(rng.randint(1, 4)))
    name = "".join(rng.choice(list("abc0-]^[*?\\!~") + ["é", "\n"]) for _ in range(rng.randint(0, 4)))
    return dict(k="fnmatch", name=name, pat=pat)


def gen_pointer_case(rng):
    alpha = ["/", "/", "~0", "~1", "~", "a", "b", "0", "-", "~2", "*", " ", "é", "\n", "~01", "~10"]
    s = "".join(rng.choice(alpha) for _ in range(rng.randint(0, 6)))
    if rng.random() < 0.6 and not s.startswith("/"):
        s = "/" + s
    return dict(k="pointer", s=s)


# ------------------------------------------------------------------ glue kinds (views, callers): generators
def gen_parts_full(rng, sch):
    """glob parts along one schema path, from the root down to a leaf"""
    parts, node = [], sch
    while node[0] != "s":
        if node[0] == "o":
            k, sub = rng.choice(node[1])
            parts.append(glob_of(rng, k))
            node = sub
        else:
            parts.append(rng.choice(["*", "*", "*", "0", "1", "[01]", "?"]))
            node = node[1]
    return parts


def _cut(rng, parts):
    return "/" + "/".join(parts[:rng.randint(1, len(parts))])


# the computations one RunGeneratorResult is asked for, in order: F = full view, T = safe view (gen.py:264, 284)
VIEW_SEQS = ["FT", "FT", "FT", "FTF", "FTFT", "TF", "FF", "TTF", "TFT"]


def gen_views_case(rng):
    """2-3 generators over one file (sometimes two files) whose pointer patterns are cuts of ONE schema path, so that
    a later generator often selects inside (or around) what an earlier one installed; acl_safe is the acl, a part of
    it, nothing, or another cut of the same path"""
    sch = gen_root(rng)
    nfiles = 2 if rng.random() < 0.25 else 1
    files = [None if rng.random() < 0.15 else gen_doc(rng, sch) for _ in range(nfiles)]
    shared = gen_parts_full(rng, sch)
    strings_only = rng.random() < 0.7
    gens = []
    for _ in range(rng.randint(2, 3)):
        base = shared if rng.random() < 0.75 else gen_parts_full(rng, sch)
        if rng.random() < 0.2:
            base = list(base)
            base[rng.randrange(len(base))] = "*"
        acl = [_cut(rng, base) for _ in range(rng.choice([1, 1, 2]))]
        r = rng.random()
        if r < 0.35:
            safe = list(acl)
        elif r < 0.6:
            safe = []
        elif r < 0.8:
            safe = acl[:1]
        else:
            safe = [_cut(rng, base)]
        f = gen_doc(rng, sch, p_key=0.7, strings_only=strings_only)
        gens.append(dict(file=rng.randrange(nfiles), f=enc(f), acl=acl, safe=safe))
    return dict(k="views", files=[enc(x) for x in files], gens=gens, seq=rng.choice(VIEW_SEQS))


def _variant(rng, sch, old):
    r = rng.random()
    if r < 0.10:
        return {}
    if r < 0.22:
        return copy.deepcopy(old) if old is not None else {}
    if r < 0.60 or not old:
        return gen_doc(rng, sch)
    new = copy.deepcopy(old)         # small edit distance: re-draw a few subtrees
    for _ in range(rng.randint(1, 3)):
        other = gen_doc(rng, sch)
        for k in rng.sample(list(other), min(len(other), 1)):
            if rng.random() < 0.3 and k in new:
                del new[k]
            else:
                new[k] = other[k]
    return new


def gen_callers_case(rng):
    """1-3 JSON_FRAGMENT files of one device as annet.gen leaves them in an OldNewResult: the old document (None = the
    file is not on the device, gen.py:360), the new one and the --acl-safe one; flags of the deploy / patch commands"""
    sch = gen_root(rng)
    files = []
    for _ in range(rng.randint(1, 3)):
        r = rng.random()
        old = None if r < 0.35 else ({} if r < 0.42 else gen_doc(rng, sch))
        files.append(dict(old=enc(old), new=enc(_variant(rng, sch, old)), safe=enc(_variant(rng, sch, old))))
    return dict(k="callers", files=files, acl_safe=rng.random() < 0.35, reload=rng.choice(["yes", "yes", "no", "force"]))


# exhaustive small universe: every (old, fragment) pair over these values under every listed acl
EXH_VALUES = ["x", "y", {}, {"k": "x"}, {"k": "y", "l": "x"}, ["x"]]
EXH_ACLS = [["/a"], ["/*"], ["/a/k"], ["/a/*"], ["/a", "/a/k"], ["/*/k"], ["/b", "/a/*"], ["/a/k", "/*"], ["/?/[k-l]"]]


def _exh_docs():
    docs = [{}]
    docs += [{"a": v} for v in EXH_VALUES]
    docs += [{"b": v} for v in EXH_VALUES]
    docs += [{"a": v, "b": w} for v in EXH_VALUES for w in EXH_VALUES]
    return docs


STREAMS = ["frag", "fragbad", "chain", "patch", "patchp", "filter", "filterbad", "resolve", "fnmatch", "pointer",
           "views", "callers"]


def shards(tier, seed):
    out = []
    base = seed * 100000
    if tier == "quick":
        n = 32
        sizes = dict(frag=2000, fragbad=300, chain=300, patch=1000, patchp=300, filter=900, filterbad=100, resolve=500,
                     fnmatch=2000, pointer=600, views=250, callers=400)
    else:
        n = 160
        sizes = dict(frag=6000, fragbad=900, chain=900, patch=3000, patchp=900, filter=2700, filterbad=300, resolve=1500,
                     fnmatch=6000, pointer=1800, views=500, callers=800)
    # one shard = one stream, so that a burst of violations in one kind cannot crowd out the others
    for i in range(n):
        for j, stream in enumerate(STREAMS):
            out.append(dict(kind="rnd", stream=stream, seed=base + i * 16 + j, n=sizes[stream]))
    for i in range(len(_exh_docs())):
        out.append(dict(kind="exh", old=i))
    # every glob over a small alphabet of fnmatch meta-characters, against a fixed set of names
    alpha, maxlen = ("[]!-a", 5) if tier == "quick" else ("[]!-ab^*\\", 5)
    for first in alpha:
        out.append(dict(kind="fnx", alpha=alpha, first=first, maxlen=maxlen))
    return out


def gen(desc):
    if desc["kind"] == "exh":
        docs = _exh_docs()
        old = docs[desc["old"]]
        for f in docs:
            for acl in EXH_ACLS:
                yield dict(k="frag", old=enc(old), f=enc(f), acl=list(acl))
        for F in EXH_ACLS:
            yield dict(k="filter", d=enc(old), F=list(F))
        for new in docs:
            yield dict(k="patch", old=enc(old), new=enc(new), perturb="none")
        return
    if desc["kind"] == "fnx":
        import itertools
        if desc["first"] == desc["alpha"][0]:
            for nm in FNX_NAMES:
                yield dict(k="fnmatch", name=nm, pat="")
        for ln in range(0, desc["maxlen"]):
            for t in itertools.product(desc["alpha"], repeat=ln):
                pat = desc["first"] + "".join(t)
                for nm in FNX_NAMES:
                    yield dict(k="fnmatch", name=nm, pat=pat)
        return
    rng = random.Random(desc["seed"])
    stream = desc["stream"]
    for _ in range(desc["n"]):
        if stream == "frag":
            yield gen_frag_case(rng)
        elif stream == "fragbad":
            yield gen_frag_case(rng, malformed=True)
        elif stream == "chain":
            yield gen_chain_case(rng)
        elif stream == "patch":
            yield gen_patch_case(rng)
        elif stream == "patchp":
            yield gen_patch_case(rng, perturb=rng.choice(["sort", "rev", "drop", "dup", "swap"]))
        elif stream == "filter":
            yield gen_filter_case(rng)
        elif stream == "filterbad":
            yield gen_filter_case(rng, malformed=True)
        elif stream == "resolve":
            yield gen_resolve_case(rng)
        elif stream == "fnmatch":
            yield gen_fnmatch_case(rng)
        elif stream == "pointer":
            yield gen_pointer_case(rng)
        elif stream == "views":
            yield gen_views_case(rng)
        elif stream == "callers":
            yield gen_callers_case(rng)


# ------------------------------------------------------------------ real code
def setup_worker():
    pass


def _call(fn):
    try:
        return {"ok": enc(fn())}
    except Exception as e:  # the exception class is the observable
        return {"err": type(e).__name__}


def _perturb(ops, how, case):
    ops = copy.deepcopy(ops)
    rng = random.Random(json.dumps(case, sort_keys=True))
    if how == "sort":
        return sorted(ops, key=lambda o: o["path"])
    if how == "rev":
        return list(reversed(ops))
    if not ops:
        return ops
    i = rng.randrange(len(ops))
    if how == "drop":
        return ops[:i] + ops[i + 1:]
    if how == "dup":
        return ops[:i] + [copy.deepcopy(ops[i])] + ops[i:]
    if how == "swap":
        j = rng.randrange(len(ops))
        o = dict(ops[i])
        o["path"] = ops[j]["path"]
        if rng.random() < 0.3:
            o["op"] = rng.choice(["copy", "move", "remove", "replace", "add"])
            if o["op"] in ("copy", "move"):
                o["from"] = ops[rng.randrange(len(ops))]["path"]
            if o["op"] in ("add", "replace") and "value" not in o:
                o["value"] = "v"
        return ops[:i] + [o] + ops[i + 1:]
    return ops


def _patch_ops(case):
    """the operations the real make_patch produces for the case (perturbed for the model-tie stream)"""
    from annet.annlib import jsontools
    ops = jsontools.make_patch(dec(case["old"]), dec(case["new"]))
    ops = json.loads(jsontools.format_json(ops))   # what the callers upload (api/__init__.py:275-278, 455-456)
    if case["perturb"] != "none":
        ops = _perturb(ops, case["perturb"], case)
    return ops


def _enc_op(o):
    o = dict(o)
    if "value" in o:
        o["value"] = enc(o["value"])
    return o


def _real_chain(old, gens):
    """RunGeneratorResult.new_json_fragment_files over one file; old None = the device has no such file"""
    from annet.generators.result import RunGeneratorResult
    from annet.types import GeneratorJSONFragmentResult

    def run():
        res = RunGeneratorResult()
        for i, (f, acl) in enumerate(gens):
            res.add_json_fragment(GeneratorJSONFragmentResult(
                name="g%d" % i, tags=[], path="/etc/f.json", acl=list(acl), acl_safe=list(acl),
                config=copy.deepcopy(f), reload="r%d" % i, perf=None, reload_prio=100))
        mine = copy.deepcopy(old)
        files = res.new_json_fragment_files({"/etc/f.json": mine})
        if mine != old:
            raise InputMutated()
        return files["/etc/f.json"][0]
    return _call(run)


class InputMutated(Exception):
    """new_json_fragment_files changed the old file it was given (the callers build the patch from it afterwards)"""


# ------------------------------------------------------------------ glue kinds: the real code
def _view_flags(case):
    return [c for c in "FT" if c in case["seq"]]


def _flagname(c):
    return "safe" if c == "T" else "full"


def _view_paths(case):
    return ["/etc/f%d.json" % j for j in range(len(case["files"]))]


def _gens_of_file(case, j):
    return [i for i, g in enumerate(case["gens"]) if g["file"] == j]


def _real_views(case):
    """One RunGeneratorResult asked for the views of case['seq'] in turn (what gen.py does with --acl-safe), the
    state of its inputs after every computation, and the same views on FRESH objects: whole (`fresh`) and for every
    prefix of the generators of one file (`steps`), so that each merge of the fold is observable"""
    from annet.generators.result import RunGeneratorResult
    from annet.types import GeneratorJSONFragmentResult
    paths = _view_paths(case)

    def build(idx):
        res, frs = RunGeneratorResult(), []
        for i in idx:
            g = case["gens"][i]
            fr = GeneratorJSONFragmentResult(
                name="g%d" % i, tags=[], path=paths[g["file"]], acl=list(g["acl"]), acl_safe=list(g["safe"]),
                config=dec(g["f"]), reload="r%d" % i, perf=None, reload_prio=100)
            res.add_json_fragment(fr)
            frs.append((i, fr))
        return res, frs, {p: dec(case["files"][j]) for j, p in enumerate(paths)}

    def compute(res, old_files, flag):
        try:
            out = res.new_json_fragment_files(old_files, safe=(flag == "T"))
        except Exception as e:
            return {"err": type(e).__name__}
        return {"ok": [enc(out[p][0]) if p in out else None for p in paths]}

    def changed(res, frs, old_files):
        m = []
        for i, fr in frs:
            g = case["gens"][i]
            if not strict_eq(fr.config, dec(g["f"])) or res.json_fragment_results.get(fr.name) is not fr:
                m.append("fragment:g%d" % i)
            if list(fr.acl) != list(g["acl"]) or list(fr.acl_safe) != list(g["safe"]):
                m.append("acl:g%d" % i)
        for j, p in enumerate(paths):
            if p not in old_files or not strict_eq(old_files[p], dec(case["files"][j])):
                m.append("old:%d" % j)
        return m

    res, frs, old_files = build(range(len(case["gens"])))
    views, mutated = [], []
    for flag in case["seq"]:
        views.append(compute(res, old_files, flag))
        mutated.append(changed(res, frs, old_files))
    fresh, steps = {}, {}
    for flag in _view_flags(case):
        r2, _, o2 = build(range(len(case["gens"])))
        fresh[_flagname(flag)] = compute(r2, o2, flag)
        per_file = []
        for j in range(len(paths)):
            idx, reps = _gens_of_file(case, j), []
            for n in range(1, len(idx) + 1):
                r3, _, o3 = build(idx[:n])
                rep = compute(r3, o3, flag)
                reps.append(rep if "err" in rep else {"ok": rep["ok"][j]})
            per_file.append(reps)
        steps[_flagname(flag)] = per_file
    return dict(views=views, mutated=mutated, fresh=fresh, steps=steps)


def _combine_steps(case, per_file):
    """the view that the per-file folds amount to: the documents after the last generator of every file, or the
    error of the generator that fails first in generator order"""
    errs = []
    for j, reps in enumerate(per_file):
        idx = _gens_of_file(case, j)
        for n, rep in enumerate(reps):
            if "err" in rep:
                errs.append((idx[n], rep["err"]))
                break
    if errs:
        return {"err": min(errs)[1]}
    return {"ok": [reps[-1]["ok"] if reps else None for reps in per_file]}


class _CallersEnv:
    pass


_CALLERS_ENV = None


def _callers_env():
    """connectors as annet/annet.py:main() sets them, a PC device and a deploy driver without commands"""
    global _CALLERS_ENV
    if _CALLERS_ENV is None:
        import annet.api as api
        import annet.deploy
        import annet.diff
        import annet.hardware
        import annet.rulebook
        from annet.annlib import jsontools
        from annet.annlib.command import CommandList
        from annet.annlib.netdev.views.hardware import HardwareView
        for conn, cls in ((annet.rulebook.rulebook_provider_connector, annet.rulebook.DefaultRulebookProvider),
                          (annet.hardware.hardware_connector, annet.hardware.AnnetHardwareProvider),
                          (annet.diff.file_differ_connector, annet.diff.UnifiedFileDiffer)):
            if conn._classes is None:
                conn.set(cls)

        class StubDeployer:
            def build_configuration_cmdlist(self, hw, do_finalize=True, do_commit=True, path=None):
                return CommandList(), CommandList()

            def build_exit_cmdlist(self, hw):
                return CommandList()

            def apply_deploy_rulebook(self, hw, cmd_paths, do_finalize=True, do_commit=True):
                return CommandList()

        class Device:
            hostname = "sw1"
            fqdn = "sw1.example.net"
            id = 1
            hw = HardwareView("PC", "")

        env = _CallersEnv()
        env.api, env.deploy, env.jsontools = api, annet.deploy, jsontools
        env.deployer, env.device = StubDeployer(), Device()
        _CALLERS_ENV = env
    return _CALLERS_ENV


_CALLERS_SEEN = {}


def _real_callers(case):
    """_run_callers(case), remembered per case OBJECT: impl, requests and model of one evaluation pass look at the
    same run (the function is deterministic in the case, so this only saves time; none of the three changes it)"""
    hit = _CALLERS_SEEN.get(id(case))
    if hit is not None and hit[0] is case:
        return hit[1]
    out = _run_callers(case)
    if len(_CALLERS_SEEN) > 12000:
        _CALLERS_SEEN.clear()
    _CALLERS_SEEN[id(case)] = (case, out)
    return out


def _run_callers(case):
    """`annet deploy` (PCDeployerJob.parse_result) and `annet patch` (_patch_worker) on one OldNewResult; what they
    would upload for every file is applied with jsontools.apply_patch to what the device has (None = no file)"""
    import os
    import types
    from annet.types import OldNewResult
    env = _callers_env()
    api, jsontools = env.api, env.jsontools
    paths = ["/etc/f%d.json" % i for i in range(len(case["files"]))]
    olds = [dec(f["old"]) for f in case["files"]]
    res = OldNewResult(
        device=env.device,
        old_json_fragment_files={p: copy.deepcopy(o) for p, o in zip(paths, olds)},
        new_json_fragment_files={p: (dec(f["new"]), "reload %d" % i) for i, (p, f) in enumerate(zip(paths, case["files"]))},
        safe_new_json_fragment_files={p: (dec(f["safe"]), "reload %d" % i) for i, (p, f) in enumerate(zip(paths, case["files"]))})

    def observe(uploads):
        rows = []
        for p, o in zip(paths, olds):
            if p not in uploads:
                rows.append({"up": False})
                continue
            raw = uploads[p]
            try:
                ops = json.loads(raw)
                if not isinstance(ops, list) or not all(isinstance(x, dict) and "op" in x and "path" in x for x in ops):
                    raise ValueError
            except Exception:
                rows.append({"up": True, "ops": {"bad": raw.decode(errors="replace")[:200]}, "r": None})
                continue
            content = None if o is None else json.dumps(o).encode()
            rows.append({"up": True, "ops": [_enc_op(x) for x in ops],
                         "r": _call(lambda: json.loads(jsontools.apply_patch(content, raw)))})
        return rows

    out = {}
    saved = env.deploy.get_deployer
    env.deploy.get_deployer = lambda: env.deployer
    try:
        args = types.SimpleNamespace(acl_safe=case["acl_safe"], entire_reload=api.cli_args.EntireReloadFlag(case["reload"]))
        job = api.PCDeployerJob(env.device, args)
        try:
            job.parse_result(res)
            out["deploy"] = {"files": observe(job.deploy_cmds[env.device]["files"] if env.device in job.deploy_cmds else {})}
        except Exception as e:
            out["deploy"] = {"err": type(e).__name__}
    finally:
        env.deploy.get_deployer = saved
    saved = api.res_diff_patch
    api.res_diff_patch = lambda *a, **kw: iter([(res, None, None)])
    try:
        pargs = types.SimpleNamespace(acl_safe=case["acl_safe"], indent="  ")
        try:
            ups, prefix = {}, env.device.hostname + os.sep
            for label, text, _ in api._patch_worker(env.device.id, pargs, None, None, None):
                ups[label[len(prefix):]] = text.encode()
            out["patch"] = {"files": observe(ups)}
        except Exception as e:
            out["patch"] = {"err": type(e).__name__}
    finally:
        api.res_diff_patch = saved
    out["mutated"] = [i for i, (p, o) in enumerate(zip(paths, olds))
                      if p not in res.old_json_fragment_files or not strict_eq(res.old_json_fragment_files[p], o)]
    return out


def impl(case):
    from annet.annlib import jsontools
    k = case["k"]
    if k == "frag":
        old, f, acl = dec(case["old"]), dec(case["f"]), list(case["acl"])
        r = _call(lambda: jsontools.apply_json_fragment(old, f, acl))
        # the caller keeps using its arguments (gen.py hands the device's file to the merge and later builds the
        # patch from that same object): which of them did the call change?
        mutated = [n for n, a, b in (("old", old, dec(case["old"])), ("fragment", f, dec(case["f"])),
                                     ("acl", acl, list(case["acl"]))) if a != b]
        again = None
        if "ok" in r:
            r1 = dec(r["ok"])
            again = _call(lambda: jsontools.apply_json_fragment(r1, dec(case["f"]), list(case["acl"])))
        return dict(r=r, again=again, mutated=mutated)
    if k == "chain":
        return dict(r=_real_chain(dec(case["old"]), [(dec(g["f"]), g["acl"]) for g in case["gens"]]))
    if k == "views":
        return _real_views(case)
    if k == "callers":
        return _real_callers(case)
    if k == "patch":
        try:
            ops = _patch_ops(case)
        except Exception as e:
            return dict(ops={"err": type(e).__name__}, r=None)

        def run():
            out = jsontools.apply_patch(json.dumps(dec(case["old"])).encode(), json.dumps(ops).encode())
            return json.loads(out)
        return dict(ops=[_enc_op(o) for o in ops], r=_call(run))
    if k == "filter":
        d = dec(case["d"])
        return dict(r=_call(lambda: jsontools.apply_acl_filters(d, list(case["F"]))))
    if k == "resolve":
        try:
            ps = jsontools._resolve_json_pointers(case["pattern"], dec(case["d"]))
            return dict(r={"ok": [list(p.parts) for p in ps]})
        except Exception as e:
            return dict(r={"err": type(e).__name__})
    if k == "fnmatch":
        return dict(r=bool(_fnmatch.fnmatchcase(case["name"], case["pat"])))
    if k == "pointer":
        import jsonpointer
        try:
            p = jsonpointer.JsonPointer(case["s"])
            return dict(r={"ok": list(p.parts), "path": p.path})
        except Exception as e:
            return dict(r={"err": type(e).__name__})
    raise ValueError(k)


# ------------------------------------------------------------------ Lean model
def requests(case):
    k = case["k"]
    if k == "frag":
        return [dict(op="c13.fragment", old=case["old"], f=case["f"], acl=case["acl"])]
    if k == "chain":
        old = case["old"] if case["old"] is not None else {"o": []}
        return [dict(op="c13.chain", old=old, gens=case["gens"])]
    if k == "views":
        # every merge of every fold: the model's chain over each prefix of the generators of one file, per view
        out = []
        for flag in _view_flags(case):
            for j in range(len(case["files"])):
                old = case["files"][j] if case["files"][j] is not None else {"o": []}
                idx = _gens_of_file(case, j)
                for n in range(1, len(idx) + 1):
                    out.append(dict(op="c13.chain", old=old, gens=[
                        dict(f=case["gens"][i]["f"], acl=case["gens"][i]["safe" if flag == "T" else "acl"]) for i in idx[:n]]))
        return out
    if k == "callers":
        # RFC 6902 application (model) of the operations the real callers upload, to what the device has
        real = _real_callers(case)
        out = []
        for who in ("deploy", "patch"):
            for f, row in zip(case["files"], real[who].get("files", [])):
                if row["up"] and isinstance(row["ops"], list):
                    out.append(dict(op="c13.patch", doc=f["old"], ops=row["ops"]))
        return out
    if k == "patch":
        try:
            ops = _patch_ops(case)
        except Exception:
            return []          # jsonpatch.make_patch itself raised: nothing to feed to the model
        return [dict(op="c13.patch", doc=case["old"], ops=[_enc_op(o) for o in ops])]
    if k == "filter":
        return [dict(op="c13.filters", doc=case["d"], filters=case["F"])]
    if k == "resolve":
        return [dict(op="c13.resolve", doc=case["d"], pattern=case["pattern"])]
    if k == "fnmatch":
        return [dict(op="c13.fnmatch", name=case["name"], pat=case["pat"])]
    if k == "pointer":
        return [dict(op="c13.pointer", s=case["s"])]
    raise ValueError(k)


def model(case, resp):
    k = case["k"]
    if k == "views":
        it = iter(resp)
        steps = {}
        for flag in _view_flags(case):
            steps[_flagname(flag)] = [[next(it) for _ in _gens_of_file(case, j)] for j in range(len(case["files"]))]
        whole = {name: _combine_steps(case, per_file) for name, per_file in steps.items()}
        # the model is a function of values: a view does not depend on what was computed before, nothing is mutated
        return dict(views=[whole[_flagname(c)] for c in case["seq"]], mutated=[[] for _ in case["seq"]],
                    fresh=whole, steps=steps)
    if k == "callers":
        real = _real_callers(case)       # which files are uploaded, with which operations: the code's choice
        it = iter(resp)
        out = dict(mutated=[])
        for who in ("deploy", "patch"):
            if "files" not in real[who]:
                out[who] = real[who]
                continue
            rows = []
            for row in real[who]["files"]:
                if row["up"] and isinstance(row["ops"], list):
                    row = dict(row, r=next(it))
                rows.append(row)
            out[who] = {"files": rows}
        return out
    r = resp[0]
    if k == "frag":
        return dict(r=r["r"], again=r.get("again"), mutated=[])      # the model is a function: its arguments are values
    if k == "patch":
        return dict(ops=[_enc_op(o) for o in _patch_ops(case)], r=r)
    if k == "fnmatch":
        return dict(r=r["ok"])
    return dict(r=r)


# ------------------------------------------------------------------ oracle (independent reading of the property)
def parse_pat(p):
    """RFC 6901 text -> parts; None when the text is not a pointer with at least one part"""
    if not p.startswith("/"):
        return None
    out = []
    for x in p[1:].split("/"):
        i = 0
        while i < len(x):
            if x[i] == "~":
                if i + 1 >= len(x) or x[i + 1] not in "01":
                    return None
                i += 1
            i += 1
        out.append(x.replace("~1", "/").replace("~0", "~"))
    return out


def children(d):
    if isinstance(d, dict):
        return list(d.items())
    if isinstance(d, list):
        return [(str(i), v) for i, v in enumerate(d)]
    return []


def sel(parts, d):
    """concrete paths of d selected by the glob parts; strings and other scalars have no children"""
    cur = [((), d)]
    for g in parts:
        cur = [(q + (k,), v) for q, n in cur for k, v in children(n) if _fnmatch.fnmatchcase(k, g)]
    return dict(cur)


def zone(acl_parts, q):
    z = "out"
    for p in acl_parts:
        n = len(p)
        if len(q) >= n and all(_fnmatch.fnmatchcase(q[i], p[i]) for i in range(n)):
            return "in"
        if len(q) < n and all(_fnmatch.fnmatchcase(q[i], p[i]) for i in range(len(q))):
            z = "spine"
    return z


MISSING = object()


def kind(d):
    return "o" if isinstance(d, dict) else "a" if isinstance(d, list) else "s"


def check_outside(acl_parts, o, r, q, out):
    z = zone(acl_parts, q)
    if z == "in":
        return
    if z == "out":
        if o is MISSING or r is MISSING or not strict_eq(o, r):
            out.append(("outside-changed", q))
        return
    if o is MISSING or o is None:
        # a created (or null-replaced, jsontools.py:63) ancestor of a selected pointer must be an object
        if o is None and r is None:
            return
        if not isinstance(r, dict):
            out.append(("spine-created-nonobject", q))
            return
        for k, v in r.items():
            check_outside(acl_parts, MISSING, v, q + (k,), out)
        return
    if r is MISSING:
        out.append(("spine-lost", q))
        return
    if kind(o) != kind(r):
        out.append(("spine-kind-changed", q))
        return
    if kind(o) == "s":
        if not strict_eq(o, r):
            out.append(("spine-scalar-changed", q))
        return
    co, cr = dict(children(o)), dict(children(r))
    for k in list(co) + [k for k in cr if k not in co]:
        check_outside(acl_parts, co.get(k, MISSING), cr.get(k, MISSING), q + (k,), out)


def obj_consistent(a, b):
    """one schema: a path that is an object (an array) in one document is an object (an array) in every
    document that has it; scalars of any type (null included) are interchangeable among themselves"""
    if kind(a) != kind(b):
        return False
    if isinstance(a, dict):
        return all(obj_consistent(a[k], b[k]) for k in a if k in b)
    if isinstance(a, list):
        return all(obj_consistent(x, y) for x, y in zip(a, b))
    return True


def spine_ok(parts, d):
    """the hypothesis of the Lean theorems (Spec `spineOk`): every node met before the last part is an object"""
    if not parts:
        return True
    if not isinstance(d, dict):
        return False
    return all(spine_ok(parts[1:], v) for k, v in d.items() if _fnmatch.fnmatchcase(k, parts[0]))


def noarr_ok(parts, d):
    """Spec `noArrOk`: no array is met before the last part (objects are followed, a scalar ends the walk)"""
    if not parts:
        return True
    if isinstance(d, list):
        return False
    if not isinstance(d, dict):
        return True
    return all(noarr_ok(parts[1:], v) for k, v in d.items() if _fnmatch.fnmatchcase(k, parts[0]))


def frag_in_theorem_domain(old, f, acl):
    """hypotheses of C13_fragment_{inside,outside,idempotent}_partial: SpineObj ps old, SpineNoArr ps f"""
    aps = [parse_pat(p) for p in acl]
    return all(ps for ps in aps) and all(spine_ok(ps, old) and noarr_ok(ps, f) for ps in aps)


def filter_in_theorem_domain(d, texts):
    """hypotheses of C13_filters_subdocument_partial: d is an object, SpineNoArr ps d"""
    aps = [parse_pat(p) for p in texts]
    return isinstance(d, dict) and all(ps for ps in aps) and all(noarr_ok(ps, d) for ps in aps)


def frag_symptoms(old, f, acl, r_reply, again_reply):
    """list of (symptom, detail) for one apply_json_fragment observation"""
    if "err" in r_reply:
        return [("raises-" + r_reply["err"], None)]
    r = dec(r_reply["ok"])
    out = []
    aps = [parse_pat(p) for p in acl]
    for p, ps in zip(acl, aps):
        sr, sf = sel(ps, r), sel(ps, f)
        if set(sr) != set(sf):
            out.append(("inside-keys", dict(pattern=p, extra=sorted(set(sr) - set(sf)), missing=sorted(set(sf) - set(sr)))))
        elif any(not strict_eq(sr[q], sf[q]) for q in sr):
            out.append(("inside-values", dict(pattern=p)))
    o2 = []
    check_outside(aps, old, r, (), o2)
    out.extend(o2)
    if again_reply is not None:
        if "err" in again_reply:
            out.append(("again-raises-" + again_reply["err"], None))
        elif not strict_eq(dec(again_reply["ok"]), r):
            out.append(("not-idempotent", None))
    return out


def string_descents(acl_parts, docs):
    """paths of string values below which some pattern continues with a part that matches a character
    position: where the resolver of before commit 33969c0 (`isinstance(doc, Sequence)`) walked into a str"""
    hits = set()
    for ps in acl_parts:
        for d in docs:
            cur = [((), d)]
            for g in ps:
                nxt = []
                for q, n in cur:
                    if isinstance(n, str):
                        if any(_fnmatch.fnmatchcase(str(i), g) for i in range(len(n))):
                            hits.add(q)
                        continue
                    for k, v in children(n):
                        if _fnmatch.fnmatchcase(k, g):
                            nxt.append((q + (k,), v))
                cur = nxt
    return hits


def neutralise(docs, hits):
    """replace the strings the patterns continue below by non-sequence scalars -- injectively (distinct
    strings get distinct numbers, the same string the same number in every document), so that every
    comparison between the documents comes out as before and only `is it a Sequence` changes"""
    strings = sorted({v for d in docs for q in hits for v in [_get(d, q)] if isinstance(v, str)})
    code = {x: 424200 + i for i, x in enumerate(strings)}

    def go(d, q=()):
        if q in hits and isinstance(d, str):
            return code[d]
        if isinstance(d, dict):
            return {k: go(v, q + (k,)) for k, v in d.items()}
        if isinstance(d, list):
            return [go(v, q + (str(i),)) for i, v in enumerate(d)]
        return d
    return [go(d) for d in docs]


def _resolver_descends(patterns, docs):
    """direct evidence of the defect repaired by 33969c0: the REAL _resolve_json_pointers returns a pointer
    that passes through a string value of the document it was given"""
    from annet.annlib import jsontools
    for p in patterns:
        for d in docs:
            try:
                ptrs = jsontools._resolve_json_pointers(p, copy.deepcopy(d))
            except Exception:
                continue
            for ptr in ptrs:
                parts = tuple(ptr.parts)
                if any(isinstance(_get(d, parts[:j]), str) for j in range(len(parts))):
                    return True
    return False


def _real_fragment(old, f, acl):
    from annet.annlib import jsontools
    r = _call(lambda: jsontools.apply_json_fragment(copy.deepcopy(old), copy.deepcopy(f), list(acl)))
    again = None
    if "ok" in r:
        again = _call(lambda: jsontools.apply_json_fragment(dec(r["ok"]), copy.deepcopy(f), list(acl)))
    return r, again


def classify_frag(old, f, acl, symptoms, r_reply):
    """signatures for symptoms that are not explained by string descent"""
    sigs = []
    r = dec(r_reply["ok"]) if "ok" in r_reply else None
    for name, det in symptoms:
        if name == "inside-keys" and r is not None and not det["missing"] and det["extra"] and all(
                isinstance(_get(r, q[:-1]), list) for q in det["extra"]):
            sigs.append(("frag.array-element-not-removed",
                         "array elements selected by %r but absent from the fragment stay in the result: %s"
                         % (det["pattern"], ["/".join(q) for q in det["extra"][:3]])))
        elif name == "raises-JsonPointerException" and _missing_below_array(old, f, acl):
            sigs.append(("frag.missing-parent-below-array",
                         "a selected pointer runs through an existing array element whose object lacks the next "
                         "member: _ensure_pointer_exists stops at arrays, pointer.set raises"))
        elif name in ("raises-IndexError", "raises-JsonPointerException") and _array_grows(old, f, acl):
            sigs.append(("frag.array-grows",
                         "an acl pattern selects elements of a fragment array that is longer than the device's array: %s" % name))
        else:
            sigs.append(("frag." + name, "law broken: %s %s" % (name, json.dumps(det, ensure_ascii=False)[:200] if det else "")))
    return sigs


def _get(d, q):
    for k in q:
        if isinstance(d, dict):
            if k not in d:
                return MISSING
            d = d[k]
        elif isinstance(d, list):
            if not k.isdigit() or int(k) >= len(d):
                return MISSING
            d = d[int(k)]
        else:
            return MISSING
    return d


def _array_grows(old, f, acl):
    """some selected pointer of the fragment goes through an array element that has no slot in the
    device's array at the same path"""
    for p in acl:
        ps = parse_pat(p)
        for q in sel(ps, f):
            for j in range(len(q)):
                if isinstance(_get(f, q[:j]), list):
                    o = _get(old, q[:j])
                    if isinstance(o, list) and len(o) <= int(q[j]):
                        return True
    return False


def _missing_below_array(old, f, acl):
    """some selected pointer of the fragment passes an array element the device has, and below it a
    parent the device lacks"""
    for p in acl:
        ps = parse_pat(p)
        for q in sel(ps, f):
            for j in range(len(q) - 1):
                if isinstance(_get(old, q[:j]), list) and _get(old, q[:j + 1]) is not MISSING:
                    if any(_get(old, q[:m]) is MISSING for m in range(j + 2, len(q))):
                        return True
                    break
    return False


def _names(sym):
    return [x[0] for x in sym]


def oracle_frag(old, f, acl, r_reply, again_reply, label=""):
    aps = [parse_pat(p) for p in acl]
    if any(ps is None for ps in aps) or not isinstance(old, dict) or not isinstance(f, dict) or not obj_consistent(old, f):
        return []          # outside the quantifier (malformed stream: model tie only)
    sym = frag_symptoms(old, f, acl, r_reply, again_reply)
    if not sym:
        return []
    out = []
    # Regression test for the defect repaired by 33969c0.  The signature is assigned only if BOTH hold:
    # the real resolver returns a pointer through a string value, and the symptoms change when exactly the
    # strings the patterns continue below are swapped for non-sequence scalars.  Whatever is left after the
    # swap (or everything, if the strings are not the cause) is classified on its own below.
    hits = string_descents(aps, [old, f])
    if hits:
        old2, f2 = neutralise([old, f], hits)
        r2, again2 = _real_fragment(old2, f2, acl)
        sym2 = frag_symptoms(old2, f2, acl, r2, again2)
        if sym2 != sym and _resolver_descends(acl, [old, f]):      # symptoms compared with their details (paths)
            out.append(("frag.pattern-descends-into-string",
                        "REGRESSION of the repair 33969c0: an acl pattern continues below a string value (%s) and "
                        "_resolve_json_pointers treats its characters as children (%s)"
                        % (sorted("/".join(h) for h in hits)[:3], ", ".join(_names(sym)))))
            old, f, sym, r_reply = old2, f2, sym2, r2
    if sym:
        if frag_in_theorem_domain(old, f, acl):
            # the Lean theorems C13_fragment_*_partial cover this input: the model or the proof is wrong
            out.append(("frag.inside-theorem-domain." + sym[0][0],
                        "law broken on an input that satisfies the hypotheses of C13_fragment_*_partial: %s" % sym[0][0]))
        else:
            out.extend(classify_frag(old, f, acl, sym, r_reply))
    seen, res = set(), []
    for sig, what in out:
        if sig not in seen:
            seen.add(sig)
            res.append(dict(sig=sig, what=label + what))
    return res


def is_sub(r, d):
    """r is a part of d: objects keep a subset of keys (an array of d may appear as an object keyed by
    its indices, which is how apply_acl_filters renders selected elements), everything else is equal"""
    if isinstance(r, dict):
        if isinstance(d, dict):
            return all(k in d and is_sub(v, d[k]) for k, v in r.items())
        if isinstance(d, list):
            idx = {str(i): x for i, x in enumerate(d)}
            return all(k in idx and is_sub(v, idx[k]) for k, v in r.items())
        return False
    return strict_eq(r, d)


def filter_symptom(d, reply):
    if "err" in reply:
        return "raises-" + reply["err"]
    if not is_sub(dec(reply["ok"]), d):
        return "not-subdocument"
    return None


def _overlap_into_nonobject(d, F):
    """an earlier filter copied a value and a later one selects something below it through a non-object"""
    seen = []
    for ps in F:
        for q in sel(ps, d):
            for q0 in seen:
                if len(q0) < len(q) and q[:len(q0)] == q0 and any(
                        not isinstance(_get(d, q[:j]), dict) for j in range(len(q0), len(q))):
                    return q0, q
            seen.append(q)
    return None


def oracle_filter(d, F, reply):
    from annet.annlib import jsontools
    texts = [x.strip() for x in F if x.strip()]
    aps = [parse_pat(p) for p in texts]
    if any(ps is None for ps in aps) or not isinstance(d, dict):
        return []
    s = filter_symptom(d, reply)
    if s is None:
        return []
    out = []
    hits = string_descents(aps, [d])
    if hits:      # regression test for 33969c0, as in oracle_frag
        d2, = neutralise([d], hits)
        r2 = _call(lambda: jsontools.apply_acl_filters(copy.deepcopy(d2), list(F)))
        s2 = filter_symptom(d2, r2)
        if s2 != s and _resolver_descends(texts, [d]):
            out.append(dict(sig="filter.pattern-descends-into-string",
                            what="REGRESSION of the repair 33969c0: a filter continues below a string value (%s) and "
                                 "_resolve_json_pointers treats its characters as children: %s"
                                 % (sorted("/".join(h) for h in hits)[:3], s)))
            if s2 is None:
                return out
            d, s = d2, s2
    if filter_in_theorem_domain(d, texts):
        out.append(dict(sig="filter.inside-theorem-domain." + s,
                        what="law broken on an input that satisfies the hypotheses of C13_filters_subdocument_partial: %s" % s))
        return out
    ov = _overlap_into_nonobject(d, aps)
    if s == "raises-TypeError" and ov:
        out.append(dict(sig="filter.overlap-below-array-TypeError",
                        what="filter selects /%s below an array after an earlier filter copied /%s: TypeError" % ("/".join(ov[1]), "/".join(ov[0]))))
    else:
        out.append(dict(sig="filter." + s, what="apply_acl_filters: %s" % s))
    return out


def oracle_resolve(d, pattern, reply):
    """C13_resolve_sound_complete on the real resolver: exactly the selected pointers, in document order"""
    ps = parse_pat(pattern)
    if ps is None:
        return []          # not a pointer with at least one part (model tie only)
    if "err" in reply:
        return [dict(sig="resolve.raises-" + reply["err"], what="_resolve_json_pointers(%r) raised" % pattern)]
    want = [list(q) for q in sel(ps, d)]
    got = reply["ok"]
    if got == want:
        return []
    through = [q for q in got if any(isinstance(_get(d, tuple(q[:j])), str) for j in range(len(q)))]
    if through:
        return [dict(sig="resolve.pattern-descends-into-string",
                     what="REGRESSION of the repair 33969c0: _resolve_json_pointers(%r) returns /%s, a pointer through a "
                          "string value (its characters are treated as children)" % (pattern, "/".join(through[0])))]
    return [dict(sig="resolve.differs",
                 what="_resolve_json_pointers(%r) returns %d pointers, the document has %d selected ones (first difference: %s)"
                      % (pattern, len(got), len(want), next((g for g in got if g not in want), None) or
                         next((w for w in want if w not in got), None) or "order"))]


def _lib_roundtrip(old, new):
    """jsonpatch's own make_patch -> apply, without annet in between"""
    import jsonpatch
    try:
        p = jsonpatch.make_patch(copy.deepcopy(old), copy.deepcopy(new))
    except Exception as e:
        return "make-raises-" + type(e).__name__, None
    try:
        out = p.apply(copy.deepcopy(old))
    except Exception as e:
        return "apply-raises-" + type(e).__name__, p.patch
    if strict_eq(out, new):
        return None, p.patch
    if out == new:
        return "bool-int-alias", p.patch
    return "differs", p.patch


def oracle_patch(case, res):
    if case["perturb"] != "none":
        return []
    old, new = dec(case["old"]), dec(case["new"])
    if not isinstance(old, dict) or not isinstance(new, dict):
        return []
    if isinstance(res["ops"], dict):
        sym = "make-raises-" + res["ops"]["err"]
    elif "err" in res["r"]:
        sym = "apply-raises-" + res["r"]["err"]
    else:
        out = dec(res["r"]["ok"])
        if strict_eq(out, new):
            return []
        sym = "bool-int-alias" if out == new else "differs"
    known = _lib_finding(old, new, sym)
    if known is not None:
        return known
    lib = _lib_roundtrip(old, new)[0]
    return [dict(sig="patch.roundtrip-" + sym,
                 what="apply_patch(old, make_patch(old, new)) != new (%s) although jsonpatch's own round trip gives %s" % (sym, lib or "new"))]


def _lib_finding(old, new, sym):
    """the recorded jsonpatch defects: the third-party library alone (make_patch -> apply, no annet in between)
    already breaks the round trip old -> new in the same way; None when it does not"""
    lib, lib_ops = _lib_roundtrip(old, new)
    if lib is None or lib != sym:
        return None
    ops = lib_ops or []
    if sym == "bool-int-alias":
        return [dict(sig="patch.jsonpatch-lib.bool-int-alias",
                     what="jsonpatch compares list items with ==, so true/1 (false/0) are 'unchanged' and the patch omits them")]
    if sym.startswith("make-raises"):
        return [dict(sig="patch.jsonpatch-lib.make-raises",
                     what="jsonpatch.make_patch itself raises %s on these documents (its undo bookkeeping compares "
                          "object keys with array indices)" % sym[12:])]
    if sym == "apply-raises-InvalidJsonPatch" and any(o["op"] == "replace" and o["path"].endswith("/-") for o in ops):
        return [dict(sig="patch.jsonpatch-lib.replace-dash-key",
                     what="jsonpatch refuses its own 'replace' of the object key '-'")]
    return [dict(sig="patch.jsonpatch-lib.wrong-patch",
                 what="jsonpatch.make_patch returns operations that do not reproduce the target when jsonpatch "
                      "applies them (%s; %d ops, %d moves)" % (sym, len(ops), sum(o["op"] == "move" for o in ops)))]


def chain_findings(old, gens, reply):
    """(sig, what) list for one new_json_fragment_files observation; old is a dict"""
    allacl = [p for _, a in gens for p in a]
    aps = [parse_pat(p) for p in allacl]
    if "err" in reply:
        docs = [old] + [f for f, _ in gens]
        # the document a generator is applied to is the result of the generators before it: the recorded array
        # mechanisms are looked for on those intermediate documents too
        from annet.annlib import jsontools
        cur = copy.deepcopy(old)
        for f, a in gens:
            step = _call(lambda: jsontools.apply_json_fragment(copy.deepcopy(cur), copy.deepcopy(f), list(a)))
            if "ok" not in step:
                break
            cur = dec(step["ok"])
            docs.append(copy.deepcopy(cur))
        if reply["err"] == "JsonPointerException" and any(
                _missing_below_array(x, f, a) for x in docs for f, a in gens):
            return [("frag.missing-parent-below-array", "missing object member below an array element")]
        if reply["err"] in ("IndexError", "JsonPointerException") and any(
                _array_grows(x, f, a) for x in docs for f, a in gens):
            return [("frag.array-grows", "fragment array longer than the device's array")]
        return [("chain.raises-" + reply["err"], "new_json_fragment_files raised")]
    r = dec(reply["ok"])
    out = []
    # the last generator's region equals its fragment; nothing outside all regions changed
    f, acl = gens[-1]
    for name, det in frag_symptoms(old, f, acl, reply, None):
        if name.startswith("inside"):
            out.extend(classify_frag(old, f, acl, [(name, det)], reply))
    o2 = []
    check_outside(aps, old, r, (), o2)
    out.extend(("chain." + n, "%s at /%s" % (n, "/".join(q))) for n, q in o2)
    return out


def oracle_chain(old, gens, reply):
    real_old = old
    old = {} if old is None else old
    allacl = [p for _, a in gens for p in a]
    aps = [parse_pat(p) for p in allacl]
    if any(ps is None for ps in aps) or any(not obj_consistent(old, f) for f, _ in gens) or any(
            not obj_consistent(f, g) for f, _ in gens for g, _ in gens):
        return []
    out = chain_findings(old, gens, reply)
    if not out:
        return []
    docs = [old] + [f for f, _ in gens]
    hits = string_descents(aps, docs)
    if hits:      # regression test for 33969c0, as in oracle_frag
        docs2 = neutralise(docs, hits)
        gens2 = [(f2, a) for f2, (_, a) in zip(docs2[1:], gens)]
        reply2 = _real_chain(None if real_old is None else docs2[0], gens2)
        out2 = chain_findings(docs2[0], gens2, reply2)
        if out2 != out and _resolver_descends(allacl, docs):
            out = [("frag.pattern-descends-into-string",
                    "REGRESSION of the repair 33969c0: a pattern continues below a string value (%s) and "
                    "_resolve_json_pointers treats its characters as children (%s)"
                    % (sorted("/".join(h) for h in hits)[:3], ", ".join(x[0] for x in out)))] + out2
    seen, res_ = set(), []
    for sig, what in out:
        if sig not in seen:
            seen.add(sig)
            res_.append(dict(sig=sig, what="chain: " + what))
    return res_


# ------------------------------------------------------------------ oracle of the glue kinds
GLUE_LABEL = "new_json_fragment_files, "


def _first_diff(a, b, q=()):
    """pointer of the first place where two JSON values differ"""
    if type(a) is type(b) and isinstance(a, dict):
        for k in list(a) + [k for k in b if k not in a]:
            if k not in a or k not in b:
                return "/" + "/".join(q + (k,))
            d = _first_diff(a[k], b[k], q + (k,))
            if d is not None:
                return d
        return None
    if type(a) is type(b) and isinstance(a, list):
        for i in range(max(len(a), len(b))):
            if i >= len(a) or i >= len(b):
                return "/" + "/".join(q + (str(i),))
            d = _first_diff(a[i], b[i], q + (str(i),))
            if d is not None:
                return d
        return None
    return None if strict_eq(a, b) else "/" + "/".join(q)


def _view_docs(reply):
    return [None if x is None else dec(x) for x in reply["ok"]]


def _reply_eq(a, b):
    if "err" in a or "err" in b:
        return a.get("err") == b.get("err")
    return strict_eq(_view_docs(a), _view_docs(b))


def _reply_diff(a, b):
    if "err" in a or "err" in b:
        return "%s instead of %s" % (a.get("err", "a document"), b.get("err", "a document"))
    for j, (x, y) in enumerate(zip(_view_docs(a), _view_docs(b))):
        d = _first_diff(x, y)
        if d is not None:
            return "file %d differs at %s" % (j, d)
    return "?"


def _step_findings(prev, f, acl, reply, label):
    """the laws of one merge (inside / outside the pointers) between two consecutive documents of the fold.  A broken
    law that the merge ALONE (apply_json_fragment on copies of the same three arguments) breaks with the same
    signature is the merge's defect and keeps the signature of the fragment stream; otherwise it is the glue's"""
    found = oracle_frag(prev, f, acl, reply, None, label)
    if not found:
        return []
    alone = {v["sig"] for v in oracle_frag(prev, f, acl, _real_fragment(prev, f, acl)[0], None)}
    return [v if v["sig"] in alone else
            dict(sig="glue.chain.step-law." + v["sig"].split(".", 1)[1], what=v["what"] + " (apply_json_fragment alone keeps the law)")
            for v in found]


def oracle_views(case, res):
    out = []
    seq = case["seq"]
    # (a) the generators' own fragments, their pointer lists and the device's files are only read: gen.py hands the
    #     same objects to the next computation and stores them in the OldNewResult (json_fragment_results, the old
    #     documents the patch is built from)
    for what_, sig, text in (("fragment:", "glue.chain.fragment-mutated", "the fragment (GeneratorJSONFragmentResult.config) of generator"),
                             ("old:", "glue.chain.old-file-mutated", "the old document of file"),
                             ("acl:", "glue.chain.acl-mutated", "the pointer lists of generator")):
        for c, m in enumerate(res["mutated"]):
            hit = [x.split(":", 1)[1] for x in m if x.startswith(what_)]
            if hit:
                out.append(dict(sig=sig, what=GLUE_LABEL + "computation %d (safe=%s) of %s changed %s %s"
                                % (c + 1, seq[c] == "T", seq, text, ", ".join(hit))))
                break
    # (b)-(d) on the property's domain: documents of one schema, well-formed pointers
    pats = [p for g in case["gens"] for p in g["acl"] + g["safe"]]
    if any(parse_pat(p) is None for p in pats):
        return out
    for j in range(len(case["files"])):
        docs = [dec(case["files"][j]) or {}] + [dec(case["gens"][i]["f"]) for i in _gens_of_file(case, j)]
        if any(not isinstance(d, dict) for d in docs) or any(not obj_consistent(a, b) for a in docs for b in docs):
            return out
    for flag in _view_flags(case):
        name = _flagname(flag)
        # (b) every merge of the fold keeps the laws: inside the generator's pointers the document equals its
        #     fragment, outside it equals the document before
        for j, reps in enumerate(res["steps"][name]):
            prev = dec(case["files"][j]) or {}
            for i, rep in zip(_gens_of_file(case, j), reps):
                g = case["gens"][i]
                out.extend(_step_findings(prev, dec(g["f"]), g["safe" if flag == "T" else "acl"], rep,
                                          GLUE_LABEL + "%s view, merge of generator g%d: " % (name, i)))
                if "err" in rep:
                    break
                prev = dec(rep["ok"])
        # (c) a view is that fold for every file
        want = _combine_steps(case, res["steps"][name])
        if not _reply_eq(res["fresh"][name], want):
            out.append(dict(sig="glue.chain.view-not-fold",
                            what=GLUE_LABEL + "%s view over %d files is not the fold of the generators of each file: %s"
                                 % (name, len(case["files"]), _reply_diff(res["fresh"][name], want))))
    # (d) a view is a function of the old files and the generators' results: the same RunGeneratorResult gives it
    #     whatever it computed before
    first = {}
    for c, flag in enumerate(seq):
        name = _flagname(flag)
        if not _reply_eq(res["views"][c], res["fresh"][name]):
            out.append(dict(sig="glue.chain.view-depends-on-history",
                            what=GLUE_LABEL + "computation %d (safe=%s) of %s on one RunGeneratorResult is not the %s view "
                                 "a fresh RunGeneratorResult gives: %s"
                                 % (c + 1, flag == "T", seq, name, _reply_diff(res["views"][c], res["fresh"][name]))))
            break
    for c, flag in enumerate(seq):
        if flag in first and not _reply_eq(res["views"][c], res["views"][first[flag]]):
            out.append(dict(sig="glue.chain.recomputation-differs",
                            what=GLUE_LABEL + "computations %d and %d (safe=%s) of %s give different documents: %s"
                                 % (first[flag] + 1, c + 1, flag == "T", seq, _reply_diff(res["views"][c], res["views"][first[flag]]))))
            break
        first.setdefault(flag, c)
    seen, uniq = set(), []
    for v in out:
        if v["sig"] not in seen:
            seen.add(v["sig"])
            uniq.append(v)
    return uniq


def oracle_callers(case, res):
    """apply_patch(what the device has, what the caller uploads) == the new document, for every file"""
    out = []
    olds = [dec(f["old"]) for f in case["files"]]
    targets = [dec(f["safe" if case["acl_safe"] else "new"]) for f in case["files"]]
    if res.get("mutated"):
        out.append(dict(sig="callers.input-mutated", what="parse_result / _patch_worker changed the old document of file(s) %s" % res["mutated"]))
    if any(not isinstance(t, dict) for t in targets) or any(o is not None and not isinstance(o, dict) for o in olds):
        return out
    for who, fn in (("deploy", "PCDeployerJob.parse_result"), ("patch", "api._patch_worker")):
        r = res[who]
        if "err" in r:
            known = None
            for o, t in zip(olds, targets):
                known = known or _lib_finding(o, t, "make-raises-" + r["err"])
            out.extend(known or [dict(sig="callers.%s.raises" % who, what="%s raised %s" % (fn, r["err"]))])
            continue
        for i, (row, o, t) in enumerate(zip(r["files"], olds, targets)):
            where = "missing-file" if o is None else "existing-file"
            state = "is not on the device (old document None)" if o is None else "exists on the device"
            if not row["up"]:
                if o is not None and strict_eq(o, t):
                    continue          # the device already has the new document
                out.append(dict(sig="callers.%s.%s.not-uploaded" % (who, where),
                                what="%s uploads nothing for file %d, which %s and whose new document differs from it"
                                     % (fn, i, state)))
                continue
            if isinstance(row["ops"], dict):
                sym = "uploaded-text-is-not-a-patch"
            elif "err" in row["r"]:
                sym = "apply-raises-" + row["r"]["err"]
            else:
                got = dec(row["r"]["ok"])
                if strict_eq(got, t):
                    continue
                sym = "bool-int-alias" if got == t else "differs"
            known = _lib_finding(o, t, sym)
            out.extend(known or [dict(sig="callers.%s.%s" % (who, where),
                                      what="%s: file %d %s; apply_patch(%s, uploaded patch) != new document (%s); uploaded %d operation(s)%s"
                                           % (fn, i, state, "None" if o is None else "dumps(old)", sym,
                                              len(row["ops"]) if isinstance(row["ops"], list) else 0,
                                              ", first: %s %r" % (row["ops"][0]["op"], row["ops"][0]["path"])
                                              if isinstance(row["ops"], list) and row["ops"] else ""))])
    seen, uniq = set(), []
    for v in out:
        if v["sig"] not in seen:
            seen.add(v["sig"])
            uniq.append(v)
    return uniq


def oracle(case, res):
    k = case["k"]
    if k == "views":
        return oracle_views(case, res)
    if k == "callers":
        return oracle_callers(case, res)
    if k == "frag":
        out = oracle_frag(dec(case["old"]), dec(case["f"]), case["acl"], res["r"], res["again"])
        if res.get("mutated"):
            out = list(out) + [dict(sig="frag.input-mutated", what="apply_json_fragment changed its argument(s) %s: the patch the "
                                    "callers build afterwards from the same old document no longer reproduces the target"
                                    % ", ".join(res["mutated"]))]
        return out
    if k == "chain":
        if res["r"].get("err") == "InputMutated":
            return [dict(sig="frag.input-mutated", what="chain: new_json_fragment_files changed the old file it was given")]
        return oracle_chain(dec(case["old"]), [(dec(g["f"]), g["acl"]) for g in case["gens"]], res["r"])
    if k == "patch":
        return oracle_patch(case, res)
    if k == "filter":
        return oracle_filter(dec(case["d"]), case["F"], res["r"])
    if k == "resolve":
        return oracle_resolve(dec(case["d"]), case["pattern"], res["r"])
    return []


# ------------------------------------------------------------------ evidence helpers
def nontrivial(case, res):
    k = case["k"]
    if k == "frag":
        return "ok" in res["r"] and res["r"]["ok"] != case["old"]
    if k == "chain":
        return "ok" in res["r"] and res["r"]["ok"] != case["old"]
    if k == "views":
        # some view really differs from the old files, and a later generator worked inside an earlier one's part
        return any("ok" in v and v["ok"] != case["files"] for v in res["views"]) and _views_overlap(case) != "disjoint"
    if k == "callers":
        return any(row["up"] and isinstance(row["ops"], list) and len(row["ops"]) >= 1
                   for who in ("deploy", "patch") for row in res[who].get("files", []))
    if k == "patch":
        return isinstance(res["ops"], list) and len(res["ops"]) >= 2
    if k == "filter":
        return "ok" in res["r"] and res["r"]["ok"] != {"o": []}
    if k == "resolve":
        return "ok" in res["r"] and len(res["r"]["ok"]) >= 1
    if k == "fnmatch":
        return any(c in case["pat"] for c in "*?[")
    if k == "pointer":
        return "ok" in res["r"] and len(res["r"]["ok"]) >= 1
    return False


def _depth(t):
    if isinstance(t, dict):
        if "o" in t:
            return 1 + max([_depth(v) for _, v in t["o"]], default=0)
        return 1 + max([_depth(v) for v in t["a"]], default=0)
    return 0


def _views_overlap(case):
    """how the parts of the generators of one file lie to each other, read from the fragments: `nested` = a later
    generator selects strictly inside an object an earlier one installs (the earlier fragment's sub-object is then
    part of the document the later merge works on), `same-or-around` = it selects that part itself or an ancestor"""
    best = "disjoint"
    for j in range(len(case["files"])):
        idx = _gens_of_file(case, j)
        for a in range(len(idx)):
            fa = dec(case["gens"][idx[a]]["f"])
            qa = {q: v for p in case["gens"][idx[a]]["acl"] for ps in [parse_pat(p)] if ps for q, v in sel(ps, fa).items()}
            for b in range(a + 1, len(idx)):
                gb = case["gens"][idx[b]]
                for p in gb["acl"]:
                    ps = parse_pat(p)
                    if not ps:
                        continue
                    for q, v in qa.items():
                        if len(ps) > len(q) and isinstance(v, dict) and all(_fnmatch.fnmatchcase(q[i], ps[i]) for i in range(len(q))):
                            return "nested"
                        if len(ps) <= len(q) and all(_fnmatch.fnmatchcase(q[i], ps[i]) for i in range(len(ps))):
                            best = "same-or-around"
    return best


def stats(case, res):
    k = case["k"]
    lab = ["kind=" + k]
    if k == "views":
        lab.append("views.seq=" + case["seq"])
        lab.append("views.generators=%d" % len(case["gens"]))
        lab.append("views.files=%d" % len(case["files"]))
        lab.append("views.overlap=" + _views_overlap(case))
        lab.extend("views.old-file-missing" for x in case["files"] if x is None)
        lab.extend("views.computation.%s=%s" % (_flagname(c), "ok" if "ok" in v else v["err"]) for c, v in zip(case["seq"], res["views"]))
        lab.extend("views.merge-step-checked" for per_file in res["steps"].values() for reps in per_file for _ in reps)
        lab.extend("views.recomputation-compared" for c in range(len(case["seq"])) if case["seq"][c] in case["seq"][:c])
        if "full" in res["fresh"] and "safe" in res["fresh"] and res["fresh"]["full"] != res["fresh"]["safe"]:
            lab.append("views.safe-view-differs-from-full")
        return lab
    if k == "callers":
        lab.append("callers.files=%d" % len(case["files"]))
        lab.append("callers.acl_safe=%s" % case["acl_safe"])
        lab.append("callers.entire_reload=" + case["reload"])
        for who in ("deploy", "patch"):
            r = res[who]
            if "err" in r:
                lab.append("callers.%s.raises=%s" % (who, r["err"]))
                continue
            for f, row in zip(case["files"], r["files"]):
                where = "missing-file" if f["old"] is None else "existing-file"
                if not row["up"]:
                    lab.append("callers.%s.%s.not-uploaded" % (who, where))
                elif isinstance(row["ops"], list):
                    lab.append("callers.%s.%s.patch-applied=%s" % (who, where, "ok" if "ok" in row["r"] else row["r"]["err"]))
                    lab.append("callers.%s.ops=%d" % (who, min(len(row["ops"]), 12)))
        return lab
    if k in ("frag", "chain", "filter", "resolve"):
        r = res["r"]
        lab.append("%s.result=%s" % (k, "ok" if "ok" in r else r["err"]))
    if k == "frag":
        lab.append("frag.acl=%d" % len(case["acl"]))
        lab.append("frag.depth=%d" % _depth(case["old"]))
        txt = " ".join(case["acl"])
        for c, name in (("*", "star"), ("?", "qmark"), ("[", "class"), ("~", "escape")):
            if c in txt:
                lab.append("frag.glob-" + name)
        if '"a"' in json.dumps(case["f"]) and any(x in txt for x in ("/0", "/1", "/*", "/?")):
            lab.append("frag.maybe-array-pattern")
        if "ok" in res["r"]:
            lab.append("frag.changed" if res["r"]["ok"] != case["old"] else "frag.unchanged")
        if frag_in_theorem_domain(dec(case["old"]), dec(case["f"]), case["acl"]):
            lab.append("frag.theorem-hypotheses-hold")
        if string_descents([ps for ps in map(parse_pat, case["acl"]) if ps], [dec(case["old"]), dec(case["f"])]):
            lab.append("frag.string-below-pattern")
    if k == "filter":
        texts = [x.strip() for x in case["F"] if x.strip()]
        if filter_in_theorem_domain(dec(case["d"]), texts):
            lab.append("filter.theorem-hypotheses-hold")
        if string_descents([ps for ps in map(parse_pat, texts) if ps], [dec(case["d"])]):
            lab.append("filter.string-below-pattern")
    if k == "resolve":
        ps = parse_pat(case["pattern"])
        if ps and string_descents([ps], [dec(case["d"])]):
            lab.append("resolve.string-below-pattern")
    if k == "patch":
        lab.append("patch.perturb=" + case["perturb"])
        if isinstance(res["ops"], list):
            lab.append("patch.ops=%d" % min(len(res["ops"]), 12))
            for o in res["ops"]:
                lab.append("patch.op-" + o["op"])
            lab.append("patch.result=%s" % ("ok" if "ok" in res["r"] else res["r"]["err"]))
        else:
            lab.append("patch.make-raises=" + res["ops"]["err"])
    if k == "fnmatch":
        lab.append("fnmatch=%s" % res["r"])
    if k == "pointer":
        lab.append("pointer=%s" % ("ok" if "ok" in res["r"] else res["r"]["err"]))
    return lab


# ------------------------------------------------------------------ shrinking / search
def _shrink_doc(t):
    """smaller variants of a tagged document"""
    if isinstance(t, dict) and "o" in t:
        items = t["o"]
        for i in range(len(items)):
            yield {"o": items[:i] + items[i + 1:]}
        for i, (k, v) in enumerate(items):
            for v2 in _shrink_doc(v):
                yield {"o": items[:i] + [[k, v2]] + items[i + 1:]}
    elif isinstance(t, dict) and "a" in t:
        items = t["a"]
        for i in range(len(items)):
            yield {"a": items[:i] + items[i + 1:]}
        for i, v in enumerate(items):
            for v2 in _shrink_doc(v):
                yield {"a": items[:i] + [v2] + items[i + 1:]}


def shrink_candidates(case):
    k = case["k"]
    if k == "frag":
        for i in range(len(case["acl"])):
            if len(case["acl"]) > 1:
                yield dict(case, acl=case["acl"][:i] + case["acl"][i + 1:])
        for name in ("old", "f"):
            for d2 in _shrink_doc(case[name]):
                yield dict(case, **{name: d2})
    elif k == "patch":
        for name in ("old", "new"):
            for d2 in _shrink_doc(case[name]):
                yield dict(case, **{name: d2})
    elif k == "filter":
        for i in range(len(case["F"])):
            yield dict(case, F=case["F"][:i] + case["F"][i + 1:])
        for d2 in _shrink_doc(case["d"]):
            yield dict(case, d=d2)
    elif k == "chain":
        if len(case["gens"]) > 1:
            for i in range(len(case["gens"])):
                yield dict(case, gens=case["gens"][:i] + case["gens"][i + 1:])
        if case["old"] is not None:
            for d2 in _shrink_doc(case["old"]):
                yield dict(case, old=d2)
    elif k == "views":
        gens, files, seq = case["gens"], case["files"], case["seq"]
        if len(files) > 1:
            for j in range(len(files)):      # keep one file and its generators
                keep = [dict(g, file=0) for g in gens if g["file"] == j]
                if keep:
                    yield dict(case, files=[files[j]], gens=keep)
        if len(gens) > 1:
            for i in range(len(gens)):
                yield dict(case, gens=gens[:i] + gens[i + 1:])
        for c in range(len(seq)):
            if len(seq) > 1:
                yield dict(case, seq=seq[:c] + seq[c + 1:])
        for j in range(len(files)):
            if files[j] is not None:
                yield dict(case, files=files[:j] + [None] + files[j + 1:])
                for d2 in _shrink_doc(files[j]):
                    yield dict(case, files=files[:j] + [d2] + files[j + 1:])
        for i, g in enumerate(gens):
            for name in ("acl", "safe"):
                for n in range(len(g[name])):
                    yield dict(case, gens=gens[:i] + [dict(g, **{name: g[name][:n] + g[name][n + 1:]})] + gens[i + 1:])
            for d2 in _shrink_doc(g["f"]):
                yield dict(case, gens=gens[:i] + [dict(g, f=d2)] + gens[i + 1:])
    elif k == "callers":
        files = case["files"]
        if len(files) > 1:
            for i in range(len(files)):
                yield dict(case, files=files[:i] + files[i + 1:])
        if case["reload"] != "yes":
            yield dict(case, reload="yes")
        if case["acl_safe"]:
            yield dict(case, acl_safe=False, files=[dict(f, new=f["safe"]) for f in files])
        for i, f in enumerate(files):
            for name in ("old", "new", "safe"):
                if f[name] is None:
                    continue
                if name != ("safe" if case["acl_safe"] else "new") and name != "old" and f[name] != {"o": []}:
                    yield dict(case, files=files[:i] + [dict(f, **{name: {"o": []}})] + files[i + 1:])
                for d2 in _shrink_doc(f[name]):
                    yield dict(case, files=files[:i] + [dict(f, **{name: d2})] + files[i + 1:])


def search(case):
    """neighbours of a case on which model and code disagreed: same shape, fresh values"""
    rng = random.Random(json.dumps(case, sort_keys=True))
    k = case["k"]
    for _ in range(300):
        if k in ("frag", "resolve", "fnmatch", "pointer"):
            yield gen_frag_case(rng)
        elif k == "chain":
            yield gen_chain_case(rng)
        elif k == "views":
            yield gen_views_case(rng)
        elif k == "callers":
            yield gen_callers_case(rng)
        elif k == "patch":
            yield gen_patch_case(rng)
        else:
            yield gen_filter_case(rng)
